"""C07, the schema rows that are not ordinary tables: CREATE INDEX / VIEW / TRIGGER / VIRTUAL TABLE texts as SQLite
stores them, through the real constructors (Database on the file, and directly over a stub version interface) and
through the Lean model (ddl.schema / ddl.row); the implementation against sqlite_master (never rejected, same
type / name / tbl_name / rootpage / sql).  Called from c07.py."""
import os
import sqlite3

from sqlite_dissect import constants as K
from sqlite_dissect.file.database.database import Database
from sqlite_dissect.file.database.page import TableLeafCell
from sqlite_dissect.file.schema.master import (IndexRow, OrdinaryTableRow, TriggerRow, ViewRow, VirtualTableRow)

from ..gen import sqlite_factory as F
from ..impl.canon import classify, guarded, hx
from ..leanio import driver
from . import dbcommon as C

LEAN_MODULES = ["SqliteDissect.Properties.C07Rows"]
RULE = ("CREATE INDEX (plain, UNIQUE, partial WHERE, expression, COLLATE, ASC/DESC, IF NOT EXISTS / schema prefix as SQLite "
        "normalises them, index and table names in all four quoting styles), CREATE VIEW, CREATE TRIGGER (BEFORE / AFTER / "
        "INSTEAD OF, multi-statement bodies, CASE..END, comments, ';' and END inside strings and comments) and CREATE VIRTUAL "
        "TABLE (fts3/4/5, rtree, dbstat; module arguments with quotes, commas, parentheses) statements with whitespace and "
        "comments in every gap are executed by SQLite 3.40.1 together with tables that produce sqlite_autoindex_*, "
        "sqlite_sequence and sqlite_stat1 rows; each file is read by the real Database and its master_schema_entries "
        "are compared with the model (ddl.schema: class chosen per row, index linked to its table, flags, module name, "
        "comments) and with SELECT * FROM sqlite_master (oracle); every non-table row also goes through the real "
        "IndexRow / ViewRow / TriggerRow / VirtualTableRow constructor over a stub version interface and through ddl.row, "
        "as stored and mutated; a rejected or misreported database is reduced to the statements and statement parts needed")
ASSUMPTION = ("indexed-column lists, WHERE expressions, view SELECTs, trigger bodies and virtual-table module arguments are "
              "not parsed by the code (its IndexRow / VirtualTableRow only find the end of the parenthesised section; "
              "ViewRow / TriggerRow keep the text): nothing about their meaning is claimed beyond the sql column being "
              "reported unchanged")


# ====================================================================== implementation side
class _V:
    version_number = 0
    database_text_encoding = "utf-8"

    def get_page_version(self, n):
        return 0


class _P:
    md5_hex_digest = "p"


class _Col:
    def __init__(self, v):
        self.value = v


class _T:
    pass


CLASSES = {"index": IndexRow, "view": ViewRow, "trigger": TriggerRow, "virtual": VirtualTableRow}


def _c07():
    from . import c07
    return c07


def make_row(cls, ty, name, tbl, root, sql, tables=None):
    """the real row class over a schema record (type, name, tbl_name, rootpage, sql); tables: [(name, '0'|'1'|'v')]"""
    cell = TableLeafCell.__new__(TableLeafCell)
    cell.row_id = 1
    cell.md5_hex_digest = "c"
    cell.payload = _P()
    cols = dict(enumerate([_Col(ty.encode("utf-8")), _Col(name.encode("utf-8")), _Col(tbl.encode("utf-8")), _Col(root),
                           _Col(None if sql is None else sql.encode("utf-8"))]))
    if cls == "index":
        d = {}
        for n, f in tables or []:
            t = _T()
            if f != "v":
                t.without_row_id = f == "1"
            d[n] = t
        return IndexRow(_V(), 1, cell, cols, d)
    if cls == "view":
        return ViewRow(_V(), 1, cell, cols, {})
    if cls == "trigger":
        return TriggerRow(_V(), 1, cell, cols, {}, {})
    return VirtualTableRow(_V(), 1, cell, cols)


def show_comments(cs):
    return "[" + ",".join(hx(c.encode("utf-8")) for c in cs) + "]"


def show_entry(e):
    root = e.root_page_number
    sroot = "null" if root is None else (str(root) if isinstance(root, int) else repr(root))
    sql = "null" if e.sql is None else hx(e.sql.encode("utf-8"))
    head = (f"type={hx(e.row_type.encode('utf-8'))} name={hx(e.name.encode('utf-8'))} tbl={hx(e.table_name.encode('utf-8'))} "
            f"root={sroot} sql={sql} cmt={int(bool(e.sql_has_comments))} ")
    if isinstance(e, OrdinaryTableRow):
        return head + "ordinary " + _c07().show_row(e)[3:]
    if isinstance(e, VirtualTableRow):
        return head + f"virtual module={hx(e.module_name.encode('utf-8'))} comments={show_comments(e.comments)} args={len(e.module_arguments)}"
    if isinstance(e, IndexRow):
        return head + (f"index internal={int(e.internal_schema_object)} unique={int(e.unique)} partial={int(e.partial_index)} "
                       f"comments={show_comments(e.comments)}")
    if isinstance(e, ViewRow):
        return head + "view"
    if isinstance(e, TriggerRow):
        return head + "trigger"
    return head + "other:" + type(e).__name__


def tok_text(s):
    return hx(s.encode("utf-8"))


def tok_sql(s):
    return "null" if s is None else hx(s.encode("utf-8"))


def tok_root(r):
    return "null" if r is None else str(r)


def op_row(cls, ty, name, tbl, root, sql, tables=None):
    line = f"ddl.row {cls} {tok_text(ty)} {tok_text(name)} {tok_text(tbl)} {tok_root(root)} {tok_sql(sql)}"
    if cls == "index":
        line += " " + (",".join(f"{tok_text(n)}:{f}" for n, f in tables) if tables else "-")
    return line


def impl_row(cls, ty, name, tbl, root, sql, tables=None):
    return guarded(lambda: "ok " + show_entry(make_row(cls, ty, name, tbl, root, sql, tables)))


def op_schema(rows):
    """rows: (type, name, tbl_name, rootpage, sql) in the order the implementation collects them"""
    if not rows:
        return "ddl.schema -"
    return "ddl.schema " + ",".join(":".join([tok_text(t), tok_text(n), tok_text(tb), tok_root(r), tok_sql(s)])
                                    for (t, n, tb, r, s) in rows)


def in_model(*texts):
    cf = _c07().CASEFOLD
    return not any(ord(c) in cf for t in texts if t for c in t)


def check_constants(ctx):
    want = ["table", "index", "view", "trigger", K.CREATE_INDEX_CLAUSE, K.CREATE_UNIQUE_INDEX_CLAUSE, K.CREATE_VIRTUAL_TABLE_CLAUSE,
            K.INDEX_ON_COMMAND, K.INDEX_WHERE_CLAUSE, K.VIRTUAL_TABLE_USING_CLAUSE, K.INTERNAL_SCHEMA_OBJECT_PREFIX,
            K.INTERNAL_SCHEMA_OBJECT_INDEX_PREFIX]
    rt = K.MASTER_SCHEMA_ROW_TYPE
    if [rt.TABLE, rt.INDEX, rt.VIEW, rt.TRIGGER] != want[:4]:
        ctx.disagreements.append({"label": "ddl.rowconsts", "op": "row types", "impl": str(list(rt)), "model": str(want[:4])})
    got = driver.ask1("ddl.rowconsts")
    ctx.evals += 1
    exp = " ".join(tok_text(w) for w in want)
    if got != exp:
        ctx.disagreements.append({"label": "ddl.rowconsts", "op": "clauses", "impl": exp, "model": got})
    ctx.branch("rowconsts")


# ====================================================================== statements
def seg(text, default=None, tag=None, always=()):
    return {"t": text, "d": text if default is None else default, "tag": tag, "always": list(always)}


def render(st):
    return "".join(s["t"] for s in st["segs"])


def tags_of(st):
    out = set()
    for s in st["segs"]:
        if s["tag"] and s["t"] != s["d"]:
            out.add(s["tag"])
        out.update(s["always"])
    return out


WS = [" ", " ", " ", "\t", "\n", "  ", "\n    ", "\r\n", " \t ", "\x0c"]
CMT = ["/* c */", "/*c*/", "-- c\n", "--\n", "/**/", "/* ( ' */", "/*/ x */", "/* a\nb */", "-- ) ' \n"]


def gap(r, nasty, where, required=True, harmless_comment=False, default=None):
    """text between two tokens: whitespace, sometimes with a comment.  The tag names where the comment stands."""
    k = r.random()
    if default is None:
        default = " " if required else ""
    if k < nasty:
        c = r.choice(CMT)
        lead = r.choice(["", " ", "\n"]) if not required or r.random() < 0.6 else " "
        text = lead + c + r.choice(["", " ", "\n  "])
        return seg(text, default, None if harmless_comment else "cmt:" + where,
                   always=["cmt-ok:" + where] if harmless_comment else [])
    if k < nasty + 0.35:
        return seg(r.choice(WS), default)
    if not required and r.random() < 0.5:
        return seg("", default)
    return seg(" ", default)


QUOTE = {"dq": ('"', '"'), "sq": ("'", "'"), "bt": ("`", "`"), "br": ("[", "]")}
NAME_TEXTS = ["i", "t1", "Name", "a b", "a,b", "a(b", "a)b", "a.b", "é", "1a", "select", "on", "ON", "where", "using", "a;b", "x'y", 'x"y',
              "x`y", "x[y", "a/b", "a-b", "a--b", "a/*b", "end", "a\nb", "日本"]
NASTY_NAMES = [("a  b", "name:ws-run"), ("a\t\tb", "name:ws-run"), ("", "name:empty"), (" lead", None), ("trail ", None)]


def quote(text, style):
    if style == "plain":
        return text
    o, c = QUOTE[style]
    if style != "br":
        text = text.replace(c, c + c)
    return o + text + c


def fresh_name(r, used, nasty, prefix):
    """(name text, written form, default written form, tag)"""
    for _ in range(60):
        style = r.choice(["plain", "plain", "dq", "dq", "sq", "bt", "br"])
        tag = None
        if style == "plain":
            text = f"{prefix}{len(used)}" + r.choice(["", "_x", "X", "$", "é"])
        elif r.random() < nasty:
            text, tag = r.choice(NASTY_NAMES)
            if text and r.random() < 0.5:
                text = text + str(len(used))
        else:
            text = r.choice(NAME_TEXTS) + r.choice(["", "", str(len(used))])
        if style == "br" and "]" in text:
            continue
        if style == "sq" and text == "":
            continue
        key = text.lower()
        if key in used or key.startswith("sqlite_"):
            continue
        used.add(key)
        default = f"{prefix}{len(used)}d"
        used.add(default.lower())
        return text, quote(text, style), default, tag
    text = f"{prefix}{len(used)}z"
    used.add(text.lower())
    return text, text, text, None


def requote(r, text):
    """another spelling of an existing name"""
    plain_ok = text.isascii() and text.replace("_", "a").isalnum() and not text[0].isdigit() and \
        text.upper() not in ("SELECT", "ON", "WHERE", "USING", "END", "INDEX", "TABLE")
    styles = ["dq", "dq", "sq", "bt"] + (["br"] if "]" not in text else []) + (["plain", "plain", "plain"] if plain_ok else [])
    st = r.choice(styles)
    t = text
    if st == "plain" and r.random() < 0.3:
        t = text.swapcase()
    return quote(t, st)


INDEX_COLS = [("a", None), ("b", None), ("c", None), ('"a"', None), ("[b]", None), ("`c`", None), ("a COLLATE NOCASE", None),
              ("b DESC", None), ("c ASC", None), ("a COLLATE binary DESC", None), ("lower(b)", None), ("substr(b,1,2)", None),
              ("a+1", None), ("a-1", None), ("-a", None), ("a*2", None), ("a%2", None), ("b||')'", None), ("b || '('", None),
              ("coalesce(b,'x,y')", None), ("(a)", None), ("abs(a-c) DESC", None), ("b||'--'", None), ("b||'/'", None),
              ("b||'it''s'", None), ("CASE WHEN a THEN 1 ELSE 2 END", None), ("b->>'$.x'", None), ("a /* c */", None),
              ("a -- c\n", None), ("b COLLATE\tRTRIM", None), ("typeof(c)='text'", None), ("a IS NULL", None),
              ("a/2", "expr:slash"), ("(a+1)/c", "expr:slash"), ("b||'x' /c", "expr:slash")]
INDEX_WHERE = [("a > 1", None), ("b IS NOT NULL", None), ("b = ')'", None), ("c/2 > 1", None), ("a IN (1,2)", None),
               ("b = 'x--y'", None), ("b LIKE '%/*%'", None), ("a>0 AND (b<>'(' OR c)", None), ("/* c */ a", None),
               ("a -- c", None), ("a -- c\n", None), ("a /* c", None)]
INDEX_TRAIL = [("", None), ("", None), ("", None), (" ", None), (";", None), (" ; ", None), ("\n", None), (" /* c */", None),
               (" -- c\n", None), ("/**/", None), (" -- c", "trail:line-comment-unterminated"), ("--", "trail:line-comment-unterminated"),
               (" /* c", "trail:block-comment-unterminated"), (" /*", "trail:block-comment-unterminated")]


def pick(r, options, nasty):
    """(text, tag) with tagged options only at rate `nasty`"""
    clean = [o for o in options if o[1] is None]
    bad = [o for o in options if o[1] is not None]
    if bad and r.random() < nasty:
        return r.choice(bad)
    return r.choice(clean)


def gen_index(r, used, table, nasty):
    text, written, default, tag = fresh_name(r, used, nasty, "ix")
    segs = [seg("CREATE " + r.choice(["", "", "UNIQUE ", "unique  "]) + r.choice(["INDEX ", "index\t", "INDEX  "])
                + r.choice(["", "", "IF NOT EXISTS ", "if  not exists\n"]) + r.choice(["", "", "main.", "main . "]))]
    segs.append(seg(written, default, tag or "name"))
    plain = written == text
    segs.append(gap(r, nasty, "before-on", required=plain, default=" "))
    segs.append(seg(r.choice(["ON", "ON", "on", "On"]), "ON"))
    tw = requote(r, table)
    segs.append(gap(r, nasty, "after-on", required=not (tw[0] in "\"'`["), default=" "))
    segs.append(seg(tw, quote(table, "dq")))
    segs.append(gap(r, nasty * 2, "before-cols", required=False, harmless_comment=True))
    segs.append(seg("("))
    n = r.choice([1, 1, 2, 3])
    for k in range(n):
        t, tg = pick(r, INDEX_COLS, nasty)
        if k:
            segs.append(seg(r.choice([",", ", ", " ,\n  "]), ","))
        segs.append(seg(t, "a", tg))
    segs.append(seg(")"))
    if r.random() < 0.4:
        w, tg = pick(r, INDEX_WHERE, nasty)
        g = gap(r, nasty * 2, "before-where", required=False, harmless_comment=True)
        segs.append(seg(g["t"] + r.choice(["WHERE", "WHERE", "where", "Where"]) + r.choice([" ", "\n", "\t"]) + w, "", tg))
    else:
        t, tg = pick(r, INDEX_TRAIL, nasty)
        segs.append(seg(t, "", tg))
    return {"kind": "index", "segs": segs}


SELECTS = ["SELECT a FROM {t}", "SELECT a, b/2 AS h FROM {t} WHERE b <> ';' -- c", "SELECT * FROM {t} /* c */ WHERE a IN (SELECT a FROM {t})",
           "WITH q(x) AS (SELECT 1) SELECT x FROM q", "SELECT 'a''b' AS s, \"a\" FROM {t}", "SELECT 1 AS one UNION ALL SELECT 2",
           "SELECT a FROM {t} ORDER BY 1 DESC LIMIT 3", "SELECT CASE WHEN a THEN 'x' ELSE 'y' END AS k FROM {t}",
           "SELECT a AS \"x  y\", b AS [p q] FROM {t}\n  WHERE c = ')' -- (", "select\ta\nfrom\t{t}", "SELECT count(*) /* ; */ AS n FROM {t};",
           "SELECT a FROM {t} /* unterminated"]


def gen_view(r, used, table, nasty):
    text, written, default, tag = fresh_name(r, used, nasty, "vw")
    segs = [seg("CREATE " + r.choice(["VIEW ", "view  ", "VIEW\n"]) + r.choice(["", "", "IF NOT EXISTS ", "main."]))]
    segs.append(seg(written, default, tag if tag == "name:empty" else None))
    sel = r.choice(SELECTS).format(t=quote(table, "dq"))
    cols = ""
    if sel.startswith("SELECT a FROM") and r.random() < 0.3:
        cols = r.choice(["(x)", " (\"x y\")", "([x])"])
    g1 = gap(r, nasty * 3, "before-as", required=not cols and written == text, harmless_comment=True)
    g2 = gap(r, nasty * 3, "after-as", required=True, harmless_comment=True)
    segs.append(seg(cols + g1["t"] + r.choice(["AS", "as"]) + g2["t"] + sel))
    return {"kind": "view", "segs": segs}


TRIGGER_STMTS = ["SELECT 1;", "UPDATE {t} SET a = CASE WHEN a THEN 1 ELSE 2 END;", "DELETE FROM {t} WHERE b = ';';",
                 "INSERT INTO {t}(a) VALUES ({ref}.a);", "SELECT 'END';", "-- c ; END\n SELECT 2;", "/* END; */ SELECT 3;",
                 "SELECT CASE a WHEN 1 THEN 'one' END FROM {t};", "SELECT RAISE(IGNORE);", "UPDATE {t} SET b = 'x;y--z' WHERE a = {ref}.a;",
                 "SELECT {ref}.a / 2;", "INSERT INTO {t}(a, b) SELECT a, 'it''s; END' FROM {t} WHERE c IN (1, 2);",
                 "select\n\t1\n;"]


def gen_trigger(r, used, table, view, nasty):
    text, written, default, tag = fresh_name(r, used, nasty, "tr")
    segs = [seg("CREATE " + r.choice(["TRIGGER ", "trigger  "]) + r.choice(["", "", "IF NOT EXISTS ", "main."]))]
    segs.append(seg(written, default, tag if tag == "name:empty" else None))
    event = r.choice(["INSERT", "DELETE", "UPDATE", "UPDATE OF a, b"])
    ref = "old" if event == "DELETE" else "new"
    if view and r.random() < 0.3:
        timing, target = "INSTEAD OF", view
        if event.startswith("UPDATE OF"):
            event = "UPDATE"
    else:
        timing, target = r.choice(["", "BEFORE", "AFTER", "AFTER"]), table
    g = gap(r, nasty * 3, "after-name", required=True, harmless_comment=True)
    head = g["t"] + (timing + r.choice([" ", "\n", "  "]) if timing else "") + event + " ON " + requote(r, target)
    if r.random() < 0.4:
        head += r.choice([" ", "\n"]) + "FOR EACH ROW"
    if r.random() < 0.4:
        head += r.choice([" ", "\n"]) + r.choice(["WHEN 1", f"WHEN {ref}.a > 1", f"WHEN {ref}.b <> ';'", f"WHEN ({ref}.a/2) IS NOT NULL"])
    body = r.choice([" ", "\n", "\n  "]).join(s.format(t=quote(table, "dq"), ref=ref) for s in
                                              [r.choice(TRIGGER_STMTS) for _ in range(r.randint(1, 4))])
    segs.append(seg(head + r.choice([" ", "\n"]) + r.choice(["BEGIN", "begin"]) + r.choice([" ", "\n  "]) + body
                    + r.choice([" ", "\n"]) + r.choice(["END", "end", "END;", "END -- c", "END /* c"])))
    return {"kind": "trigger", "segs": segs}


MODULES = [("fts5", ["(x, y)", "(x, y, tokenize = 'porter ascii')", "(x, y, tokenize = \"unicode61 remove_diacritics 2\", prefix='2,3')",
                     "(x, content='', tokenize=\"unicode61 separators '(),'\")", "(x UNINDEXED, \"y z\", [w])", "( x /* c */, y -- d\n)",
                     "(\n  x,\n  y\n)", "(x, detail=none)", "(x, columnsize=0)"]),
           ("rtree", ["(id, minx, maxx)", "(id, minx, maxx, miny, maxy)", "(id, minx, maxx, +aux TEXT)", "( id,\tminx,\nmaxx )"]),
           ("rtree_i32", ["(id, minx, maxx)"]),
           ("fts4", ["(x, y)", "(x, notindexed=x, matchinfo=fts3)", "(x, tokenize=unicode61 \"separators=/\")", "(x, tokenize=porter)",
                     "(x, prefix=\"2,4\")", "()"]),
           ("fts3", ["(x)", "(x TEXT, y)", "()"]),
           ("dbstat", ["(main)"])]
NOARG_MODULES = ["dbstat", "fts3", "fts4"]


def gen_virtual(r, used, nasty):
    text, written, default, tag = fresh_name(r, used, nasty, "vt")
    segs = [seg("CREATE " + r.choice(["VIRTUAL TABLE ", "virtual  table\t"]) + r.choice(["", "", "IF NOT EXISTS ", "main."]))]
    segs.append(seg(written, default, tag or "name"))
    plain = written == text
    segs.append(gap(r, nasty * 3, "before-using", required=plain, harmless_comment=True, default=" "))
    segs.append(seg(r.choice(["USING", "USING", "using", "Using"]), "USING"))
    segs.append(gap(r, nasty * 3, "after-using", required=True, harmless_comment=True))
    if r.random() < nasty:
        m = r.choice(NOARG_MODULES)
        segs.append(seg(m, m + ("(main)" if m == "dbstat" else "(x)"), "virtual:no-args"))
        return {"kind": "virtual", "segs": segs}
    m, args = r.choice(MODULES)
    if r.random() < nasty and m in ("fts3", "fts4"):
        a, tg = "(a/b)", "expr:slash"
    else:
        a, tg = r.choice(args), None
    mw = r.choice([m, m, m, m.upper(), quote(m, "dq"), quote(m, "br")])
    segs.append(seg(mw, m))
    segs.append(gap(r, nasty * 3, "before-args", required=False, harmless_comment=True))
    segs.append(seg(a, "(x)" if m.startswith("fts") else args[0], tg))
    return {"kind": "virtual", "segs": segs}


TABLE_VARIANTS = ["({c} INT, a, b TEXT, c)", "(a INTEGER PRIMARY KEY, b, c, {c})", "(a PRIMARY KEY, b UNIQUE, c, {c})",
                  "(a INTEGER PRIMARY KEY AUTOINCREMENT, b, c)", "(a, b, c, PRIMARY KEY (a, b)) WITHOUT ROWID",
                  "(a, b, c, UNIQUE (b, c))", "(a TEXT PRIMARY KEY, b, c) WITHOUT ROWID", "(a, b, c)"]
TABLE_NAMES = ["t", "T1", "Name", "a b", "a,b", "a(b", "a)b", "a.b", "é", "1a", "select", "a;b", "x'y", 'x"y', "x`y", "x[y", "on"]


def gen_table(r, used):
    for _ in range(50):
        name = r.choice(TABLE_NAMES) + r.choice(["", str(len(used))])
        if name.lower() not in used:
            break
    used.add(name.lower())
    style = r.choice(["dq", "dq", "sq", "bt", "br"]) if not name.isalnum() or name.lower() in ("select", "on") or name[0].isdigit() \
        else r.choice(["plain", "plain", "dq", "br"])
    col = r.choice(["d", "\"d e\"", "[d]", "`d`"])
    body = r.choice(TABLE_VARIANTS).format(c=col)
    return name, {"kind": "table", "segs": [seg(f"CREATE TABLE {quote(name, style)} {body}")], "name": name}


# ====================================================================== evaluation
def build_db(path, stmts, enc="UTF-8", page_size=4096, analyze=False):
    for suffix in ("", "-journal", "-wal", "-shm"):
        if os.path.exists(path + suffix):
            os.unlink(path + suffix)
    con = sqlite3.connect(path, isolation_level=None)
    con.execute(f"PRAGMA encoding='{enc}'")
    con.execute(f"PRAGMA page_size={page_size}")
    con.execute("PRAGMA synchronous=OFF")
    done = []
    for s in stmts:
        try:
            con.execute(s)
            done.append(s)
        except (sqlite3.Error, sqlite3.Warning):
            pass
    if analyze:
        try:
            for (n,) in con.execute("SELECT name FROM sqlite_master WHERE type='table' AND sql LIKE 'CREATE TABLE%' AND name NOT LIKE 'sqlite_%'").fetchall()[:2]:
                con.execute(f"INSERT INTO {quote(n, 'dq')} (a, b, c) VALUES (1, 'x', 2)")
            con.execute("ANALYZE")
        except (sqlite3.Error, sqlite3.Warning):
            pass
    rows = [tuple(x) for x in con.execute("SELECT rowid, type, name, tbl_name, rootpage, sql FROM sqlite_master")]
    con.close()
    return done, rows


def read_db(path):
    """('ok', entries) | ('err <class>', None)"""
    try:
        db = Database(path)
    except RecursionError as e:
        return "err " + classify(e), None
    except Exception as e:  # noqa
        return "err " + classify(e), None
    ents = list(db.master_schema.master_schema_entries)
    try:
        db.file_handle.file_object.close()
    except Exception:  # noqa
        pass
    return "ok", ents


def entry_tuple(e):
    return (e.row_type, e.name, e.table_name, e.root_page_number, e.sql)


def judge(rows, status, ents):
    """(kind, what, impl, oracle) | None - the implementation against sqlite_master"""
    if ents is None:
        return ("rows-rejected", f"a database written by SQLite is rejected because of a schema row ({status})", status, "accepted")
    got = sorted(map(entry_tuple, ents), key=repr)
    want = sorted((tuple(x[1:]) for x in rows), key=repr)
    if got != want:
        return ("rows-misreported", "schema entries differ from the rows of sqlite_master",
                [x for x in got if x not in want][:4], [x for x in want if x not in got][:4])
    return None


def schema_case(rows, status, ents, single_leaf):
    """(op line, impl canonical) for the ddl.schema correspondence, or None when the collection order is unknown"""
    if ents is not None:
        by_id = {x[0]: tuple(x[1:]) for x in rows}
        order = [by_id[e.row_id] for e in ents if e.row_id in by_id]
        rest = [tuple(x[1:]) for x in rows if tuple(x[1:]) not in order]
        model_rows = order + rest
        impl = "ok n=%d" % len(ents) + "".join(" | " + show_entry(e) for e in ents)
    else:
        if not single_leaf:
            return None
        model_rows = [tuple(x[1:]) for x in rows]
        impl = status
    if not in_model(*[t for row in model_rows for t in (row[0], row[1], row[2], row[4])]):
        return None
    return op_schema(model_rows), impl


def root_is_leaf(path):
    with open(path, "rb") as fh:
        fh.seek(100)
        return fh.read(1) == b"\x0d"


class RowsRun:
    def __init__(self, ctx, scratch):
        self.ctx = ctx
        self.sc = scratch
        self.k = 0
        self.cases = []          # ddl.schema
        self.row_cases = []      # ddl.row
        self.failures = {}       # minimal statement text -> failure
        self.n_db = self.n_stmt = self.n_rejected_by_sqlite = self.n_agree = self.n_differ = 0

    def path(self):
        self.k += 1
        return self.sc.path(f"rows{self.k % 8}.db")

    def run_statements(self, stmts, enc="UTF-8", page_size=4096, analyze=False, record=True):
        """stmts: statement dicts.  Returns (verdict, done texts, rows)."""
        path = self.path()
        texts = [render(s) for s in stmts]
        done, rows = build_db(path, texts, enc, page_size, analyze)
        status, ents = read_db(path)
        v = judge(rows, status, ents)
        if record:
            self.n_db += 1
            self.n_stmt += len(done)
            self.n_rejected_by_sqlite += len(texts) - len(done)
            sc = schema_case(rows, status, ents, root_is_leaf(path))
            if sc is None:
                self.ctx.branch("rows:schema-not-compared")
            else:
                self.cases.append(sc)
            self.direct_rows(rows, ents)
            for (_, ty, name, tbl, root, sql) in rows:
                self.ctx.branch("rows:stored:" + self.kind_of(ty, name, sql))
            self.ctx.mark(("rows-db", tuple(rows)), nontrivial=ents is not None)
        return v, done, rows

    @staticmethod
    def kind_of(ty, name, sql):
        if ty == "table":
            if (sql or "").startswith("CREATE VIRTUAL"):
                return "virtual"
            return "internal-table" if name.startswith("sqlite_") else "table"
        if ty == "index" and sql is None:
            return "autoindex"
        return ty

    def direct_rows(self, rows, ents):
        """every non-table row through the real constructor over the stub interface and through ddl.row"""
        tables = []
        for (_, ty, name, tbl, root, sql) in rows:
            if ty == "table":
                if (sql or "").startswith("CREATE VIRTUAL"):
                    tables.append((tbl, "v"))
                else:
                    wr = "1" if (sql or "").rstrip().upper().endswith("ROWID") else "0"
                    tables.append((tbl, wr))
        for (_, ty, name, tbl, root, sql) in rows:
            cls = "virtual" if ty == "table" and (sql or "").startswith("CREATE VIRTUAL") else ty
            if cls not in CLASSES or not in_model(name, tbl, sql):
                continue
            self.row_cases.append((op_row(cls, ty, name, tbl, root, sql, tables), impl_row(cls, ty, name, tbl, root, sql, tables)))

    # ---- a failing database: which statement, which parts of it
    def explain(self, base, stmts, enc, page_size):
        ctx = self.ctx
        for st in stmts:
            if st["kind"] == "table":
                continue
            v, done, rows = self.run_statements(base + [st], enc, page_size, record=False)
            if v is None:
                continue
            kind = v[0]
            st = {"kind": st["kind"], "segs": [dict(s) for s in st["segs"]]}
            changed = True
            while changed:
                changed = False
                for s in st["segs"]:
                    if s["t"] == s["d"]:
                        continue
                    old = s["t"]
                    s["t"] = s["d"]
                    v2, done2, _ = self.run_statements(base + [st], enc, page_size, record=False)
                    if v2 is not None and v2[0] == kind and len(done2) == len(base) + 1:
                        changed = True
                    else:
                        s["t"] = old
            # the simplest base that still fails
            small_base = base
            simple = [{"kind": "table", "segs": [seg(f"CREATE TABLE {quote(b['name'], 'dq')} (a, b, c)")], "name": b["name"]} for b in base if b["kind"] == "table"]
            extra = [b for b in base if b["kind"] != "table"]
            v3, done3, _ = self.run_statements(simple + extra + [st], enc, page_size, record=False)
            if v3 is not None and v3[0] == kind and len(done3) == len(simple) + len(extra) + 1:
                small_base = simple + extra
            v4, done4, rows4 = self.run_statements(small_base + [st], enc, page_size, record=False)
            if v4 is None:
                v4, done4 = v, done
            text = render(st)
            ctx.branch("rows:differs:" + kind)
            # one failure per (row class, failure kind, remaining parts); the others are counted
            text = (st["kind"], v4[0], tuple(sorted(tags_of(st)))) if tags_of(st) - {"name"} else text
            if text in self.failures:
                self.failures[text]["case"]["count"] += 1
                continue
            self.failures[text] = {"kind": v4[0], "what": v4[1],
                                   "case": {"rows_statements": [render(b) for b in small_base] + [render(st)], "row_kind": st["kind"],
                                            "tags": sorted(tags_of(st)), "encoding": enc, "count": 1},
                                   "impl": v4[2], "oracle": v4[3]}

    def finish(self):
        ctx = self.ctx
        ans = ctx.differential(self.cases, "ddl.schema", nontrivial=lambda line, out: out.startswith("ok"))
        ctx.differential(self.row_cases, "ddl.row", nontrivial=lambda line, out: out.startswith("ok"))
        for label in ("ddl.schema", "ddl.row"):
            keep = []
            for d in ctx.disagreements:
                if d.get("label") == label and d.get("model") == "err outsideModel":
                    ctx.branch("outside-model:" + label)
                else:
                    keep.append(d)
            ctx.disagreements = keep
        for f in self.failures.values():
            ctx.oracle_fail(f["kind"], f["what"], f["case"], f["impl"], f["oracle"])
        self.cases, self.row_cases, self.failures = [], [], {}


# every form the task names, written out (each run; the random section varies them)
FIXED_CLEAN = [
    "CREATE TABLE t (a, b, c)",
    "CREATE TABLE \"u v\" (a INTEGER PRIMARY KEY AUTOINCREMENT, b UNIQUE, c, \"d e\" TEXT)",
    "CREATE TABLE w (a, b, c, PRIMARY KEY (a, b)) WITHOUT ROWID",
    "CREATE INDEX i1 ON t (a)",
    "CREATE UNIQUE INDEX i2 ON t (a, b)",
    "CREATE INDEX i3 ON t (a) WHERE b IS NOT NULL",
    "CREATE INDEX i4 ON t (lower(b), a+1, substr(b,1,2))",
    "CREATE INDEX i5 ON t (b COLLATE NOCASE DESC, c ASC)",
    "CREATE INDEX IF NOT EXISTS i6 ON t (c)",
    "create  unique   index  if not exists main.i7 on t(a,c) where c > ')'",
    "CREATE INDEX \"i 8\" ON \"u v\" (\"d e\")",
    "CREATE INDEX 'i''9' ON 'u v' (b)",
    "CREATE INDEX `i``10` ON `u v` (c)",
    "CREATE INDEX [i 11] ON [u v] ([c], [b])",
    "CREATE INDEX\"i12\"ON\"t\"(a)WHERE(a)",
    "CREATE INDEX i13\nON\tt\n(\n  a, -- first\n  b /* second */\n)\nWHERE a > 0 -- tail",
    "CREATE INDEX i14 ON w (c)",
    "CREATE INDEX i15 ON t /* c */ -- d\n (b || ')') /* e */ WHERE b <> '('",
    "CREATE VIEW v1 AS SELECT a FROM t",
    "CREATE VIEW IF NOT EXISTS \"v 2\" (x, y) AS SELECT a, b/2 FROM t WHERE b <> ';' -- c",
    "CREATE VIEW [v3] AS /* c */ WITH q(x) AS (SELECT 1) SELECT x FROM q",
    "CREATE VIEW \"v  4\" AS SELECT 'a''b' AS \"p  q\"",
    "CREATE TRIGGER tr1 AFTER INSERT ON t BEGIN SELECT 1; END",
    "CREATE TRIGGER \"tr 2\" BEFORE UPDATE OF a, b ON t FOR EACH ROW WHEN new.a > 1 BEGIN\n  UPDATE t SET a = CASE WHEN a THEN 1 ELSE 2 END;\n"
    "  DELETE FROM t WHERE b = '; END'; -- c ; END\n  /* END; */ SELECT 2;\nEND",
    "CREATE TRIGGER 'tr''3' INSTEAD OF INSERT ON v1 BEGIN INSERT INTO t(a) VALUES (new.a); END",
    "CREATE TRIGGER IF NOT EXISTS main.[tr \"4\"] DELETE ON \"u v\" BEGIN SELECT old.a / 2; END",
    "CREATE VIRTUAL TABLE f1 USING fts5(x, y, tokenize = 'porter ascii', prefix='2,3')",
    "CREATE VIRTUAL TABLE \"f 2\" USING fts5(x, content='', tokenize=\"unicode61 separators '(),'\")",
    "CREATE VIRTUAL TABLE IF NOT EXISTS r1 USING rtree(id, minx, maxx, +aux TEXT)",
    "create virtual table r2 /* c */ using -- d\n RTREE_I32 /* e */ ( id, a, b )",
    "CREATE VIRTUAL TABLE [f3] USING \"fts4\"(x, tokenize=unicode61 \"separators=/\")",
    "CREATE VIRTUAL TABLE s1 USING dbstat(main)",
]
# one statement per open finding that shows on these rows (the minimal inputs; also in corpus/C07)
FIXED_FINDINGS = [
    ("CREATE INDEX i ON t (a/2)", ["expr:slash"]),
    ("CREATE VIRTUAL TABLE v USING fts3(a/b)", ["expr:slash"]),
    ("CREATE INDEX \"i  x\" ON t (a)", ["name:ws-run"]),
    ("CREATE VIRTUAL TABLE \"v  w\" USING fts5(x)", ["name:ws-run"]),
    ("CREATE INDEX \"\" ON t (a)", ["name:empty"]),
    ("CREATE VIEW \"\" AS SELECT 1", ["name:empty"]),
    ("CREATE TRIGGER \"\" AFTER INSERT ON t BEGIN SELECT 1; END", ["name:empty"]),
]
# the witnesses of the repaired findings C07-20, C07-21, C07-22 (also in corpus/C07): accepted now
FIXED_REPAIRED = [
    "CREATE TABLE t (a, b, c)",
    "CREATE INDEX r1 /* c */ ON t (a)",
    "CREATE INDEX r2--c\nON t (a)",
    "CREATE INDEX r3 ON /* c */ -- d\n t (a)",
    "CREATE INDEX \"r 4\"/*c*/on/*d*/[t]/*e*/(b)/*f*/where b",
    "CREATE INDEX r5 ON t (a) -- c",
    "CREATE INDEX r6 ON t (b) /* c",
    "CREATE UNIQUE INDEX r7 ON t (c) /* c */ -- d",
    "CREATE VIRTUAL TABLE v1 USING dbstat",
    "CREATE VIRTUAL TABLE v2 USING fts3",
    "CREATE VIRTUAL TABLE \"v 3\" /* c */ USING -- d\n \"fts4\"",
]


def check_statements(ctx, run, texts, tags, enc="UTF-8"):
    """literal statements (fixed lists, corpus replay): one database, oracle, correspondence"""
    stmts = [{"kind": "literal", "segs": [seg(t)]} for t in texts]
    v, done, rows = run.run_statements(stmts, enc)
    if len(done) != len(texts):
        ctx.notes.append("SQLite rejected a fixed statement: " + repr([t for t in texts if t not in done])[:200])
    if v is not None:
        what = v[1]
        if len(texts) == 2:
            # (a base table and one statement: name the statement's kind, so that different row classes are reported apart)
            what += " - " + " ".join(w for w in texts[1].split()[:4] if w.upper() in ("CREATE", "UNIQUE", "INDEX", "VIEW", "TRIGGER", "VIRTUAL", "TABLE"))
        ctx.oracle_fail(v[0], what, {"rows_statements": texts, "tags": sorted(tags)}, v[2], v[3])
    return v


MUT = list("ab1_ ()(),,''\"\"``[]--/**/\n\t.-/ xON") + ["ON", "on", "WHERE", "where", "USING", "UNIQUE ", "--c\n", "/*c*/", "é", "  ", "\x1c",
                                                       "sqlite_", "sqlite_autoindex_", "/*/", "*/", "/*", "CREATE INDEX ", "ß", "ſ"]


def mutate(r, s, n):
    s = list(s)
    for _ in range(n):
        k = r.random()
        pos = r.randint(0, len(s))
        if k < 0.5:
            s[pos:pos] = list(r.choice(MUT))
        elif k < 0.75 and s:
            del s[min(pos, len(s) - 1)]
        elif s:
            s[min(pos, len(s) - 1)] = r.choice(MUT)[0]
    return "".join(s)


SEED_ROWS = [("index", "index", "i", "t", 3, "CREATE INDEX i ON t (a)"), ("index", "index", "i", "t", 3, "CREATE UNIQUE INDEX \"i\" ON [t](a) WHERE a"),
             ("index", "index", "i", "t", 3, "CREATE INDEX i ON t /* c */ (a) -- d\n"), ("index", "index", "sqlite_autoindex_t_1", "t", 4, None),
             ("index", "index", "sqlite_autoindex_t_1", "t", 4, "CREATE INDEX sqlite_autoindex_t_1 ON t(a)"), ("index", "index", "sqlite_x", "t", 4, None),
             ("index", "index", "i", "t", 3, None), ("index", "index", "i", "t", 3, ""), ("index", "index", "I", "T", 3, "CREATE INDEX i ON t(a)"),
             ("index", "index", "i", "u", 3, "CREATE INDEX i ON t(a)"), ("index", "index", "j", "t", 3, "CREATE INDEX i ON t(a)"),
             ("index", "index", "i", "w", 3, "CREATE INDEX i ON w(a)"), ("index", "index", "i", "vt", 3, "CREATE INDEX i ON vt(a)"),
             ("index", "table", "i", "t", 3, "CREATE INDEX i ON t(a)"), ("index", "index", "", "t", 3, "CREATE INDEX \"\" ON t(a)"),
             ("index", "index", "i", "", 3, "CREATE INDEX i ON \"\"(a)"), ("index", "", "i", "t", 3, "CREATE INDEX i ON t(a)"),
             ("view", "view", "v", "v", 0, "CREATE VIEW v AS SELECT 1"), ("view", "view", "v", "v", None, None), ("view", "table", "v", "v", 0, "x"),
             ("view", "view", "", "", 0, "CREATE VIEW \"\" AS SELECT 1"), ("view", "view", "v", "v", 0, "/* c */"), ("view", "view", "v", "v", 0, "a--b"),
             ("trigger", "trigger", "tr", "t", 0, "CREATE TRIGGER tr AFTER INSERT ON t BEGIN SELECT 1; END"), ("trigger", "view", "tr", "t", 0, "x"),
             ("trigger", "trigger", "tr", "", 0, "x"),
             ("virtual", "table", "v", "v", 0, "CREATE VIRTUAL TABLE v USING fts5(x, y)"), ("virtual", "table", "v", "v", 0, "CREATE VIRTUAL TABLE v USING dbstat"),
             ("virtual", "table", "v w", "v w", 0, "CREATE VIRTUAL TABLE \"v w\" /* c */ USING -- d\n fts5 /* e */ (x) "),
             ("virtual", "table", "sqlite_v", "sqlite_v", 0, "CREATE VIRTUAL TABLE sqlite_v USING fts5(x)"), ("virtual", "index", "v", "v", 0, "CREATE VIRTUAL TABLE v USING fts5(x)"),
             ("virtual", "table", "v", "v", 0, None), ("virtual", "table", "v", "v", 0, "CREATE TABLE v(a)"), ("virtual", "table", "v", "v", 0, "CREATE VIRTUAL TABLE v USING fts5(x) y"),
             ("virtual", "table", "v", "v", 0, "CREATE VIRTUAL TABLE v USING")]
SEED_TABLES = [("t", "0"), ("w", "1"), ("vt", "v"), ("T", "0"), ("u v", "0")]


def mutated_rows(ctx, n):
    """correspondence only: row texts SQLite would not store - constructor and model must agree, error class included"""
    r = ctx.rng
    cases = []
    for _ in range(n):
        cls, ty, name, tbl, root, sql = r.choice(SEED_ROWS)
        if sql is not None:
            sql = mutate(r, sql, r.choice([0, 1, 1, 2, 3]))
        if r.random() < 0.1:
            name = mutate(r, name, 1)
        if r.random() < 0.1:
            tbl = mutate(r, tbl, 1)
        root = r.choice([root, root, None, 0])
        tables = [t for t in SEED_TABLES if r.random() < 0.85]
        if in_model(name, tbl, sql):
            cases.append((op_row(cls, ty, name, tbl, root, sql, tables), impl_row(cls, ty, name, tbl, root, sql, tables)))
        else:
            ctx.branch("outside-model:casefold-char")
    ctx.differential(cases, "ddl.row/mutated", nontrivial=lambda line, out: out.startswith("ok"))
    keep = []
    for d in ctx.disagreements:
        if d.get("label") == "ddl.row/mutated" and d.get("model") == "err outsideModel":
            ctx.branch("outside-model:ddl.row/mutated")
        else:
            keep.append(d)
    ctx.disagreements = keep


def section(ctx, n=None):
    r = ctx.rng
    sc = C.Scratch()
    try:
        check_constants(ctx)
        run = RowsRun(ctx, sc)
        # the written-out forms: all in one database, in each text encoding
        for enc in F.ENCODINGS:
            v = check_statements(ctx, run, FIXED_CLEAN, ["fixed-clean"], enc)
            ctx.branch("rows:fixed-clean:" + ("agrees" if v is None else "differs"))
        v = check_statements(ctx, run, FIXED_REPAIRED, ["fixed-repaired"])
        ctx.branch("rows:fixed-repaired:" + ("agrees" if v is None else "differs"))
        for text, tags in FIXED_FINDINGS:
            check_statements(ctx, run, ["CREATE TABLE t (a, b, c)", text], tags)
            ctx.branch("rows:fixed-finding")
        n = n or (1500 if ctx.thorough() else 150)
        for i in range(n):
            used = set()
            base = []
            names = []
            for _ in range(r.randint(1, 2)):
                nm, st = gen_table(r, used)
                base.append(st)
                names.append(nm)
            view = None
            if r.random() < 0.5:
                view = f"bv{i}"
                used.add(view.lower())
                base.append({"kind": "view", "segs": [seg(f"CREATE VIEW {view} AS SELECT a, b, c FROM {quote(names[0], 'dq')}")]})
            nasty = [0.0, 0.0, 0.02, 0.05][i % 4]
            stmts = []
            for _ in range(r.randint(3, 9)):
                k = r.random()
                if k < 0.45:
                    stmts.append(gen_index(r, used, r.choice(names), nasty))
                elif k < 0.6:
                    stmts.append(gen_view(r, used, r.choice(names), nasty))
                elif k < 0.8:
                    stmts.append(gen_trigger(r, used, r.choice(names), view, nasty))
                else:
                    stmts.append(gen_virtual(r, used, nasty))
            enc = F.ENCODINGS[i % 3]
            ps = r.choice([4096, 4096, 8192, 1024])
            v, done, rows = run.run_statements(base + stmts, enc, ps, analyze=r.random() < 0.3)
            if v is None:
                run.n_agree += 1
                ctx.branch("rows:agrees-with-sqlite")
            else:
                run.n_differ += 1
                run.explain(base, [s for s in stmts if render(s) in done], enc, ps)
            if ctx.time_left() is not None and ctx.time_left() < 5:
                break
        ctx.extra.update(rows_databases=run.n_db, rows_statements_stored=run.n_stmt, rows_sqlite_rejected=run.n_rejected_by_sqlite,
                         rows_databases_agree=run.n_agree, rows_databases_differ=run.n_differ)
        run.finish()
        mutated_rows(ctx, 12000 if ctx.thorough() else 3000)
    finally:
        sc.close()


def replay_case(ctx, case):
    sc = C.Scratch()
    try:
        run = RowsRun(ctx, sc)
        check_statements(ctx, run, case["rows_statements"], case.get("tags", []), case.get("encoding", "UTF-8"))
        run.finish()
    finally:
        sc.close()


# ====================================================================== known findings (predicates on a failing case)
def _rows(f, kinds=("rows-rejected",)):
    return f.get("kind") in kinds and "rows_statements" in (f.get("case") or {})


def _tagset(f):
    return set((f.get("case") or {}).get("tags") or [])


def _explained(f, required, allowed=()):
    """a rows-slice rejection whose remaining (non-default) parts are exactly of the required kind"""
    if not _rows(f):
        return False
    tg = {t for t in _tagset(f) if not t.startswith("cmt-ok:") and t != "name"}
    return bool(tg) and any(t in required for t in tg) and all(t in required or t in allowed for t in tg)


MATCHERS = {
    "c07_rows_slash": lambda f: _explained(f, {"expr:slash"}),
    "c07_rows_ident_whitespace": lambda f: _explained(f, {"name:ws-run"}),
    "c07_rows_empty_name": lambda f: _explained(f, {"name:empty"}),
}
