"""C12 — the CLI reports what the library computes; options only restrict or add."""
import json
import os
import shutil
import tempfile
import time
from concurrent.futures import ProcessPoolExecutor

from ..leanio import driver
from ..translate import fs_effects, options
from . import clicommon as K
from . import clilattice as L

ID = "C12"
LEAN_MODULES = ["SqliteDissect.Properties.C12"]
TRANSLATORS = [fs_effects, options]
RULE = ("sqlite_dissect CLI run in a fresh subprocess per option vector (harness/impl/run_cli.py: audit hook + plan "
        "instrumentation) over the option lattice formats x carve/freelists x --tables x journal selection x prefix x "
        "argv/env/config forms x 20 evidence sets built with SQLite 3.40.1 (plain, WAL history, persistent journal, "
        "both, zero-length, directory of inputs, odd table names, damaged copies); each run is compared with "
        "(a) Model.Cli via the cli.plan driver op: outcome class and reason, effects before the outcome, journal "
        "selection, files per format, entries per exporter with signature/freelist flags, CSV file per entry; "
        "(b) API iteration in the same tree: rows of every exported CSV file / SQLite table keyed by the eight "
        "metadata columns (+ row id) and value count versus interface.get_version_history_iterator; (c) other runs: "
        "--tables = filter of the unrestricted run, --no-journal = run on the database alone, --carve keeps every "
        "non-carved row, one format's output does not depend on the other formats, argv/env/config forms agree, "
        "refusals leave the directory listing unchanged. non-trivial = distinct run that reached the exporters")
ASSUMPTIONS = ["the rows are compared by their metadata key (file source, version, page version, cell source, page, "
               "location, operation, file offset, row id) and value count; value rendering is C11's subject",
               "text and XLSX exports are compared at entry level (headers / sheet names), not row by row",
               "a run whose library call fails (damaged input, C07/C11 defects) is compared on outcome class only"]
TRUSTED_EXTRA = ["translator harness/translate/options.py (parse_args -> Generated/Options.lean) and "
                 "harness/translate/fs_effects.py (named call sites used to read the audit log)",
                 "harness/impl/run_cli.py: in-process instrumentation (sys.addaudithook, wrappers around os.stat & co., "
                 "VersionHistoryParser.__init__, uuid.uuid4, entrypoint.main) — no change to /repo"]


# ---- known findings -----------------------------------------------------------------------------
# C12-F1 ... C12-F5 (refusals after mkdir, empty carved value, unquoted SQLite identifiers, '/' in a table name,
# '/' in the prefix) are fixed in /repo (237449d, 6594c96, 6735748, ccb6063, 430cb54); their minimal inputs stay
# in corpus/C12 and are replayed on every run, so a regression is reported as a VIOLATION.
MATCHERS = {}


# ---- running --------------------------------------------------------------------------------------
def run_specs(ctx, specs, scratch, pool, table):
    jobs = [L.to_job(s, pool, table, scratch, post=L.post_plan, pre=L.pre_world) for s in specs]
    for j in jobs:
        j["keep_events"] = True
    with ProcessPoolExecutor(max_workers=min(16, os.cpu_count() or 2)) as ex:
        results = list(ex.map(K.execute, jobs, chunksize=1))
    for r in results:
        r["events"] = []     # the post-processing kept what is needed
    return dict((r["id"], r) for r in results), dict((s["id"], s) for s in specs)


def rel(path, m):
    return os.path.relpath(path, m["sb"]) if path and path.startswith(m["sb"]) else path


def brief(res, spec):
    return {"id": res["id"], "ev": spec["ev"], "argv": [a.replace(res["map"]["sb"], "<sb>") for a in res["argv"]],
            "env": {k: v.replace(res["map"]["sb"], "<sb>") for k, v in res["env"].items()}, "form": spec["form"],
            "opts": {k: v for k, v in spec["opts"].items() if v not in (None, False)},
            "entry": spec.get("entry", "cli"), "exit": res["rc"], "exc": (res["end"].get("exc") or "").split(".")[-1] or None,
            "msg": (res["end"].get("msg") or "")[:200].replace(res["map"]["sb"], "<sb>"), "where": res["end"].get("where")}


def check_model(ctx, results, specs):
    """(a) each call of main() against Model.Cli"""
    lines, keys = [], []
    for rid, res in results.items():
        sp = specs[rid]
        post = res.get("post") or {}
        if sp.get("no_model") or not post.get("segs"):
            continue
        api = post.get("api") or {}
        for k, obs in enumerate(post["segs"]):
            if len(post["segs"]) > 1:
                # several inputs: the entries are not computed per file; compare validation only
                ents = []
                sub = [p for kind, p in obs["eff"] if kind == "mkdir"]
                uuid_hex = sub[-1][-32:] if sub else ""
            else:
                uuid_hex = ""
                ents = []
                if "entries" in api:
                    for e in api["entries"]:
                        rr = api["rows"].get(e["name"])
                        ents.append(dict(e, updated=(rr["updated"] if rr else True)))
            world = [(p, sz) for p, sz in res["pre"]["world"]]
            if len(post["segs"]) > 1:
                world = [(obs["path"], os.path.getsize(obs["path"]) if os.path.exists(obs["path"]) else 1)] + \
                        [w for w in world if w[0] != res["map"]["db"]]
                # journals next to each input of the directory: none in the evidence set used
                top = K.subst(sp["opts"]["dir"], res["map"])
                if k > 0 and not any(w[0] == top for w in world):
                    world.append((top, 4096))
            lines.append(K.model_line(sp["opts"], res["map"], obs["path"], world, ents, multi=bool(obs["multi"]),
                                      uuid_hex=uuid_hex))
            keys.append((rid, k))
    answers = driver.ask(lines) if lines else []
    for (rid, k), line, ans in zip(keys, lines, answers):
        res, sp = results[rid], specs[rid]
        obs = res["post"]["segs"][k]
        ctx.evals += 1
        if not ans or ans.split(" ")[0] not in ("ready", "refuse", "exit0"):
            ctx.disagreements.append({"label": "cli.plan", "op": line[:1500], "impl": obs["kind"], "model": ans[:300]})
            continue
        mod = K.parse_model(ans)
        multi = len(res["post"]["segs"]) > 1
        if multi:
            # validation level only
            d = []
            if (obs["kind"] if obs["kind"] != "crash" else "ready") != mod["kind"]:
                d.append(("outcome", obs["kind"], mod["kind"]))
            if obs["eff"] != mod["eff"]:
                d.append(("effects", obs["eff"], mod["eff"]))
        else:
            api_failed = "error" in (res["post"].get("api") or {})
            if api_failed and obs["kind"] == "ready":
                d = [("library", "CLI completed", "API iteration failed: " + res["post"]["api"]["error"])]
            else:
                d = K.diff_plan(obs, mod)
                if api_failed and obs["kind"] == "crash":
                    d = [x for x in d if x[0] in ("kind", "effects", "journal-names")]
        ctx.branch(f"plan:{obs['kind']}:{obs['reason'] or '-'}")
        if obs["kind"] == "ready":
            ctx.nontrivial.add("plan:" + rid)
        if d:
            ctx.disagreements.append({"label": "cli.plan", "op": json.dumps(brief(res, sp))[:1500],
                                      "impl": json.dumps(d, default=str)[:1500].replace(res["map"]["sb"], "<sb>"),
                                      "model": ans[:600]})
        if len(ctx.samples) < 4 and obs["kind"] in ("ready", "refuse"):
            ctx.sample({"run": rid, "impl": f"{obs['kind']} {obs['reason']} eff={[(a, rel(b, res['map'])) for a, b in obs['eff']]} "
                                             f"items={[(i['fmt'], i['entry'], i['carve']) for i in obs['items']][:6]}",
                        "model": ans[:200]})


def csv_by_entry(res):
    """entry -> rows, from the CSV files the plan attributes to it"""
    out = {}
    post = res["post"]
    if len(post["segs"]) != 1:
        return out
    for it in post["segs"][0]["items"]:
        if it["fmt"] == "csv" and it["files"]:
            fp = os.path.normpath(os.path.join(res["map"]["cwd"], it["files"][0]))
            rows = post["exports"]["csv"].get(rel(fp, res["map"]))
            if rows is not None:
                out[it["entry"]] = sorted(rows)
    return out


def sqlite_by_entry(res):
    out = {}
    post = res["post"]
    for relp, tabs in post["exports"]["sqlite"].items():
        for name, rows in tabs.items():
            out[name] = sorted(rows)
    return out


def check_api(ctx, results, specs):
    """(b) exported rows versus API iteration in the same tree"""
    for rid, res in results.items():
        sp = specs[rid]
        post = res.get("post") or {}
        api = post.get("api")
        if not api or len(post.get("segs", [])) != 1:
            continue
        obs = post["segs"][0]
        case = brief(res, sp)
        if "error" in api:
            # the library refuses these files: the CLI must not have completed normally
            ctx.evals += 1
            ctx.branch("api:library-error:" + api["error"])
            if obs["kind"] == "ready":
                ctx.oracle_fail("cli-vs-api", "CLI exported although the library raises on the same files", case,
                                impl="exit 0", oracle=api["error"])
            elif obs["kind"] == "crash" and obs["reason"] != api["error"]:
                ctx.oracle_fail("cli-vs-api", "CLI and library fail with different error classes on the same files", case,
                                impl=obs["reason"], oracle=api["error"])
            continue
        if obs["kind"] == "crash":
            ctx.evals += 1
            ctx.branch("crash:" + obs["reason"])
            ctx.oracle_fail("cli-crash", f"CLI fails with {obs['reason']} although the library iterates the same files",
                            case, impl=case["msg"], oracle="API iteration completes")
            continue
        if obs["kind"] != "ready":
            continue
        csvs, sqls = csv_by_entry(res), sqlite_by_entry(res)
        fmts = {i["fmt"] for i in obs["items"]}
        for it in obs["items"]:
            if it["fmt"] not in ("csv", "sqlite"):
                continue
            want = api["rows"].get(it["entry"])
            if want is None:
                continue
            got = (csvs if it["fmt"] == "csv" else sqls).get(it["entry"])
            exp = sorted(want["rows"])
            ctx.evals += 1
            if exp:
                ctx.nontrivial.add(f"api:{rid}:{it['fmt']}:{it['entry']}")
            ctx.branch(f"api:{it['fmt']}:{'rows' if exp else 'empty'}")
            if got is None:
                got = []
            if it["fmt"] == "sqlite" and got == exp:
                # same rows: the storage class of every exported value is the class of the stored serial type
                # (columns a row predates are padded with NULL)
                seen = {}
                for tabs in post["exports"].get("sqlite_classes", {}).values():
                    seen.update(tabs.get(it["entry"], {}))
                for key, cls in (want.get("classes") or {}).items():
                    g = seen.get(key)
                    if g is not None and (g[:len(cls)] != cls or any(x != "null" for x in g[len(cls):])):
                        ctx.oracle_fail("cli-vs-api", "sqlite export stores a value in another storage class than the library's row has",
                                        dict(case, entry=it["entry"], row=key), impl=g, oracle=cls)
                        break
            if got != exp:
                missing = [x for x in exp if x not in got][:3]
                extra = [x for x in got if x not in exp][:3]
                ctx.oracle_fail("cli-vs-api", f"{it['fmt']} export of an entry differs from the library's commits",
                                dict(case, entry=it["entry"]), impl={"n": len(got), "extra": extra},
                                oracle={"n": len(exp), "missing": missing})
        # text / xlsx at entry level
        names = [i["entry"] for i in obs["items"] if i["fmt"] == "text"]
        if "text" in fmts or (not fmts and names):
            seen = post["exports"]["console"] if "text" not in obs["files"] else \
                post["exports"]["text"].get(rel(obs["files"]["text"], res["map"]), [])
            ctx.evals += 1
            if seen != names:
                ctx.oracle_fail("cli-vs-api", "text export lists other entries than the plan", case, impl=seen, oracle=names)


def rows_of(res, fmt):
    return csv_by_entry(res) if fmt == "csv" else sqlite_by_entry(res)


def ok(res):
    post = res.get("post") or {}
    return len(post.get("segs", [])) == 1 and post["segs"][0]["kind"] == "ready"


def check_relations(ctx, results, specs):
    """(c) runs compared with each other"""
    def pair(a, b, what, fn):
        if a in results and b in results and ok(results[a]) and ok(results[b]):
            ctx.evals += 1
            ctx.branch("relation:" + what)
            fn(results[a], results[b])
        elif a in results and b in results:
            ctx.branch("relation-skipped:" + what)

    # --tables restricts to exactly the named entries
    for ev in ("plain", "wal"):
        for sel, names in (("sel", {"t0", "i0"}), ("one", {"t1"}), ("none", set())):
            def f(ra, rs, names=names, sel=sel, ev=ev):
                for fmt in ("csv", "sqlite"):
                    full, part = rows_of(ra, fmt), rows_of(rs, fmt)
                    expect = {k: v for k, v in full.items() if k in names}
                    if part != expect:
                        ctx.oracle_fail("tables-restrict", f"--tables output is not the restriction of the full output ({fmt})",
                                        brief(rs, specs[rs["id"]]), impl=sorted(part), oracle=sorted(expect))
                    elif expect:
                        ctx.nontrivial.add(f"tables:{ev}:{sel}:{fmt}")
            pair(f"tab-{ev}-all", f"tab-{ev}-{sel}", "tables", f)

    # --no-journal = the database alone
    def same_rows(what, kind):
        def f(ra, rb):
            for fmt in ("csv", "sqlite"):
                a, b = rows_of(ra, fmt), rows_of(rb, fmt)
                if a != b:
                    diff = sorted(k for k in set(a) | set(b) if a.get(k) != b.get(k))
                    ctx.oracle_fail(kind, what + f" ({fmt}; entries {diff[:4]})", brief(ra, specs[ra["id"]]),
                                    impl={k: len(a.get(k, [])) for k in diff[:4]}, oracle={k: len(b.get(k, [])) for k in diff[:4]})
                elif a:
                    ctx.nontrivial.add(f"{kind}:{ra['id']}:{fmt}")
        return f
    pair("nj-wal", "dbonly-wal", "no-journal", same_rows("--no-journal differs from the run on the database alone", "no-journal"))
    pair("nj-jn", "dbonly-jn", "no-journal", same_rows("--no-journal differs from the run on the database alone", "no-journal"))
    pair("auto-wal", "expl-wal", "wal-explicit", same_rows("--wal <db>-wal differs from auto-discovery", "journal-selection"))
    pair("auto-wal", "moved-wal", "wal-explicit", same_rows("--wal elsewhere differs from the same WAL found by suffix", "journal-selection"))
    pair("auto-jn", "expl-jn", "journal-explicit", same_rows("--rollback-journal differs from auto-discovery", "journal-selection"))

    # the WAL run must actually add something over the database-only run (non-vacuity of the journal group)
    if ok(results.get("auto-wal", {})) and ok(results.get("nj-wal", {})):
        if rows_of(results["auto-wal"], "csv") == rows_of(results["nj-wal"], "csv"):
            ctx.notes.append("auto-wal and nj-wal export the same rows: the WAL evidence set adds nothing")
        else:
            ctx.branch("relation:wal-adds-versions")

    # --carve only adds carved rows
    def carve(fmt):
        def f(r0, rc):
            a, b = rows_of(r0, fmt), rows_of(rc, fmt)
            for name in sorted(set(a) | set(b)):
                base = a.get(name, [])
                withc = b.get(name, [])
                kept = [x for x in withc if x[0][6] != "Carved"]
                if sorted(kept) != sorted(base):
                    ctx.oracle_fail("carve-only-adds", f"--carve changes non-carved rows ({fmt})",
                                    dict(brief(rc, specs[rc["id"]]), entry=name), impl=len(kept), oracle=len(base))
                if len(withc) > len(base):
                    ctx.nontrivial.add(f"carve-adds:{rc['id']}:{fmt}:{name}")
        return f
    for ev in ("plain", "wal"):
        pair(f"carve-{ev}-0", f"carve-{ev}-c", "carve", carve("sqlite"))
        pair(f"carve-{ev}-0", f"carve-{ev}-cf", "carve-freelists", carve("sqlite"))
    pair("ind-csv", "carve-csv", "carve-csv", carve("csv"))
    pair("carve-plain-0", "carve-plain-sig", "signatures-only",
         same_rows("--signatures alone changes the exported rows", "carve-only-adds"))

    # one format's output does not depend on the others
    def indep(fmt):
        def f(r1, rall):
            a, b = rows_of(r1, fmt), rows_of(rall, fmt)
            if a != b:
                ctx.oracle_fail("formats-independent", f"{fmt} output differs when other formats are also requested",
                                brief(rall, specs[rall["id"]]), impl=sorted(b), oracle=sorted(a))
            elif a:
                ctx.nontrivial.add("independent:" + fmt)
        return f
    pair("ind-csv", "ind-all", "independent", indep("csv"))
    pair("ind-sqlite", "ind-all", "independent", indep("sqlite"))
    if ok(results.get("ind-text", {})) and ok(results.get("ind-all", {})):
        a = list(results["ind-text"]["post"]["exports"]["text"].values())
        b = list(results["ind-all"]["post"]["exports"]["text"].values())
        ctx.evals += 1
        if a != b:
            ctx.oracle_fail("formats-independent", "text output differs when other formats are also requested",
                            brief(results["ind-all"], specs["ind-all"]), impl=b, oracle=a)

    # refusals: nothing is written (directory listing before / after)
    for rid, res in results.items():
        sp = specs[rid]
        post = res.get("post") or {}
        kinds = [s["kind"] for s in post.get("segs", [])] or [post.get("head_kind", ("?",))[0]]
        if not any(k in ("refuse", "usage", "exit0") for k in kinds):
            continue
        ctx.evals += 1
        ctx.branch("refusal:" + (post["segs"][-1]["reason"] if post.get("segs") else str(post.get("head_kind"))))
        created = [x for x in res["out_listing"] if x not in res["out_before"]]
        created += [n for k, n in res["new_outside"]]
        if created:
            ctx.oracle_fail("refused-after-write", "a refused run left something behind besides the log file",
                            dict(brief(res, sp), created=created), impl=created, oracle=[])
        else:
            ctx.nontrivial.add("refusal:" + rid)

    # argv / env / config forms agree
    groups = {}
    for rid, sp in specs.items():
        if sp.get("group") == "forms":
            groups.setdefault(sp["forms_key"], []).append(rid)
    for key, ids in groups.items():
        base = ids[0]
        for other in ids[1:]:
            pair(base, other, "forms", same_rows(f"{specs[other]['form']} form differs from {specs[base]['form']} form", "forms"))


def forms_specs():
    S = []
    for i, (ev, o) in enumerate([("plain", L.O(dir="{out}", export=["csv", "sqlite"], tables="t0,t2", prefix="f")),
                                 ("wal", L.O(dir="{out}", export=["csv", "sqlite"], nj=True)),
                                 ("wal", L.O(dir="{out}", export=["csv", "sqlite"], wal="{db}-wal", tables="t0"))]):
        for form in ("argv", "env", "config"):
            S.append(L.spec(f"form{i}-{form}", ev, dict(o), form, group="forms", forms_key=i))
    return S


def run(ctx):
    scratch = tempfile.mkdtemp(prefix="sdverif-c12-")
    try:
        t0 = time.time()
        pool = K.get_pool(ctx)
        table = fs_effects.table()
        bad = K.check_env_names(options.table())
        if bad:
            ctx.disagreements.append({"label": "options", "op": "env/flag names used by the harness", "impl": str(bad),
                                      "model": "Generated.cliOptions"})
        specs = L.thorough_specs(ctx.rng, 420) if ctx.thorough() else L.quick_specs()
        specs += forms_specs()
        results, by = run_specs(ctx, specs, scratch, pool, table)
        ctx.extra["cli_runs"] = len(results)
        ctx.extra["cli_wall_s"] = round(time.time() - t0, 1)
        for rid, res in results.items():
            ctx.branch("exit:" + str(res["rc"]))
            ctx.branch("group:" + str(by[rid].get("group")))
            ctx.branch("form:" + by[rid]["form"])
        check_model(ctx, results, by)
        check_api(ctx, results, by)
        check_relations(ctx, results, by)
        ctx.rule = RULE
    finally:
        shutil.rmtree(scratch, ignore_errors=True)


def search(ctx, broken):
    ctx.tier = "search"
    scratch = tempfile.mkdtemp(prefix="sdverif-c12s-")
    try:
        pool = K.get_pool(ctx)
        table = fs_effects.table()
        specs = L.thorough_specs(ctx.rng, 250) + forms_specs()
        results, by = run_specs(ctx, specs, scratch, pool, table)
        check_api(ctx, results, by)
        check_relations(ctx, results, by)
    finally:
        shutil.rmtree(scratch, ignore_errors=True)


def replay(ctx, data):
    """re-run the option vector of a recorded failure (corpus entries name a spec id of the quick lattice)"""
    want = (data.get("failure") or data).get("case", {}).get("id") or data.get("spec_id")
    if not want:
        return
    scratch = tempfile.mkdtemp(prefix="sdverif-c12r-")
    try:
        pool = K.get_pool(ctx)
        table = fs_effects.table()
        specs = [s for s in L.quick_specs() + forms_specs() if s["id"] == want]
        if not specs:
            ctx.notes.append(f"replay: spec {want} is not part of the quick lattice")
            return
        results, by = run_specs(ctx, specs, scratch, pool, table)
        check_api(ctx, results, by)
        check_relations(ctx, results, by)
    finally:
        shutil.rmtree(scratch, ignore_errors=True)
