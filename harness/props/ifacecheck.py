"""interface.select_all_from_table / select_all_from_index against the model (helper for C01, not a property).

run(ctx, built_databases): for every table (rowid and WITHOUT ROWID) and index name of the factory databases given
(`Built` objects of harness/gen/sqlite_factory.py) call the real function on `Database(path)` and compare
(number of cells returned, row ids, digest inputs) with the driver op `iface.select` (lean/Driver/Iface.lean:
model of `Database.__init__` + lookup by name among the entries of that kind + `get_b_tree_root_page` +
`aggregate_leaf_cells`).  Also asked: the names of views and triggers (KeyError expected from both functions, also
when a trigger is named like a table — the factory creates one) and a name that does not exist.
"""
import sqlite3

from sqlite_dissect import interface
from sqlite_dissect.file.database.database import Database
from sqlite_dissect.utilities import get_md5_hash

from ..impl import dump as D
from ..impl.canon import err, hx

ENCODINGS = {None: "utf-8", "utf-8": "utf-8", "utf-16-le": "utf-16-le", "utf-16-be": "utf-16-be"}


def digest_input(db, cell):
    """the bytes the cell's md5 covers: page[start:end] (+ overflow content); None when the md5 says otherwise"""
    page = db.get_page_data(cell.page_number)
    d = bytes(page[int(cell.start_offset):int(cell.end_offset)])
    if getattr(cell, "has_overflow", False):
        d += bytes(cell.overflow)
    return d if get_md5_hash(d) == cell.md5_hex_digest else None


def show_cells(db, cells):
    parts = []
    for c in cells:
        d = digest_input(db, c)
        parts.append(f"{D.opt(getattr(c, 'row_id', None))},{'md5-covers-other-bytes' if d is None else format(D.fnv(d), 'x')}")
    return (f"ok {len(cells)} " + " ".join(parts)).rstrip()


def impl_select(db, kind, name):
    fn = interface.select_all_from_table if kind == "table" else interface.select_all_from_index
    try:
        cells = list(fn(name, db))
    except RecursionError as e:
        return err(e)
    except Exception as e:  # noqa
        return err(e)
    return show_cells(db, cells)


def schema_names(path):
    """[(type, name)] of sqlite_schema as SQLite reports it"""
    con = sqlite3.connect(f"file:{path}?mode=ro", uri=True)
    try:
        return [(t, n) for t, n in con.execute("SELECT type, name FROM sqlite_master")]
    finally:
        con.close()


def run(ctx, built_databases):
    cases = []
    for b in built_databases:
        try:
            db = Database(b.path)
        except Exception:  # noqa   (a rejected database is C01's own business)
            continue
        try:
            enc = ENCODINGS.get(db.database_text_encoding, "utf-8")
            names = schema_names(b.path)
            asks = []
            for t in list(b.tables) + list(b.without_rowid):
                asks.append(("table", t))
            for i in b.indexes:
                asks.append(("index", i))
            # automatic indexes, views, triggers (one may be named like a table), the wrong kind, a missing name
            for ty, n in names:
                if ty == "index" and ("index", n) not in asks:
                    asks.append(("index", n))
                if ty in ("view", "trigger"):
                    asks.append(("table", n))
                    asks.append(("index", n))
            if b.tables:
                asks.append(("index", next(iter(b.tables))))
            asks.append(("table", "no such table"))
            sqlite_kind = {}
            for ty, n in names:
                sqlite_kind.setdefault(n, set()).add(ty)
            for kind, name in dict.fromkeys(asks):
                out = impl_select(db, kind, name)
                op = f"iface.select {b.path} {kind} {hx(name.encode(enc))} mem=0 strict=1 size=- frames={D.frames_available()}"
                cases.append((op, out))
                ctx.branch(f"iface:{kind}:{out.split(' ')[0] if out.startswith('ok') else out}")
                # oracle: a name SQLite lists with that kind must be found, whatever else carries the name
                if kind in sqlite_kind.get(name, ()) and out == "err keyError":
                    ctx.oracle_fail("iface-lookup", f"select_all_from_{kind} does not find a {kind} that sqlite_schema lists",
                                    {"cfg": b.cfg, "name": name, "kinds": sorted(sqlite_kind[name])}, out, "found")
                elif kind in sqlite_kind.get(name, ()) and len(sqlite_kind[name]) > 1 and not out.startswith("ok"):
                    ctx.oracle_fail("iface-shadowed", f"select_all_from_{kind} fails for a {kind} that shares its name with another "
                                    "kind of schema entry", {"cfg": b.cfg, "name": name, "kinds": sorted(sqlite_kind[name])}, out, "ok")
        finally:
            try:
                db.file_handle.close()
            except Exception:  # noqa
                pass
    ctx.differential(cases, "iface.select")
