-- This module serves as the root of the `SqliteDissect` library.
-- Import modules here that should be built as part of the library.
import SqliteDissect.Basic
import SqliteDissect.Model.RegexCost
import SqliteDissect.Proofs.RegexCost
import SqliteDissect.Properties.C18Regex
import SqliteDissect.Model.SchemaRows
import SqliteDissect.Proofs.C07Rows
import SqliteDissect.Properties.C07Rows
import SqliteDissect.Generated.PyPage
import SqliteDissect.Proofs.GenPage
import SqliteDissect.Properties.GenPage
import SqliteDissect.Proofs.CarveFreeblock
import SqliteDissect.Properties.C09Freeblock
import SqliteDissect.PyDict
import SqliteDissect.Generated.PyHdrDiff
import SqliteDissect.Proofs.GenHdrDiff
import SqliteDissect.Properties.GenHdrDiff
