import Driver.Util
import SqliteDissect.Model.Tree
import SqliteDissect.Model.Header
import SqliteDissect.Spec.CellFmt
import SqliteDissect.Spec.HeaderFmt
import SqliteDissect.Spec.CellWrite
import SqliteDissect.Spec.HeaderStep

namespace Driver.Arith
open SqliteDissect SqliteDissect.Model Driver

def showDbHdr (h : DbHeader) : String :=
  s!"ps={h.pageSize},wv={h.writeVersion},rv={h.readVersion},rb={h.reservedBytes},mx={h.maxFraction},mn={h.minFraction},lf={h.leafFraction},cc={h.changeCounter},sz={h.sizeInPages},ft={h.firstFreelistTrunk},fp={h.freelistPages},sc={h.schemaCookie},sf={h.schemaFormat},dc={h.defaultCacheSize},lr={h.largestRoot},te={h.textEncoding},uv={h.userVersion},iv={h.incrementalVacuum},ai={h.applicationId},vv={h.versionValidFor},sv={h.sqliteVersion}"

def handle : List String → Option String
  | ["cell.local", kind, u, p] => do
      let u ← u.toNat?
      let p ← p.toInt?
      let limit : Int := if kind = "table" then (u : Int) - 35 else payloadConst u 64
      let (b, hasOv, m) := localPayload u limit p
      let ov := p - b
      pure (match calcExpectedOverflow ov u with
        | some (n, last) => s!"ok {b} {if hasOv then 1 else 0} {m} {n} {last}"
        | none => "diverges")
  | ["spec.local", kind, u, p] => do
      let u ← u.toNat?
      let p ← p.toNat?
      let mx := if kind = "table" then Spec.maxLeaf u else Spec.maxLocalIndex u
      let b := Spec.localSize u mx p
      let ov := p - b
      pure (if ov = 0 then s!"ok {b} 0 0 0" else s!"ok {b} 1 {Spec.overflowPages u ov} {Spec.lastOverflowFill u ov}")
  | ["spec.cell", kind, u, rowid, first, cols] => do
      -- cols: `st:hex;st:hex;…` (`-` for no content, `.` for no columns)
      let u ← u.toNat?
      let rowid ← rowid.toInt?
      let first ← first.toNat?
      let cs ← (if cols = "." then some [] else (cols.splitOn ";").mapM fun c =>
        match c.splitOn ":" with
        | [st, hex] => do
          let st ← st.toInt?
          let content ← (if hex = "-" then some [] else parseHex hex)
          some ({ st, content } : Spec.Col)
        | _ => none)
      let payload := Spec.encodeRecord cs
      let bytes := if kind = "table" then Spec.writeTableLeafCell u rowid payload first
                   else Spec.writeIndexLeafCell u payload first
      let mx := if kind = "table" then Spec.maxLeaf u else Spec.maxLocalIndex u
      pure s!"ok {hexOrDash bytes} {hexOrDash (payload.drop (Spec.localSize u mx payload.length))}"
  | ["ptrmap.plan", d, ps] => do
      let d ← d.toNat?
      let ps ← ps.toNat?
      pure (showPy (fun l => " ".intercalate (l.map fun (p, n) => s!"{p}:{n}")) (ptrmapPlan d ps))
  | ["spec.ptrmap", d, ps] => do
      let d ← d.toNat?
      let ps ← ps.toNat?
      pure ("ok " ++ " ".intercalate ((Spec.ptrmapPages d (ps / 5)).map fun (p, n) => s!"{p}:{n}"))
  | ["hdr.db", hex] => do
      let b ← bufOfHex hex
      pure (showPy showDbHdr (parseDbHeader b))
  | ["spec.hdr.valid", hex] => do
      let l ← parseHex hex
      pure s!"{Spec.validDbHeader l} {Spec.sqliteWritesDbHeader l}"
  | ["spec.hdrstep", hexPrev, hexNext, cs, sm] => do
      -- Spec.HeaderStep (executable form) on the headers of two consecutive versions
      let a ← bufOfHex hexPrev
      let b ← bufOfHex hexNext
      let cs ← cs.toNat?
      pure (match parseDbHeader a, parseDbHeader b with
        | .ok x, .ok y => if x = y then "ok same" else s!"ok {Spec.headerStepB x y cs (sm = "1")}"
        | _, _ => "rejected")
  | ["hdr.wal", hex] => do
      let b ← bufOfHex hex
      pure (showPy (fun h => s!"m{h.magic},fv{h.formatVersion},ps{h.pageSize},cs{h.checkpointSeq},s1{h.salt1},s2{h.salt2},c1{h.checksum1},c2{h.checksum2}") (parseWalHeader b))
  | ["hdr.frame", hex] => do
      let b ← bufOfHex hex
      pure (showPy (fun h => s!"p{h.pageNumber},sz{h.sizeAfterCommit},s1{h.salt1},s2{h.salt2},c1{h.checksum1},c2{h.checksum2}") (parseFrameHeader b))
  | ["hdr.journal", hex] => do
      let b ← bufOfHex hex
      pure (showPy (fun h => s!"hs{hexOrDash h.headerString},pc{h.pageCount},n{h.nonce},is{h.initialSize},ss{h.sectorSize},ps{h.pageSize}") (parseJournalHeader b))
  | _ => none

end Driver.Arith
