import Driver.Codec
import Driver.Db
import Driver.Arith
import Driver.Sig
import Driver.Export
import Driver.Schema
import Driver.SchemaRows
import Driver.Cli
import Driver.Carve
import Driver.SpecPage
import Driver.WalIndex
import Driver.Iface

open SqliteDissect

def dispatch (toks : List String) : IO String := do
  match toks with
  | [] => pure "bad-op"
  | op :: _ =>
    let r : Option String ←
      if op.startsWith "export." then pure (Driver.Export.handle toks)
      else if op == "ddl.row" || op == "ddl.schema" || op == "ddl.rowconsts" then pure (Driver.SchemaRows.handle toks)
      else if op.startsWith "ddl." || op == "spec.affinity" || op.startsWith "spec.ddl" then
        pure (Driver.Schema.handle toks)
      else if op.startsWith "sig." || op.startsWith "re." then
        pure (Driver.Sig.handle toks)
      else if op.startsWith "cli." then pure (Driver.Cli.handle toks)
      else if op == "spec.page" then pure (Driver.SpecPage.handle toks)
      else if op.startsWith "spec.local" || op.startsWith "spec.cell" || op.startsWith "spec.ptrmap" || op.startsWith "spec.hdr" then
        pure (Driver.Arith.handle toks)
      else if op.startsWith "varint." || op.startsWith "serial." || op.startsWith "overflow." || op.startsWith "spec." then
        pure (Driver.Codec.handle toks)
      else if op == "hdr.walindex" || op.startsWith "walindex." then
        (try Driver.WalIndex.handle toks catch e => pure (some s!"io-error {e}"))
      else if op.startsWith "cell." || op.startsWith "ptrmap." || op.startsWith "hdr." then
        pure (Driver.Arith.handle toks)
      else if op.startsWith "iface." then
        (try Driver.Iface.handle toks catch e => pure (some s!"io-error {e}"))
      else if op.startsWith "carve." then
        (try Driver.Carve.handle toks catch e => pure (some s!"io-error {e}"))
      else if op.startsWith "db." || op.startsWith "vh." then
        (try Driver.Db.handle toks catch e => pure (some s!"io-error {e}"))
      else pure none
    pure (r.getD "bad-op")

partial def loop (hin : IO.FS.Stream) (hout : IO.FS.Stream) : IO Unit := do
  let line ← hin.getLine
  if line.isEmpty then return ()
  let toks := (line.trimAscii.toString.splitOn " ").filter (· ≠ "")
  if toks == ["flush"] then
    hout.putStrLn "flushed"
    hout.flush
  else
    hout.putStrLn (← dispatch toks)
  loop hin hout

def main : IO Unit := do
  let hin ← IO.getStdin
  let hout ← IO.getStdout
  loop hin hout
  hout.flush
