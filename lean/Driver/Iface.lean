import Driver.Db
import SqliteDissect.Model.Interface

/-!
`iface.select <db path> <table|index> <name hex> [mem= strict= size=] frames=<n>`

`interface.select_all_from_table(name, Database(path))` / `select_all_from_index`: the database is
opened with the model, the entry is looked up by name among the entries of that kind, the b-tree at
its root page is constructed and its leaf cells aggregated.  Answer:
`ok <number of dictionary entries> <rowid or ->,<fnv-1a of the digest input in hex> …` (for `table`, when every
cell carries a row id, in the order of `sorted(…, key=row_id)`), `db:err <class>` when the database
is refused, `err <class>` otherwise.  Canonical forms must match `harness/props/ifacecheck.py`.
-/
namespace Driver.Iface
open SqliteDissect SqliteDissect.Model Driver

def hexNat (n : Nat) : String := String.ofList (Nat.toDigits 16 n)

def showCells (cells : List Cell) : String :=
  " ".intercalate (cells.map fun c => s!"{Driver.Db.optS toString c.rowid},{hexNat (Driver.Db.fnv c.digest)}")

def select (cfg : Config) (file : Buf) (kind : String) (name : List Nat) : String :=
  match openDatabase cfg file with
  | .error e => "db:" ++ errStr e
  | .ok (db, v) =>
    let res := if kind = "table" then selectAllFromTable v cfg.frames db.schema name
               else selectAllFromIndex v cfg.frames db.schema name
    match res with
    | .error e => errStr e
    | .ok (n, d) =>
      let cells := d.map (·.2)
      let cells := if kind = "table" ∧ cells.all (·.rowid.isSome) then sortedByRowid cells else cells
      let _ := n   -- number_of_cells is dropped by the two functions: only the dictionary values are returned
      (s!"ok {d.length} " ++ showCells cells).trimAsciiEnd.toString

def handle (toks : List String) : IO (Option String) := do
  match toks with
  | "iface.select" :: path :: kind :: nameHex :: rest =>
    if kind ≠ "table" ∧ kind ≠ "index" then pure none
    else
      match parseHex nameHex with
      | none => pure none
      | some nm =>
        let data ← IO.FS.readBinFile path
        pure (some (select (Driver.Db.parseCfg rest) (Buf.ofByteArray data) kind nm))
  | _ => pure none

end Driver.Iface
