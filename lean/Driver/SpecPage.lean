import Driver.Util
import SqliteDissect.Spec.PageWrite

/-! `spec.page`: run the executable page specification (`Spec.pageLaidOutB`, proved equivalent to
`Spec.PageLaidOut` in Proofs/PageCheck.lean) on a page SQLite wrote, with the layout an independent
reader of the file extracted from it. -/
namespace Driver.SpecPage
open SqliteDissect SqliteDissect.Model Driver

def parseNats (s : String) : Option (List Nat) :=
  if s = "-" then some [] else (s.splitOn ",").mapM (·.toNat?)

def parseCols (s : String) : Option (List Spec.Col) :=
  if s = "." then some [] else (s.splitOn "/").mapM fun c =>
    match c.splitOn ":" with
    | [st, hex] => do
      let st ← st.toInt?
      let content ← (if hex = "-" then some [] else parseHex hex)
      some ({ st, content } : Spec.Col)
    | _ => none

/-- `TL;rowid;ovfl;cols` · `TI;left;key` · `IL;ovfl;cols` · `II;left;ovfl;cols` -/
def parseCell (s : String) : Option Spec.CellSpec :=
  match s.splitOn ";" with
  | ["TL", rowid, ov, cols] => do some (.tableLeaf (← rowid.toInt?) (← parseCols cols) (← parseNats ov))
  | ["TI", lc, key] => do some (.tableInterior (← lc.toNat?) (← key.toInt?))
  | ["IL", ov, cols] => do some (.indexLeaf (← parseCols cols) (← parseNats ov))
  | ["II", lc, ov, cols] => do some (.indexInterior (← lc.toNat?) (← parseCols cols) (← parseNats ov))
  | _ => none

def parseKind : String → Option PageType
  | "tableLeaf" => some .tableLeaf
  | "tableInterior" => some .tableInterior
  | "indexLeaf" => some .indexLeaf
  | "indexInterior" => some .indexInterior
  | _ => none

def parsePairs (s : String) : Option (List (Nat × Nat)) :=
  if s = "-" then some [] else (s.splitOn ",").mapM fun p =>
    match p.splitOn ":" with
    | [a, b] => do some ((← a.toNat?), (← b.toNat?))
    | _ => none

def handle : List String → Option String
  | ["spec.page", u, hoff, kind, cs, frag, rm, ptrs, fbs, cells, hex] => do
      let u ← u.toNat?
      let L : Spec.PageLayout := {
        hoff := ← hoff.toNat?, kind := ← parseKind kind, contentStart := ← cs.toNat?, fragBytes := ← frag.toNat?,
        rightMost := ← rm.toNat?, ptrs := ← parseNats ptrs, freeblocks := ← parsePairs fbs,
        cells := ← (if cells = "-" then some [] else (cells.splitOn "|").mapM parseCell) }
      let bytes ← parseHex hex
      pure s!"ok {Spec.pageLaidOutB u bytes L}"
  | _ => none

end Driver.SpecPage
