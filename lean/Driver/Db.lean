import Driver.Util
import SqliteDissect.Model.History

namespace Driver.Db
open SqliteDissect SqliteDissect.Model Driver

def optS {α : Type} (f : α → String) : Option α → String
  | some a => f a
  | none => "-"

def joinWith (sep : String) (l : List String) : String := sep.intercalate l

def showCol (c : RecordCol) : String :=
  s!"{c.serialType}:{c.varintLen}:{c.contentSize}:{showVal c.value}"

def showCell (c : Cell) : String :=
  let ov := joinWith "," (c.overflowPages.map fun o => s!"{o.number}:{o.contentLength}")
  let rec_ := match c.record with
    | some r => s!"/h{r.headerSize}:{r.headerVarintLen}/cols[{joinWith "," (r.cols.map showCol)}]"
    | none => "/h-/cols[]"
  s!"{c.index}@{c.start}-{c.end_}/bs{c.byteSize}/lc{optS toString c.leftChild}/r{optS toString c.rowid}/p{optS toString c.payloadSize}/b{optS toString c.bytesOnFirst}/ov[{ov}]{rec_}/d{hexOrDash c.digest}"

def showPage (p : BPage) : String :=
  let cells := joinWith "|" (p.cells.map showCell)
  let fbs := joinWith "," (p.freeblocks.map fun f => s!"{f.index}@{f.start}+{f.byteSize}n{f.next}")
  let fgs := joinWith "," (p.fragments.map fun f => s!"{f.index}@{f.start}-{f.end_}")
  s!"P{p.number}:{p.ptype.name}:v{p.pageVersion}:off{p.offset}:ff{p.hdr.firstFreeblock}:nc{p.hdr.nCells}:cco{p.hdr.cellContentOffset}:fr{p.hdr.fragBytes}:rm{optS toString p.hdr.rightMost}:ua{p.unallocStart}-{p.unallocEnd}:cells[{cells}]:fb[{fbs}]:fg[{fgs}]"

def showTree (t : List BPage) : String := joinWith "\x01" (t.map showPage)

def showHdr (h : DbHeader) : String :=
  s!"ps={h.pageSize},wv={h.writeVersion},rv={h.readVersion},rb={h.reservedBytes},mx={h.maxFraction},mn={h.minFraction},lf={h.leafFraction},cc={h.changeCounter},sz={h.sizeInPages},ft={h.firstFreelistTrunk},fp={h.freelistPages},sc={h.schemaCookie},sf={h.schemaFormat},dc={h.defaultCacheSize},lr={h.largestRoot},te={h.textEncoding},uv={h.userVersion},iv={h.incrementalVacuum},ai={h.applicationId},vv={h.versionValidFor},sv={h.sqliteVersion}"

def showSchemaRow (r : SchemaRow) : String :=
  s!"{r.rowid}:{r.rowType}:{hexOrDash r.name}:{hexOrDash r.tableName}:{showVal r.rootPage}:{optS hexOrDash r.sql}:pg{r.leafPage}"

def natList (l : List Nat) : String := joinWith "," (l.map toString)

def showDb (db : Database) : List String :=
  [ "hdr=" ++ showHdr db.hdr,
    s!"size={db.dbSize.num}/{db.dbSize.den}",
    s!"enc={db.encoding}",
    "freelist=" ++ joinWith "|" (db.freelist.map fun t => s!"{t.number}:{t.next}:[{natList t.leaves}]"),
    "flnums=" ++ natList db.freelistPageNumbers,
    "ptrmap=" ++ joinWith "|" (db.ptrmap.map fun p =>
        s!"{p.number}:{p.nEntries}:" ++ joinWith "," (p.entries.map fun e => s!"{e.pageNumber}/{e.ptype}/{e.parent}")),
    "schema=" ++ joinWith "|" (db.schema.entries.map showSchemaRow),
    "schemapages=" ++ joinWith "," (db.schema.pages.map fun pn => s!"{pn.1}:{pn.2}"),
    "roots=" ++ natList db.schema.rootNumbers,
    "updbt=" ++ natList db.updatedBTreePages,
    "tree1=" ++ showTree db.rootTree ]

def parseCfg (toks : List String) : Config :=
  toks.foldl (fun (c : Config) t =>
    match t.splitOn "=" with
    | ["mem", v] => { c with storeInMemory := v = "1" }
    | ["strict", v] => { c with strict := v = "1" }
    | ["size", v] => { c with givenSize := v.toNat? }
    | ["frames", v] => { c with frames := v.toNat?.getD c.frames }
    | ["walsize", v] => { c with givenWalSize := v.toNat? }
    | _ => c) {}

/-- full dump of a database file: Database.__init__, then the page census, then every root's
tree.  Sections are separated by U+0002 so the harness can find the first divergence. -/
def dumpDb (cfg : Config) (file : Buf) (withTrees : Bool) : String :=
  match openDatabase cfg file with
  | .error e => errStr e
  | .ok (db, v) =>
    let base := showDb db
    -- store_in_memory parses the census inside the constructor: its error is the constructor's
    let census := pagesCensus db v cfg.frames
    match census with
    | .error e => if cfg.storeInMemory then errStr e else "ok " ++ joinWith "\x02" (base ++ ["census=" ++ errStr e])
    | .ok d =>
      let cs := "census=" ++ joinWith "," (d.map fun pn => s!"{pn.1}:{pn.2}")
      let trees := if withTrees then
          db.schema.rootNumbers.map fun r =>
            match getBTreeRoot v cfg.frames r with
            | .ok t => s!"tree{r}=" ++ showTree t
            | .error e => s!"tree{r}=" ++ errStr e
        else []
      "ok " ++ joinWith "\x02" (base ++ [cs] ++ trees)

def pairList (l : List (Nat × Nat)) : String := joinWith "," (l.map fun e => s!"{e.1}:{e.2}")

def b01 (b : Bool) : String := if b then "1" else "0"

def showFlags (f : HeaderFlags) : String :=
  s!"cc{b01 f.changeCounterIncremented},sz{b01 f.sizeModified},ft{optS toString f.modFirstTrunk},fp{optS toString f.modFreelistPages},lr{optS toString f.modLargestRoot},ck{b01 f.cookieModified},sf{b01 f.formatModified},te{b01 f.encodingModified},uv{b01 f.userVersionModified}"

/-- sections of one version of a history -/
def showVersion (cfg : Config) (ver : Version) (v : VersionIf) (withTrees : Bool) : List String :=
  let k := ver.number
  let pre :=
    [ s!"V{k}.hdr=" ++ showHdr ver.hdr,
      s!"V{k}.size={ver.dbSize}",
      s!"V{k}.ps={ver.pageSize}",
      s!"V{k}.enc={ver.encoding}",
      s!"V{k}.updated=" ++ natList ver.updated,
      s!"V{k}.pvi=" ++ pairList ver.pvi,
      s!"V{k}.pfi=" ++ pairList ver.pfi,
      s!"V{k}.mod=h{b01 ver.hdrModified}r{b01 ver.rootModified}s{b01 ver.schemaModified}f{b01 ver.freelistModified}p{b01 ver.ptrmapModified}",
      s!"V{k}.flags=" ++ showFlags ver.flags,
      s!"V{k}.freelist=" ++ joinWith "|" (ver.freelist.map fun t => s!"{t.number}:{t.next}:[{natList t.leaves}]"),
      s!"V{k}.flnums=" ++ natList ver.freelistNumbers,
      s!"V{k}.ptrmap=" ++ joinWith "|" (ver.ptrmap.map fun p =>
          s!"{p.number}:{p.nEntries}:" ++ joinWith "," (p.entries.map fun e => s!"{e.pageNumber}/{e.ptype}/{e.parent}")) ]
  match observedSchema ver v cfg.frames with
  | .error e => pre ++ [s!"V{k}.schema=" ++ errStr e]
  | .ok (rootTree, schema) =>
    let census := versionCensus ver v cfg.frames
    let cs := match census with
      | .ok d => s!"V{k}.census=" ++ joinWith "," (d.map fun pn => s!"{pn.1}:{pn.2}")
      | .error e => s!"V{k}.census=" ++ errStr e
    let trees := if withTrees ∧ census.isOk then
        schema.rootNumbers.map fun r =>
          match getBTreeRoot v cfg.frames r with
          | .ok t => s!"V{k}.tree{r}=" ++ showTree t
          | .error e => s!"V{k}.tree{r}=" ++ errStr e
      else []
    pre ++
    [ s!"V{k}.schema=" ++ joinWith "|" (schema.entries.map showSchemaRow),
      s!"V{k}.schemapages=" ++ joinWith "," (schema.pages.map fun pn => s!"{pn.1}:{pn.2}"),
      s!"V{k}.roots=" ++ natList schema.rootNumbers,
      s!"V{k}.updbt=" ++ natList ver.updatedBTree,
      s!"V{k}.tree1=" ++ showTree rootTree,
      cs ] ++ trees

def showWal (w : Wal) : List String :=
  [ s!"wal.hdr=m{w.hdr.magic},fv{w.hdr.formatVersion},ps{w.hdr.pageSize},cs{w.hdr.checkpointSeq},s1{w.hdr.salt1},s2{w.hdr.salt2},c1{w.hdr.checksum1},c2{w.hdr.checksum2}",
    s!"wal.nframes={w.nFrames}",
    "wal.frames=" ++ joinWith "|" (w.frames.map fun f =>
      s!"{f.index}:p{f.hdr.pageNumber}:sz{f.hdr.sizeAfterCommit}:s{f.hdr.salt1}/{f.hdr.salt2}:c{f.hdr.checksum1}/{f.hdr.checksum2}:cr{optS toString f.commitRecordNumber}"),
    "wal.invalid=" ++ joinWith "|" (w.invalid.map fun f => s!"{f.index}:p{f.hdr.pageNumber}:sz{f.hdr.sizeAfterCommit}:s{f.hdr.salt1}/{f.hdr.salt2}"),
    "wal.invidx=" ++ joinWith "," (w.invalidIndices.map fun e => s!"{e.1}:{e.2.1}-{e.2.2}") ]

/-- Database(db), WriteAheadLog(wal), VersionHistory(db, wal): the first failing constructor's
error class, or every version's sections -/
def dumpHistory (cfg : Config) (dbFile : Buf) (walFile : Option Buf) (withTrees : Bool) : String :=
  match openDatabase cfg dbFile with
  | .error e => "db:" ++ errStr e
  | .ok (db, dbv) =>
    let walR : Py (Option Wal) := match walFile with
      | none => .ok none
      | some wf => (openWal cfg.givenWalSize wf).map some
    match walR with
    | .error e => "wal:" ++ errStr e
    | .ok w =>
      match versionHistory cfg db dbv w with
      | .error e => "vh:" ++ errStr e
      | .ok vs =>
        let walSecs := match w with
          | some w => showWal w
          | none => []
        "ok " ++ joinWith "\x02" (walSecs ++ [s!"nversions={vs.length}"] ++ vs.flatMap fun (ver, v) => showVersion cfg ver v withTrees)

def fnv (l : List Nat) : Nat :=
  l.foldl (fun h b => ((h ^^^ b) * 1099511628211) % 18446744073709551616) 14695981039346656037

def showHCell (c : Cell) : String := s!"{optS toString c.rowid}/{fnv c.digest}"

def showCommit (c : Commit) : String :=
  s!"C{c.version}:root{c.rootPage}:upd{b01 c.bTreeUpdated}:pages[{natList c.pageNumbers}]:updpages[{natList c.updatedPageNumbers}]:A[{joinWith "," (c.added.map showHCell)}]:U[{joinWith "," (c.updated.map showHCell)}]:D[{joinWith "," (c.deleted.map showHCell)}]"

/-- get_version_history_iterator(name, VersionHistory(db, wal)) iterated to the end -/
def dumpIter (cfg : Config) (dbFile : Buf) (walFile : Option Buf) (name : List Nat) (isTable : Bool) : String :=
  match openDatabase cfg dbFile with
  | .error e => "db:" ++ errStr e
  | .ok (db, dbv) =>
    let walR : Py (Option Wal) := match walFile with
      | none => .ok none
      | some wf => (openWal cfg.givenWalSize wf).map some
    match walR with
    | .error e => "wal:" ++ errStr e
    | .ok w =>
      match versionHistory cfg db dbv w with
      | .error e => "vh:" ++ errStr e
      | .ok vs =>
        match db.schema.entries.filter (fun e => e.name = name) |>.getLast? with
        | none => "err keyError"
        | some e =>
          match iterateEntry cfg.frames isTable vs e.ident with
          | .error er => "iter:" ++ errStr er
          | .ok cs => "ok " ++ joinWith "\x02" (cs.map showCommit)

def handle (toks : List String) : IO (Option String) := do
  match toks with
  | "db.dump" :: path :: rest =>
    let data ← IO.FS.readBinFile path
    pure (some (dumpDb (parseCfg rest) (Buf.ofByteArray data) true))
  | "db.open" :: path :: rest =>
    let data ← IO.FS.readBinFile path
    pure (some (dumpDb (parseCfg rest) (Buf.ofByteArray data) false))
  | "vh.iter" :: path :: walPath :: nameHex :: kind :: rest =>
    let data ← IO.FS.readBinFile path
    let wdata ← (if walPath = "-" then pure none else do
      let d ← IO.FS.readBinFile walPath
      pure (some (Buf.ofByteArray d)))
    match parseHex nameHex with
    | none => pure none
    | some nm => pure (some (dumpIter (parseCfg rest) (Buf.ofByteArray data) wdata nm (kind = "table")))
  | "vh.dump" :: path :: walPath :: rest =>
    let data ← IO.FS.readBinFile path
    let wdata ← (if walPath = "-" then pure none else do
      let d ← IO.FS.readBinFile walPath
      pure (some (Buf.ofByteArray d)))
    let cfg := parseCfg rest
    pure (some (dumpHistory cfg (Buf.ofByteArray data) wdata (¬ rest.contains "trees=0")))
  | _ => pure none

end Driver.Db
