import Driver.Util
import SqliteDissect.Model.Database

namespace Driver.Db
open SqliteDissect SqliteDissect.Model Driver

def optS {α : Type} (f : α → String) : Option α → String
  | some a => f a
  | none => "-"

def joinWith (sep : String) (l : List String) : String := sep.intercalate l

def showCol (c : RecordCol) : String :=
  s!"{c.serialType}:{c.varintLen}:{c.contentSize}:{showVal c.value}"

def showCell (c : Cell) : String :=
  let ov := joinWith "," (c.overflowPages.map fun o => s!"{o.number}:{o.contentLength}")
  let rec_ := match c.record with
    | some r => s!"/h{r.headerSize}:{r.headerVarintLen}/cols[{joinWith "," (r.cols.map showCol)}]"
    | none => "/h-/cols[]"
  s!"{c.index}@{c.start}-{c.end_}/bs{c.byteSize}/lc{optS toString c.leftChild}/r{optS toString c.rowid}/p{optS toString c.payloadSize}/b{optS toString c.bytesOnFirst}/ov[{ov}]{rec_}/d{hexOrDash c.digest}"

def showPage (p : BPage) : String :=
  let cells := joinWith "|" (p.cells.map showCell)
  let fbs := joinWith "," (p.freeblocks.map fun f => s!"{f.index}@{f.start}+{f.byteSize}n{f.next}")
  let fgs := joinWith "," (p.fragments.map fun f => s!"{f.index}@{f.start}-{f.end_}")
  s!"P{p.number}:{p.ptype.name}:v{p.pageVersion}:off{p.offset}:ff{p.hdr.firstFreeblock}:nc{p.hdr.nCells}:cco{p.hdr.cellContentOffset}:fr{p.hdr.fragBytes}:rm{optS toString p.hdr.rightMost}:ua{p.unallocStart}-{p.unallocEnd}:cells[{cells}]:fb[{fbs}]:fg[{fgs}]"

def showTree (t : List BPage) : String := joinWith "\x01" (t.map showPage)

def showHdr (h : DbHeader) : String :=
  s!"ps={h.pageSize},wv={h.writeVersion},rv={h.readVersion},rb={h.reservedBytes},mx={h.maxFraction},mn={h.minFraction},lf={h.leafFraction},cc={h.changeCounter},sz={h.sizeInPages},ft={h.firstFreelistTrunk},fp={h.freelistPages},sc={h.schemaCookie},sf={h.schemaFormat},dc={h.defaultCacheSize},lr={h.largestRoot},te={h.textEncoding},uv={h.userVersion},iv={h.incrementalVacuum},ai={h.applicationId},vv={h.versionValidFor},sv={h.sqliteVersion}"

def showSchemaRow (r : SchemaRow) : String :=
  s!"{r.rowid}:{r.rowType}:{hexOrDash r.name}:{hexOrDash r.tableName}:{showVal r.rootPage}:{optS hexOrDash r.sql}:pg{r.leafPage}"

def natList (l : List Nat) : String := joinWith "," (l.map toString)

def showDb (db : Database) : List String :=
  [ "hdr=" ++ showHdr db.hdr,
    s!"size={db.dbSize.num}/{db.dbSize.den}",
    s!"enc={db.encoding}",
    "freelist=" ++ joinWith "|" (db.freelist.map fun t => s!"{t.number}:{t.next}:[{natList t.leaves}]"),
    "flnums=" ++ natList db.freelistPageNumbers,
    "ptrmap=" ++ joinWith "|" (db.ptrmap.map fun p =>
        s!"{p.number}:{p.nEntries}:" ++ joinWith "," (p.entries.map fun e => s!"{e.pageNumber}/{e.ptype}/{e.parent}")),
    "schema=" ++ joinWith "|" (db.schema.entries.map showSchemaRow),
    "schemapages=" ++ joinWith "," (db.schema.pages.map fun pn => s!"{pn.1}:{pn.2}"),
    "roots=" ++ natList db.schema.rootNumbers,
    "updbt=" ++ natList db.updatedBTreePages,
    "tree1=" ++ showTree db.rootTree ]

def parseCfg (toks : List String) : Config :=
  toks.foldl (fun (c : Config) t =>
    match t.splitOn "=" with
    | ["mem", v] => { c with storeInMemory := v = "1" }
    | ["strict", v] => { c with strict := v = "1" }
    | ["size", v] => { c with givenSize := v.toNat? }
    | ["frames", v] => { c with frames := v.toNat?.getD c.frames }
    | _ => c) {}

/-- full dump of a database file: Database.__init__, then the page census, then every root's
tree.  Sections are separated by U+0002 so the harness can find the first divergence. -/
def dumpDb (cfg : Config) (file : Buf) (withTrees : Bool) : String :=
  match openDatabase cfg file with
  | .error e => errStr e
  | .ok (db, v) =>
    let base := showDb db
    -- store_in_memory parses the census inside the constructor: its error is the constructor's
    let census := pagesCensus db v cfg.frames
    match census with
    | .error e => if cfg.storeInMemory then errStr e else "ok " ++ joinWith "\x02" (base ++ ["census=" ++ errStr e])
    | .ok d =>
      let cs := "census=" ++ joinWith "," (d.map fun pn => s!"{pn.1}:{pn.2}")
      let trees := if withTrees then
          db.schema.rootNumbers.map fun r =>
            match getBTreeRoot v cfg.frames r with
            | .ok t => s!"tree{r}=" ++ showTree t
            | .error e => s!"tree{r}=" ++ errStr e
        else []
      "ok " ++ joinWith "\x02" (base ++ [cs] ++ trees)

def handle (toks : List String) : IO (Option String) := do
  match toks with
  | "db.dump" :: path :: rest =>
    let data ← IO.FS.readBinFile path
    pure (some (dumpDb (parseCfg rest) (Buf.ofByteArray data) true))
  | "db.open" :: path :: rest =>
    let data ← IO.FS.readBinFile path
    pure (some (dumpDb (parseCfg rest) (Buf.ofByteArray data) false))
  | _ => pure none

end Driver.Db
