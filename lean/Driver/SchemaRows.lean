import Driver.Util
import Driver.Schema
import SqliteDissect.Model.SchemaRows

/-! `ddl.row` / `ddl.schema`: the schema-row classes other than the ordinary table and the way
`MasterSchema.__init__` builds its entries (C07).  Text travels as the hex of its UTF-8 bytes
("-" = empty, "null" = NULL where a NULL is possible). -/
namespace Driver.SchemaRows
open SqliteDissect SqliteDissect.Model SqliteDissect.Model.Schema SqliteDissect.Model.SchemaRows Driver Driver.Schema

def optStrOfHex (h : String) : Option (Option Str) :=
  if h == "null" then some none else (strOfHex h).map some

def rootOfTok (t : String) : Option (Option Int) :=
  if t == "null" then some none else t.toInt?.map some

def rowOfToks : List String → Option Row
  | [ty, name, tbl, root, sql] => do
      pure { rowType := ← strOfHex ty, name := ← strOfHex name, tblName := ← strOfHex tbl,
             root := ← rootOfTok root, sql := ← optStrOfHex sql }
  | _ => none

/-- `hex:flag,hex:flag`; flag 0 / 1 = `without_row_id` of an ordinary table, v = a virtual table -/
def tablesOfTok (t : String) : Option Tables :=
  if t == "-" then some [] else
    (t.splitOn ",").mapM fun item =>
      match item.splitOn ":" with
      | [h, f] => do
          let n ← strOfHex h
          let fl ← (if f == "0" then some (some false) else if f == "1" then some (some true)
                    else if f == "v" then some none else none)
          pure (n, fl)
      | _ => none

def showOptStr : Option Str → String
  | none => "null"
  | some s => hexOfStr s

def showRoot : Option Int → String
  | none => "null"
  | some i => toString i

def showComments (cs : List Str) : String := "[" ++ ",".intercalate (cs.map hexOfStr) ++ "]"

def showDetail : Detail → String
  | .ordinary t => "ordinary " ++ showTable t
  | .virtualTable m cs => s!"virtual module={hexOfStr m} comments={showComments cs} args=0"
  | .index i u p cs => s!"index internal={b01 i} unique={b01 u} partial={b01 p} comments={showComments cs}"
  | .view => "view"
  | .trigger => "trigger"

def showEntry (e : Entry) : String :=
  s!"type={hexOfStr e.row.rowType} name={hexOfStr e.row.name} tbl={hexOfStr e.row.tblName} root={showRoot e.row.root} sql={showOptStr e.row.sql} cmt={b01 e.hasComments} {showDetail e.detail}"

def showEntries (es : List Entry) : String :=
  s!"n={es.length}" ++ String.join (es.map fun e => " | " ++ showEntry e)

def handle : List String → Option String
  | "ddl.row" :: cls :: rest =>
      if cls == "index" then
        match rest with
        | [ty, name, tbl, root, sql, tables] => do
            let r ← rowOfToks [ty, name, tbl, root, sql]
            let ts ← tablesOfTok tables
            pure (showPy showEntry (indexRow r ts))
        | _ => none
      else do
        let r ← rowOfToks rest
        if cls == "virtual" then pure (showPy showEntry (virtualRow r))
        else if cls == "view" then pure (showPy showEntry (viewRow r))
        else if cls == "trigger" then pure (showPy showEntry (triggerRow r))
        else if cls == "table" then pure (showPy showEntry (tableEntry r))
        else none
  | ["ddl.schema", rows] => do
      let rs ← (if rows == "-" then some [] else
        (rows.splitOn ",").mapM fun item => rowOfToks (item.splitOn ":"))
      pure (showPy showEntries (buildEntries rs))
  | ["ddl.rowconsts"] =>
      some (" ".intercalate ([kTable, kIndex, kView, kTrigger, createIndex, createUniqueIndex, createVirtualTable, kON,
        kWHERE, kUSING, sqlitePrefix, autoindexPrefix].map hexOfStr))
  | _ => none

end Driver.SchemaRows
