import Driver.Util
import SqliteDissect.Model.Signature
import SqliteDissect.Model.Regex

/-!
Driver operations for C10.

```
sig.build <kind o|w|v|i> <affinities e.g. ITBRNX or -> <versions>     → ok <canonical dump> | err <class>
   versions: `none` (entry not in the version range) | `.` (no version) |
             versions separated by `/`, each `-` (no cell) or rows separated by `;`,
             each row `<t1>,<t2>,…#<digest>` (no type = zero columns)
sig.regex <signature> <skip 0|1>          → ok <hex of the regex bytes> | err parseError
   signature: `-` (no column) | columns separated by `;`, each `e` (empty array) or `t1,t2,…`
re.fullmatch <signature> <skip> <hex>      → true | false | err parseError
re.search    <signature> <skip> <hex>      → none | ok <start>-<end> | err parseError
re.finditer  <signature> <skip> <hex>      → ok <s-e,s-e,…|-> | err parseError
```
-/
namespace Driver.Sig
open SqliteDissect SqliteDissect.Model SqliteDissect.Model.Signature Driver

def parseInts (s : String) : Option (List Int) :=
  if s = "" then some [] else (s.splitOn ",").mapM String.toInt?

def parseRec (s : String) : Option Rec :=
  match s.splitOn "#" with
  | [ts, d] => do
      let types ← parseInts ts
      let digest ← d.toNat?
      pure ⟨digest, types⟩
  | _ => none

def parseVersion (s : String) : Option (List Rec) :=
  if s = "-" then some [] else (s.splitOn ";").mapM parseRec

def parseVersions (s : String) : Option (Option (List (List Rec))) :=
  if s = "none" then some none
  else if s = "." then some (some [])
  else (fun v => some v) <$> (s.splitOn "/").mapM parseVersion

def parseAff (c : Char) : Option Affinity :=
  if c = 'I' then some .integer else if c = 'R' then some .real else if c = 'T' then some .text
  else if c = 'B' then some .blob else if c = 'N' then some .numeric else if c = 'X' then some .other
  else none

def parseAffs (s : String) : Option (List Affinity) :=
  if s = "-" then some [] else s.toList.mapM parseAff

def parseKind (s : String) : Option EntryKind :=
  if s = "o" then some .ordinary else if s = "w" then some .withoutRowid
  else if s = "v" then some .virtualTable else if s = "i" then some .index else none

def parseSignature (s : String) : Option (List (List Int)) :=
  if s = "-" then some []
  else (s.splitOn ";").mapM fun c => if c = "e" then some [] else parseInts c

def orDash (s : String) : String := if s = "" then "-" else s

def showInts (l : List Int) : String := orDash (",".intercalate (l.map toString))

def showCols (l : List (List Int)) : String := orDash ("|".intercalate (l.map showInts))

/-- a probability `float(num)/den`; `den = 0` is the integer `0` of `… if self.unique_records else 0` -/
def showFrac (n d : Nat) : String := if d = 0 then "0" else s!"{n}/{d}"

def showProb (l : List (Int × Nat × Nat)) : String :=
  orDash (",".intercalate (l.map fun e => s!"{e.1}:{showFrac e.2.1 e.2.2}"))

def showSig (s : Sig) : String :=
  let alt := match s.altered with | none => "-" | some b => if b then "1" else "0"
  let bd := match s.breakdown with
    | none => "none"
    | some l => orDash (",".intercalate (l.map fun (e : Nat × Nat × Nat × Nat) => s!"{e.1}:{e.2.1}:{showFrac e.2.2.1 e.2.2.2}"))
  let rows := orDash (";".intercalate (s.rows.map fun r => s!"{r.key}:{r.count}:{r.cols.length}"))
  let tcs := orDash ("|".intercalate (s.tableCols.map fun t => s!"{t.index}:{t.count}"))
  s!"nc={s.numberOfColumns} tot={s.total} uniq={s.unique} alt={alt} bd={bd} rows={rows} tcs={tcs} " ++
  s!"f={showCols s.focused} s={showCols s.simplified} " ++
  s!"fp={orDash ("|".intercalate (s.focusedProb.map showProb))} " ++
  s!"sp={orDash ("|".intercalate (s.simplifiedProb.map showProb))} " ++
  s!"rec={showCols s.recommendedSchema} cmp={showCols s.completeSchema}"

def withPat (sig skip : String) (f : Regex.Pat → String) : Option String := do
  let sg ← parseSignature sig
  let sk ← if skip = "1" then some true else if skip = "0" then some false else none
  pure (match Regex.genSignature sg sk with
    | .ok p => f p
    | .error e => errStr e)

def handle : List String → Option String
  | ["sig.build", kind, affs, versions] => do
      let k ← parseKind kind
      let a ← parseAffs affs
      let v ← parseVersions versions
      pure (showPy showSig (build ⟨k, a, v⟩))
  | ["sig.regex", sig, skip] => withPat sig skip fun p => "ok " ++ hexOrDash (Regex.print p)
  | ["re.fullmatch", sig, skip, hex] => do
      let s ← parseHex hex
      withPat sig skip fun p => if Regex.fullMatch p s then "true" else "false"
  | ["re.search", sig, skip, hex] => do
      let s ← parseHex hex
      withPat sig skip fun p => match Regex.search p s with
        | some (a, b) => s!"ok {a}-{b}"
        | none => "none"
  | ["re.finditer", sig, skip, hex] => do
      let s ← parseHex hex
      withPat sig skip fun p =>
        "ok " ++ orDash (",".intercalate ((Regex.finditer p s).map fun (a, b) => s!"{a}-{b}"))
  | _ => none

end Driver.Sig
