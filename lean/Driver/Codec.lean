import Driver.Util
import SqliteDissect.Spec.Varint
import SqliteDissect.Spec.SerialType

namespace Driver.Codec
open SqliteDissect SqliteDissect.Model Driver

def handle : List String → Option String
  | ["varint.dec", hex, off] => do
      let b ← bufOfHex hex
      let o ← off.toNat?
      pure (showPy (fun (v, n) => s!"{v} {n}") (decodeVarint b o))
  | ["varint.enc", i] => do
      let v ← i.toInt?
      pure (showPy hexOfList (encodeVarint v))
  | ["varint.rev", hex, off, mx] => do
      let b ← bufOfHex hex
      let o ← off.toNat?
      let m ← mx.toNat?
      pure (showPy (fun (v, s) => s!"{v} {s}") (decodeVarintRev b o m))
  | ["serial.size", st] => do
      let s ← st.toInt?
      pure (showPy toString (getContentSize s))
  | ["serial.sig", st] => do
      let s ← st.toInt?
      pure s!"ok {serialTypeSignature s}"
  | ["serial.content", st, hex, off] => do
      let s ← st.toInt?
      let b ← bufOfHex hex
      let o ← off.toNat?
      pure (showPy (fun (n, v) => s!"{n} {showVal v}") (getRecordContent s b o))
  | ["serial.body", hex] => do
      let b ← bufOfHex hex
      pure (showPy toString (calcBodyContentSize b))
  | ["overflow.expected", n, ps] => do
      let n ← n.toInt?
      let p ← ps.toNat?
      pure (match calcExpectedOverflow n p with
        | some (a, b) => s!"ok {a} {b}"
        | none => "diverges")
  | ["spec.putvarint", u] => do
      let u ← u.toNat?
      pure s!"ok {hexOfList (Spec.putVarint u)}"
  | ["spec.getvarint", hex] => do
      let l ← parseHex hex
      pure (match Spec.getVarint l with
        | some (u, n) => s!"ok {Spec.toI64 u} {n}"
        | none => "none")
  | ["spec.seriallen", st] => do
      let s ← st.toInt?
      pure (match Spec.serialTypeLen s with | some n => s!"ok {n}" | none => "none")
  | ["spec.serialget", st, hex] => do
      let s ← st.toInt?
      let l ← parseHex hex
      pure (match Spec.serialGet s l with | some v => s!"ok {showVal v}" | none => "none")
  | _ => none

end Driver.Codec
