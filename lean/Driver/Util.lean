import SqliteDissect.Bytes
import SqliteDissect.Model.Codec

namespace Driver
open SqliteDissect SqliteDissect.Model

def errStr (e : PyErr) : String := "err " ++ e.name

def showPy {α : Type} (f : α → String) : Py α → String
  | .ok a => "ok " ++ f a
  | .error e => errStr e

def hexOrDash (l : List Nat) : String := if l.isEmpty then "-" else hexOfList l

def showVal : Val → String
  | .null => "null"
  | .int i => "int:" ++ toString i
  | .real b => "real:" ++ toString b
  | .blob l => "blob:" ++ hexOrDash l
  | .text l => "text:" ++ hexOrDash l

def bufOfHex (s : String) : Option Buf := (parseHexBA s).map Buf.ofByteArray

end Driver
