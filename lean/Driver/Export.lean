/-
Driver operations for the exporter model (C11).

Wire forms
  bytes            hex, "-" for empty
  code points      6 hex digits per code point, "-" for empty           (cphex)
  Python object    N | I<int> | F<bits> | B<hex> | A<hex> | S<cphex> | M<hex>
                   (None, int, float by bit pattern, bytes, bytearray, str, memoryview)
  encoding         utf-8 | utf-16-le | utf-16-be
  page type        tableLeaf | tableInterior | indexLeaf | other
  fs=…             Python's repr of the floats involved: fs=<bits>:<cphex>,…  or fs=-
-/
import Driver.Util
import SqliteDissect.Model.Export

namespace Driver.Export
open SqliteDissect SqliteDissect.Model SqliteDissect.Model.Export Driver

def cpHex (s : List Nat) : String :=
  if s.isEmpty then "-" else hexOfList (s.flatMap fun c => [c / 65536 % 256, c / 256 % 256, c % 256])

def groupCp : List Nat → Option (List Nat)
  | [] => some []
  | a :: b :: c :: rest => (groupCp rest).map fun r => (a * 65536 + b * 256 + c) :: r
  | _ => none

def parseCp (s : String) : Option (List Nat) := (parseHex s).bind groupCp

def parseEnc : String → Option Enc
  | "utf-8" => some .utf8
  | "utf-16-le" => some .utf16le
  | "utf-16-be" => some .utf16be
  | _ => none

def parsePt : String → Option PageType
  | "tableLeaf" => some .tableLeaf
  | "tableInterior" => some .tableInterior
  | "indexLeaf" => some .indexLeaf
  | "other" => some .other
  | _ => none

def parseObj (s : String) : Option PyObj :=
  match s.toList with
  | 'N' :: [] => some .none
  | 'I' :: r => (String.ofList r).toInt?.map .int
  | 'F' :: r => (String.ofList r).toNat?.map .float
  | 'B' :: r => (parseHex (String.ofList r)).map .bytes
  | 'A' :: r => (parseHex (String.ofList r)).map .bytearray
  | 'M' :: r => (parseHex (String.ofList r)).map .memoryview
  | 'S' :: r => (parseCp (String.ofList r)).map .str
  | _ => none

def showObj : PyObj → String
  | .none => "N"
  | .int i => s!"I{i}"
  | .float b => s!"F{b}"
  | .bytes b => "B" ++ hexOrDash b
  | .bytearray b => "A" ++ hexOrDash b
  | .memoryview b => "M" ++ hexOrDash b
  | .str s => "S" ++ cpHex s

def parseVal (s : String) : Option Val :=
  match s.splitOn ":" with
  | ["null"] => some .null
  | ["int", i] => i.toInt?.map .int
  | ["real", b] => b.toNat?.map .real
  | ["blob", h] => (parseHex h).map .blob
  | ["text", h] => (parseHex h).map .text
  | _ => none

/-- fs=<bits>:<cphex>,… -/
def parseFs (s : String) : Option (Nat → List Nat) :=
  match s.splitOn "=" with
  | ["fs", "-"] => some fun _ => cps "<float>"
  | ["fs", body] => do
      let pairs ← (body.splitOn ",").mapM fun p =>
        match p.splitOn ":" with
        | [b, h] => do
            let b ← b.toNat?
            let h ← parseCp h
            pure (b, h)
        | _ => none
      pure fun bits => match pairs.find? (·.1 = bits) with
        | some (_, h) => h
        | none => cps "<float>"
  | _ => none

def parseCol (s : String) : Option Column :=
  match s.splitOn ":" with
  | [st, o] => do
      let st ← st.toInt?
      let o ← parseObj o
      pure ⟨st, o⟩
  | _ => none

/-- cols=<st>:<obj>;…  or cols=- -/
def parseCols (s : String) : Option (List Column) :=
  match s.splitOn "=" with
  | ["cols", "-"] => some []
  | ["cols", body] => (body.splitOn ";").mapM parseCol
  | _ => none

def parseNames (s : String) : Option (List (List Nat)) :=
  if s = "none" then some [] else (s.splitOn ",").mapM parseCp

def showRow (r : List PyObj) : String := " ".intercalate (r.map showObj)

def showRanges (l : List (Nat × Nat)) : String := ",".intercalate (l.map fun r => s!"{r.1}-{r.2}")

def parseIds (s : String) : Option (List PyObj) :=
  if s = "-" then some [] else (s.splitOn ",").mapM parseObj

def mkCell (i : Nat) (r : PyObj) : Cell :=
  ⟨PyObj.int i, PyObj.none, PyObj.none, PyObj.none, PyObj.none, PyObj.none, r, []⟩

def mkCells (ids : List PyObj) : List Cell := (List.range ids.length).zipWith mkCell ids

def opLetter (o : PyObj) : String :=
  if o = opAdded then "A" else if o = opUpdated then "U" else if o = opDeleted then "D" else "C"

def handle : List String → Option String
  | ["export.decode", enc, hex] => do
      let e ← parseEnc enc
      let b ← parseHex hex
      pure s!"ok {cpHex (decodeReplace e b)}"
  | ["export.bytesrepr", hex] => do
      let b ← parseHex hex
      pure s!"ok {cpHex (bytesRepr b)}"
  | ["export.bytearrayrepr", hex] => do
      let b ← parseHex hex
      pure s!"ok {cpHex (bytearrayRepr b)}"
  | ["export.scrub", s] => do
      let s ← parseCp s
      pure s!"ok {cpHex (scrub s)}"
  | ["export.illegal"] => pure s!"ok {showRanges Generated.illegalXmlRanges}"
  | ["export.ofval", v] => do
      let v ← parseVal v
      let c := Column.ofVal v
      pure s!"ok {c.serialType} {showObj c.value}"
  | ["export.render", fmt, enc, st, obj, fs] => do
      let e ← parseEnc enc
      let st ← st.toInt?
      let o ← parseObj obj
      let fs ← parseFs fs
      match fmt with
      | "csv" => pure (showPy showObj (renderCsv e ⟨st, o⟩))
      | "xlsx" => pure (showPy showObj (renderXlsx e ⟨st, o⟩))
      | "sqlite" => pure (showPy showObj (bindSqlite e ⟨st, o⟩))
      | "text" => pure (showPy (fun s => "S" ++ cpHex s) (textPiece fs e ⟨st, o⟩))
      | _ => none
  | ["export.row", fmt, enc, pt, ncols, ft, op, ver, pver, src, page, loc, off, rowid, cols, fs] => do
      let e ← parseEnc enc
      let pt ← parsePt pt
      let n ← ncols.toNat?
      let ft ← parseObj ft
      let op ← parseObj op
      let ver ← parseObj ver
      let pver ← parseObj pver
      let src ← parseObj src
      let page ← parseObj page
      let loc ← parseObj loc
      let off ← parseObj off
      let rowid ← parseObj rowid
      let cols ← parseCols cols
      let c : Cell := ⟨ver, pver, src, page, loc, off, rowid, cols⟩
      let fs ← parseFs fs
      match fmt with
      | "csv" => pure (showPy showRow (csvRow e pt ft op c))
      | "xlsx" => pure (showPy showRow (xlsxRow e pt ft op c))
      | "sqlite" => pure (showPy showRow (sqliteRow e pt n ft op c))
      | "text" => pure (showPy (fun s => "S" ++ cpHex s) (textLine fs e pt ft op c))
      | _ => none
  | ["export.headers", fmt, pt, nidx, names] => do
      let pt ← parsePt pt
      let n ← nidx.toNat?
      let names ← parseNames names
      match fmt with
      | "sqlite" => pure (showPy (fun hs => ",".intercalate (hs.map cpHex)) (sqliteHeaders pt names n))
      | _ => none
  | ["export.create", iso, name, pt, nidx, names] => do
      -- the CREATE TABLE statement of the SQLite export (identifiers quoted)
      let name ← parseCp name
      let pt ← parsePt pt
      let n ← nidx.toNat?
      let names ← parseNames names
      pure (showPy (fun hs => cpHex (createTableStatement (sqliteTableName (iso = "1") name) hs)) (sqliteHeaders pt names n))
  | ["export.insert", iso, name, n] => do
      let name ← parseCp name
      let n ← n.toNat?
      pure s!"ok {cpHex (insertStatement (sqliteTableName (iso = "1") name) n)}"
  | ["export.sheettitle", name] => do
      let name ← parseCp name
      pure s!"ok {cpHex (sheetTitle name)}"
  | ["export.csvstem", name] => do
      let name ← parseCp name
      pure s!"ok {cpHex (csvFileStem name)}"
  | ["export.stored", "xlsx", obj] => do
      let o ← parseObj obj
      pure (match xlsxStored o with
        | .empty => "ok empty"
        | .number o => s!"ok number {showObj o}"
        | .string s => s!"ok string {cpHex s}")
  | ["export.tablename", iso, name] => do
      let name ← parseCp name
      pure s!"ok {cpHex (sqliteTableName (iso = "1") name)}"
  | ["export.order", kind, a, u, d, c] => do
      let a ← parseIds a
      let u ← parseIds u
      let d ← parseIds d
      let c ← parseIds c
      let cm : Commit := ⟨true, PageType.tableLeaf, PyObj.none, Enc.utf8, mkCells a, mkCells u, mkCells d, mkCells c⟩
      pure (showPy (fun l => ",".intercalate (l.map fun oc =>
                match oc.2.versionNumber with
                | .int i => s!"{opLetter oc.1}{i}"
                | _ => "?"))
              (commitCells (kind = "table") cm))
  | ["export.commitrows", fmt, pt, wh, ncols, a, u, d, c] => do
      -- shape of what one write_commit hands over: the length of every row (text: one entry per line)
      let pt ← parsePt pt
      let n ← ncols.toNat?
      let a ← parseIds a
      let u ← parseIds u
      let d ← parseIds d
      let c ← parseIds c
      let cm : Commit := ⟨true, pt, PyObj.str (cps "F"), Enc.utf8, mkCells a, mkCells u, mkCells d, mkCells c⟩
      let lens := fun (rows : List (List PyObj)) => ",".intercalate (rows.map fun r => toString r.length)
      match fmt with
      | "csv" => pure (showPy lens (csvCommit (wh = "1") [] cm))
      | "xlsx" => pure (showPy lens (xlsxCommit (wh = "1") [] cm))
      | "sqlite" => pure (showPy lens (sqliteCommit n cm))
      | "text" => pure (showPy (fun ls => ",".intercalate (ls.map fun _ => "L")) (textCommit (fun _ => []) cm))
      | _ => none
  | ["export.written", "csv", obj, fs] => do
      let o ← parseObj obj
      let fs ← parseFs fs
      pure s!"ok {cpHex (csvWritten fs o)}"
  | ["export.stored", "sqlite", obj] => do
      let o ← parseObj obj
      pure s!"ok {showVal (sqliteStored o)}"
  | _ => none

end Driver.Export
