import Driver.Util
import SqliteDissect.Model.Schema
import SqliteDissect.Spec.Affinity

/-! `ddl.*` operations: the SQL-text parsing of ordinary table rows (C07).
Text travels as the hex of its UTF-8 bytes ("-" = empty). -/
namespace Driver.Schema
open SqliteDissect SqliteDissect.Model SqliteDissect.Model.Schema Driver

def strOfHex (h : String) : Option Str :=
  if h == "-" then some [] else do
    let ba ← parseHexBA h
    let s ← String.fromUTF8? ba
    pure s.toList

def hexOfStr (s : Str) : String :=
  hexOrDash ((String.ofList s).toUTF8.toList.map (·.toNat))

def b01 (b : Bool) : String := if b then "1" else "0"

def showColumn (c : Column) : String :=
  s!"{hexOfStr c.name}:{c.affinity.name}:{String.ofList c.dataType}:{b01 c.hasConstraints}"

def showTable (t : Table) : String :=
  s!"name={hexOfStr (lower t.name)} cols=[{",".intercalate (t.cols.map showColumn)}] ntc={t.ntc} without_rowid={b01 t.withoutRowid} internal={b01 t.internal}"

def runTable (name tbl sql : Str) : String :=
  if createVirtualTable.isPrefixOf sql then "err outsideModel"
  else showPy showTable (parseOrdinaryTable name tbl sql)

def handle : List String → Option String
  | ["ddl.table", sql, name, tbl] => do
      let sql ← strOfHex sql
      let name ← strOfHex name
      let tbl ← strOfHex tbl
      pure (runTable name tbl sql)
  | ["ddl.table", sql] => do
      let sql ← strOfHex sql
      -- the row's name columns are taken from the statement itself
      let nm := match rowNameAndRest (lstrip ((collapse isBlank sql).drop 12)) with
        | .ok (n, _) => n
        | .error _ => []
      pure (runTable nm nm sql)
  | ["ddl.column", text] => do
      let t ← strOfHex text
      pure (showPy showColumn (parseColumn t))
  | ["ddl.affinity", ty] => do
      let t ← strOfHex ty
      pure (showPy (fun a => s!"{a.name} {String.ofList (getDataType (upper t))}") (declaredAffinity t))
  | ["spec.affinity", ty] => do
      let t ← strOfHex ty
      pure ("ok " ++ (Spec.columnAffinity (some t)).name)
  | ["ddl.close", s, off] => do
      let s ← strOfHex s
      let off ← off.toNat?
      pure (showPy (fun n => toString (n + off)) (closingParen (s.drop off)))
  | ["ddl.comment", s] => do
      let s ← strOfHex s
      pure (showPy (fun (c, r) => s!"{hexOfStr c} {hexOfStr r}") (parseComment s))
  | ["ddl.name", s] => do
      let s ← strOfHex s
      pure (showPy (fun (c, r) => s!"{hexOfStr c} {hexOfStr r}") (rowNameAndRest s))
  | ["ddl.name", s, "end"] => do        -- name_may_end_statement=True (the module name of a virtual table)
      let s ← strOfHex s
      pure (showPy (fun (c, r) => s!"{hexOfStr c} {hexOfStr r}") (rowNameAndRest s true))
  | ["ddl.consts"] =>
      let sp := ",".intercalate (((List.range 0x3100).filter fun n => isSpace (Char.ofNat n)).map toString)
      let cf := ",".intercalate (caseFoldsToAsciiCodes.map toString)
      let cp := ",".intercalate (COLUMN_PREFACES.map String.ofList)
      let tp := ",".intercalate (TABLE_PREFACES.map String.ofList)
      let dt := ",".intercalate (DATA_TYPES.map fun (k, v) => String.ofList k ++ "=" ++ String.ofList v)
      some s!"space={sp} casefold={cf} colpre={cp} tabpre={tp} datatypes={dt}"
  | _ => none

end Driver.Schema
