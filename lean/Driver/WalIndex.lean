import Driver.Util
import SqliteDissect.Model.WalIndex

/-!
Ops for the WAL-index (`-shm`) file:

* `hdr.walindex <hex>`   — `WriteAheadLogIndexHeader(bytes)`
* `walindex.scan <path>` — `WriteAheadLogIndex(path)`: header, both scanning loops, number of
  `FileHandle.read_data` calls (also on error)

Canonical forms must match `harness/props/walindex.py`.
-/
namespace Driver.WalIndex
open SqliteDissect SqliteDissect.Model Driver

def b01 (b : Bool) : String := if b then "1" else "0"

def fnv (l : List Nat) : Nat :=
  l.foldl (fun h b => ((h ^^^ b) * 1099511628211) % 18446744073709551616) 14695981039346656037

def showSub (s : WalIndexSubHeader) : String :=
  s!"i{s.index},be{b01 s.bigEndian},fv{s.fileFormatVersion},up{s.unusedPadding},cc{s.changeCounter},in{s.initialized},cb{s.checksumsBigEndian},ps{s.pageSize},mx{s.lastValidFrame},np{s.dbSizeInPages},f{s.frameChecksum1}/{s.frameChecksum2},s{s.salt1}/{s.salt2},c{s.checksum1}/{s.checksum2}"

def showHdr (h : WalIndexHeader) : String :=
  let subs := "|".intercalate (h.subHeaders.map showSub)
  let marks := "/".intercalate (h.checkpoint.readerMarks.map toString)
  s!"ps={h.pageSize};be={b01 h.bigEndian};sub=[{subs}];cbe={b01 h.checkpoint.bigEndian};bf={h.checkpoint.backfilled};rm={marks};lr={hexOrDash h.lockReserved};raw={h.raw.length}:{fnv h.raw}"

def showScan (reads : Nat) (r : ScanResult) : String :=
  let ek := r.entries.flatMap fun p => [p, walIndexKey p]
  let fl := r.found.flatMap fun (o, v) => [o, v]
  let e16 := ",".intercalate ((r.entries.take 16).map fun p => s!"{p}:{walIndexKey p}")
  let f16 := ",".intercalate ((r.found.take 16).map fun (o, v) => s!"{o}:{v}")
  s!"ok reads={reads} n={r.entries.length} eh={fnv ek} z={r.zeroOffset} nf={r.numberFound} fh={fnv fl} e=[{e16}] f=[{f16}] hdr={showHdr r.header}"

def handle (toks : List String) : IO (Option String) := do
  match toks with
  | ["hdr.walindex", hex] =>
    pure ((bufOfHex hex).map fun b => showPy showHdr (parseWalIndexHeader b))
  | ["walindex.scan", path] =>
    let data ← IO.FS.readBinFile path
    let (reads, res) := walIndexScanCounted (Buf.ofByteArray data)
    pure (some (match res with
      | .ok r => showScan reads r
      | .error e => s!"{errStr e} reads={reads}"))
  | _ => pure none

end Driver.WalIndex
