import Driver.Util
import Driver.Sig
import Driver.Db
import SqliteDissect.Model.Carve

/-!
Driver operations for C08 / C09.

A signature is five tokens: `<number_of_columns> <total_records> <simplified> <recommended> <prob>`
with `<simplified>`/`<recommended>` in the encoding of `sig.regex` (`-` = no column, columns separated
by `;`, `e` = empty array) and `<prob>` = `-` or columns separated by `;`, each `e` or
`<type>:<num>/<den>,…`.

```
carve.region <sig×5> unalloc <page size> <page offset> <region start> - <hex>
carve.region <sig×5> freeblock <page size> <page offset> <freeblock start> <freeblock byte size> <hex of the content>
      → ok <cell>;<cell>… | ok - | err <class>
carve.record <sig×5> <loc unalloc|freeblock|allocated> <page size> <start> <end> <cutoff> <first column types|none> <freeblock size|-> <hex>
      → ok <record> | caught cellCarving | caught valueError | err <class>
carve.journal <journal path> <page size> <sig×5>       → ok <commit>/<commit>… | err <class>
carve.table <db> <wal|-> <version> <name hex> <sig×5> [cfg…]  → ok <cells> | <stage>:err <class>
carve.iter  <db> <wal|-> <name hex> <freelist 0|1> <sig×5> [cfg…] → ok <commit>/<commit>… | <stage>:err <class>
```
-/
namespace Driver.Carve
open SqliteDissect SqliteDissect.Model SqliteDissect.Model.Carve Driver

def parseProbEntry (s : String) : Option (Int × Nat × Nat) :=
  match s.splitOn ":" with
  | [t, f] =>
    match f.splitOn "/" with
    | [n, d] => do
      let t ← t.toInt?
      let n ← n.toNat?
      let d ← d.toNat?
      pure (t, n, d)
    | _ => none
  | _ => none

def parseProb (s : String) : Option (List (List (Int × Nat × Nat))) :=
  if s = "-" then some []
  else (s.splitOn ";").mapM fun c => if c = "e" then some [] else (c.splitOn ",").mapM parseProbEntry

def parseSig (nc tot simp rec_ prob : String) : Option CarveSig := do
  let nc ← nc.toNat?
  let tot ← tot.toNat?
  let simp ← Driver.Sig.parseSignature simp
  let rec_ ← Driver.Sig.parseSignature rec_
  let prob ← parseProb prob
  pure ⟨nc, tot, simp, rec_, prob⟩

def parseLoc (s : String) : Option Loc :=
  if s = "unalloc" then some .unallocated else if s = "freeblock" then some .freeblock
  else if s = "allocated" then some .allocated else none

def b01 (b : Bool) : String := if b then "1" else "0"

def showCVal : CVal → String
  | .unset => "null"
  | .dec v => showVal v
  | .raw b => "raw:" ++ hexOrDash b

def showCol (c : CCol) : String :=
  s!"{c.serialType}:{c.varintLen}:{c.contentSize}:{showCVal c.value}:{b01 c.truncatedValue}{b01 c.truncatedFirst}{b01 c.probabilisticFirst}"

def showRec (r : CarvedRec) : String :=
  s!"cs={r.cellStart},ce={r.cellEnd},bs={r.bodyStart},tb={b01 r.truncatedBeginning},te={b01 r.truncatedEnding},cols=[{"|".intercalate (r.cols.map showCol)}]"

def showCell (c : CarvedCell) : String :=
  s!"fo={c.fileOffset},pn={c.pageNumber},loc={c.loc.name},ix={c.index},ms={c.matchStart},me={c.matchEnd},co={c.cutoff},dg={c.digest.length}/{Driver.Db.fnv c.digest},{showRec c.rec_}"

def showCells (l : List CarvedCell) : String :=
  if l.isEmpty then "-" else ";".intercalate (l.map showCell)

def boolOf (s : String) : Option Bool := if s = "1" then some true else if s = "0" then some false else none

def region (sig : CarveSig) (loc ps po rs fbs hex : String) : Option String := do
  let ps ← ps.toNat?
  let po ← po.toNat?
  let rs ← rs.toNat?
  let data ← bufOfHex hex
  match loc with
  | "unalloc" => pure (showPy showCells (carveUnallocated sig ps 1 po rs data))
  | "freeblock" => do
    let fb ← fbs.toNat?
    pure (showPy showCells (carveFreeblocks sig ps [⟨1, 0, rs, rs + 4, fb, data, po⟩]))
  | _ => none

def record (sig : CarveSig) (loc ps s e co fc fbs hex : String) : Option String := do
  let loc ← parseLoc loc
  let ps ← ps.toNat?
  let s ← s.toNat?
  let e ← e.toNat?
  let co ← co.toNat?
  let fc ← (if fc = "none" then some none else if fc = "e" then some (some []) else (Driver.Sig.parseInts fc).map some)
  let fb ← (if fbs = "-" then some none else fbs.toNat?.map some)
  let data ← bufOfHex hex
  pure (match carvedRecord ⟨loc, data, s, e, co, sig.numberOfColumns, sig, fc, fb, ps⟩ with
    | .ok r => "ok " ++ showRec r
    | .error .cellCarving => "caught cellCarving"
    | .error (.py .valueError) => "caught valueError"
    | .error (.py er) => errStr er)

def showDict (d : List (List Nat × CarvedCell)) : String :=
  if d.isEmpty then "-" else ";".intercalate (d.map fun e => showCell e.2)

def showJournal (l : List JournalCommit) : String :=
  if l.isEmpty then "-" else "/".intercalate (l.map fun c => s!"t{c.pageType}:{showDict c.carved}")

def showCommits (l : List CarveCommit) : String :=
  if l.isEmpty then "-" else "/".intercalate (l.map fun c => s!"V{c.version}:f{b01 c.freelistCarved}:{showDict c.carved}")

def withHistory (cfg : Config) (dbFile : Buf) (walFile : Option Buf)
    (f : Database → List (Version × VersionIf) → String) : String :=
  match openDatabase cfg dbFile with
  | .error e => "db:" ++ errStr e
  | .ok (db, dbv) =>
    let walR : Py (Option Wal) := match walFile with
      | none => .ok none
      | some wf => (openWal cfg.givenWalSize wf).map some
    match walR with
    | .error e => "wal:" ++ errStr e
    | .ok w =>
      match versionHistory cfg db dbv w with
      | .error e => "vh:" ++ errStr e
      | .ok vs => f db vs

def readOpt (path : String) : IO (Option Buf) :=
  if path = "-" then pure none else do
    let d ← IO.FS.readBinFile path
    pure (some (Buf.ofByteArray d))

def handle (toks : List String) : IO (Option String) := do
  match toks with
  | ["carve.region", nc, tot, simp, rec_, prob, loc, ps, po, rs, fbs, hex] =>
    pure (do let sig ← parseSig nc tot simp rec_ prob; region sig loc ps po rs fbs hex)
  | ["carve.record", nc, tot, simp, rec_, prob, loc, ps, s, e, co, fc, fbs, hex] =>
    pure (do let sig ← parseSig nc tot simp rec_ prob; record sig loc ps s e co fc fbs hex)
  | ["carve.journal", path, ps, nc, tot, simp, rec_, prob] =>
    match parseSig nc tot simp rec_ prob, ps.toNat? with
    | some sig, some ps =>
      let data ← IO.FS.readBinFile path
      let fh : FileH := ⟨data.size, Buf.ofByteArray data⟩
      pure (some (showPy showJournal (carveJournal sig ps fh)))
    | _, _ => pure none
  | "carve.table" :: path :: walPath :: ver :: nameHex :: nc :: tot :: simp :: rec_ :: prob :: rest =>
    match parseSig nc tot simp rec_ prob, ver.toNat?, parseHex nameHex with
    | some sig, some k, some nm =>
      let data ← IO.FS.readBinFile path
      let wdata ← readOpt walPath
      let cfg := Driver.Db.parseCfg rest
      pure (some (withHistory cfg (Buf.ofByteArray data) wdata fun _ vs =>
        match vs.find? (fun vv => vv.1.number = k) with
        | none => "err keyError"
        | some (ver, v) =>
          match observedSchema ver v cfg.frames with
          | .error e => "schema:" ++ errStr e
          | .ok (_, ms) =>
            match ms.entries.filter (fun e => e.name = nm) |>.getLast? with
            | none => "err keyError"
            | some e =>
              match e.rootPage with
              | .int r => "carve:" ++ showPy showCells (carveTable sig v cfg.frames r.toNat)
              | _ => "err outsideModel"))
    | _, _, _ => pure none
  | "carve.iter" :: path :: walPath :: nameHex :: fl :: nc :: tot :: simp :: rec_ :: prob :: rest =>
    match parseSig nc tot simp rec_ prob, boolOf fl, parseHex nameHex with
    | some sig, some fl, some nm =>
      let data ← IO.FS.readBinFile path
      let wdata ← readOpt walPath
      let cfg := Driver.Db.parseCfg rest
      pure (some (withHistory cfg (Buf.ofByteArray data) wdata fun db vs =>
        match db.schema.entries.filter (fun e => e.name = nm) |>.getLast? with
        | none => "err keyError"
        | some e => "iter:" ++ showPy showCommits (carveHistory cfg.frames sig fl vs e.ident)))
    | _, _, _ => pure none
  | _ => pure none

end Driver.Carve
