import Driver.Util
import SqliteDissect.Model.Cli

/-!
`cli.plan` — runs `Model.Cli.validate` / `plan` on one option vector.

Wire form (one token per key, values are hex of the UTF-8 bytes, "-" = empty; a byte is carried as the
character with that code point, which keeps every ASCII character the model looks at and equality):

  cli.plan dir=H prefix=H export=text,csv|- nj=0|1 wal=H rj=H ex=H tables=*|H,H,… sig=0|1 carve=0|1 fl=0|1
           log=H path=H multi=0|1 uuid=H fs=H:size,…|- mkfail=H,…|- ent=H:t|o:s|n:u|n,…|-

answer:  refuse <reason> eff=…   |   exit0 <reason> eff=…
       | ready out=H prefix=H wal=H:0|1 rj=H:0|1 eff=… files=fmt:H,… items=fmt:H:H:cfw;… journal=… case=H|none
-/

namespace Driver.Cli
open SqliteDissect SqliteDissect.Model.Cli

def strOfHex (s : String) : Option Str :=
  if s = "-" then some [] else (parseHex s).map (fun l => l.map Char.ofNat)

def hexOfStr (s : Str) : String := hexOrDash (s.map Char.toNat)

def fmtOf : String → Option Fmt
  | "text" => some .text | "csv" => some .csv | "sqlite" => some .sqlite
  | "xlsx" => some .xlsx | "case" => some .case | _ => none

def fmtName : Fmt → String
  | .text => "text" | .csv => "csv" | .sqlite => "sqlite" | .xlsx => "xlsx" | .case => "case"

def refusalName : Refusal → String
  | .carveFreelistsWithoutCarve => "carveFreelistsWithoutCarve"
  | .exportNeedsDirectory => "exportNeedsDirectory"
  | .prefixNeedsDirectory => "prefixNeedsDirectory"
  | .prefixHasSeparator => "prefixHasSeparator"
  | .cannotCreateDirectory => "cannotCreateDirectory"
  | .cannotCreateSubDirectory => "cannotCreateSubDirectory"
  | .sqliteFileMissing => "sqliteFileMissing"
  | .walMissing => "walMissing"
  | .journalMissing => "journalMissing"
  | .exemptedNeedsJournal => "exemptedNeedsJournal"
  | .zeroDbWithWal => "zeroDbWithWal"
  | .zeroDbWithJournal => "zeroDbWithJournal"
  | .bothJournals => "bothJournals"

def exitName : Exit0 → String
  | .emptyDbEmptyWal => "emptyDbEmptyWal" | .emptyDbEmptyJournal => "emptyDbEmptyJournal" | .emptyDb => "emptyDb"

def showEff (l : List Effect) : String :=
  if l.isEmpty then "-" else ",".intercalate (l.map fun
    | .logFile p => "log:" ++ hexOfStr p
    | .mkdir p => "mkdir:" ++ hexOfStr p)

def b01 (b : Bool) : String := if b then "1" else "0"

def showItems (l : List Item) : String :=
  if l.isEmpty then "-" else ";".intercalate (l.map fun it =>
    s!"{fmtName it.fmt}:{if it.writes then hexOfStr it.file else "-"}:{hexOfStr it.entry}:{b01 it.carve}{b01 it.freelists}{b01 it.writes}")

def showFiles (l : List (Fmt × Str)) : String :=
  if l.isEmpty then "-" else ",".intercalate (l.map fun (f, p) => s!"{fmtName f}:{hexOfStr p}")

def kv (toks : List String) (k : String) : Option String :=
  (toks.find? (fun t => t.startsWith (k ++ "="))).map (fun t => (t.drop (k.length + 1)).toString)

def listOf (s : String) : List String := if s = "-" then [] else s.splitOn ","

def splitComma (s : Str) : List Str :=
  (String.ofList s |>.splitOn ",").map String.toList

def handle : List String → Option String
  | "cli.plan" :: toks => do
      let g := kv toks
      let dir ← (← g "dir") |> strOfHex
      let pfx ← (← g "prefix") |> strOfHex
      let ex ← (listOf (← g "export")).mapM fmtOf
      let wal ← (← g "wal") |> strOfHex
      let rj ← (← g "rj") |> strOfHex
      let exm ← (← g "ex") |> strOfHex
      let tabS ← g "tables"
      let tables ← if tabS = "*" then some [] else (tabS.splitOn ",").mapM strOfHex
      let log ← (← g "log") |> strOfHex
      let path ← (← g "path") |> strOfHex
      let uuid ← (← g "uuid") |> strOfHex
      let fs ← (listOf (← g "fs")).mapM (fun t => match t.splitOn ":" with
        | [h, n] => do pure ((← strOfHex h), (← n.toNat?))
        | _ => none)
      let mkfail ← (listOf (← g "mkfail")).mapM strOfHex
      let ents ← (listOf (← g "ent")).mapM (fun t => match t.splitOn ":" with
        | [h, ty, s, u] => do
            pure ({ name := (← strOfHex h), tableOrIndex := ty = "t", sigEligible := s = "s", updated := u = "u" } : Entry)
        | _ => none)
      let o : Opts := { directory := dir, filePrefix := pfx, exports := ex, noJournal := (← g "nj") = "1",
                        wal := wal, rollbackJournal := rj, exemptedTables := exm, tables := tables,
                        signatures := (← g "sig") = "1", carve := (← g "carve") = "1",
                        carveFreelists := (← g "fl") = "1", logFile := log }
      let i : Input := { sqlitePath := path, multi := (← g "multi") = "1", uuid := uuid }
      let w : World := { pathExists := fun p => fs.any (fun e => e.1 = p),
                         size := fun p => ((fs.find? (fun e => e.1 = p)).map (·.2)).getD 0,
                         mkdirOk := fun p => !mkfail.contains p }
      pure (match validate o i w with
        | .refuse r e => s!"refuse {refusalName r} eff={showEff e}"
        | .exit0 x e => s!"exit0 {exitName x} eff={showEff e}"
        | .ready r e =>
            let cf := match caseFile o r with | some f => hexOfStr f | none => "none"
            s!"ready out={hexOfStr r.outDir} prefix={hexOfStr r.filePrefix} wal={hexOfStr r.walName}:{b01 r.walOpened} rj={hexOfStr r.rjName}:{b01 r.rjOpened} eff={showEff e} files={showFiles (formatFiles r)} items={showItems (plan o r ents)} journal={showItems (journalPlan o r (splitComma exm) ents)} case={cf}")
  | _ => none

end Driver.Cli
