/-
C01 / C14 / C16 — any cell SQLite can write is parsed and its payload reassembled byte for byte
(cell level: composes the varint codec (C15), the payload split and chain shape (C16) and the
record parser (C01)).
-/
import SqliteDissect.Proofs.CellParse

namespace SqliteDissect.Properties.C01Cell
open SqliteDissect SqliteDissect.Model

/-- the column the model reports for a stored column (same as Properties.C01.expectedCol) -/
def expectedCol (c : Spec.Col) : RecordCol :=
  ⟨c.st, Spec.varintLen (Spec.toU64 c.st), c.content.length, (Spec.serialGet c.st c.content).getD .null⟩

/-- A table-leaf cell written by SQLite anywhere in a page (`pre`/`post` arbitrary), with its
overflow chain laid out in pairwise distinct pages of the same version, is parsed to exactly its
rowid, payload size, local size, overflow page list and record; the digest covers the on-page
bytes and the overflow content. -/
theorem table_leaf_cell_roundtrip (v : VersionIf) (hu : 512 ≤ v.pageSize) (hu2 : v.pageSize ≤ 65536)
    (cols : List Spec.Col) (hv : ∀ c ∈ cols, Spec.ValidCol c)
    (hn : (Spec.typeBytes cols).length + 3 < 2 ^ 21)
    (rowid : Int) (hr1 : -(2 ^ 63 : Int) ≤ rowid) (hr2 : rowid < (2 ^ 63 : Int))
    (hp : (Spec.encodeRecord cols).length < 2 ^ 31)
    (pgs : List Nat) (hnd : pgs.Nodup) (hpg : ∀ p ∈ pgs, p < 2 ^ 32)
    (pre post : List Nat) (index : Nat)
    (hpage : (pre ++ Spec.writeTableLeafCell v.pageSize rowid (Spec.encodeRecord cols) (pgs.headD 0) ++ post).length = v.pageSize)
    (hbytes : ∀ x ∈ pre ++ post, x < 256)
    (hchain : Spec.ChainLaidOut v pgs ((Spec.encodeRecord cols).drop
        (Spec.localSize v.pageSize (Spec.maxLeaf v.pageSize) (Spec.encodeRecord cols).length))) :
    ∃ c, parseCellLocal v .tableLeaf
          (Buf.ofList (pre ++ Spec.writeTableLeafCell v.pageSize rowid (Spec.encodeRecord cols) (pgs.headD 0) ++ post))
          index pre.length = .ok c ∧
      c.rowid = some rowid ∧
      c.payloadSize = some ((Spec.encodeRecord cols).length : Int) ∧
      c.bytesOnFirst = some (Spec.localSize v.pageSize (Spec.maxLeaf v.pageSize) (Spec.encodeRecord cols).length : Int) ∧
      c.overflowPages.map (·.number) = pgs ∧
      c.start = pre.length ∧
      c.end_ = ((pre.length + (Spec.writeTableLeafCell v.pageSize rowid (Spec.encodeRecord cols) (pgs.headD 0)).length : Nat) : Int) ∧
      (∃ r, c.record = some r ∧ r.cols = cols.map expectedCol ∧ r.content = Spec.encodeRecord cols) ∧
      c.digest = Spec.writeTableLeafCell v.pageSize rowid (Spec.encodeRecord cols) (pgs.headD 0) ++
        (Spec.encodeRecord cols).drop (Spec.localSize v.pageSize (Spec.maxLeaf v.pageSize) (Spec.encodeRecord cols).length) := by
  exact Proofs.CellParse.table_leaf_cell_roundtrip v hu hu2 cols hv hn rowid hr1 hr2 hp pgs hnd hpg pre post index hpage hbytes hchain

/-- the same for index leaf cells (index entries, WITHOUT ROWID rows) -/
theorem index_leaf_cell_roundtrip (v : VersionIf) (hu : 512 ≤ v.pageSize) (hu2 : v.pageSize ≤ 65536)
    (cols : List Spec.Col) (hv : ∀ c ∈ cols, Spec.ValidCol c)
    (hn : (Spec.typeBytes cols).length + 3 < 2 ^ 21)
    (hp : (Spec.encodeRecord cols).length < 2 ^ 31)
    (pgs : List Nat) (hnd : pgs.Nodup) (hpg : ∀ p ∈ pgs, p < 2 ^ 32)
    (pre post : List Nat) (index : Nat)
    (hpage : (pre ++ Spec.writeIndexLeafCell v.pageSize (Spec.encodeRecord cols) (pgs.headD 0) ++ post).length = v.pageSize)
    (hbytes : ∀ x ∈ pre ++ post, x < 256)
    (hchain : Spec.ChainLaidOut v pgs ((Spec.encodeRecord cols).drop
        (Spec.localSize v.pageSize (Spec.maxLocalIndex v.pageSize) (Spec.encodeRecord cols).length))) :
    ∃ c, parseCellLocal v .indexLeaf
          (Buf.ofList (pre ++ Spec.writeIndexLeafCell v.pageSize (Spec.encodeRecord cols) (pgs.headD 0) ++ post))
          index pre.length = .ok c ∧
      c.rowid = none ∧
      c.payloadSize = some ((Spec.encodeRecord cols).length : Int) ∧
      c.overflowPages.map (·.number) = pgs ∧
      (∃ r, c.record = some r ∧ r.cols = cols.map expectedCol ∧ r.content = Spec.encodeRecord cols) := by
  exact Proofs.CellParse.index_leaf_cell_roundtrip v hu hu2 cols hv hn hp pgs hnd hpg pre post index hpage hbytes hchain

end SqliteDissect.Properties.C01Cell
