/-
Meaning of the Python `dict` operations that occur in
`WriteAheadLogCommitRecord._parse_database_header_differences` (file/wal/commit_record.py) and of the
dictionary `compare_database_headers` (file/wal/utilities.py) builds, as used by
`harness/translate/hdrdiff.py` (→ `Generated/PyHdrDiff.lean`).  Hand-written and TRUSTED as "what Python
does" (exercised by `python -m harness.translate.hdrdiff --selftest` next to the interpreter).

A dictionary of header differences `{attribute name: (previous value, new value)}` is an association
list in insertion order whose keys are pairwise different (every producer here inserts each key at most
once).  The values the function reads are integers; the three attributes whose values are byte / hex
strings (`magic_header_string`, `reserved_for_expansion`, `md5_hex_digest`) are carried through an
arbitrary encoding `List Nat → Int` — the function never reads them, and the theorems hold for every
encoding.
-/
import SqliteDissect.Py

namespace SqliteDissect

abbrev PyDiffDict := List (String × (Int × Int))

/-- `k in d` -/
def pyDictMem (d : PyDiffDict) (k : String) : Bool := d.any fun e => e.1 == k

/-- `d[k]`: `KeyError` when absent -/
def pyDictGet (d : PyDiffDict) (k : String) : Py (Int × Int) :=
  match d.find? fun e => e.1 == k with
  | some e => .ok e.2
  | none => .error .keyError

/-- `del d[k]`: `KeyError` when absent -/
def pyDictDel (d : PyDiffDict) (k : String) : Py PyDiffDict :=
  if pyDictMem d k then .ok (d.filter fun e => e.1 != k) else .error .keyError

/-- `not d` -/
def pyDictIsEmpty (d : PyDiffDict) : Bool := d.isEmpty

/-- one iteration of `for key in a.__dict__.keys(): if a.key != b.key: changes[key] = (a.key, b.key)`,
written head first: the entry of this attribute (when it differs) followed by those of the later ones -/
def pyDiffCons (differs : Bool) (k : String) (v : Int × Int) (rest : PyDiffDict) : PyDiffDict :=
  if differs then (k, v) :: rest else rest

end SqliteDissect
