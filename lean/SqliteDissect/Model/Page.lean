/-
Model of sqlite_dissect/file/database/page.py (BTreePage, the four cell classes,
OverflowPage, Freeblock, Fragment), header.py (BTreePageHeader) and payload.py (Record),
against an abstract version interface.
-/
import SqliteDissect.Model.Codec

namespace SqliteDissect.Model

/-- What `page.py` uses of the version object (Database or WriteAheadLogCommitRecord). -/
structure VersionIf where
  pageSize : Nat
  versionNumber : Nat
  strict : Bool
  /-- `get_page_data(page_number, offset, number_of_bytes)`; `none` = argument omitted -/
  getData : Nat → Nat → Option Nat → Py Buf
  /-- `get_page_version(page_number)` (KeyError when unknown) -/
  pageVersion : Nat → Py Nat
  /-- `get_page_offset(page_number)` -/
  pageOffset : Nat → Py Nat

/-- Python slice `b[lo:hi]` with possibly negative bounds. -/
def pySlice (b : Buf) (lo hi : Int) : Buf :=
  let n : Int := b.size
  let norm (x : Int) : Nat :=
    if x < 0 then (if x + n < 0 then 0 else (x + n).toNat) else (if x > n then b.size else x.toNat)
  b.slice (norm lo) (norm hi)

/-- `unpack(fmt, b[lo:hi])` of an `n`-byte big-endian unsigned field -/
def unpackAt (b : Buf) (lo : Int) (n : Nat) : Py Nat :=
  let s := pySlice b lo (lo + n)
  if s.size = n then .ok (s.beN 0 n) else .error .structError

/-- `decode_varint(page, offset)` for a possibly negative offset (Python slices wrap) -/
def decodeVarintI (b : Buf) (off : Int) : Py (Int × Nat) :=
  if off ≥ 0 then decodeVarint b off.toNat
  else
    -- byte_array[off+i : off+i+1] with negative bounds: element off+i+len when in range,
    -- but b[-1:0] is empty; mirrored through pySlice one byte at a time
    let rec go : Nat → Nat → Nat → Py (Nat × Nat)
      | 0, v, rel => .ok (v, rel)
      | n+1, v, rel =>
        let s := pySlice b (off + rel) (off + rel + 1)
        if s.size = 1 then
          let byte := s.rd 0
          if n = 0 then .ok ((v <<< 1) ||| byte, rel + 1)
          else
            let v' := v ||| (byte &&& 0x7F)
            if byte &&& 0x80 = 0 then .ok (v', rel + 1) else go n (v' <<< 7) (rel + 1)
        else .error .typeError
    match go 9 0 0 with
    | .error e => .error e
    | .ok (u, n) =>
      if u &&& (0x80000000 <<< 32) ≠ 0 then .ok ((u : Int) - 0x10000000000000000, n) else .ok ((u : Int), n)

inductive PageType where
  | tableInterior | tableLeaf | indexInterior | indexLeaf
  deriving DecidableEq, Repr, Inhabited

def PageType.isInterior : PageType → Bool
  | .tableInterior | .indexInterior => true
  | _ => false

def PageType.isTable : PageType → Bool
  | .tableInterior | .tableLeaf => true
  | _ => false

def PageType.name : PageType → String
  | .tableInterior => "B_TREE_TABLE_INTERIOR"
  | .tableLeaf => "B_TREE_TABLE_LEAF"
  | .indexInterior => "B_TREE_INDEX_INTERIOR"
  | .indexLeaf => "B_TREE_INDEX_LEAF"

/-- `BTreePageHeader.__init__` (+ InteriorPageHeader) -/
structure PageHdr where
  offset : Nat                 -- 0 or 100
  headerLength : Nat           -- 8 or 12
  containsDbHeader : Bool
  firstFreeblock : Nat
  nCells : Nat
  cellContentOffset : Nat
  fragBytes : Nat
  rightMost : Option Nat
  deriving Repr, Inhabited

def parsePageHdr (page : Buf) (interior : Bool) : Py PageHdr := do
  let isMaster := decide (page.size ≥ 1 ∧ page.rd 0 = 0x53)
  let off := if isMaster then Generated.SQLITE_DATABASE_HEADER_LENGTH else 0
  let ffb ← unpackAt page (off + 1) 2
  let nc ← unpackAt page (off + 3) 2
  let cco ← unpackAt page (off + 5) 2
  -- ord(page[off+7:off+8]) : TypeError on an empty slice
  let fb ← (if off + 7 < page.size then .ok (page.rd (off + 7)) else (.error .typeError : Py Nat))
  -- cell content offset 0 means 65536 (after the fix: commit)
  let cco := if cco = 0 then Generated.MAXIMUM_PAGE_SIZE else cco
  if interior then
    let rm ← unpackAt page (off + Generated.RIGHT_MOST_POINTER_OFFSET) Generated.RIGHT_MOST_POINTER_LENGTH
    pure ⟨off, Generated.INTERIOR_PAGE_HEADER_LENGTH, isMaster, ffb, nc, cco, fb, some rm⟩
  else
    pure ⟨off, Generated.LEAF_PAGE_HEADER_LENGTH, isMaster, ffb, nc, cco, fb, none⟩

/-- one parsed overflow page of a chain -/
structure OvflPage where
  number : Nat
  next : Nat
  contentLength : Nat
  pageVersion : Nat
  deriving Repr, Inhabited, DecidableEq

/-- `OverflowPage.__init__` -/
def parseOverflowPage (v : VersionIf) (number : Nat) (remaining : Int) : Py OvflPage := do
  let pv ← v.pageVersion number
  let _ ← v.pageOffset number
  if remaining ≤ 0 then .error .parseError
  else
    let page ← v.getData number 0 none
    let next ← unpackAt page 0 Generated.OVERFLOW_HEADER_LENGTH
    let last := decide (remaining ≤ (v.pageSize : Int) - Generated.OVERFLOW_HEADER_LENGTH)
    if last ∧ next ≠ 0 then .error .parseError
    else
      let unallocStart : Int := if last then remaining + Generated.OVERFLOW_HEADER_LENGTH else v.pageSize
      -- no version check between the pages of a chain (a chain may span versions)
      pure ⟨number, next, (unallocStart - Generated.OVERFLOW_HEADER_LENGTH).toNat, pv⟩

/-- the `while overflow_page.next_overflow_page_number` loop of the cell constructors.
`fuel` bounds the number of pages; the loop itself is bounded because `remaining` drops by
`pageSize - 4 > 0` per step and a non-positive `remaining` raises. -/
def overflowChainLoop (v : VersionIf) : Nat → OvflPage → Int → List OvflPage → Py (List OvflPage)
  | 0, _, _, _ => .error .recursionError    -- unreachable with adequate fuel (see Proofs)
  | fuel+1, cur, remaining, acc =>
    if cur.next = 0 then .ok acc.reverse
    else if acc.any (·.number = cur.next) then .error .parseError     -- the chain loops back (fix: commit)
    else do
      let remaining' := remaining - v.pageSize + Generated.OVERFLOW_HEADER_LENGTH
      let nx ← parseOverflowPage v cur.next remaining'
      overflowChainLoop v fuel nx remaining' (nx :: acc)

/-- overflow chain of a cell: first page + loop.  Returns pages in chain order. -/
def parseOverflowChain (v : VersionIf) (first : Nat) (overflowBytes : Int) : Py (List OvflPage) := do
  let p0 ← parseOverflowPage v first overflowBytes
  -- number of steps ≤ overflowBytes / (pageSize-4) + 1
  let fuel := (overflowBytes.toNat / (v.pageSize - Generated.OVERFLOW_HEADER_LENGTH)) + 2
  overflowChainLoop v fuel p0 overflowBytes [p0]

/-- Python dict keyed by page number, insertion ordered, later writes overwrite -/
def dictInsert {α : Type} (d : List (Nat × α)) (k : Nat) (x : α) : List (Nat × α) :=
  if d.any (·.1 = k) then d.map (fun e => if e.1 = k then (k, x) else e) else d ++ [(k, x)]

def dictOfChain (ch : List OvflPage) : List (Nat × OvflPage) :=
  ch.foldl (fun d p => dictInsert d p.number p) []

def dictGet? {α : Type} (d : List (Nat × α)) (k : Nat) : Option α :=
  (d.find? (·.1 = k)).map (·.2)

structure RecordCol where
  serialType : Int
  varintLen : Nat
  contentSize : Nat
  value : Val
  deriving Repr, Inhabited, DecidableEq

structure Record where
  headerSize : Int
  headerVarintLen : Nat
  cols : List RecordCol
  content : List Nat            -- total_record_content (md5 input)
  deriving Repr, Inhabited, DecidableEq

def Record.signature (r : Record) : String :=
  String.join (r.cols.map fun c => toString (serialTypeSignature c.serialType))

/-- the `while current_header_offset < header_byte_size` loop of `Record.__init__` -/
def recordCols (total : Buf) (headerSize byteSize : Int) : Nat → Int → Nat → List RecordCol → Py (List RecordCol)
  | 0, _, _, acc => .ok acc.reverse
  | fuel+1, hoff, boff, acc =>
    if hoff < headerSize then do
      let (st, n) ← decodeVarintI total hoff
      let body := pySlice total headerSize byteSize
      let (sz, val) ← getRecordContent st body boff
      recordCols total headerSize byteSize fuel (hoff + n) (boff + sz) (⟨st, n, sz, val⟩ :: acc)
    else .ok acc.reverse

/-- `Record(page, payload_offset, payload_byte_size, bytes_on_first_page, overflow)` -/
def parseRecord (page : Buf) (payloadOffset : Int) (payloadSize : Int) (bytesOnFirst : Int)
    (overflow : Buf) : Py Record := do
  let hasOvfl := decide (overflow.size ≠ 0)
  if bytesOnFirst < payloadSize ∧ ¬ hasOvfl then .error .parseError
  else if bytesOnFirst > payloadSize then .error .parseError
  else
    let endOff := payloadOffset + bytesOnFirst
    let ovflSize := payloadSize - bytesOnFirst
    if ovflSize = 0 ∧ hasOvfl then .error .parseError
    else do
      let (hsize, hlen) ← decodeVarintI page payloadOffset
      let cur := pySlice page payloadOffset endOff
      let total := cur.append overflow
      if (total.size : Int) ≠ payloadSize then .error .parseError
      else
        let cols ← recordCols total hsize payloadSize (total.size + 1) hlen 0 []
        pure ⟨hsize, hlen, cols, total.toList⟩

inductive CellKind where
  | tableInterior | tableLeaf | indexInterior | indexLeaf
  deriving DecidableEq, Repr, Inhabited

structure Cell where
  kind : CellKind
  index : Nat
  start : Nat
  end_ : Int
  byteSize : Int
  leftChild : Option Nat
  rowid : Option Int
  payloadSize : Option Int
  payloadOffset : Option Int
  bytesOnFirst : Option Int
  hasOverflow : Bool
  overflowByteSize : Int
  expectedOvflPages : Nat
  expectedLastOvfl : Int
  overflowPages : List OvflPage      -- chain order
  record : Option Record
  digest : List Nat                  -- page[start:end]
  deriving Repr, Inhabited

/-- `int((((u - 12) * k) / 255) - 23)` : float true division, exact below 2^53; `int()` truncates
toward zero, which matters only when the difference is negative (u < 196) -/
def payloadConst (u : Nat) (k : Nat) : Int :=
  let q : Int := (((u : Int) - 12) * k)
  -- truncation toward zero of q/255 - 23
  if q ≥ 0 then
    let fl := q / 255
    let exact := decide (q % 255 = 0)
    let d := fl - 23
    if d ≥ 0 ∨ exact then d else d + 1
  else
    -- q negative: value = q/255 - 23 < 0, truncation = ceil
    -((-q) / 255) - 23

/-- local payload split shared by the three payload-bearing cell kinds;
`limit` is `u - 35` for table leaves and `x` for index cells -/
def localPayload (u : Nat) (limit : Int) (p : Int) : Int × Bool × Int :=
  if p > limit then
    let m := payloadConst u 32
    let b := m + ((p - m) % ((u : Int) - 4))
    let b := if b > limit then m else b
    (b, true, m)
  else (p, false, 0)

/-- common tail of TableLeafCell / IndexLeafCell / IndexInteriorCell constructors after the
payload size varint(s) have been read -/
def parsePayloadCell (v : VersionIf) (kind : CellKind) (page : Buf) (index start : Nat)
    (leftChild : Option Nat) (rowid : Option Int) (p : Int) (prefixLen : Nat) : Py Cell := do
  let u := v.pageSize
  let payloadOffset : Int := start + prefixLen
  let limit : Int := if kind = .tableLeaf then (u : Int) - 35 else payloadConst u 64
  let (b, hasOv, m) := localPayload u limit p
  let ovNum ← (if hasOv then do
      let n ← unpackAt page (payloadOffset + b) Generated.FIRST_OVERFLOW_PAGE_NUMBER_LENGTH
      if b < m then (.error .parseError : Py (Option Nat)) else pure (some n)
    else pure none)
  let byteSize : Int := prefixLen + p + (if hasOv then Generated.FIRST_OVERFLOW_PAGE_NUMBER_LENGTH else 0)
  let endOff : Int := start + byteSize - p + b
  let ovBytes : Int := p - b
  match calcExpectedOverflow ovBytes u with
  | none => .error .recursionError        -- page size ≤ 4: the Python loop never ends (not reachable: header check)
  | some (expPages, expLast) =>
    let digest := (pySlice page start endOff).toList
    let chain ← (match ovNum with
      | some n => parseOverflowChain v n ovBytes
      | none => pure [])
    let d := dictOfChain chain
    let lastContent : Int := match chain.getLast? with
      | some pg => pg.contentLength
      | none => 0
    if expPages ≠ d.length then .error .parseError
    else if expLast ≠ lastContent then .error .parseError
    else do
      -- `overflow` property: walk the dictionary from the first page
      let ovBuf ← (if hasOv then do
          -- the walk visits the same chain (dict lookups by page number); for an acyclic chain
          -- that is `chain` itself.  The contents are concatenated into one array-backed buffer.
          let arr ← chain.foldlM (fun (acc : Array Nat) pg => do
              let c ← v.getData pg.number Generated.OVERFLOW_HEADER_LENGTH (some pg.contentLength)
              pure (acc ++ c.toArray)) #[]
          let buf := Buf.ofArray arr
          if (buf.size : Int) ≠ ovBytes then (.error .parseError : Py Buf) else pure buf
        else pure Buf.empty)
      -- digest of an overflowing cell covers the overflow content too (fix: commit)
      let digest := if hasOv then digest ++ ovBuf.toList else digest
      let rec_ ← parseRecord page payloadOffset p b ovBuf
      pure { kind, index, start, end_ := endOff, byteSize, leftChild, rowid,
             payloadSize := some p, payloadOffset := some payloadOffset, bytesOnFirst := some b,
             hasOverflow := hasOv, overflowByteSize := ovBytes, expectedOvflPages := expPages,
             expectedLastOvfl := expLast, overflowPages := chain, record := some rec_, digest }

/-- cell constructors up to (not including) the descent into the left child -/
def parseCellLocal (v : VersionIf) (kind : CellKind) (page : Buf) (index start : Nat) : Py Cell :=
  match kind with
  | .tableInterior => do
    let lc ← unpackAt page start Generated.LEFT_CHILD_POINTER_BYTE_LENGTH
    let (rowid, n) ← decodeVarint page (start + Generated.LEFT_CHILD_POINTER_BYTE_LENGTH)
    let byteSize : Int := Generated.LEFT_CHILD_POINTER_BYTE_LENGTH + n
    let endOff : Int := start + byteSize
    if lc = 0 then .error .parseError
    else pure { kind, index, start, end_ := endOff, byteSize, leftChild := some lc, rowid := some rowid,
                payloadSize := none, payloadOffset := none, bytesOnFirst := none, hasOverflow := false,
                overflowByteSize := 0, expectedOvflPages := 0, expectedLastOvfl := 0, overflowPages := [],
                record := none, digest := (pySlice page start endOff).toList }
  | .tableLeaf => do
    let (p, n1) ← decodeVarint page start
    let (rowid, n2) ← decodeVarint page (start + n1)
    parsePayloadCell v kind page index start none (some rowid) p (n1 + n2)
  | .indexLeaf => do
    let (p, n1) ← decodeVarint page start
    parsePayloadCell v kind page index start none none p n1
  | .indexInterior => do
    let lc ← unpackAt page start Generated.LEFT_CHILD_POINTER_BYTE_LENGTH
    let (p, n1) ← decodeVarint page (start + Generated.LEFT_CHILD_POINTER_BYTE_LENGTH)
    let c ← parsePayloadCell v kind page index start (some lc) none p (Generated.LEFT_CHILD_POINTER_BYTE_LENGTH + n1)
    if lc = 0 then .error .parseError else pure c

structure Freeblock where
  index : Nat
  start : Nat
  next : Nat
  byteSize : Nat
  deriving Repr, Inhabited, DecidableEq

def Freeblock.end_ (f : Freeblock) : Nat := f.start + f.byteSize
def Freeblock.contentStart (f : Freeblock) : Nat := f.start + 4
def Freeblock.contentLength (f : Freeblock) : Int := (f.end_ : Int) - f.contentStart

/-- `Freeblock.__init__` -/
def parseFreeblock (page : Buf) (index start : Nat) : Py Freeblock := do
  let next ← unpackAt page start Generated.NEXT_FREEBLOCK_OFFSET_LENGTH
  let sz ← unpackAt page (start + Generated.NEXT_FREEBLOCK_OFFSET_LENGTH) Generated.FREEBLOCK_BYTE_LENGTH
  pure ⟨index, start, next, sz⟩

/-- the `while next_freeblock_offset:` walk, with the progress check added by the fix: commit
(a next pointer that does not lie beyond the current freeblock is rejected, as in SQLite's
btreeComputeFreeSpace), which bounds the walk by the page size. -/
def freeblockWalk (page : Buf) : Nat → Nat → Nat → List Freeblock → Py (List Freeblock)
  | 0, _, _, _ => .error .recursionError      -- unreachable: offsets strictly increase below 65536
  | fuel+1, index, off, acc => do
    let fb ← parseFreeblock page index off
    if fb.next = 0 then pure (fb :: acc).reverse
    else if fb.next ≤ off then .error .parseError
    else freeblockWalk page fuel (index + 1) fb.next (fb :: acc)

structure Fragment where
  index : Nat
  start : Int
  end_ : Int
  deriving Repr, Inhabited, DecidableEq

def Fragment.byteSize (f : Fragment) : Int := f.end_ - f.start

/-- region = (start, end) of a cell or freeblock -/
abbrev Region := Int × Int

/-- insertion sort by start offset, stable (Python's `sorted(..., key=start_offset)`) -/
def insertRegion (r : Region) : List Region → List Region
  | [] => [r]
  | x :: xs => if r.1 < x.1 then r :: x :: xs else x :: insertRegion r xs

def sortRegions (l : List Region) : List Region := l.foldr insertRegion []

/-- the fragment discovery loop: returns fragments and the final `last_accounted_for_offset` -/
def findFragments (size : Int) : List Region → Int → Nat → List Fragment → Py (List Fragment × Int)
  | [], last, _, acc => .ok (acc.reverse, last)
  | r :: rest, last, idx, acc =>
    if last ≥ size then .error .parseError
    else if r.1 ≠ last then findFragments size rest r.2 (idx + 1) (⟨idx, last, r.1⟩ :: acc)
    else findFragments size rest r.2 idx acc

structure LayoutResult where
  fragments : List Fragment
  fragTotal : Int
  accounted : Int
  deriving Repr, Inhabited

/-- fragment discovery + trailing fragment (fix: commit) + the two consistency checks of
`BTreePage.__init__`.  `cellTotal`/`fbTotal` are the byte totals the constructor accumulated. -/
def layoutCheck (strict : Bool) (size : Nat) (preface : Nat) (contentOffset : Nat) (fragHdr : Nat)
    (regions : List Region) (cellTotal fbTotal : Int) : Py LayoutResult := do
  let sorted := sortRegions regions
  let (frags, last) ← findFragments size sorted contentOffset 0 []
  -- trailing fragment between the last cell/freeblock and the end of the page
  let frags := if regions ≠ [] ∧ last < (size : Int) then frags ++ [⟨frags.length, last, size⟩] else frags
  let fragTotal : Int := (frags.map Fragment.byteSize).foldl (· + ·) (0 : Int)
  if fragHdr > Generated.PAGE_FRAGMENT_LIMIT then .error .parseError
  else if fragTotal ≠ (fragHdr : Int) ∧ strict then .error .parseError
  else
    let unalloc : Int := (contentOffset : Int) - preface
    let accounted : Int := (preface : Int) + unalloc + (cellTotal + fbTotal + fragTotal)
    if accounted ≠ (size : Int) ∧ strict then .error .parseError
    else pure ⟨frags, fragTotal, accounted⟩

structure BPage where
  number : Nat
  ptype : PageType
  hdr : PageHdr
  pageVersion : Nat
  offset : Nat
  unallocStart : Nat
  unallocEnd : Nat
  cells : List Cell
  freeblocks : List Freeblock
  fragments : List Fragment
  /-- `header.root_page_only_md5_hex_digest` input: page[100:] when the page carries the database header -/
  rootOnly : List Nat := []
  deriving Repr, Inhabited

/-- the type byte decision at the top of `BTreePage.__init__` -/
def btreePageType (page : Buf) : Py PageType :=
  if page.size = 0 then .error .indexError
  else
    let t := page.rd 0
    if t = 0x53 then
      if page.size ≤ 100 then .error .indexError
      else
        let t2 := page.rd 100
        if t2 = 0x05 then .ok .tableInterior
        else if t2 = 0x0d then .ok .tableLeaf
        else .error .parseError
    else if t = 0x05 then .ok .tableInterior
    else if t = 0x0d then .ok .tableLeaf
    else if t = 0x02 then .ok .indexInterior
    else if t = 0x0a then .ok .indexLeaf
    else .error .typeError     -- hex(bytes) in the log message raises TypeError before the raise

def cellKindOf : PageType → CellKind
  | .tableInterior => .tableInterior
  | .tableLeaf => .tableLeaf
  | .indexInterior => .indexInterior
  | .indexLeaf => .indexLeaf

end SqliteDissect.Model
