/-
Model of the recursive page constructors (TableInteriorPage / IndexInteriorPage and their
cells descending into children), FreelistTrunkPage / FreelistLeafPage, PointerMapPage,
file/database/utilities.py (aggregate_leaf_cells, get_pages_from_b_tree_page,
create_pointer_map_pages) and Version.get_b_tree_root_page.

Python's recursion limit is the parameter `frames` (stack frames still available): a descent
through a cell costs three frames (page ctor → BTreePage ctor → cell ctor), a descent through
the right-most pointer costs one; running out is `RecursionError`.
-/
import SqliteDissect.Model.Page

namespace SqliteDissect.Model

/-- which page class the *caller* picked from the child's first byte -/
def childClass (table : Bool) (firstByte : Buf) : Option PageType :=
  if firstByte.size ≠ 1 then none
  else
    let t := firstByte.rd 0
    if table then (if t = 0x05 then some .tableInterior else if t = 0x0d then some .tableLeaf else none)
    else (if t = 0x02 then some .indexInterior else if t = 0x0a then some .indexLeaf else none)

/-- frames consumed by one level of descent -/
def cellDescentFrames : Nat := 3
def rightMostDescentFrames : Nat := 1

/-- `BTreePage.__init__` for the class `cls` on page `number`, including the recursive
construction of children, *as it was before a page reached twice was refused* (kept as the
mathematical reference; the repaired code is `parseBTreeLog` / `parseBTreeW` below).  Result: the page followed by its descendants in the order of
`get_pages_from_b_tree_page` (page, right-most subtree, then each cell's left subtree);
overflow pages are carried inside the cells. -/
def parseBTree (v : VersionIf) : Nat → Nat → PageType → Py (List BPage)
  | 0, _, _ => .error .recursionError
  | fuel+1, number, cls => do
    -- Page.__init__
    let pv ← v.pageVersion number
    let off ← v.pageOffset number
    let page ← v.getData number 0 none
    let ptype ← btreePageType page
    let hdr ← parsePageHdr page cls.isInterior
    let ptrOff := hdr.headerLength + (if hdr.containsDbHeader then Generated.SQLITE_DATABASE_HEADER_LENGTH else 0)
    if hdr.containsDbHeader ∧ number ≠ Generated.SQLITE_MASTER_SCHEMA_ROOT_PAGE then .error .parseError
    else
      let ptrLen := hdr.nCells * Generated.CELL_POINTER_BYTE_LENGTH
      let unallocStart := ptrOff + ptrLen
      let unallocEnd := hdr.cellContentOffset
      let kind := cellKindOf cls
      -- cells, each followed (interior) by the construction of its left child subtree
      let step := fun (st : List Cell × List (List BPage) × Int) (idx : Nat) => do
        let (cells, subs, total) := st
        let cellOff ← unpackAt page (ptrOff + idx * Generated.CELL_POINTER_BYTE_LENGTH) Generated.CELL_POINTER_BYTE_LENGTH
        let c ← parseCellLocal v kind page idx cellOff
        let sub ← (match c.leftChild with
          | some lc => do
            let fb ← v.getData lc 0 (some Generated.PAGE_TYPE_LENGTH)
            match childClass cls.isTable fb with
            | some ccls =>
              if fuel < cellDescentFrames then (.error .recursionError : Py (List BPage))
              else parseBTree v (fuel - cellDescentFrames) lc ccls
            | none => .error .parseError
          | none => pure [])
        -- (a cell never takes fewer than MINIMUM_CELL_ALLOCATION_SIZE bytes of the page: SQLite pads shorter cells)
        let sz : Int := if kind ≠ .tableInterior ∧ c.hasOverflow then c.end_ - c.start
                        else max c.byteSize (Generated.MINIMUM_CELL_ALLOCATION_SIZE : Int)
        pure (cells ++ [c], subs ++ [sub], total + sz)
      let (cells, subs, cellTotal) ← (List.range hdr.nCells).foldlM step ([], [], 0)
      -- freeblocks
      let fbs ← (if hdr.firstFreeblock ≠ 0 then freeblockWalk page 65537 0 hdr.firstFreeblock [] else pure [])
      let fbTotal : Int := (fbs.map fun f => (f.byteSize : Int)).foldl (· + ·) 0
      let regions : List Region := (cells.map fun c => ((c.start : Int), max c.end_ ((c.start : Int) + Generated.MINIMUM_CELL_ALLOCATION_SIZE))) ++ (fbs.map fun f => ((f.start : Int), (f.end_ : Int)))
      let lay ← layoutCheck v.strict v.pageSize unallocStart unallocEnd hdr.fragBytes regions cellTotal fbTotal
      let me : BPage := { number, ptype, hdr, pageVersion := pv, offset := off, unallocStart, unallocEnd,
                          cells, freeblocks := fbs, fragments := lay.fragments,
                          rootOnly := if hdr.containsDbHeader then (page.slice Generated.SQLITE_DATABASE_HEADER_LENGTH page.size).toList else [] }
      if cls.isInterior then
        match hdr.rightMost with
        | none => .error .attributeError
        | some rm =>
          if rm = 0 then .error .parseError
          else do
            let fb ← v.getData rm 0 (some Generated.PAGE_TYPE_LENGTH)
            match childClass cls.isTable fb with
            | some ccls =>
              if fuel < rightMostDescentFrames then .error .recursionError
              else do
                let rsub ← parseBTree v (fuel - rightMostDescentFrames) rm ccls
                pure (me :: rsub ++ subs.flatten)
            | none => .error .parseError
      else pure [me]

/-! ### The walk that refuses a page reached twice

`Version.get_b_tree_root_page` creates an empty set `_b_tree_pages_being_built` for the walk;
`BTreePage.__init__`, right after `Page.__init__` (page version and page offset looked up), raises
`BTreePageParsingError` if its page number is already in the set and adds it otherwise.  The set is
an attribute of the version object: it is shared by the whole recursive walk and it keeps what was
added to it when an exception propagates (it is discarded only when `get_b_tree_root_page` returns
or raises). -/

/-- A Python computation that reads and extends the set of page numbers of the walk
(`Version._b_tree_pages_being_built`, most recently added first): given the set it returns the
set afterwards — *also when it raises* — and the result. -/
def Walk (α : Type) : Type := List Nat → List Nat × Py α

namespace Walk

@[inline] protected def pure {α : Type} (a : α) : Walk α := fun s => (s, .ok a)

/-- sequencing: an exception of the first part propagates, with the set as that part left it -/
@[inline] protected def bind {α β : Type} (x : Walk α) (f : α → Walk β) : Walk β := fun s =>
  match x s with
  | (s', .ok a) => f a s'
  | (s', .error e) => (s', .error e)

instance : Monad Walk where
  pure := Walk.pure
  bind := Walk.bind

/-- a computation that does not touch the set -/
@[inline] def lift {α : Type} (x : Py α) : Walk α := fun s => (s, x)

/-- the check added to `BTreePage.__init__`: `if number in pages_being_built: raise
BTreePageParsingError(...)`, else `pages_being_built.add(number)` -/
def enter (number : Nat) : Walk Unit := fun s =>
  if s.contains number then (s, .error .parseError) else (number :: s, .ok ())

end Walk

/-- `BTreePage.__init__` of the repaired code: the body of `parseBTree` with the check
`Walk.enter` after `Page.__init__`, all recursive constructions sharing the set of the walk (a
cell's left child is constructed inside the cell loop, the right-most child last).  Applied to
the set `seen` it returns the set afterwards — the *log* of the page constructions that got past
the check, whether or not the walk succeeded — and the result. -/
def parseBTreeLog (v : VersionIf) : Nat → Nat → PageType → Walk (List BPage)
  | 0, _, _ => Walk.lift (.error .recursionError)
  | fuel+1, number, cls => do
    -- Page.__init__
    let pv ← Walk.lift (v.pageVersion number)
    let off ← Walk.lift (v.pageOffset number)
    -- the repair
    Walk.enter number
    let page ← Walk.lift (v.getData number 0 none)
    let ptype ← Walk.lift (btreePageType page)
    let hdr ← Walk.lift (parsePageHdr page cls.isInterior)
    let ptrOff := hdr.headerLength + (if hdr.containsDbHeader then Generated.SQLITE_DATABASE_HEADER_LENGTH else 0)
    if hdr.containsDbHeader ∧ number ≠ Generated.SQLITE_MASTER_SCHEMA_ROOT_PAGE then Walk.lift (.error .parseError)
    else
      let ptrLen := hdr.nCells * Generated.CELL_POINTER_BYTE_LENGTH
      let unallocStart := ptrOff + ptrLen
      let unallocEnd := hdr.cellContentOffset
      let kind := cellKindOf cls
      let step := fun (st : List Cell × List (List BPage) × Int) (idx : Nat) => do
        let (cells, subs, total) := st
        let cellOff ← Walk.lift (unpackAt page (ptrOff + idx * Generated.CELL_POINTER_BYTE_LENGTH) Generated.CELL_POINTER_BYTE_LENGTH)
        let c ← Walk.lift (parseCellLocal v kind page idx cellOff)
        let sub ← (match c.leftChild with
          | some lc => do
            let fb ← Walk.lift (v.getData lc 0 (some Generated.PAGE_TYPE_LENGTH))
            match childClass cls.isTable fb with
            | some ccls =>
              if fuel < cellDescentFrames then (Walk.lift (.error .recursionError) : Walk (List BPage))
              else parseBTreeLog v (fuel - cellDescentFrames) lc ccls
            | none => Walk.lift (.error .parseError)
          | none => pure [])
        let sz : Int := if kind ≠ .tableInterior ∧ c.hasOverflow then c.end_ - c.start
                        else max c.byteSize (Generated.MINIMUM_CELL_ALLOCATION_SIZE : Int)
        pure (cells ++ [c], subs ++ [sub], total + sz)
      let (cells, subs, cellTotal) ← (List.range hdr.nCells).foldlM step ([], [], 0)
      let fbs ← Walk.lift (if hdr.firstFreeblock ≠ 0 then freeblockWalk page 65537 0 hdr.firstFreeblock [] else pure [])
      let fbTotal : Int := (fbs.map fun f => (f.byteSize : Int)).foldl (· + ·) 0
      let regions : List Region := (cells.map fun c => ((c.start : Int), max c.end_ ((c.start : Int) + Generated.MINIMUM_CELL_ALLOCATION_SIZE))) ++ (fbs.map fun f => ((f.start : Int), (f.end_ : Int)))
      let lay ← Walk.lift (layoutCheck v.strict v.pageSize unallocStart unallocEnd hdr.fragBytes regions cellTotal fbTotal)
      let me : BPage := { number, ptype, hdr, pageVersion := pv, offset := off, unallocStart, unallocEnd,
                          cells, freeblocks := fbs, fragments := lay.fragments,
                          rootOnly := if hdr.containsDbHeader then (page.slice Generated.SQLITE_DATABASE_HEADER_LENGTH page.size).toList else [] }
      if cls.isInterior then
        match hdr.rightMost with
        | none => Walk.lift (.error .attributeError)
        | some rm =>
          if rm = 0 then Walk.lift (.error .parseError)
          else do
            let fb ← Walk.lift (v.getData rm 0 (some Generated.PAGE_TYPE_LENGTH))
            match childClass cls.isTable fb with
            | some ccls =>
              if fuel < rightMostDescentFrames then Walk.lift (.error .recursionError)
              else do
                let rsub ← parseBTreeLog v (fuel - rightMostDescentFrames) rm ccls
                pure (me :: rsub ++ subs.flatten)
            | none => Walk.lift (.error .parseError)
      else pure [me]

/-- `BTreePage.__init__` of the repaired code when the pages `seen` were already constructed in
this walk: `parseBTreeLog` with the log erased -/
def parseBTreeW (v : VersionIf) (fuel number : Nat) (cls : PageType) (seen : List Nat) : Py (List BPage) :=
  (parseBTreeLog v fuel number cls seen).2

/-- `Version.get_b_tree_root_page` without a page cache (the repaired code: the walk starts with
an empty set) -/
def getBTreeRoot (v : VersionIf) (frames : Nat) (number : Nat) : Py (List BPage) := do
  let t ← v.getData number 0 (some Generated.PAGE_TYPE_LENGTH)
  let t ← (if t.size = 1 ∧ t.rd 0 = 0x53 then do
      -- the two log messages below are built with too few arguments: IndexError from str.format
      if number ≠ Generated.SQLITE_MASTER_SCHEMA_ROOT_PAGE then (.error .indexError : Py Buf)
      else
        let t2 ← v.getData number Generated.SQLITE_DATABASE_HEADER_LENGTH (some Generated.PAGE_TYPE_LENGTH)
        if t2.size = 1 ∧ (t2.rd 0 = 0x05 ∨ t2.rd 0 = 0x0d) then pure t2 else .error .parseError
    else pure t)
  if t.size ≠ 1 then .error .indexError
  else
    let b := t.rd 0
    if b = 0x05 then parseBTreeW v frames number .tableInterior []
    else if b = 0x0d then parseBTreeW v frames number .tableLeaf []
    else if b = 0x02 then parseBTreeW v frames number .indexInterior []
    else if b = 0x0a then parseBTreeW v frames number .indexLeaf []
    else .error .indexError

/-- `Version.get_b_tree_root_page` of the code before the repair (no set: a page reached twice is
constructed twice).  The mathematical reference: `getBTreeRoot` succeeds exactly when this does
and the page numbers of the result are pairwise distinct (Proofs/TreeWalk.lean). -/
def getBTreeRootPure (v : VersionIf) (frames : Nat) (number : Nat) : Py (List BPage) := do
  let t ← v.getData number 0 (some Generated.PAGE_TYPE_LENGTH)
  let t ← (if t.size = 1 ∧ t.rd 0 = 0x53 then do
      if number ≠ Generated.SQLITE_MASTER_SCHEMA_ROOT_PAGE then (.error .indexError : Py Buf)
      else
        let t2 ← v.getData number Generated.SQLITE_DATABASE_HEADER_LENGTH (some Generated.PAGE_TYPE_LENGTH)
        if t2.size = 1 ∧ (t2.rd 0 = 0x05 ∨ t2.rd 0 = 0x0d) then pure t2 else .error .parseError
    else pure t)
  if t.size ≠ 1 then .error .indexError
  else
    let b := t.rd 0
    if b = 0x05 then parseBTree v frames number .tableInterior
    else if b = 0x0d then parseBTree v frames number .tableLeaf
    else if b = 0x02 then parseBTree v frames number .indexInterior
    else if b = 0x0a then parseBTree v frames number .indexLeaf
    else .error .indexError

/-! ### Freelist -/

structure FreelistTrunk where
  number : Nat
  next : Nat
  leaves : List Nat
  pageVersion : Nat
  deriving Repr, Inhabited, DecidableEq

/-- `FreelistTrunkPage.__init__` (recursive over the trunk chain; no cycle check: a cyclic
chain ends in RecursionError) -/
def parseFreelist (v : VersionIf) : Nat → Nat → Py (List FreelistTrunk)
  | 0, _ => .error .recursionError
  | fuel+1, number => do
    let pv ← v.pageVersion number
    let _ ← v.pageOffset number
    let page ← v.getData number 0 none
    let next ← unpackAt page 0 Generated.FREELIST_NEXT_TRUNK_PAGE_LENGTH
    let cnt ← unpackAt page Generated.FREELIST_NEXT_TRUNK_PAGE_LENGTH Generated.FREELIST_LEAF_PAGE_POINTERS_LENGTH
    let leaf := fun (acc : List Nat) (i : Nat) => do
      let n ← unpackAt page (i * Generated.FREELIST_LEAF_PAGE_NUMBER_LENGTH + Generated.FREELIST_HEADER_LENGTH)
                Generated.FREELIST_LEAF_PAGE_NUMBER_LENGTH
      -- FreelistLeafPage.__init__
      let _ ← v.pageVersion n
      let _ ← v.pageOffset n
      let _ ← v.getData n 0 none
      pure (acc ++ [n])
    -- the loop stops at the first short read (struct.error), which happens at most
    -- pageSize/4 iterations in: bound the range so an absurd count cannot allocate
    let bound := min cnt (v.pageSize / 4 + 1)
    let leaves ← (List.range bound).foldlM leaf []
    if next ≠ 0 then do
      let _ ← v.pageVersion next
      let rest ← parseFreelist v fuel next
      pure (⟨number, next, leaves, pv⟩ :: rest)
    else pure [⟨number, next, leaves, pv⟩]

/-- one iteration of the leaf loop of `parseFreelist` on the trunk page `page`: the `i`-th leaf
pointer and `FreelistLeafPage.__init__` of the page it names -/
def freelistLeafStep (v : VersionIf) (page : Buf) (acc : List Nat) (i : Nat) : Py (List Nat) := do
  let n ← unpackAt page (i * Generated.FREELIST_LEAF_PAGE_NUMBER_LENGTH + Generated.FREELIST_HEADER_LENGTH)
            Generated.FREELIST_LEAF_PAGE_NUMBER_LENGTH
  let _ ← v.pageVersion n
  let _ ← v.pageOffset n
  let _ ← v.getData n 0 none
  pure (acc ++ [n])

/-- `parseFreelist` with a log that survives exceptions: for every trunk page whose construction
was started, in order, its page number and the number of leaf-pointer steps started on it (the
failing one included).  Erasing the log gives `parseFreelist` (Proofs/Cost.lean
`parseFreelistLog_snd`). -/
def parseFreelistLog (v : VersionIf) : Nat → Nat → List (Nat × Nat) × Py (List FreelistTrunk)
  | 0, _ => ([], .error .recursionError)
  | fuel+1, number =>
    let head : Py (Nat × Buf × Nat × Nat) := do
      let pv ← v.pageVersion number
      let _ ← v.pageOffset number
      let page ← v.getData number 0 none
      let next ← unpackAt page 0 Generated.FREELIST_NEXT_TRUNK_PAGE_LENGTH
      let cnt ← unpackAt page Generated.FREELIST_NEXT_TRUNK_PAGE_LENGTH Generated.FREELIST_LEAF_PAGE_POINTERS_LENGTH
      pure (pv, page, next, cnt)
    match head with
    | .error e => ([(number, 0)], .error e)
    | .ok (pv, page, next, cnt) =>
      let bound := min cnt (v.pageSize / 4 + 1)
      let r := foldlMCounted (freelistLeafStep v page) [] (List.range bound)
      match r.2 with
      | .error e => ([(number, r.1)], .error e)
      | .ok leaves =>
        if next ≠ 0 then
          match v.pageVersion next with
          | .error e => ([(number, r.1)], .error e)
          | .ok _ =>
            ((number, r.1) :: (parseFreelistLog v fuel next).1, do
              let rest ← (parseFreelistLog v fuel next).2
              pure (⟨number, next, leaves, pv⟩ :: rest))
        else ([(number, r.1)], .ok [⟨number, next, leaves, pv⟩])

/-! ### Pointer map -/

structure PtrmapEntry where
  pageNumber : Nat
  ptype : Nat
  parent : Nat
  deriving Repr, Inhabited, DecidableEq

structure PtrmapPage where
  number : Nat
  nEntries : Nat
  entries : List PtrmapEntry
  deriving Repr, Inhabited, DecidableEq

/-- `PointerMapPage.__init__` -/
def parsePtrmapPage (v : VersionIf) (number nEntries : Nat) : Py PtrmapPage := do
  let _ ← v.pageVersion number
  let _ ← v.pageOffset number
  let page ← v.getData number 0 none
  let entry := fun (acc : List PtrmapEntry) (i : Nat) => do
    let off := i * Generated.POINTER_MAP_ENTRY_LENGTH
    if off ≥ v.pageSize then (.error .parseError : Py (List PtrmapEntry))
    else
      let t := page.rd off
      if t = 0 then .error .parseError
      else if off + Generated.POINTER_MAP_ENTRY_LENGTH > v.pageSize then .error .parseError
      else if t < 1 ∨ t > 5 then .error .parseError
      else do
        let parent ← unpackAt page (off + 1) 4
        if (t = 1 ∨ t = 2) ∧ parent ≠ 0 then .error .parseError
        else if (t = 3 ∨ t = 4 ∨ t = 5) ∧ parent = 0 then .error .parseError
        else pure (acc ++ [⟨number + i + 1, t, parent⟩])
  let es ← (List.range nEntries).foldlM entry []
  pure ⟨number, nEntries, es⟩

/-- page positions computed by the second loop of `create_pointer_map_pages`:
(page number, number of entries) for a database of `D` pages, `E` entries per page -/
def ptrmapPlanLoop (D E : Nat) : Nat → Nat → Nat → List (Nat × Nat) → Py (List (Nat × Nat))
  | 0, _, _, _ => .error .recursionError
  | fuel+1, p, n, acc =>
    if p < D then
      let n' := n + 1
      let next := n' * E + 2 + n'
      let entries : Int := if next > D then (D : Int) - ((n' - 1) * E : Nat) - n' - 1 else E
      let acc' := acc ++ [(p, entries.toNat)]
      if next = D then .error .parseError
      else ptrmapPlanLoop D E fuel next n' acc'
    else .ok acc

def ptrmapPlan (D ps : Nat) : Py (List (Nat × Nat)) := do
  let E := ps / Generated.POINTER_MAP_ENTRY_LENGTH
  let plan ← ptrmapPlanLoop D E (D + 1) 2 0 []
  let total := plan.foldl (fun s pe => s + 1 + pe.2) 1
  if total ≠ D then .error .parseError else pure plan

/-- `create_pointer_map_pages(version, D, page_size)`: pages are constructed inside the loop,
so a bad page fails before the `p == D` check of a later iteration. -/
def createPtrmapPagesLoop (v : VersionIf) (D E : Nat) : Nat → Nat → Nat → List PtrmapPage → Py (List PtrmapPage)
  | 0, _, _, _ => .error .recursionError
  | fuel+1, p, n, acc =>
    if p < D then do
      let n' := n + 1
      let next := n' * E + 2 + n'
      let entries : Int := if next > D then (D : Int) - ((n' - 1) * E : Nat) - n' - 1 else E
      -- a negative entry count makes range() empty and the final length check fail
      if entries < 0 then .error .parseError
      else
        let pg ← parsePtrmapPage v p entries.toNat
        if next = D then .error .parseError
        else createPtrmapPagesLoop v D E fuel next n' (acc ++ [pg])
    else .ok acc

def createPtrmapPages (v : VersionIf) (D : Nat) : Py (List PtrmapPage) := do
  let E := v.pageSize / Generated.POINTER_MAP_ENTRY_LENGTH
  let pages ← createPtrmapPagesLoop v D E (D + 1) 2 0 []
  let total := pages.foldl (fun s pg => s + 1 + pg.nEntries) 1
  if total ≠ D then .error .parseError else pure pages

/-- one iteration of the entry loop of `parsePtrmapPage` -/
def ptrmapEntryStep (v : VersionIf) (page : Buf) (number : Nat) (acc : List PtrmapEntry) (i : Nat) :
    Py (List PtrmapEntry) :=
  let off := i * Generated.POINTER_MAP_ENTRY_LENGTH
  if off ≥ v.pageSize then (.error .parseError : Py (List PtrmapEntry))
  else
    let t := page.rd off
    if t = 0 then .error .parseError
    else if off + Generated.POINTER_MAP_ENTRY_LENGTH > v.pageSize then .error .parseError
    else if t < 1 ∨ t > 5 then .error .parseError
    else do
      let parent ← unpackAt page (off + 1) 4
      if (t = 1 ∨ t = 2) ∧ parent ≠ 0 then .error .parseError
      else if (t = 3 ∨ t = 4 ∨ t = 5) ∧ parent = 0 then .error .parseError
      else pure (acc ++ [⟨number + i + 1, t, parent⟩])

/-- `parsePtrmapPage` with the number of entry steps started (the failing one included) -/
def parsePtrmapPageCounted (v : VersionIf) (number nEntries : Nat) : Nat × Py PtrmapPage :=
  let head : Py Buf := do
    let _ ← v.pageVersion number
    let _ ← v.pageOffset number
    v.getData number 0 none
  match head with
  | .error e => (0, .error e)
  | .ok page =>
    let r := foldlMCounted (ptrmapEntryStep v page number) [] (List.range nEntries)
    (r.1, do
      let es ← r.2
      pure ⟨number, nEntries, es⟩)

/-- `createPtrmapPagesLoop` with a log that survives exceptions: for every pointer-map page whose
construction was started, in order, its page number and the number of entry steps started on it -/
def createPtrmapPagesLoopLog (v : VersionIf) (D E : Nat) :
    Nat → Nat → Nat → List PtrmapPage → List (Nat × Nat) × Py (List PtrmapPage)
  | 0, _, _, _ => ([], .error .recursionError)
  | fuel+1, p, n, acc =>
    if p < D then
      let n' := n + 1
      let next := n' * E + 2 + n'
      let entries : Int := if next > D then (D : Int) - ((n' - 1) * E : Nat) - n' - 1 else E
      if entries < 0 then ([], .error .parseError)
      else
        let r := parsePtrmapPageCounted v p entries.toNat
        match r.2 with
        | .error e => ([(p, r.1)], .error e)
        | .ok pg =>
          if next = D then ([(p, r.1)], .error .parseError)
          else ((p, r.1) :: (createPtrmapPagesLoopLog v D E fuel next n' (acc ++ [pg])).1,
                (createPtrmapPagesLoopLog v D E fuel next n' (acc ++ [pg])).2)
    else ([], .ok acc)

/-- `createPtrmapPages` with that log.  Erasing it gives `createPtrmapPages` (Proofs/Cost.lean
`createPtrmapPagesLog_snd`). -/
def createPtrmapPagesLog (v : VersionIf) (D : Nat) : List (Nat × Nat) × Py (List PtrmapPage) :=
  let E := v.pageSize / Generated.POINTER_MAP_ENTRY_LENGTH
  let r := createPtrmapPagesLoopLog v D E (D + 1) 2 0 []
  (r.1, do
    let pages ← r.2
    let total := pages.foldl (fun s pg => s + 1 + pg.nEntries) 1
    if total ≠ D then .error .parseError else pure pages)

/-! ### Traversals of an already parsed tree (flat list in `get_pages_from_b_tree_page` order) -/

def overflowNumbers (p : BPage) : List (Nat × String) :=
  if p.ptype = .tableInterior then []
  else p.cells.flatMap fun c => c.overflowPages.map fun o => (o.number, "OVERFLOW")

/-- `get_pages_from_b_tree_page` over the flat list (which is a pre-order): the page, the
right-most subtree, each cell's subtree, then the page's own overflow pages.  Consumes one
subtree from the front of the list and returns the rest. -/
def walkNumbers : Nat → List BPage → List (Nat × String) × List BPage
  | 0, ps => ([], ps)
  | _+1, [] => ([], [])
  | fuel+1, p :: rest =>
    if p.ptype.isInterior then
      let (kids, rest') := (List.range (p.cells.length + 1)).foldl
        (fun (st : List (Nat × String) × List BPage) _ =>
          let (acc, r) := st
          let (sub, r') := walkNumbers fuel r
          (acc ++ sub, r')) ([], rest)
      ((p.number, p.ptype.name) :: kids ++ overflowNumbers p, rest')
    else ((p.number, p.ptype.name) :: overflowNumbers p, rest)

/-- pages of the tree including overflow pages, as (page number, class name) in the order of
`get_pages_from_b_tree_page` -/
def treePageNumbers (pages : List BPage) : List (Nat × String) :=
  (walkNumbers (pages.length + 1) pages).1

/-- leaf cells of the tree in traversal order -/
def leafCells (pages : List BPage) : List Cell :=
  pages.flatMap fun p => if p.ptype.isInterior then [] else p.cells

/-- `aggregate_leaf_cells(root)`: (count, digest-keyed dictionary) -/
def aggregateLeafCells (pages : List BPage) (accounted : List (List Nat)) :
    Nat × List (List Nat × Cell) × List (List Nat) :=
  (leafCells pages).foldl
    (fun (st : Nat × List (List Nat × Cell) × List (List Nat)) c =>
      let (n, d, acc) := st
      if acc.contains c.digest then (n + 1, d, acc)
      else (n + 1, d ++ [(c.digest, c)], acc ++ [c.digest]))
    (0, [], accounted)

end SqliteDissect.Model
