/-
Model of sqlite_dissect/carving/signature.py at the level property C10 observes.

Input (what `Signature.__init__` reads through its arguments):
* the kind of master schema entry and the type affinity of each of its column definitions;
* for every version in the parser's range whose b-tree was (re)parsed (`b_tree_updated`), the
  leaf cells of that b-tree in the order `aggregate_leaf_cells` visits them, each as
  (cell md5 digest, serial types of the record's columns).  `none` = the entry was not found in
  the version range (`parser_starting_version_number is None`): nothing is parsed.
  Which versions are re-parsed is decided by `VersionParser` / the version history (modelled in
  Model/History.lean, property C03); here the list of parsed versions is an input.

Mirrored: `aggregate_leaf_cells(root, accounted, payloads_only=True)` (digests already seen are
skipped, all cells are counted), `TableRowSignature.__init__/update`, the `number_of_rows`
setters, the count check, the column breakdown, the row → column inversion
(`TableColumnSignature.__init__`, `Column*Signature.__init__/update`), the schema/table length
check, `number_of_columns`, the signature properties (`focused_signature`,
`simplified_signature`, the two probabilistic signatures, `recommended_schema_signature`,
`complete_schema_signature`) and every `SignatureError` / `ValueError` exit on those paths.
A digest is an opaque natural number (md5 is not modelled).  Probabilities are exact pairs
(numerator, denominator); the code computes `float(numerator) / denominator`.
-/
import SqliteDissect.Py
import SqliteDissect.Model.Codec

namespace SqliteDissect.Model.Signature
open SqliteDissect SqliteDissect.Model

/-- `TYPE_AFFINITY`; `other` stands for any value outside the five (→ `SignatureError`) -/
inductive Affinity where
  | integer | real | text | blob | numeric | other
  deriving DecidableEq, Repr, Inhabited

/-- which master schema row class the entry is -/
inductive EntryKind where
  | ordinary        -- OrdinaryTableRow, not WITHOUT ROWID
  | withoutRowid    -- OrdinaryTableRow with without_row_id
  | virtualTable    -- VirtualTableRow
  | index           -- IndexRow (has no column_definitions attribute)
  deriving DecidableEq, Repr, Inhabited

/-- one leaf cell as the signature code sees it -/
structure Rec where
  digest : Nat
  types : List Int
  deriving Repr, Inhabited

structure Input where
  kind : EntryKind
  colAffs : List Affinity
  versions : Option (List (List Rec))
  deriving Inhabited

/-! ### SchemaColumnSignature -/

/-- `SchemaColumnSignature.recommended_signature` -/
def recommended : Affinity → Py (List Int)
  | .integer => .ok [1, 2, 3, 4, 5, 6, 8, 9]
  | .real => .ok [1, 2, 3, 4, 5, 6, 7, 8, 9]
  | .text => .ok [-2]
  | .blob => .ok [-1]
  | .numeric => .ok [1, 2, 3, 4, 5, 6, 7, 8, 9]
  | .other => .error .parseError

/-- `SchemaColumnSignature.complete_signature` -/
def complete : Affinity → Py (List Int)
  | .integer => .ok [-2, -1, 0, 1, 2, 3, 4, 5, 6, 7, 8, 9]
  | .real => .ok [-2, -1, 0, 1, 2, 3, 4, 5, 6, 7, 8, 9]
  | .text => .ok [-2, -1, 0]
  | .blob => .ok [-2, -1, 0, 1, 2, 3, 4, 5, 6, 7, 8, 9]
  | .numeric => .ok [-2, -1, 0, 1, 2, 3, 4, 5, 6, 7, 8, 9]
  | .other => .error .parseError

structure SchemaCol where
  affinity : Affinity
  recommended : List Int
  complete : List Int
  deriving Repr

/-- `for column_definition in …: SchemaColumnSignature(column_definition)` -/
def schemaCols : List Affinity → Py (List SchemaCol)
  | [] => .ok []
  | a :: as =>
    match recommended a, complete a with
    | .ok r, .ok c =>
      match schemaCols as with
      | .ok rest => .ok (⟨a, r, c⟩ :: rest)
      | .error e => .error e
    | .error e, _ => .error e
    | _, .error e => .error e

/-! ### Column signatures -/

/-- `ColumnFixedLengthSignature` / `Column(Non)ReducedVariableLengthSignature`:
`serial_type`, `count` and, for the variable-length classes, the dictionary
`variable_length_serial_types` (serial type → count, insertion ordered) -/
inductive ColSig where
  | fixed (st : Int) (count : Nat)
  | var (simp : Int) (count : Nat) (vls : List (Int × Nat))
  deriving Repr, Inhabited

def ColSig.serialType : ColSig → Int
  | .fixed st _ => st
  | .var s _ _ => s

def ColSig.count : ColSig → Nat
  | .fixed _ n => n
  | .var _ n _ => n

/-- `d[k] += n if k in d else d[k] = n` -/
def dictAdd : List (Int × Nat) → Int → Nat → List (Int × Nat)
  | [], k, n => [(k, n)]
  | (k', n') :: rest, k, n => if k' = k then (k', n' + n) :: rest else (k', n') :: dictAdd rest k n

/-- `for k, n in other.items(): d[k] += n …` -/
def dictMerge (d : List (Int × Nat)) : List (Int × Nat) → List (Int × Nat)
  | [] => d
  | (k, n) :: rest => dictMerge (dictAdd d k n) rest

/-- one column of `TableRowSignature.__init__` -/
def newColSig (st : Int) : Py ColSig :=
  if 0 ≤ st ∧ st ≤ 9 then .ok (.fixed st 1)
  else if st ≥ 12 then .ok (.var (if st % 2 = 0 then -1 else -2) 1 [(st, 1)])
  else .error .parseError

def newColSigs : List Int → Py (List ColSig)
  | [] => .ok []
  | st :: rest =>
    match newColSig st with
    | .error e => .error e
    | .ok c =>
      match newColSigs rest with
      | .error e => .error e
      | .ok cs => .ok (c :: cs)

/-- one column of `TableRowSignature.update` followed by the column signature's own `update` -/
def updColSig (c : ColSig) (st : Int) : Py ColSig :=
  match c with
  | .fixed t n => if t ≠ st then .error .parseError else .ok (.fixed t (n + 1))
  | .var s n vls =>
    if st ≥ 12 ∧ st % 2 = 0 then
      if s ≠ -1 then .error .parseError else .ok (.var s (n + 1) (dictAdd vls st 1))
    else if st ≥ 13 ∧ st % 2 = 1 then
      if s ≠ -2 then .error .parseError else .ok (.var s (n + 1) (dictAdd vls st 1))
    else .error .parseError

/-- `for index in self.column_signatures:` of `update` (lengths already checked equal) -/
def updColSigs : List ColSig → List Int → Py (List ColSig)
  | c :: cs, st :: sts =>
    match updColSig c st with
    | .error e => .error e
    | .ok c' =>
      match updColSigs cs sts with
      | .error e => .error e
      | .ok cs' => .ok (c' :: cs')
  | _, _ => .ok []

/-! ### Row signatures -/

structure RowSig where
  key : String
  count : Nat
  cols : List ColSig
  deriving Repr, Inhabited

/-- `record.serial_type_signature`: the simplified serial types written one after the other
with no separator -/
def keyOf (types : List Int) : String :=
  String.join (types.map fun t => toString (serialTypeSignature t))

/-- `TableRowSignature(column_definitions, record)` -/
def newRowSig (nDefs : Nat) (r : Rec) : Py RowSig :=
  if nDefs < r.types.length then .error .valueError
  else
    match newColSigs r.types with
    | .error e => .error e
    | .ok cs => .ok ⟨keyOf r.types, 1, cs⟩

/-- `TableRowSignature.update(record)` -/
def updRowSig (rs : RowSig) (r : Rec) : Py RowSig :=
  if rs.cols.length ≠ r.types.length then .error .valueError
  else
    match updColSigs rs.cols r.types with
    | .error e => .error e
    | .ok cs => .ok ⟨rs.key, rs.count + 1, cs⟩

/-- the body of `for cell_md5_hex_digest, record in records.items():` on the dictionary
`table_row_signatures` (insertion ordered, keyed by `key`) -/
def processRecord (nDefs : Nat) : List RowSig → Rec → Py (List RowSig)
  | [], r =>
    match newRowSig nDefs r with
    | .error e => .error e
    | .ok rs => .ok [rs]
  | rs :: rest, r =>
    if rs.key = keyOf r.types then
      match updRowSig rs r with
      | .error e => .error e
      | .ok rs' => .ok (rs' :: rest)
    else
      match processRecord nDefs rest r with
      | .error e => .error e
      | .ok rest' => .ok (rs :: rest')

def processRecords (nDefs : Nat) : List RowSig → List Rec → Py (List RowSig)
  | rows, [] => .ok rows
  | rows, r :: rs =>
    match processRecord nDefs rows r with
    | .error e => .error e
    | .ok rows' => processRecords nDefs rows' rs

/-! ### Accumulation over versions -/

/-- `aggregate_leaf_cells(root, accounted, True)` on the cells of one version: the records whose
digest is new (in visiting order) and the updated accounted set; the total is the number of
cells -/
def aggregate : List Rec → List Nat → List Rec × List Nat
  | [], acc => ([], acc)
  | r :: rs, acc =>
    if r.digest ∈ acc then aggregate rs acc
    else
      let res := aggregate rs (r.digest :: acc)
      (r :: res.1, res.2)

structure Acc where
  accounted : List Nat
  total : Nat
  unique : Nat
  rows : List RowSig
  deriving Inhabited

def Acc.init : Acc := ⟨[], 0, 0, []⟩

def stepVersion (nDefs : Nat) (a : Acc) (cells : List Rec) : Py Acc :=
  let res := aggregate cells a.accounted
  match processRecords nDefs a.rows res.1 with
  | .error e => .error e
  | .ok rows => .ok ⟨res.2, a.total + cells.length, a.unique + res.1.length, rows⟩

def runVersions (nDefs : Nat) : Acc → List (List Rec) → Py Acc
  | a, [] => .ok a
  | a, v :: vs =>
    match stepVersion nDefs a v with
    | .error e => .error e
    | .ok a' => runVersions nDefs a' vs

/-! ### After the versions -/

/-- `table_row_signature.number_of_rows = self.unique_records` for every row signature (the
setter of the row signature and of each of its column signatures rejects a value `<= 0` or
`< count`; all counts of one row signature are equal) and the running sum of the counts -/
def setRowsAndCount (unique : Nat) : List RowSig → Py Nat
  | [] => .ok 0
  | rs :: rest =>
    if unique = 0 ∨ unique < rs.count then .error .valueError
    else
      match setRowsAndCount unique rest with
      | .error e => .error e
      | .ok n => .ok (rs.count + n)

/-- `column_breakdown[len(cols)] += count` (insertion ordered) -/
def breakdownAdd : List (Nat × Nat) → Nat → Nat → List (Nat × Nat)
  | [], k, n => [(k, n)]
  | (k', n') :: rest, k, n =>
    if k' = k then (k', n' + n) :: rest else (k', n') :: breakdownAdd rest k n

def breakdownOf : List RowSig → List (Nat × Nat) → List (Nat × Nat)
  | [], d => d
  | rs :: rest, d => breakdownOf rest (breakdownAdd d rs.cols.length rs.count)

/-- `TableColumnSignature`: `count` and the dictionary `column_signatures`
(simplified serial type → column signature, insertion ordered) -/
structure TableCol where
  index : Nat
  count : Nat
  sigs : List ColSig
  deriving Repr, Inhabited

/-- insert / merge one row-level column signature into `self.column_signatures` -/
def tcAdd : List ColSig → ColSig → Py (List ColSig)
  | [], c =>
    match c with
    | .fixed st n => .ok [.fixed st n]
    | .var s n vls =>
      -- ColumnReducedVariableLengthSignature.__init__: `if not count` / `if not
      -- variable_length_serial_types` reach `self._logger` before it exists
      if n = 0 ∨ vls.isEmpty then .error .attributeError else .ok [.var s n vls]
  | d :: rest, c =>
    if d.serialType = c.serialType then
      match d, c with
      | .fixed st n, .fixed _ n' => .ok (.fixed st (n + n') :: rest)
      | .var s n vls, .var _ n' vls' =>
        if n' = 0 ∨ vls'.isEmpty then .error .valueError
        else .ok (.var s (n + n') (dictMerge vls vls') :: rest)
      -- a fixed and a variable-length signature never share a serial type (0..9 vs -1/-2);
      -- the update methods would raise ValueError
      | _, _ => .error .valueError
    else
      match tcAdd rest c with
      | .error e => .error e
      | .ok rest' => .ok (d :: rest')

def tcFold : List ColSig → List ColSig → Py (List ColSig)
  | d, [] => .ok d
  | d, c :: cs =>
    match tcAdd d c with
    | .error e => .error e
    | .ok d' => tcFold d' cs

def sumCounts : List ColSig → Nat
  | [] => 0
  | c :: cs => c.count + sumCounts cs

/-- the closing loop `column_signature.number_of_rows = self.count` -/
def checkRows (count : Nat) : List ColSig → Py Unit
  | [] => .ok ()
  | c :: cs => if count = 0 ∨ count < c.count then .error .valueError else checkRows count cs

/-- `TableColumnSignature(index, name, column_signatures)` -/
def tableCol (index : Nat) (cs : List ColSig) : Py TableCol :=
  match tcFold [] cs with
  | .error e => .error e
  | .ok d =>
    let count := sumCounts cs
    match checkRows count d with
    | .error e => .error e
    | .ok _ => .ok ⟨index, count, d⟩

/-- `table_row_columns[i]`: the i-th column signature of every row signature that has one, in
row-signature order.  (The code builds a dictionary keyed by column index while walking the row
signatures; its keys come out as 0, 1, …, max-1 in this order whatever the order of the row
signatures, because every row signature contributes a prefix 0..len-1.) -/
def columnOf (rows : List RowSig) (i : Nat) : List ColSig :=
  rows.filterMap fun rs => rs.cols[i]?

def maxCols : List RowSig → Nat
  | [] => 0
  | rs :: rest => max rs.cols.length (maxCols rest)

def tableColsFrom (rows : List RowSig) : List Nat → Py (List TableCol)
  | [] => .ok []
  | i :: is =>
    match tableCol i (columnOf rows i) with
    | .error e => .error e
    | .ok tc =>
      match tableColsFrom rows is with
      | .error e => .error e
      | .ok tcs => .ok (tc :: tcs)

/-- the finished object -/
structure Sig where
  schema : List SchemaCol
  rows : List RowSig
  tableCols : List TableCol
  total : Nat
  unique : Nat
  /-- `altered_columns`, `column_breakdown` (count, (numerator, denominator)); `none` when the
  attributes are never assigned (entry absent from the version range) -/
  altered : Option Bool
  breakdown : Option (List (Nat × Nat × Nat × Nat))
  numberOfColumns : Nat
  deriving Repr, Inhabited

/-- the tail of `__init__`: length check and `number_of_columns` -/
def finish (schema : List SchemaCol) (rows : List RowSig) (tcs : List TableCol) (total unique : Nat)
    (altered : Option Bool) (bd : Option (List (Nat × Nat × Nat × Nat))) : Py Sig :=
  if schema.length ≠ 0 ∧ tcs.length ≠ 0 ∧ schema.length ≠ tcs.length then .error .parseError
  else .ok ⟨schema, rows, tcs, total, unique, altered, bd, max schema.length tcs.length⟩

/-- `Signature.__init__` -/
def build (inp : Input) : Py Sig :=
  match (if inp.kind = .ordinary then schemaCols inp.colAffs else .ok []) with
  | .error e => .error e
  | .ok schema =>
    if inp.kind = .virtualTable then finish schema [] [] 0 0 (some false) (some [])
    else
      match inp.versions with
      | none => finish schema [] [] 0 0 none none
      | some versions =>
        if inp.kind = .index then .error .attributeError   -- master_schema_entry.column_definitions
        else
          match runVersions inp.colAffs.length Acc.init versions with
          | .error e => .error e
          | .ok a =>
            match setRowsAndCount a.unique a.rows with
            | .error e => .error e
            | .ok n =>
              if n ≠ a.unique then .error .parseError
              else
                let bd0 := breakdownOf a.rows []
                let bd1 := if bd0.any (fun e => e.1 = schema.length) then bd0 else bd0 ++ [(schema.length, 0)]
                let bd := bd1.map fun e => (e.1, e.2, e.2, a.unique)
                let altered := decide (bd.length > 1)
                if a.rows.isEmpty then
                  if a.total ≠ 0 ∨ a.unique ≠ 0 then .error .parseError
                  else finish schema a.rows [] a.total a.unique (some altered) (some bd)
                else
                  match tableColsFrom a.rows (List.range (maxCols a.rows)) with
                  | .error e => .error e
                  | .ok tcs => finish schema a.rows tcs a.total a.unique (some altered) (some bd)

/-! ### Signature properties -/

/-- stable insertion sort (Python's `sorted` is stable; so is inserting each element, from the
right, before the first element it is `le` to) -/
def insertBy {α : Type} (le : α → α → Bool) (a : α) : List α → List α
  | [] => [a]
  | b :: l => if le a b then a :: b :: l else b :: insertBy le a l

def isort {α : Type} (le : α → α → Bool) : List α → List α
  | [] => []
  | a :: l => insertBy le a (isort le l)

/-- `sorted(…, key=int)` -/
def sortInts (l : List Int) : List Int := isort (fun a b => decide (a ≤ b)) l

/-- `sorted(…, key=lambda x: x[0])` -/
def sortProb (l : List (Int × Nat × Nat)) : List (Int × Nat × Nat) :=
  isort (fun a b => decide (a.1 ≤ b.1)) l

/-- serial types a column signature stands for -/
def ColSig.focusedTypes : ColSig → List Int
  | .fixed st _ => [st]
  | .var _ _ vls => vls.map (·.1)

/-- `TableColumnSignature.focused_signature` -/
def TableCol.focused (tc : TableCol) : List Int :=
  sortInts (tc.sigs.flatMap ColSig.focusedTypes)

/-- `TableColumnSignature.simplified_signature` -/
def TableCol.simplified (tc : TableCol) : List Int :=
  sortInts (tc.sigs.map ColSig.serialType)

/-- numerators of the focused probabilities of one column signature -/
def ColSig.focusedCounts : ColSig → List (Int × Nat)
  | .fixed st n => [(st, n)]
  | .var _ _ vls => vls

/-- `TableColumnSignature.focused_probabilistic_signature`: (serial type, numerator, denominator)
where the denominator is `number_of_rows` = the table column signature's `count` -/
def TableCol.focusedProb (tc : TableCol) : List (Int × Nat × Nat) :=
  sortProb ((tc.sigs.flatMap ColSig.focusedCounts).map fun e => (e.1, e.2, tc.count))

/-- `TableColumnSignature.simplified_probabilistic_signature` -/
def TableCol.simplifiedProb (tc : TableCol) : List (Int × Nat × Nat) :=
  sortProb (tc.sigs.map fun c => (c.serialType, c.count, tc.count))

def Sig.focused (s : Sig) : List (List Int) := s.tableCols.map TableCol.focused
def Sig.simplified (s : Sig) : List (List Int) := s.tableCols.map TableCol.simplified
def Sig.focusedProb (s : Sig) : List (List (Int × Nat × Nat)) := s.tableCols.map TableCol.focusedProb
def Sig.simplifiedProb (s : Sig) : List (List (Int × Nat × Nat)) := s.tableCols.map TableCol.simplifiedProb
def Sig.recommendedSchema (s : Sig) : List (List Int) := s.schema.map (·.recommended)
def Sig.completeSchema (s : Sig) : List (List Int) := s.schema.map (·.complete)

/-- what `SignatureCarver` feeds to `generate_signature_regex`: the simplified signature, or
the recommended schema signature when the table has no row -/
def Sig.carvingSignature (s : Sig) : List (List Int) :=
  if s.tableCols.isEmpty then s.recommendedSchema else s.simplified

end SqliteDissect.Model.Signature
