/-
Model of the schema-row classes other than the ordinary table, and of the way `MasterSchema.__init__`
builds its entries from the rows of the page-1 b-tree:

  sqlite_dissect/file/schema/master.py   MasterSchemaRow.__init__ (the five columns, `sql_has_comments`),
                                         TableRow.__init__, VirtualTableRow.__init__, IndexRow.__init__,
                                         ViewRow.__init__, TriggerRow.__init__,
                                         MasterSchema.__init__ lines 209-352 (tables, then indexes - linked to
                                         their table -, views, triggers; duplicate names)

The helpers shared with the ordinary table (`_get_master_schema_row_name_and_remaining_sql`,
`get_index_of_closing_parenthesis`, `parse_comment_from_sql_segment`, the whitespace collapse,
`OrdinaryTableRow.__init__` itself) are those of Model/Schema.lean.

A row is what `_create_master_schema_entry_data_named_tuple` / `MasterSchemaRow.__init__` see after
`.decode(database_text_encoding)`: three texts, the value of the rootpage column (NULL or an integer) and
the SQL text or NULL.  The record always has five columns here (the length check of
`MasterSchemaRow.__init__` has no `raise` and its other column reads would fail first), text columns
hold text (a NULL or numeric name column is `AttributeError` in the code: outside the rows modelled).

The model mirrors /repo after the repairs of C07-20 (comments between the index name and ON, and between ON
and the table name, are skipped like those before the column list), C07-21 (`parse_comment_from_sql_segment`:
a comment that is not closed runs to the end of the text; Model/Schema.lean `parseComment`) and C07-22 (the
module arguments of a virtual table are optional: `name_may_end_statement` of the name reader).

Unicode: as in Model/Schema.lean - `str.isspace` exactly, `str.upper` / `str.lower` on ASCII with the 19
code points whose case mapping contains an ASCII letter answered `outsideModel`.  ViewRow and TriggerRow
use neither, so they have no `outsideModel` answer at all.
-/
import SqliteDissect.Model.Schema

namespace SqliteDissect.Model.SchemaRows
open SqliteDissect SqliteDissect.Model.Schema

/-- the five columns of one `sqlite_schema` row -/
structure Row where
  rowType : Str
  name : Str
  tblName : Str
  root : Option Int          -- `root_page_number`: the column value as it is (NULL or an integer)
  sql : Option Str
  deriving DecidableEq, Repr, Inhabited

def kTable : Str := ['t','a','b','l','e']
def kIndex : Str := ['i','n','d','e','x']
def kView : Str := ['v','i','e','w']
def kTrigger : Str := ['t','r','i','g','g','e','r']

def createIndex : Str := ['C','R','E','A','T','E',' ','I','N','D','E','X']
def createUniqueIndex : Str := ['C','R','E','A','T','E',' ','U','N','I','Q','U','E',' ','I','N','D','E','X']
def kON : Str := ['O','N']
def kWHERE : Str := ['W','H','E','R','E']
def kUSING : Str := ['U','S','I','N','G']
def autoindexPrefix : Str := ['s','q','l','i','t','e','_','a','u','t','o','i','n','d','e','x','_']

/-- `sql_value.decode(enc) if sql_value else None`: an empty text is no SQL -/
def normSql : Option Str → Option Str
  | some [] => none
  | s => s

/-- `self.sql.find("--") != -1 or self.sql.find("/*")`: `find` answers -1 (true) when there is no "/*"
and 0 (false) only when the text begins with it - the flag is set for nearly every row -/
def sqlHasComments : Option Str → Bool
  | none => false
  | some s => hasSub dashDash s || !slashStar.isPrefixOf s

/-- what `MasterSchemaRow.__init__` leaves on the object -/
structure Base where
  row : Row                  -- row_type, name, table_name, root_page_number, sql
  hasComments : Bool         -- sql_has_comments
  deriving DecidableEq, Repr, Inhabited

/-- `MasterSchemaRow.__init__`: an empty type, name or table name is taken for a missing one and the
message is formatted with `self.row_type` before that attribute exists (AttributeError; the
MasterSchemaRowParsingError built on the next line is not raised) -/
def rowInit (r : Row) : Py Base :=
  if r.rowType.isEmpty || r.name.isEmpty || r.tblName.isEmpty then .error .attributeError
  else .ok { row := { r with sql := normSql r.sql }, hasComments := sqlHasComments (normSql r.sql) }

/-- `TableRow.__init__` -/
def tableRowInit (r : Row) : Py Base := do
  let b ← rowInit r
  if b.row.rowType != kTable then .error .valueError
  else if b.row.sql.isNone then .error .valueError
  else .ok b

/-- `while s.startswith(("--", "/*")): comment, s = parse_comment(s); comments.append(comment.rstrip());
s = s.lstrip()` -/
def takeComments : Nat → Str → List Str → Py (Str × List Str)
  | 0, s, acc => .ok (s, acc)
  | fuel + 1, s, acc =>
      if startsWithComment s then do
        let (c, r) ← parseComment s
        takeComments fuel (lstrip r) (acc ++ [rstrip c])
      else .ok (s, acc)

/-- the "(...)" section must begin with "(" and end with ")" (`find("(") != 0 or rfind(")") != len - 1`) -/
def parenthesised (s : Str) : Bool := s.head? == some '(' && s.getLast? == some ')'

inductive Detail where
  | ordinary (t : Table)
  | virtualTable (moduleName : Str) (comments : List Str)        -- module_arguments is always []
  | index (internal unique partialIndex : Bool) (comments : List Str)
  | view
  | trigger
  deriving DecidableEq, Repr, Inhabited

structure Entry where
  row : Row
  hasComments : Bool
  detail : Detail
  deriving DecidableEq, Repr, Inhabited

/-- `VirtualTableRow.__init__`, first part: the table name after CREATE VIRTUAL TABLE and its comparison with the
name columns; answers the text that follows the name (left-stripped) -/
def virtualName (name tblName cmd : Str) : Py Str := do
  let rem := lstrip (cmd.drop createVirtualTable.length)
  let (tname, rem) ← rowNameAndRest rem
  let rem := lstrip rem
  let ne1 ← lowerNe tname name
  if ne1 then .error .parseError
  else do
  let ne2 ← lowerNe tname tblName
  if ne2 then .error .parseError
  else if sqlitePrefix.isPrefixOf tblName then .error .parseError
  else .ok rem

/-- `VirtualTableRow.__init__`, second part: USING, the module name, the parenthesised module arguments if
there are any, nothing after them; comments between the parts are collected -/
def virtualModule (rem : Str) : Py (Str × List Str) := do
  let (rem, cs) ← takeComments (rem.length + 1) rem []
  if upper (rem.take 5) != kUSING then .error .parseError
  else do
    let rem := lstrip (rem.drop 5)
    let (rem, cs) ← takeComments (rem.length + 1) rem cs
    -- the module name is read with the reader of table names; it may end the statement (repair of C07-22)
    let (moduleName, rem) ← rowNameAndRest rem true
    let rem := lstrip rem
    let (rem, cs) ← takeComments (rem.length + 1) rem cs
    -- the module arguments are optional
    if rem.isEmpty then .ok (moduleName, cs)
    else do
      let close ← closingParen rem
      if !parenthesised (rem.take (close + 1)) then .error .parseError
      else if !(lstrip (rem.drop (close + 1))).isEmpty then .error .parseError
      else .ok (moduleName, cs)

/-- the text parsing of `VirtualTableRow.__init__` after the whitespace collapse; `cmd` is `sql_command` -/
def virtualCmd (name tblName cmd : Str) : Py (Str × List Str) := do
  let rem ← virtualName name tblName cmd
  virtualModule rem

/-- the text parsing of `VirtualTableRow.__init__` (after the superclass constructors): (module_name, comments) -/
def virtualBody (name tblName sql : Str) : Py (Str × List Str) :=
  if !createVirtualTable.isPrefixOf sql then .error .parseError
  else virtualCmd name tblName (collapse isBlank sql)

/-- `VirtualTableRow.__init__` -/
def virtualRow (r : Row) : Py Entry :=
  if r.name.any caseFoldsToAscii || r.tblName.any caseFoldsToAscii || (r.sql.getD []).any caseFoldsToAscii then
    .error .outsideModel
  else do
    let b ← tableRowInit r
    let (m, cs) ← virtualBody b.row.name b.row.tblName (b.row.sql.getD [])
    .ok { row := b.row, hasComments := b.hasComments, detail := .virtualTable m cs }

/-- `IndexRow.__init__`: CREATE INDEX or CREATE UNIQUE INDEX; (unique, create_command_offset) -/
def indexPrefix (cmd : Str) : Py (Bool × Nat) :=
  if createIndex.isPrefixOf cmd then .ok (false, createIndex.length)
  else if createUniqueIndex.isPrefixOf cmd then .ok (true, createUniqueIndex.length)
  else .error .parseError

/-- `IndexRow.__init__`: the index name, ON, the table name, and their comparison with the name columns;
answers the text that follows the table name (left-stripped) and the comments met on the way -/
def indexNames (name tblName rem : Str) : Py (Str × List Str) := do
  let (iname, rem) ← rowNameAndRest rem
  let rem := lstrip rem
  -- comments after the index name, before ON (repair of C07-20)
  let (rem, cs) ← takeComments (rem.length + 1) rem []
  if upper (rem.take 2) != kON then .error .parseError
  else do
    let rem := lstrip (rem.drop 2)
    -- comments after ON, before the table name (repair of C07-20)
    let (rem, cs) ← takeComments (rem.length + 1) rem cs
    let (tname, rem) ← rowNameAndRest rem
    let rem := lstrip rem
    let ne1 ← lowerNe iname name
    if ne1 then .error .parseError
    else do
    let ne2 ← lowerNe tname tblName
    if ne2 then .error .parseError
    else .ok (rem, cs)

/-- `IndexRow.__init__`: what may follow the indexed columns - comments, then nothing or WHERE …: (partial_index, comments) -/
def indexTail (rem : Str) (cs : List Str) : Py (Bool × List Str) := do
  let rem := lstrip rem
  let (rem, cs) ← takeComments (rem.length + 1) rem cs
  if rem.isEmpty then .ok (false, cs)
  else if upper (rem.take 5) != kWHERE then .error .parseError
  else .ok (true, cs)     -- (the comment loop after the WHERE test cannot run: the text begins with WHERE)

/-- `IndexRow.__init__`: the parenthesised indexed columns and what may follow them: (partial_index, comments) -/
def indexCols (rem : Str) (cs : List Str := []) : Py (Bool × List Str) := do
  let (rem, cs) ← takeComments (rem.length + 1) rem cs
  let close ← closingParen rem
  if !parenthesised (rem.take (close + 1)) then .error .parseError
  else indexTail (rem.drop (close + 1)) cs

/-- the text parsing of `IndexRow.__init__` after the whitespace collapse; `cmd` is `sql_command` -/
def indexCmd (name tblName cmd : Str) : Py (Bool × Bool × List Str) := do
  let (unique, off) ← indexPrefix cmd
  let (rem, cs) ← indexNames name tblName (cmd.drop (off + 1))
  let (p, cs) ← indexCols rem cs
  .ok (unique, p, cs)

/-- the text parsing of `IndexRow.__init__` for an index that has SQL: (unique, partial_index, comments) -/
def indexBody (name tblName sql : Str) : Py (Bool × Bool × List Str) :=
  indexCmd name tblName (collapse isBlank sql)

/-- the dictionary of table rows handed to `IndexRow`: `table_name` → `without_row_id` of an
`OrdinaryTableRow`; `none` for a `VirtualTableRow`, which has no such attribute -/
abbrev Tables := List (Str × Option Bool)

def Tables.find (ts : Tables) (k : Str) : Option (Option Bool) := (ts.find? (·.1 == k)).map (·.2)

/-- `IndexRow.__init__` -/
def indexRow (r : Row) (tables : Tables) : Py Entry :=
  if r.name.any caseFoldsToAscii || r.tblName.any caseFoldsToAscii || (r.sql.getD []).any caseFoldsToAscii then
    .error .outsideModel
  else do
    let b ← rowInit r
    if b.row.rowType != kIndex then .error .valueError
    else
      let internal := sqlitePrefix.isPrefixOf b.row.name
      if internal && !autoindexPrefix.isPrefixOf b.row.name then .error .parseError
      else if internal && b.row.sql.isSome then .error .parseError
      else if !internal && b.row.sql.isNone then .error .parseError
      else
        match tables.find b.row.tblName with
        | none => .error .parseError
        | some none => .error .attributeError          -- `table_row.without_row_id` of a VirtualTableRow
        | some (some _) =>                              -- (a WITHOUT ROWID table only draws a warning)
            if internal then
              .ok { row := b.row, hasComments := b.hasComments, detail := .index true false false [] }
            else do
              let (u, p, cs) ← indexBody b.row.name b.row.tblName (b.row.sql.getD [])
              .ok { row := b.row, hasComments := b.hasComments, detail := .index false u p cs }

/-- `ViewRow.__init__` -/
def viewRow (r : Row) : Py Entry := do
  let b ← rowInit r
  if b.row.rowType != kView then .error .valueError
  else .ok { row := b.row, hasComments := b.hasComments, detail := .view }

/-- `TriggerRow.__init__` -/
def triggerRow (r : Row) : Py Entry := do
  let b ← rowInit r
  if b.row.rowType != kTrigger then .error .valueError
  else .ok { row := b.row, hasComments := b.hasComments, detail := .trigger }

/-- `OrdinaryTableRow.__init__` (Model/Schema.lean) with the columns `MasterSchemaRow.__init__` keeps -/
def ordinaryRow (r : Row) : Py Entry := do
  let t ← parseOrdinaryTable r.name r.tblName ((normSql r.sql).getD [])
  .ok { row := { r with sql := normSql r.sql }, hasComments := sqlHasComments (normSql r.sql), detail := .ordinary t }

/-- one table row of `MasterSchema.__init__`: the class is chosen by the beginning of the SQL text; the
message of the last branch has two place holders and one argument (IndexError) -/
def tableEntry (r : Row) : Py Entry :=
  match normSql r.sql with
  | none => .error .attributeError                       -- `None.startswith`
  | some s =>
      if createTable.isPrefixOf s then ordinaryRow r
      else if createVirtualTable.isPrefixOf s then virtualRow r
      else .error .indexError

def Entry.withoutRowid (e : Entry) : Option Bool :=
  match e.detail with
  | .ordinary t => some t.withoutRowid
  | _ => none

def rowsOfType (t : Str) (rows : List Row) : List Row := rows.filter (·.rowType == t)

/-- the table loop: entries so far and the dictionary `master_schema_tables` -/
def tableStep (acc : List Entry × Tables) (r : Row) : Py (List Entry × Tables) := do
  let e ← tableEntry r
  if (acc.2.find e.row.tblName).isSome then .error .parseError
  else .ok (acc.1 ++ [e], acc.2 ++ [(e.row.tblName, e.withoutRowid)])

def indexStep (tables : Tables) (acc : List Entry) (r : Row) : Py (List Entry) := do
  let e ← indexRow r tables
  .ok (acc ++ [e])

/-- the view loop: entries so far and the names in `master_schema_views` -/
def viewStep (tables : Tables) (acc : List Entry × List Str) (r : Row) : Py (List Entry × List Str) := do
  let e ← viewRow r
  if (tables.find e.row.tblName).isSome then .error .parseError
  else if acc.2.contains e.row.tblName then .error .parseError
  else .ok (acc.1 ++ [e], acc.2 ++ [e.row.tblName])

def triggerStep (acc : List Entry) (r : Row) : Py (List Entry) := do
  let e ← triggerRow r
  .ok (acc ++ [e])

/-- `MasterSchema.__init__`, from the rows collected from the page-1 b-tree (in the order the tree
walk delivers them) to `master_schema_entries`: tables, indexes, views, triggers; rows of any other
type are not looked at -/
def buildEntries (rows : List Row) : Py (List Entry) := do
  let (ts, tables) ← (rowsOfType kTable rows).foldlM tableStep ([], [])
  let is ← (rowsOfType kIndex rows).foldlM (indexStep tables) []
  let (vs, _) ← (rowsOfType kView rows).foldlM (viewStep tables) ([], [])
  let gs ← (rowsOfType kTrigger rows).foldlM triggerStep []
  .ok (ts ++ is ++ vs ++ gs)

end SqliteDissect.Model.SchemaRows
