/-
Model of file/database/header.py:DatabaseHeader, file/wal/header.py:WriteAheadLogHeader and
WriteAheadLogFrameHeader, file/journal/header.py:RollbackJournalHeader — check for check, in
the order the constructors make them.
-/
import SqliteDissect.Bytes
import SqliteDissect.Generated.Constants

namespace SqliteDissect.Model

structure DbHeader where
  pageSize : Nat
  writeVersion : Nat
  readVersion : Nat
  reservedBytes : Nat
  maxFraction : Nat
  minFraction : Nat
  leafFraction : Nat
  changeCounter : Nat
  sizeInPages : Nat
  firstFreelistTrunk : Nat
  freelistPages : Nat
  schemaCookie : Nat
  schemaFormat : Nat
  defaultCacheSize : Nat
  largestRoot : Nat
  textEncoding : Nat
  userVersion : Nat
  incrementalVacuum : Nat
  applicationId : Nat
  versionValidFor : Nat
  sqliteVersion : Nat
  raw : List Nat                    -- md5 input
  deriving Repr, Inhabited, DecidableEq

/-- `ord(b[i:i+1])` -/
def ordAt (b : Buf) (i : Nat) : Py Nat :=
  if i < b.size then .ok (b.rd i) else .error .typeError

def isPowerOfTwo (n : Nat) : Bool := n ≠ 0 ∧ (n &&& (n - 1)) = 0

/-- `DatabaseHeader.__init__(bytes)` -/
def parseDbHeader (b : Buf) : Py DbHeader := do
  if b.size ≠ Generated.SQLITE_DATABASE_HEADER_LENGTH then .error .valueError
  else if (b.slice 0 16).toList ≠ Generated.MAGIC_HEADER_STRING then .error .parseError
  else
    let ps ← b.u16 16
    let ps ← (if ps = Generated.MAXIMUM_PAGE_SIZE_INDICATOR then pure Generated.MAXIMUM_PAGE_SIZE
      else if ps < Generated.MINIMUM_PAGE_SIZE_LIMIT then (.error .parseError : Py Nat)
      else if ps > Generated.MAXIMUM_PAGE_SIZE_LIMIT then .error .parseError
      else if ¬ isPowerOfTwo ps then .error .parseError      -- fix: commit
      else pure ps)
    let wv ← ordAt b 18
    if wv ≠ Generated.ROLLBACK_JOURNALING_MODE ∧ wv ≠ Generated.WAL_JOURNALING_MODE then .error .parseError
    else
      let rv ← ordAt b 19
      if rv ≠ Generated.ROLLBACK_JOURNALING_MODE ∧ rv ≠ Generated.WAL_JOURNALING_MODE then .error .parseError
      else
        let rb ← ordAt b 20
        if rb ≠ 0 then .error .notImplemented
        else
          let mx ← ordAt b 21
          if mx ≠ Generated.MAXIMUM_EMBEDDED_PAYLOAD_FRACTION then .error .parseError
          else
            let mn ← ordAt b 22
            if mn ≠ Generated.MINIMUM_EMBEDDED_PAYLOAD_FRACTION then .error .parseError
            else
              let lf ← ordAt b 23
              if lf ≠ Generated.LEAF_PAYLOAD_FRACTION then .error .parseError
              else
                let cc ← b.u32 24
                let sz ← b.u32 28
                let ft ← b.u32 32
                let fp ← b.u32 36
                let sc ← b.u32 40
                let sf ← b.u32 44
                let dc ← b.u32 48
                let lr ← b.u32 52
                let te ← b.u32 56
                if ¬ (sf = 0 ∧ te = 0) ∧ ¬ Generated.VALID_SCHEMA_FORMATS.contains sf then .error .parseError
                else if ¬ (sf = 0 ∧ te = 0) ∧ ¬ Generated.DATABASE_TEXT_ENCODINGS.contains te then .error .parseError
                else
                  let uv ← b.u32 60
                  let iv ← b.u32 64
                  if lr = 0 ∧ iv ≠ 0 then .error .parseError
                  else
                    let ai ← b.u32 68
                    if (b.slice 72 92).toList.any (· ≠ 0) then .error .parseError
                    else
                      let vv ← b.u32 92
                      let sv ← b.u32 96
                      pure { pageSize := ps, writeVersion := wv, readVersion := rv, reservedBytes := rb,
                             maxFraction := mx, minFraction := mn, leafFraction := lf, changeCounter := cc,
                             sizeInPages := sz, firstFreelistTrunk := ft, freelistPages := fp,
                             schemaCookie := sc, schemaFormat := sf, defaultCacheSize := dc, largestRoot := lr,
                             textEncoding := te, userVersion := uv, incrementalVacuum := iv, applicationId := ai,
                             versionValidFor := vv, sqliteVersion := sv, raw := b.toList }

structure WalHeader where
  magic : Nat
  formatVersion : Nat
  pageSize : Nat
  checkpointSeq : Nat
  salt1 : Nat
  salt2 : Nat
  checksum1 : Nat
  checksum2 : Nat
  deriving Repr, Inhabited, DecidableEq

/-- `WriteAheadLogHeader.__init__` -/
def parseWalHeader (b : Buf) : Py WalHeader := do
  if b.size ≠ Generated.WAL_HEADER_LENGTH then .error .valueError
  else
    let magic ← b.u32 0
    if magic ≠ Generated.WAL_MAGIC_NUMBER_BIG_ENDIAN ∧ magic ≠ Generated.WAL_MAGIC_NUMBER_LITTLE_ENDIAN then .error .parseError
    else
      let fv ← b.u32 4
      if fv ≠ Generated.WAL_FILE_FORMAT_VERSION then .error .parseError
      else
        pure ⟨magic, fv, ← b.u32 8, ← b.u32 12, ← b.u32 16, ← b.u32 20, ← b.u32 24, ← b.u32 28⟩

structure FrameHeader where
  pageNumber : Nat
  sizeAfterCommit : Nat
  salt1 : Nat
  salt2 : Nat
  checksum1 : Nat
  checksum2 : Nat
  deriving Repr, Inhabited, DecidableEq

/-- `WriteAheadLogFrameHeader.__init__` -/
def parseFrameHeader (b : Buf) : Py FrameHeader := do
  if b.size ≠ Generated.WAL_FRAME_HEADER_LENGTH then .error .valueError
  else pure ⟨← b.u32 0, ← b.u32 4, ← b.u32 8, ← b.u32 12, ← b.u32 16, ← b.u32 20⟩

structure JournalHeader where
  headerString : List Nat
  pageCount : Int
  nonce : Nat
  initialSize : Nat
  sectorSize : Nat
  pageSize : Nat
  deriving Repr, Inhabited, DecidableEq

/-- `RollbackJournalHeader.__init__` (an unexpected header string is only a warning) -/
def parseJournalHeader (b : Buf) : Py JournalHeader := do
  if b.size ≠ Generated.ROLLBACK_JOURNAL_HEADER_LENGTH then .error .valueError
  else
    let pc ← b.u32 8
    let pc : Int := if (b.slice 8 12).toList = Generated.ROLLBACK_JOURNAL_HEADER_ALL_CONTENT
      then Generated.ROLLBACK_JOURNAL_ALL_CONTENT_UNTIL_END_OF_FILE else pc
    pure ⟨(b.slice 0 8).toList, pc, ← b.u32 12, ← b.u32 16, ← b.u32 20, ← b.u32 24⟩

end SqliteDissect.Model
