/-
Counted twin of the backtracking matcher of Model/Regex.lean (C18: cost of `re.finditer` on the
patterns `generate_signature_regex` emits).  Imports nothing outside the project.

**What is counted.**  One step per visit of `m`, i.e. per pattern node attempted at a subject
position (a `lit`/`cls`/`set` leaf compared with the byte in front, or a `rep`/`seq`/`alt` node
entered).  `repLoop`, `mseq`, `malt` are the bookkeeping of a node already counted and cost
nothing themselves; every iteration of a repetition, element of a concatenation and alternative of
an alternation costs the visit of that sub-pattern.  This is (up to a constant factor: each node
does a bounded amount of work besides its recursive calls) the running time of a backtracking
engine without memoisation, which is what CPython's `sre` is for this fragment.

**How it is counted.**  A result is `Option α × Nat`: the match result and the number of steps
spent.  The continuation returns the steps *it* spent (the matcher runs the continuation, so the
work done inside it — the rest of the pattern — is part of the cost of the call), and every
function adds its own steps to those of the calls it makes: `tick n r` adds `n` steps, `orElse`
is ordered choice — the second branch runs, and its steps are added, only when the first failed.
This is the step counter threaded through the computation, written additively (a counter passed
in and out would be `n₀ + steps` everywhere); the additive form makes "the steps of a call" a
function of the call alone.

Erasing the second component gives `Model.Regex.m` / `matchAt` / `searchFrom` / `finditer`
(Proofs/RegexCost.lean `*_erase`).
-/
import SqliteDissect.Model.Regex

namespace SqliteDissect.Model.RegexCost
open SqliteDissect.Model.Regex

/-- a result together with the number of steps spent on it -/
abbrev Res (α : Type) := Option α × Nat

/-- the steps of a counted result -/
abbrev steps {β : Type} (r : β × Nat) : Nat := r.2

/-- `n` more steps -/
def tick {α : Type} (n : Nat) (r : Res α) : Res α := (r.1, n + r.2)

/-- ordered choice (backtracking): `y` is run, and paid for, only when `x` failed -/
def orElse {α : Type} (x : Res α) (y : Unit → Res α) : Res α :=
  match x with
  | (some a, n) => (some a, n)
  | (none, n) => tick n (y ())

/-- counted `repLoop` -/
def repLoopC {α : Type} (step : List Nat → (List Nat → Res α) → Res α) :
    Nat → Nat → List Nat → (List Nat → Res α) → Res α
  | 0, lo, s, k => if lo = 0 then k s else (none, 0)
  | hi + 1, lo, s, k =>
    orElse (step s (fun s' => repLoopC step hi (lo - 1) s' k))
      (fun _ => if lo = 0 then k s else (none, 0))

mutual
/-- counted `m`: one step per visit -/
def mC {α : Type} : Pat → List Nat → (List Nat → Res α) → Res α
  | .lit b, s, k =>
    tick 1 (match s with
      | c :: r => if c = b then k r else (none, 0)
      | [] => (none, 0))
  | .cls lo hi, s, k =>
    tick 1 (match s with
      | c :: r => if lo ≤ c ∧ c ≤ hi then k r else (none, 0)
      | [] => (none, 0))
  | .set bs, s, k =>
    tick 1 (match s with
      | c :: r => if c ∈ bs then k r else (none, 0)
      | [] => (none, 0))
  | .rep lo hi p, s, k => tick 1 (repLoopC (mC p) hi lo s k)
  | .seq ps, s, k => tick 1 (mseqC ps s k)
  | .alt ps, s, k => tick 1 (maltC ps s k)
def mseqC {α : Type} : List Pat → List Nat → (List Nat → Res α) → Res α
  | [], s, k => k s
  | p :: ps, s, k => mC p s (fun s' => mseqC ps s' k)
def maltC {α : Type} : List Pat → List Nat → (List Nat → Res α) → Res α
  | [], _, _ => (none, 0)
  | p :: ps, s, k => orElse (mC p s k) (fun _ => maltC ps s k)
end

/-- counted `matchAt` (`re.match`): the final continuation accepts at no cost -/
def matchAtC (p : Pat) (s : List Nat) : Res (List Nat) := mC p s (fun r => (some r, 0))

/-- counted `searchFrom` (`re.search`): the steps of all the `matchAt` attempts made -/
def searchFromC (p : Pat) : List Nat → Nat → Option (Nat × Nat) × Nat
  | [], pos => match matchAtC p [] with
    | (some _, n) => (some (pos, pos), n)
    | (none, n) => (none, n)
  | c :: t, pos => match matchAtC p (c :: t) with
    | (some r, n) => (some (pos, pos + ((c :: t).length - r.length)), n)
    | (none, n) => let r := searchFromC p t (pos + 1); (r.1, n + r.2)

def searchC (p : Pat) (s : List Nat) : Option (Nat × Nat) × Nat := searchFromC p s 0

/-- prepend a match / add steps to the result of the rest of the scan -/
def consC (x : Option (Nat × Nat)) (n : Nat) (r : List (Nat × Nat) × Nat) : List (Nat × Nat) × Nat :=
  (match x with
    | some a => a :: r.1
    | none => r.1, n + r.2)

/-- counted `finditerAux`: the steps of all the `matchAt` attempts made -/
def finditerAuxC (p : Pat) : Nat → List Nat → Nat → List (Nat × Nat) × Nat
  | 0, _, _ => ([], 0)
  | fuel + 1, s, pos =>
    match matchAtC p s with
    | (some r, c) =>
      let n := s.length - r.length
      if n = 0 then
        consC (some (pos, pos)) c (match s with
          | [] => ([], 0)
          | _ :: t => finditerAuxC p fuel t (pos + 1))
      else consC (some (pos, pos + n)) c (finditerAuxC p fuel r (pos + n))
    | (none, c) =>
      consC none c (match s with
        | [] => ([], 0)
        | _ :: t => finditerAuxC p fuel t (pos + 1))

/-- counted `finditer` (`re.finditer`) -/
def finditerC (p : Pat) (s : List Nat) : List (Nat × Nat) × Nat := finditerAuxC p (s.length + 1) s 0

end SqliteDissect.Model.RegexCost
