/-
Model of file/wal/wal.py (WriteAheadLog), file/wal/frame.py, file/wal/commit_record.py
(WriteAheadLogCommitRecord incl. _parse_database_header_differences and
wal/utilities.py:compare_database_headers) and version_history.py:VersionHistory.__init__.
-/
import SqliteDissect.Model.Database

namespace SqliteDissect.Model

structure Frame where
  index : Nat
  hdr : FrameHeader
  commitRecordNumber : Option Nat
  deriving Repr, Inhabited, DecidableEq

def Frame.number (f : Frame) : Nat := f.index + 1
def Frame.isCommit (f : Frame) : Bool := f.hdr.sizeAfterCommit ≠ 0

structure Wal where
  hdr : WalHeader
  fh : FileH
  nFrames : Int
  frames : List Frame            -- valid frames (a prefix of the file's frames)
  invalid : List Frame
  invalidIndices : List (Nat × Nat × Nat)   -- salt1 ↦ (first, last)
  lastCommitIndex : Int

/-- `WriteAheadLogFrame.__init__` -/
def readFrame (fh : FileH) (ps : Nat) (index : Nat) (crn : Nat) : Py Frame := do
  let frameSize := Generated.WAL_FRAME_HEADER_LENGTH + ps
  let off := Generated.WAL_HEADER_LENGTH + index * frameSize
  let raw ← fh.read off frameSize
  let h ← parseFrameHeader (raw.slice 0 Generated.WAL_FRAME_HEADER_LENGTH)
  if raw.size - Generated.WAL_FRAME_HEADER_LENGTH ≠ ps ∨ raw.size < Generated.WAL_FRAME_HEADER_LENGTH then .error .parseError
  else pure ⟨index, h, some crn⟩

structure WalScan where
  valid : List Frame := []
  invalid : List Frame := []
  invIdx : List (Nat × Nat × Nat) := []
  crn : Nat := 1

/-- one iteration of the frame loop of `WriteAheadLog.__init__` -/
def walScanStep (fh : FileH) (h : WalHeader) (st : WalScan) (i : Nat) : Py WalScan := do
  let f ← readFrame fh h.pageSize i st.crn
  if f.hdr.salt1 ≠ h.salt1 then
    match st.invIdx.find? (·.1 = f.hdr.salt1) with
    | some (_, first, last) =>
      if last + 1 ≠ i then .error .parseError
      else pure { st with invIdx := st.invIdx.map (fun e => if e.1 = f.hdr.salt1 then (e.1, first, i) else e),
                          invalid := st.invalid ++ [{ f with commitRecordNumber := none }] }
    | none => pure { st with invIdx := st.invIdx ++ [(f.hdr.salt1, i, i)],
                             invalid := st.invalid ++ [{ f with commitRecordNumber := none }] }
  else if f.hdr.salt2 ≠ h.salt2 then .error .parseError
  else if ¬ st.invIdx.isEmpty then .error .parseError
  else pure { st with valid := st.valid ++ [f], crn := if f.isCommit then st.crn + 1 else st.crn }

/-- walk back from the last valid frame to the last commit frame; -1 when there is none -/
def lastCommitIndex (frames : List Frame) : Int :=
  match (frames.reverse.find? Frame.isCommit) with
  | some f => f.index
  | none => -1

/-- `FileHandle(WAL)` + `WriteAheadLog.__init__` -/
def openWal (givenSize : Option Nat) (file : Buf) : Py Wal := do
  let fsize := match givenSize with
    | some 0 => file.size
    | some n => n
    | none => file.size
  let hdr ← parseWalHeader (file.slice 0 Generated.WAL_HEADER_LENGTH)
  let fh : FileH := ⟨fsize, file⟩
  let frameSize : Int := Generated.WAL_FRAME_HEADER_LENGTH + hdr.pageSize
  -- int((file_size - 32) / frame_size): float division then truncation toward zero
  let nFrames : Int := Int.tdiv ((fsize : Int) - Generated.WAL_HEADER_LENGTH) frameSize
  let st ← (List.range nFrames.toNat).foldlM (walScanStep fh hdr) {}
  match st.valid.getLast? with
  | none => .error .valueError              -- max() of an empty sequence
  | some _ =>
    let lc := lastCommitIndex st.valid
    if lc ≠ (st.valid.length : Int) - 1 then .error .notImplemented
    else pure ⟨hdr, fh, nFrames, st.valid, st.invalid, st.invIdx, lc⟩

/-- `openWal` with the number of frames whose construction was started (`WriteAheadLogFrame(...)`
calls, the failing one included): a counter that survives exceptions.  Erasing it gives `openWal`
(Proofs/Cost.lean `openWalCounted_snd`). -/
def openWalCounted (givenSize : Option Nat) (file : Buf) : Nat × Py Wal :=
  let fsize := match givenSize with
    | some 0 => file.size
    | some n => n
    | none => file.size
  match parseWalHeader (file.slice 0 Generated.WAL_HEADER_LENGTH) with
  | .error e => (0, .error e)
  | .ok hdr =>
    let fh : FileH := ⟨fsize, file⟩
    let frameSize : Int := Generated.WAL_FRAME_HEADER_LENGTH + hdr.pageSize
    let nFrames : Int := Int.tdiv ((fsize : Int) - Generated.WAL_HEADER_LENGTH) frameSize
    let r := foldlMCounted (walScanStep fh hdr) {} (List.range nFrames.toNat)
    (r.1, do
      let st ← r.2
      match st.valid.getLast? with
      | none => .error .valueError
      | some _ =>
        let lc := lastCommitIndex st.valid
        if lc ≠ (st.valid.length : Int) - 1 then .error .notImplemented
        else pure ⟨hdr, fh, nFrames, st.valid, st.invalid, st.invIdx, lc⟩)

/-! ### Versions -/

structure HeaderFlags where
  changeCounterIncremented : Bool := false
  sizeModified : Bool := false
  modFirstTrunk : Option Nat := none
  modFreelistPages : Option Nat := none
  modLargestRoot : Option Nat := none
  cookieModified : Bool := false
  formatModified : Bool := false
  encodingModified : Bool := false
  userVersionModified : Bool := false
  newEncoding : Option Nat := none
  deriving Repr, Inhabited, DecidableEq

/-- `compare_database_headers` restricted to "does any attribute outside the handled list differ":
page size, read/write version, reserved bytes, payload fractions (magic string and the
reserved-for-expansion bytes are constant for accepted headers; default cache size,
incremental-vacuum mode, application id and sqlite version number are accepted) -/
def unhandledDiffers (a b : DbHeader) : Bool :=
  a.pageSize ≠ b.pageSize ∨ a.writeVersion ≠ b.writeVersion ∨ a.readVersion ≠ b.readVersion ∨
  a.reservedBytes ≠ b.reservedBytes ∨ a.maxFraction ≠ b.maxFraction ∨ a.minFraction ≠ b.minFraction ∨
  a.leafFraction ≠ b.leafFraction

/-- `_parse_database_header_differences`: every `raise WalCommitRecordParsingError` in order -/
def classifyDifferences (prev next : DbHeader) (committedSize : Nat) (schemaModified : Bool) : Py HeaderFlags := do
  -- no differences at all (dictionary empty): return
  if prev = next then pure {}
  else if prev.raw = next.raw then .error .parseError       -- md5 not among the differences
  else
    let ccD := prev.changeCounter ≠ next.changeCounter
    let vvD := prev.versionValidFor ≠ next.versionValidFor
    if ccD ∧ ¬ vvD then .error .parseError
    else if vvD ∧ ¬ ccD then .error .parseError
    else if ccD ∧ vvD ∧ prev.changeCounter + 1 ≠ next.changeCounter then .error .parseError
    else if ccD ∧ vvD ∧ prev.versionValidFor + 1 ≠ next.versionValidFor then .error .parseError
    else
      let szD := prev.sizeInPages ≠ next.sizeInPages
      if szD ∧ committedSize ≠ next.sizeInPages then .error .parseError
      else
        let lrD := prev.largestRoot ≠ next.largestRoot
        if lrD ∧ prev.largestRoot ≠ 0 ∧ next.largestRoot = 0 then .error .parseError
        else if lrD ∧ prev.largestRoot = 0 ∧ next.largestRoot ≠ 0 then .error .parseError
        else
          let ckD := prev.schemaCookie ≠ next.schemaCookie
          if ckD ∧ prev.schemaCookie > next.schemaCookie then .error .parseError
          else if ckD ∧ ¬ schemaModified then .error .parseError
          else if ¬ ckD ∧ schemaModified then .error .parseError
          else
            let sfD := prev.schemaFormat ≠ next.schemaFormat
            let teD := prev.textEncoding ≠ next.textEncoding
            if sfD ∧ ¬ teD then .error .parseError
            else if teD ∧ ¬ sfD then .error .parseError
            else if sfD ∧ teD ∧ prev.schemaFormat ≠ 0 then .error .parseError
            else if sfD ∧ teD ∧ prev.textEncoding ≠ 0 then .error .parseError
            else if sfD ∧ teD ∧ ¬ szD then .error .parseError
            else if sfD ∧ teD ∧ prev.sizeInPages ≠ 1 then .error .parseError
            else if unhandledDiffers prev next then .error .parseError
            else
              pure { changeCounterIncremented := ccD ∧ vvD, sizeModified := szD,
                     modFirstTrunk := if prev.firstFreelistTrunk ≠ next.firstFreelistTrunk then some next.firstFreelistTrunk else none,
                     modFreelistPages := if prev.freelistPages ≠ next.freelistPages then some next.freelistPages else none,
                     modLargestRoot := if lrD then some next.largestRoot else none,
                     cookieModified := ckD, formatModified := sfD ∧ teD, encodingModified := sfD ∧ teD,
                     userVersionModified := prev.userVersion ≠ next.userVersion,
                     newEncoding := if sfD ∧ teD then some next.textEncoding else none }

structure Version where
  number : Nat
  pageSize : Nat
  dbSize : Nat
  sizeExact : Bool
  updated : List Nat
  pvi : List (Nat × Nat)
  pfi : List (Nat × Nat)
  hdr : DbHeader
  schema : MasterSchema
  rootTree : List BPage
  encoding : Nat
  hdrModified : Bool
  rootModified : Bool
  schemaModified : Bool
  freelistModified : Bool
  ptrmapModified : Bool
  freelist : List FreelistTrunk
  freelistNumbers : List Nat
  ptrmap : List PtrmapPage
  updatedBTree : List Nat
  committed : Bool
  flags : HeaderFlags

def versionOfDatabase (db : Database) : Version :=
  let n := db.dbSize.floor
  { number := 0, pageSize := db.pageSize, dbSize := n, sizeExact := db.dbSize.exact,
    updated := (List.range n).map (· + 1), pvi := (List.range n).map fun i => (i + 1, 0), pfi := [],
    hdr := db.hdr, schema := db.schema, rootTree := db.rootTree, encoding := db.encoding,
    hdrModified := true, rootModified := true, schemaModified := true,
    freelistModified := ¬ db.freelist.isEmpty, ptrmapModified := db.hdr.largestRoot ≠ 0,
    freelist := db.freelist, freelistNumbers := db.freelistPageNumbers, ptrmap := db.ptrmap,
    updatedBTree := db.updatedBTreePages, committed := true, flags := {} }

/-- `version.root_page` / `version.master_schema` as *observed*: a commit record that did not
modify the schema holds no schema object of its own and re-parses page 1 under itself -/
def observedSchema (ver : Version) (v : VersionIf) (frames : Nat) : Py (List BPage × MasterSchema) :=
  if ver.schemaModified then .ok (ver.rootTree, ver.schema)
  else do
    let rt ← getBTreeRoot v frames 1
    let ms ← parseMasterSchema v ver.encoding rt
    pure (rt, ms)

/-- `Version.pages` for any version (no cache) -/
def versionCensus (ver : Version) (v : VersionIf) (frames : Nat) : Py (List (Nat × String)) := do
  let put := fun (d : List (Nat × String)) (k : Nat) (s : String) => dictInsert d k s
  let d := ver.freelist.foldl (fun d t =>
      t.leaves.foldl (fun d l => put d l "FREELIST_LEAF") (put d t.number "FREELIST_TRUNK")) []
  let d := ver.ptrmap.foldl (fun d p => put d p.number "POINTER_MAP") d
  let (_, schema) ← observedSchema ver v frames
  let d := schema.pages.foldl (fun d pn => put d pn.1 pn.2) d
  let d ← schema.rootNumbers.foldlM (fun d r => do
      let t ← getBTreeRoot v frames r
      pure ((treePageNumbers t).foldl (fun d pn => put d pn.1 pn.2) d)) d
  if ¬ ver.sizeExact ∨ d.length ≠ ver.dbSize then .error .parseError
  else if (List.range ver.dbSize).any (fun i => ¬ d.any (·.1 = i + 1)) then .error .parseError
  else pure d

/-- the version interface of commit record `number` -/
def walVersionIf (strict : Bool) (dbv : VersionIf) (wal : Wal) (number dbSize : Nat)
    (pvi pfi : List (Nat × Nat)) (ownPages : List Nat) : VersionIf :=
  let ps := wal.hdr.pageSize
  let pageOffset : Nat → Py Nat := fun p =>
    if p < 1 ∨ p > dbSize then .error .valueError
    else match dictGet? pvi p with
      | none => .error .keyError
      | some pv =>
        if pv = 0 then .ok ((p - 1) * ps)
        else if pv = number ∧ ¬ ownPages.contains p then .error .parseError
        else match dictGet? pfi p with
          | none => .error .keyError
          | some f => .ok (Generated.WAL_HEADER_LENGTH + Generated.WAL_FRAME_HEADER_LENGTH * f + ps * (f - 1))
  { pageSize := ps, versionNumber := number, strict := strict,
    pageVersion := fun p => match dictGet? pvi p with
      | some v => .ok v
      | none => .error .keyError,
    pageOffset := pageOffset,
    getData := fun p off n =>
      match dictGet? pvi p with
      | none => .error .keyError
      | some pv =>
        if pv = 0 then dbv.getData p off n
        else
          let nb := match n with
            | none => ps - off
            | some 0 => ps - off
            | some k => k
          if off ≥ ps then .error .valueError
          else if off + nb > ps then .error .valueError
          else do
            let po ← pageOffset p
            wal.fh.read (po + off) nb }

/-- dict update `d[k] = v` -/
def dictSet (d : List (Nat × Nat)) (k v : Nat) : List (Nat × Nat) := dictInsert d k v

/-- the frame loop of `WriteAheadLogCommitRecord.__init__`: page-number keyed dictionary of the
record's frames (a page written twice: the later frame wins), committed flag, committed size -/
def recordFrames (frames : List Frame) : Py (List (Nat × Frame) × Bool × Nat) :=
  frames.foldlM
    (fun (st : List (Nat × Frame) × Bool × Nat) f =>
      let (d, com, cs) := st
      if f.isCommit ∧ com then (.error .parseError : Py (List (Nat × Frame) × Bool × Nat))
      else pure (dictInsert d f.hdr.pageNumber f, com ∨ f.isCommit, if f.isCommit then f.hdr.sizeAfterCommit else cs))
    ([], false, 0)

/-- `page_version_index` after the record: every updated page now belongs to this version -/
def nextPvi (prev : List (Nat × Nat)) (number : Nat) (updated : List Nat) : List (Nat × Nat) :=
  updated.foldl (fun d p => dictSet d p number) prev

/-- `page_frame_index` after the record: every updated page is served by its frame of this record -/
def nextPfi (prev : List (Nat × Nat)) (fd : List (Nat × Frame)) : List (Nat × Nat) :=
  fd.foldl (fun d e => dictSet d e.1 e.2.number) prev

/-- `WriteAheadLogCommitRecord.__init__` -/
def makeCommitRecord (cfg : Config) (dbv : VersionIf) (wal : Wal) (number : Nat) (frames : List Frame)
    (prev : Version) (lastHdr : DbHeader) (lastSchema : MasterSchema) (lastRootTree : List BPage)
    (encoding : Nat) : Py (Version × VersionIf) := do
  -- version numbering
  if prev.pvi.any (fun e => e.2 ≥ number) then .error .parseError
  else
    match (prev.pvi.map (·.2)).max? with
    | none => .error .valueError
    | some mx =>
      if number ≠ mx + 1 then .error .parseError
      else
        -- frames into the page-number keyed dictionary
        let (fd, committed, csize) ← recordFrames frames
        let updated := fd.map (·.1)
        let pvi := nextPvi prev.pvi number updated
        let pfi := nextPfi prev.pfi fd
        -- an uncommitted record has database_size_in_pages = None: every page request raises TypeError
        if ¬ committed then .error .typeError
        else
          let v := walVersionIf cfg.strict dbv wal number csize pvi pfi updated
          let ubt := updated
          -- page 1 in this record?
          let (ubt, ownHdr, rootMod) ← (if updated.contains 1 then do
              let page ← v.getData 1 0 none
              let hb := page.slice 0 Generated.SQLITE_DATABASE_HEADER_LENGTH
              let ownHdr ← (if lastHdr.raw ≠ hb.toList then do
                  let h ← parseDbHeader hb
                  pure (some h)
                else pure none)
              let rootOnly := (page.slice Generated.SQLITE_DATABASE_HEADER_LENGTH page.size).toList
              let lastRootOnly := match lastRootTree with
                | r :: _ => r.rootOnly
                | [] => []
              pure (ubt.erase 1, ownHdr, decide (lastRootOnly ≠ rootOnly))
            else pure (ubt, none, false))
          let hdrMod := ownHdr.isSome
          let schemaMod := rootMod ∨ lastSchema.pages.any (fun pn => pn.1 ≠ 1 ∧ updated.contains pn.1)
          if ¬ hdrMod ∧ schemaMod then .error .parseError
          else
            let flags ← (match ownHdr with
              | some h => classifyDifferences lastHdr h csize schemaMod
              | none => pure {})
            let hdr := ownHdr.getD lastHdr
            let enc := match flags.newEncoding with
              | some e => e
              | none => encoding
            -- master schema
            let (rootTree, schema, ubt) ← (if schemaMod then do
                let rt ← getBTreeRoot v cfg.frames 1
                let ms ← parseMasterSchema v enc rt
                pure (rt, ms, ms.pages.foldl (fun u pn => u.erase pn.1) ubt)
              else pure (lastRootTree, lastSchema, ubt))
            -- freelist (always re-walked)
            let fl ← (if hdr.firstFreelistTrunk ≠ 0 then parseFreelist v cfg.frames hdr.firstFreelistTrunk else pure [])
            let flNums := fl.flatMap fun t => t.number :: t.leaves
            if flNums.length ≠ hdr.freelistPages then .error .parseError
            else
              let flMod := flNums.any updated.contains
              let ubt := flNums.foldl (fun u p => if updated.contains p then u.erase p else u) ubt
              let pm ← (if hdr.largestRoot ≠ 0 then createPtrmapPages v csize else pure [])
              let pmNums := pm.map (·.number)
              let pmMod := pmNums.any updated.contains
              let ubt := pmNums.foldl (fun u p => if updated.contains p then u.erase p else u) ubt
              let ver : Version :=
                    { number, pageSize := wal.hdr.pageSize, dbSize := csize, sizeExact := true, updated, pvi, pfi,
                      hdr, schema, rootTree, encoding := enc, hdrModified := hdrMod, rootModified := rootMod,
                      schemaModified := schemaMod, freelistModified := flMod, ptrmapModified := pmMod,
                      freelist := fl, freelistNumbers := flNums, ptrmap := pm, updatedBTree := ubt,
                      committed := true, flags }
              if cfg.storeInMemory then do
                let _ ← versionCensus ver v cfg.frames
                pure (ver, v)
              else pure (ver, v)

structure History where
  db : Database
  wal : Option Wal
  versions : List (Version × VersionIf)

/-- split the valid frames into commit records at commit frames -/
def groupFrames : List Frame → List Frame → List (List Frame) → List (List Frame) × List Frame
  | [], cur, acc => (acc.reverse, cur.reverse)
  | f :: rest, cur, acc =>
    if f.isCommit then groupFrames rest [] ((f :: cur).reverse :: acc)
    else groupFrames rest (f :: cur) acc

/-- `VersionHistory.__init__` -/
def versionHistory (cfg : Config) (db : Database) (dbv : VersionIf) (wal : Option Wal) :
    Py (List (Version × VersionIf)) := do
  let v0 := versionOfDatabase db
  match wal with
  | none => pure [(v0, dbv)]
  | some w =>
    let (groups, rest) := groupFrames w.frames [] []
    let (vs, _) ← groups.foldlM
      (fun (st : List (Version × VersionIf) × (DbHeader × MasterSchema × List BPage × Nat)) g => do
        let (vs, (lh, ls, lrt, enc)) := st
        match vs.getLast? with
        | none => (.error .runtimeError : Py _)
        | some (pv, _) =>
          let (cv, cvi) ← makeCommitRecord cfg dbv w (vs.length) g pv lh ls lrt enc
          let lh' := if cv.hdrModified then cv.hdr else lh
          let (ls', lrt') := if cv.schemaModified then (cv.schema, cv.rootTree) else (ls, lrt)
          pure (vs ++ [(cv, cvi)], (lh', ls', lrt', cv.encoding)))
      ([(v0, dbv)], (db.hdr, db.schema, db.rootTree, db.encoding))
    -- frames after the last commit frame cannot occur (WriteAheadLog refuses them)
    if ¬ rest.isEmpty then .error .typeError else pure vs

end SqliteDissect.Model
