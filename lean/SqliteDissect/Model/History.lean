/-
Model of file/version_parser.py:VersionParser.__init__ (tracking a schema entry across versions)
and version_history.py:VersionHistoryParser.VersionParserIterator.next (per-commit
added / updated / deleted cells), without carving (Model/Carve.lean adds that).
-/
import SqliteDissect.Model.Wal

namespace SqliteDissect.Model

/-- what `MasterSchemaRow.md5_hash_identifier` hashes: row id, type, name, table name, sql -/
structure EntryIdent where
  rowid : Int
  rowType : String
  name : List Nat
  tableName : List Nat
  sql : Option (List Nat)
  deriving DecidableEq, Repr, Inhabited

def SchemaRow.ident (r : SchemaRow) : EntryIdent := ⟨r.rowid, r.rowType, r.name, r.tableName, r.sql⟩

/-- root page number of the entry in a schema (`entries_dictionary[md5].root_page_number`);
later entries with the same identity overwrite earlier ones (dict(map(...))) -/
def rootOf (ms : MasterSchema) (id : EntryIdent) : Option Val :=
  ((ms.entries.filter fun e => e.ident = id).getLast?).map (·.rootPage)

/-- `VersionParser.__init__`: the contiguous run of versions that contain the entry, with the
root page number in each (`root_page_number_version_index`).  `schemas` lists, per version in
the requested range, that version's schema as the constructor sees it (own or carried). -/
def rootIndex (id : EntryIdent) : List (Nat × MasterSchema) → Option Nat → List (Nat × Val) → List (Nat × Val)
  | [], _, acc => acc
  | (k, ms) :: rest, ending, acc =>
    match rootOf ms id with
    | none => rootIndex id rest ending acc
    | some rp =>
      match ending with
      | none => rootIndex id rest (some k) (acc ++ [(k, rp)])
      | some e =>
        if e + 1 = k then rootIndex id rest (some k) (acc ++ [(k, rp)])
        else rootIndex id rest ending acc         -- re-appears after a gap: warning only

structure Commit where
  version : Nat
  rootPage : Nat
  pageNumbers : List Nat
  updatedPageNumbers : List Nat
  bTreeUpdated : Bool
  added : List Cell
  updated : List Cell
  deleted : List Cell
  deriving Inhabited

structure IterState where
  currentCells : List (List Nat × Cell) := []
  currentPages : List Nat := []

/-- the dictionary algebra of `VersionParserIterator.next` for one version whose b-tree was
re-read: `cells` is the digest-keyed dictionary returned by `aggregate_leaf_cells` -/
def diffCells (isTable : Bool) (current cells : List (List Nat × Cell)) :
    List Cell × List Cell × List Cell :=
  -- added = cells minus those already current; deleted = current minus cells
  let added := cells.filter fun e => ¬ current.any (·.1 = e.1)
  let deleted := current.filter fun e => ¬ cells.any (·.1 = e.1)
  if isTable then
    -- added_cells_by_row_id: later entries overwrite earlier ones with the same row id (keys only matter)
    let addedRowids := added.map (·.2.rowid)
    let updatedRowids := (deleted.filter fun d => addedRowids.contains d.2.rowid).map (·.2.rowid)
    let updated := added.filter fun a => updatedRowids.contains a.2.rowid
    let deleted' := deleted.filter fun d => ¬ updatedRowids.contains d.2.rowid
    let added' := added.filter fun a => ¬ updated.any (·.1 = a.1)
    (added'.map (·.2), updated.map (·.2), deleted'.map (·.2))
  else (added.map (·.2), [], deleted.map (·.2))

/-- page numbers in `get_pages_from_b_tree_page` order, overflow pages included -/
def treeAllPageNumbers (t : List BPage) : List Nat := (treePageNumbers t).map (·.1)

/-- `VersionParserIterator.next` for version `ver` -/
def historyStep (frames : Nat) (isTable : Bool) (st : IterState) (ver : Version) (v : VersionIf)
    (root : Nat) (prevRoot : Option Nat) : Py (Commit × IterState) := do
  let updated := match prevRoot with
    | none => true
    | some pr => decide (pr ≠ root) ∨ st.currentPages.any ver.updatedBTree.contains
  if updated then
    let t ← getBTreeRoot v frames root
    let pages := treeAllPageNumbers t
    let upd := pages.filter ver.updatedBTree.contains
    let (total, cells, _) := aggregateLeafCells t []
    if total ≠ cells.length then .error .parseError
    else
      let (a, u, d) := diffCells isTable st.currentCells cells
      pure ({ version := ver.number, rootPage := root, pageNumbers := pages, updatedPageNumbers := upd,
              bTreeUpdated := true, added := a, updated := u, deleted := d },
            { currentCells := cells, currentPages := pages })
  else
    pure ({ version := ver.number, rootPage := root, pageNumbers := st.currentPages, updatedPageNumbers := [],
            bTreeUpdated := false, added := [], updated := [], deleted := [] }, st)

/-- schema of version k as `VersionParser.__init__` sees it: own when modified, else carried.
The carried schema of a record equals the schema of the latest earlier version that modified it. -/
def constructorSchemas (vs : List (Version × VersionIf)) : List (Nat × MasterSchema) :=
  vs.map fun (ver, _) => (ver.number, ver.schema)

/-- iterate an entry over the whole history -/
def iterateEntry (frames : Nat) (isTable : Bool) (vs : List (Version × VersionIf)) (id : EntryIdent) :
    Py (List Commit) := do
  let idx := rootIndex id (constructorSchemas vs) none []
  let (commits, _, _) ← idx.foldlM
    (fun (acc : List Commit × IterState × Option Nat) (kr : Nat × Val) => do
      let (cs, st, prevRoot) := acc
      match vs.find? (fun vv => vv.1.number = kr.1), kr.2 with
      | some (ver, v), .int r =>
        if r < 0 then (.error .valueError : Py (List Commit × IterState × Option Nat))
        else
          let (c, st') ← historyStep frames isTable st ver v r.toNat prevRoot
          pure (cs ++ [c], st', some r.toNat)
      | _, _ => .error .outsideModel)
    ([], {}, none)
  pure commits

end SqliteDissect.Model
