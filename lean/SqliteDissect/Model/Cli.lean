/-
Model of `sqlite_dissect/entrypoint.py` (`main`, `print_text`, `print_csv`, `print_sqlite`, `print_xlsx`,
`carve_rollback_journal`) at the level the properties C04 / C12 speak about:

  * `validate`   — the ordered checks of `main` together with the file-system effects performed *before*
                   each check (logging set-up creating the log file; `create_directory` runs only after the
                   last check), the journal selection (`--no-journal` / `--wal` / `--rollback-journal` /
                   discovery by suffix) and the zero-length handling;
  * `plan`       — which schema entries are handed to which exporter, with which signature, and the name of
                   every file that is written.

The library (Database / WriteAheadLog / VersionHistory / Signature / VersionHistoryParser) is a parameter:
an entry carries the three facts about it the CLI branches on.  Text is `List Char`; Python truthiness of
`None` / `""` is "the list is empty".  Paths handed to `main` by `cli()` went through `abspath`, so
`basename(normpath p)` is modelled as `baseName p` (text after the last '/').
-/

namespace SqliteDissect.Model.Cli

abbrev Str := List Char

inductive Fmt where
  | text | csv | sqlite | xlsx | case
  deriving DecidableEq, Repr, Inhabited

/-- the parsed arguments that `main` branches on (`arguments.*`) -/
structure Opts where
  directory : Str := []
  filePrefix : Str := []
  /-- `arguments.export` as parsed: default `["text"]`; `-e` without a value gives `[]` -/
  exports : List Fmt := [.text]
  noJournal : Bool := false
  wal : Str := []
  rollbackJournal : Str := []
  exemptedTables : Str := []
  /-- `arguments.tables.split(",")` when the option is truthy, else `[]` -/
  tables : List Str := []
  signatures : Bool := false
  carve : Bool := false
  carveFreelists : Bool := false
  logFile : Str := []
  deriving Repr, Inhabited, DecidableEq

/-- what `main` is called with besides the options -/
structure Input where
  sqlitePath : Str
  /-- `export_sub_paths`: more than one input file -/
  multi : Bool := false
  /-- `uuid.uuid4().hex` drawn for the sub-directory (a parameter: the model is deterministic) -/
  uuid : Str := []
  deriving Repr, Inhabited, DecidableEq

/-- the part of the file system `main` looks at before it parses anything -/
structure World where
  pathExists : Str → Bool
  size : Str → Nat
  /-- `create_directory p` succeeds (it returns `exists p and isdir p` after `makedirs`) -/
  mkdirOk : Str → Bool

inductive Effect where
  /-- `basicConfig(filename=p)`: the log file is opened for appending, created when missing -/
  | logFile (p : Str)
  /-- `makedirs p` -/
  | mkdir (p : Str)
  deriving DecidableEq, Repr, Inhabited

inductive Refusal where
  | carveFreelistsWithoutCarve
  | exportNeedsDirectory
  | prefixNeedsDirectory
  | prefixHasSeparator
  | cannotCreateDirectory
  | cannotCreateSubDirectory
  | sqliteFileMissing
  | walMissing
  | journalMissing
  | exemptedNeedsJournal
  | zeroDbWithWal
  | zeroDbWithJournal
  | bothJournals
  deriving DecidableEq, Repr, Inhabited

inductive Exit0 where
  | emptyDbEmptyWal | emptyDbEmptyJournal | emptyDb
  deriving DecidableEq, Repr, Inhabited

/-- everything the rest of `main` uses once the checks have passed -/
structure Ready where
  /-- `output_directory` (`[]` = none: text goes to the console) -/
  outDir : Str
  filePrefix : Str
  exportTypes : List Fmt
  /-- `wal_file_name` / `rollback_journal_file_name` (`[]` = none) -/
  walName : Str
  rjName : Str
  /-- the files actually opened: a zero-length journal is named but not opened -/
  walOpened : Bool
  rjOpened : Bool
  exempted : Bool
  deriving DecidableEq, Repr, Inhabited

inductive Outcome where
  | refuse (r : Refusal) (eff : List Effect)
  | exit0 (e : Exit0) (eff : List Effect)
  | ready (r : Ready) (eff : List Effect)
  deriving DecidableEq, Repr, Inhabited

def Outcome.effects : Outcome → List Effect
  | .refuse _ e => e
  | .exit0 _ e => e
  | .ready _ e => e

/-! ### path helpers (posixpath) -/

def dropLastSeg : Str → Str → Str
  | [], acc => acc
  | c :: cs, acc => if c = '/' then dropLastSeg cs [] else dropLastSeg cs (acc ++ [c])

/-- `os.path.basename`: the text after the last '/' -/
def baseName (p : Str) : Str := dropLastSeg p []

/-- `os.path.join a b` -/
def pyJoin (a b : Str) : Str :=
  if b.head? = some '/' then b
  else if a = [] ∨ a.getLast? = some '/' then a ++ b
  else a ++ ['/'] ++ b

/-- `a + sep + b` -/
def sepCat (a b : Str) : Str := a ++ ['/'] ++ b

def replaceChar (x y : Char) (s : Str) : Str := s.map (fun c => if c = x then y else c)

def walPostfix : Str := "-wal".toList
def journalPostfix : Str := "-journal".toList

/-! ### validation -/

/-- `arguments.export and (len > 1 or (len == 1 and export[0].upper() != TEXT))` -/
def needsDirectory (ex : List Fmt) : Bool :=
  match ex with
  | [] => false
  | [f] => f ≠ .text
  | _ :: _ :: _ => true

def exportTypes (ex : List Fmt) : List Fmt := if ex = [] then [.text] else ex

def filePrefixOf (o : Opts) (i : Input) : Str :=
  if o.filePrefix ≠ [] then o.filePrefix else baseName i.sqlitePath

/-- the journal file names `main` settles on: `(wal_file_name, rollback_journal_file_name)`;
`none` = a named file is missing -/
def journalNames (o : Opts) (p : Str) (w : World) : Except Refusal (Str × Str) :=
  if o.noJournal then .ok ([], [])
  else if o.wal ≠ [] then
    if w.pathExists o.wal then .ok (o.wal, []) else .error .walMissing
  else if o.rollbackJournal ≠ [] then
    if w.pathExists o.rollbackJournal then .ok ([], o.rollbackJournal) else .error .journalMissing
  else
    .ok (if w.pathExists (p ++ walPostfix) then p ++ walPostfix else [],
         if w.pathExists (p ++ journalPostfix) then p ++ journalPostfix else [])

/-- the directory set-up: effects and the resulting `output_directory` -/
def setupDirectory (o : Opts) (i : Input) (w : World) (pfx : Str) : Except Refusal (Str × List Effect) :=
  if o.directory = [] then .ok ([], [])
  else
    let e1 : List Effect := if w.pathExists o.directory then [] else [.mkdir o.directory]
    if ¬ w.pathExists o.directory ∧ ¬ w.mkdirOk o.directory then .error .cannotCreateDirectory
    else if i.multi then
      let sub := pyJoin o.directory (replaceChar '.' '-' pfx ++ ['-'] ++ i.uuid)
      if w.mkdirOk sub then .ok (sub, e1 ++ (if w.pathExists sub then [] else [.mkdir sub]))
      else .error .cannotCreateSubDirectory
    else .ok (o.directory, e1)

/-- the four checks that look at the options only (the last one: `sep in arguments.file_prefix`;
`os.path.altsep` is `None` on POSIX) -/
def optionChecks (o : Opts) : Option Refusal :=
  if o.carveFreelists ∧ ¬ o.carve then some .carveFreelistsWithoutCarve
  else if needsDirectory o.exports ∧ o.directory = [] then some .exportNeedsDirectory
  else if o.filePrefix ≠ [] ∧ o.directory = [] then some .prefixNeedsDirectory
  else if o.filePrefix ≠ [] ∧ '/' ∈ o.filePrefix then some .prefixHasSeparator
  else none

/-- what the checks on the input and its journals settle on -/
inductive Checked where
  | refuse (r : Refusal)
  | exit0 (e : Exit0)
  /-- `wal_file_name`, `rollback_journal_file_name` and whether each is opened (named and not zero-length) -/
  | ok (walName rjName : Str) (walOpened rjOpened : Bool)
  deriving DecidableEq, Repr, Inhabited

/-- existence of the input, journal selection, `--exempted-tables`, the zero-length cases, both journals
present — all of it *before* the output directory is touched -/
def inputChecks (o : Opts) (i : Input) (w : World) : Checked :=
  if ¬ w.pathExists i.sqlitePath then .refuse .sqliteFileMissing
  else
    let zeroDb := w.size i.sqlitePath = 0
    match journalNames o i.sqlitePath w with
    | .error r => .refuse r
    | .ok (walName, rjName) =>
      if o.exemptedTables ≠ [] ∧ rjName = [] then .refuse .exemptedNeedsJournal
      else
        let zeroWal := walName ≠ [] ∧ w.size walName = 0
        let zeroRj := rjName ≠ [] ∧ w.size rjName = 0
        if zeroDb then
          if walName ≠ [] ∧ ¬ zeroWal then .refuse .zeroDbWithWal
          else if zeroWal then .exit0 .emptyDbEmptyWal
          else if rjName ≠ [] ∧ ¬ zeroRj then .refuse .zeroDbWithJournal
          else if zeroRj then .exit0 .emptyDbEmptyJournal
          else .exit0 .emptyDb
        else if rjName ≠ [] ∧ walName ≠ [] then .refuse .bothJournals
        else .ok walName rjName (decide (walName ≠ [] ∧ ¬ zeroWal)) (decide (rjName ≠ [] ∧ ¬ zeroRj))

/-- the effect of the logging set-up: `basicConfig(filename=…)` runs before every check -/
def logEffects (o : Opts) : List Effect := if o.logFile ≠ [] then [.logFile o.logFile] else []

/-- `main` up to the point where the library is called: option checks, input and journal checks, and only
then the directory set-up -/
def validate (o : Opts) (i : Input) (w : World) : Outcome :=
  match optionChecks o with
  | some r => .refuse r (logEffects o)
  | none =>
    match inputChecks o i w with
    | .refuse r => .refuse r (logEffects o)
    | .exit0 e => .exit0 e (logEffects o)
    | .ok walName rjName walOpened rjOpened =>
      match setupDirectory o i w (filePrefixOf o i) with
      | .error r =>
          -- a failed `makedirs` of the sub-directory happens after the top directory was made
          .refuse r (logEffects o ++ (if r = .cannotCreateSubDirectory ∧ ¬ w.pathExists o.directory
                                      then [.mkdir o.directory] else []))
      | .ok (outDir, effD) =>
          .ready { outDir := outDir, filePrefix := filePrefixOf o i, exportTypes := exportTypes o.exports,
                   walName := walName, rjName := rjName, walOpened := walOpened, rjOpened := rjOpened,
                   exempted := decide (o.exemptedTables ≠ []) } (logEffects o ++ effD)

/-! ### the export plan -/

/-- a master-schema entry of the *base version*, with the facts the CLI branches on -/
structure Entry where
  name : Str
  /-- `row_type in [INDEX, TABLE]` -/
  tableOrIndex : Bool
  /-- `OrdinaryTableRow`, not WITHOUT ROWID, not an internal schema object: a signature is generated -/
  sigEligible : Bool
  /-- some commit of this entry is `updated` (CSV / SQLite / XLSX write nothing otherwise) -/
  updated : Bool := true
  deriving DecidableEq, Repr, Inhabited

/-- `specified_tables_to_carve and name not in specified_tables_to_carve` → skipped -/
def passesFilter (tables : List Str) (e : Entry) : Bool := tables.isEmpty || tables.contains e.name

/-- the loop head shared by the four `print_*` functions -/
def selected (tables : List Str) (es : List Entry) : List Entry :=
  es.filter (fun e => passesFilter tables e && e.tableOrIndex)

/-- `signatures` dictionary: generated when `carve or signatures`, for eligible entries passing the filter -/
def hasSignature (o : Opts) (e : Entry) : Bool :=
  (o.carve || o.signatures) && passesFilter o.tables e && e.sigEligible

/-- the signature handed to `VersionHistoryParser` (only when carving) -/
def carved (o : Opts) (e : Entry) : Bool := o.carve && hasSignature o e

/-- one `VersionHistoryParser` iteration written by one exporter -/
structure Item where
  fmt : Fmt
  /-- the file written (`[]` = console) -/
  file : Str
  entry : Str
  /-- a signature was supplied (carved rows may be added) -/
  carve : Bool
  freelists : Bool
  /-- the exporter writes something for this entry (text always writes the header) -/
  writes : Bool
  deriving DecidableEq, Repr, Inhabited

/-- `commit.name` with ' ', '"' and `os.sep` replaced by '_' -/
def csvName (name : Str) : Str := replaceChar '/' '_' (replaceChar '"' '_' (replaceChar ' ' '_' name))

def csvLeaf (pfx name : Str) : Str := pfx ++ ['-'] ++ csvName name ++ ".csv".toList

def fileFor (f : Fmt) (r : Ready) (name : Str) : Str :=
  match f with
  | .text => if r.outDir = [] then [] else sepCat r.outDir (r.filePrefix ++ ".txt".toList)
  | .csv => pyJoin r.outDir (csvLeaf r.filePrefix name)
  | .sqlite => sepCat r.outDir (r.filePrefix ++ "-sqlite-dissect.db3".toList)
  | .xlsx => sepCat r.outDir (r.filePrefix ++ ".xlsx".toList)
  | .case => []

def itemFor (f : Fmt) (o : Opts) (r : Ready) (e : Entry) : Item :=
  { fmt := f, file := fileFor f r e.name, entry := e.name, carve := carved o e,
    freelists := carved o e && o.carveFreelists,
    writes := f = .text || e.updated }

/-- what one `print_<fmt>` does -/
def planFmt (f : Fmt) (o : Opts) (r : Ready) (es : List Entry) : List Item :=
  (selected o.tables es).map (itemFor f o r)

def rowFormats : List Fmt := [.text, .csv, .sqlite, .xlsx]

/-- the four `if EXPORT_TYPES.X in export_types:` blocks, in the order of `main` -/
def plan (o : Opts) (r : Ready) (es : List Entry) : List Item :=
  rowFormats.flatMap (fun f => if r.exportTypes.contains f then planFmt f o r es else [])

/-- `case.export_case_file(path.join(arguments.directory, "case.json"))` — note: `arguments.directory`,
not the per-file sub-directory -/
def caseFile (o : Opts) (r : Ready) : Option Str :=
  if r.exportTypes.contains .case then some (pyJoin o.directory "case.json".toList) else none

/-- `carve_rollback_journal`: CSV files named after the journal, for eligible entries with a signature -/
def journalPlan (o : Opts) (r : Ready) (exempted : List Str) (es : List Entry) : List Item :=
  if r.rjOpened && o.carve && r.outDir ≠ [] then
    (es.filter (fun e => passesFilter o.tables e && !exempted.contains e.name && e.sigEligible)).map
      (fun e => { fmt := .csv, file := pyJoin r.outDir (csvLeaf (baseName r.rjName) e.name), entry := e.name,
                  carve := true, freelists := false, writes := true })
  else []

/-- forget that a signature was supplied -/
def Item.dropCarve (it : Item) : Item := { it with carve := false, freelists := false }

/-- the files an exporter creates as soon as it is entered, whether or not any entry is selected:
`CommitTextExporter.__enter__` opens the text file, `CommitSqliteExporter.__enter__` connects,
`CommitXlsxExporter.__exit__` saves; CSV files exist per written entry only -/
def formatFiles (r : Ready) : List (Fmt × Str) :=
  ([Fmt.text, Fmt.sqlite, Fmt.xlsx].filter (fun f => r.exportTypes.contains f && fileFor f r [] ≠ [])).map
    (fun f => (f, fileFor f r []))

/-- every file the run writes or replaces (the effects of the `ready` branch) -/
def writtenFiles (o : Opts) (r : Ready) (exempted : List Str) (es : List Entry) : List Str :=
  (formatFiles r).map (·.2)
    ++ ((plan o r es).filter (fun it => it.writes && it.file ≠ [])).map (·.file)
    ++ (journalPlan o r exempted es).map (·.file)
    ++ (match caseFile o r with | some f => [f] | none => [])

/-! ### "beneath the output directory" -/

def NoSep (s : Str) : Prop := '/' ∉ s

instance (s : Str) : Decidable (NoSep s) := by unfold NoSep; infer_instance

/-- `f` is a direct child of directory `d` -/
def Under (d f : Str) : Prop :=
  ∃ leaf, NoSep leaf ∧ leaf ≠ [] ∧ (f = d ++ ['/'] ++ leaf ∨ (d.getLast? = some '/' ∧ f = d ++ leaf))

end SqliteDissect.Model.Cli
