/-
Model of interface.py:select_all_from_table / select_all_from_index (and the lookups of
create_table_signature, carve_table, get_version_history_iterator, export_table_or_index_*): the
entry is found through a dictionary keyed by *name* built from those entries of
`version.master_schema.master_schema_entries` whose `row_type` is admitted (tables only, indexes
only, or tables and indexes; later entries overwrite earlier ones with the same name), its
`root_page_number` is handed to `version.get_b_tree_root_page`, the leaf cells are aggregated.

The digest-keyed dictionary is returned in traversal order; the final
`sorted(cells.values(), key=row_id)` of `select_all_from_table` for tables that are not WITHOUT ROWID
is `sortedByRowid` (the flag `without_row_id` comes from the DDL text, Model/Schema.lean, and is not
looked at here).  Names are compared as stored bytes (the code compares the decoded strings;
decoding is injective on valid text).
-/
import SqliteDissect.Model.History

namespace SqliteDissect.Model

/-- `{entry.name: entry for entry in master_schema_entries if entry.row_type in kinds}.get(name)` -/
def entryByName (kinds : List String) (ms : MasterSchema) (name : List Nat) : Option SchemaRow :=
  (ms.entries.filter fun e => kinds.contains e.rowType ∧ e.name = name).getLast?

/-- the lookup of `select_all_from_table`, `create_table_signature`, `carve_table` -/
def tableByName : MasterSchema → List Nat → Option SchemaRow := entryByName ["table"]

/-- the lookup of `select_all_from_index` -/
def indexByName : MasterSchema → List Nat → Option SchemaRow := entryByName ["index"]

/-- the lookup of `get_version_history_iterator` and `export_table_or_index_version_history_to_*` -/
def tableOrIndexByName : MasterSchema → List Nat → Option SchemaRow := entryByName ["table", "index"]

/-- `aggregate_leaf_cells(version.get_b_tree_root_page(row.root_page_number))`: (number of cells,
digest-keyed dictionary).  A root page number that is not a non-negative `int` leaves the modelled
fragment. -/
def aggregateOfRow (v : VersionIf) (frames : Nat) (row : SchemaRow) : Py (Nat × List (List Nat × Cell)) :=
  match row.rootPage with
  | .int r =>
    if r < 0 then .error .outsideModel
    else do
      let t ← getBTreeRoot v frames r.toNat
      let res := aggregateLeafCells t []
      pure (res.1, res.2.1)
  | _ => .error .outsideModel

/-- `select_all_from_table(name, version)` before the final sort -/
def selectAllFromTable (v : VersionIf) (frames : Nat) (ms : MasterSchema) (name : List Nat) :
    Py (Nat × List (List Nat × Cell)) :=
  match tableByName ms name with
  | none => .error .keyError
  | some row => aggregateOfRow v frames row

/-- `select_all_from_index(name, version)` -/
def selectAllFromIndex (v : VersionIf) (frames : Nat) (ms : MasterSchema) (name : List Nat) :
    Py (Nat × List (List Nat × Cell)) :=
  match indexByName ms name with
  | none => .error .keyError
  | some row => aggregateOfRow v frames row

/-- `sorted(cells.values(), key=lambda cell: cell.row_id)` (stable) for cells that all carry a row id -/
def sortedByRowid (cells : List Cell) : List Cell :=
  cells.mergeSort fun a b => decide (a.rowid.getD 0 ≤ b.rowid.getD 0)

end SqliteDissect.Model
