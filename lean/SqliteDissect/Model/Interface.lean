/-
Model of interface.py:select_all_from_table (and, up to the name, select_all_from_index /
create_table_signature's lookup): the entry is found through a dictionary keyed by *name* built
from `version.master_schema.master_schema_entries` (later entries overwrite earlier ones with the
same name), its `root_page_number` is handed to `version.get_b_tree_root_page`, the leaf cells are
aggregated.  The final `sorted(…, key=row_id)` of the rowid-table case is not modelled (the
digest-keyed dictionary is returned in traversal order).  Names are compared as stored bytes (the
code compares the decoded strings; decoding is injective on valid text).
-/
import SqliteDissect.Model.History

namespace SqliteDissect.Model

/-- `{entry.name: entry for entry in master_schema_entries}[name]` -/
def entryByName (ms : MasterSchema) (name : List Nat) : Option SchemaRow :=
  (ms.entries.filter fun e => e.name = name).getLast?

/-- `select_all_from_table(name, version)`: (number of cells, digest-keyed dictionary).  A root page
number that is not a non-negative `int` leaves the modelled fragment. -/
def selectAllFromTable (v : VersionIf) (frames : Nat) (ms : MasterSchema) (name : List Nat) :
    Py (Nat × List (List Nat × Cell)) :=
  match entryByName ms name with
  | none => .error .keyError
  | some row =>
    match row.rootPage with
    | .int r =>
      if r < 0 then .error .outsideModel
      else do
        let t ← getBTreeRoot v frames r.toNat
        let res := aggregateLeafCells t []
        pure (res.1, res.2.1)
    | _ => .error .outsideModel

end SqliteDissect.Model
