/-
Model of the SQL-text parsing of ordinary table rows:

  sqlite_dissect/file/schema/utilities.py   get_index_of_closing_parenthesis, parse_comment_from_sql_segment
  sqlite_dissect/file/schema/column.py      ColumnDefinition.__init__, _get_column_name_and_remaining_sql,
                                            _get_next_segment_ending_index, _is_column_constraint_preface,
                                            _get_data_type, _get_column_affinity
  sqlite_dissect/file/schema/table.py       TableConstraint.__init__ (its comment check)
  sqlite_dissect/file/schema/master.py      MasterSchemaRow._get_master_schema_row_name_and_remaining_sql,
                                            TableRow.__init__ (sql must exist), OrdinaryTableRow.__init__

Text is `List Char`.  Index arithmetic of the Python is kept, but in "suffix form": where the
Python holds an index `i` into a string `s`, the model holds `s[i:]` (and, where the Python later
slices `s[b:i]`, the characters passed over).  Every `s[i]` that can raise IndexError, every
`str.index` that can raise ValueError and every explicit `raise` is mirrored with its class.

Unicode.  `str.isspace` / regex `\s` are modelled exactly (`isSpace`, the 29 code points of
CPython 3.12).  `str.upper` / `str.lower` are modelled on ASCII; the 19 non-ASCII code points whose
Python upper/lower case contains an ASCII character (`caseFoldsToAscii`) make the whole parse
`outsideModel`.  Regex `\w` on a non-ASCII, non-space character is `outsideModel` at the (rare)
points where the decision depends on it.  The tables below (`isSpace`, `caseFoldsToAscii`, the
constraint prefaces, the DATA_TYPE names) are compared with the running Python by the harness on
every run (`ddl.consts`).
-/
import SqliteDissect.Py
import SqliteDissect.Spec.Affinity

namespace SqliteDissect.Model.Schema

abbrev Str := List Char

/-! ### characters -/

/-- `str.isspace()` and regex `\s` (CPython 3.12 `Py_UNICODE_ISSPACE`) -/
def isSpace (c : Char) : Bool :=
  let n := c.toNat
  (9 ≤ n && n ≤ 13) || (28 ≤ n && n ≤ 32) || n == 0x85 || n == 0xA0 || n == 0x1680 ||
  (0x2000 ≤ n && n ≤ 0x200A) || n == 0x2028 || n == 0x2029 || n == 0x202F || n == 0x205F || n == 0x3000

/-- the class `[\t\r\f\v ]` used by `OrdinaryTableRow.__init__` -/
def isBlank (c : Char) : Bool :=
  c == '\t' || c == '\r' || c == Char.ofNat 12 || c == Char.ofNat 11 || c == ' '

def isAsciiWord (c : Char) : Bool :=
  let n := c.toNat
  (48 ≤ n && n ≤ 57) || (65 ≤ n && n ≤ 90) || (97 ≤ n && n ≤ 122) || n == 95

/-- `re.match(r"\w", c)`; undecided (outsideModel) for non-ASCII non-space characters -/
def wordClass (c : Char) : Py Bool :=
  if c.toNat < 128 then .ok (isAsciiWord c)
  else if isSpace c then .ok false
  else .error .outsideModel

def upperC (c : Char) : Char :=
  if 97 ≤ c.toNat && c.toNat ≤ 122 then Char.ofNat (c.toNat - 32) else c

def lowerC (c : Char) : Char :=
  if 65 ≤ c.toNat && c.toNat ≤ 90 then Char.ofNat (c.toNat + 32) else c

def upper (s : Str) : Str := s.map upperC
def lower (s : Str) : Str := s.map lowerC

/-- non-ASCII code points whose `str.upper()` or `str.lower()` contains an ASCII character -/
def caseFoldsToAsciiCodes : List Nat :=
  [0xdf, 0x130, 0x131, 0x149, 0x17f, 0x1f0, 0x1e96, 0x1e97, 0x1e98, 0x1e99, 0x1e9a, 0x212a,
   0xfb00, 0xfb01, 0xfb02, 0xfb03, 0xfb04, 0xfb05, 0xfb06]

def caseFoldsToAscii (c : Char) : Bool := caseFoldsToAsciiCodes.contains c.toNat

/-! ### string helpers (Python `str` methods) -/

def lstrip (s : Str) : Str := s.dropWhile isSpace
def rstrip (s : Str) : Str := (s.reverse.dropWhile isSpace).reverse
def strip (s : Str) : Str := rstrip (lstrip s)

/-- `s.find(needle)` -/
def findSub (needle : Str) : Str → Option Nat
  | [] => if needle.isEmpty then some 0 else none
  | c :: cs => if needle.isPrefixOf (c :: cs) then some 0 else (findSub needle cs).map (· + 1)

/-- `needle in s` -/
def hasSub (needle : Str) : Str → Bool
  | [] => needle.isEmpty
  | c :: cs => needle.isPrefixOf (c :: cs) || hasSub needle cs

/-- `re.sub(p p+, " ", s)`: every maximal run of two or more `p`-characters becomes one space; a
single `p`-character stays what it is.  State: the first character of the run being read and
whether a second one has been seen. -/
def collapseGo (p : Char → Bool) : Option (Char × Bool) → Str → Str
  | none, [] => []
  | some (c, m), [] => [if m then ' ' else c]
  | none, x :: xs => if p x then collapseGo p (some (x, false)) xs else x :: collapseGo p none xs
  | some (c, m), x :: xs =>
      if p x then collapseGo p (some (c, true)) xs
      else (if m then ' ' else c) :: x :: collapseGo p none xs

def collapse (p : Char → Bool) (s : Str) : Str := collapseGo p none s

/-- `re.sub(r"\s*Q\s*", "Q", s)` for a single character `Q`: whitespace runs that touch a `Q`
disappear.  `after` = the previous kept character was `Q` (or whitespace following it). -/
def squeeze (q : Char) : Bool → Str → Str
  | _, [] => []
  | after, c :: cs =>
      if c == q then q :: squeeze q true cs
      else if isSpace c then
        if after then squeeze q true cs
        else if ((c :: cs).dropWhile isSpace).head? == some q then squeeze q false cs
        else c :: squeeze q false cs
      else c :: squeeze q false cs

/-! ### utilities.py -/

def dashDash : Str := ['-', '-']
def slashStar : Str := ['/', '*']
def starSlash : Str := ['*', '/']
def newline : Str := ['\n']

def startsWithComment (s : Str) : Bool := dashDash.isPrefixOf s || slashStar.isPrefixOf s

/-- `parse_comment_from_sql_segment` → (comment, remaining).  A comment that is not closed - no newline
after "--", no "*/" after "/*" - runs to the end of the text, as it does for SQLite (repair of C07-21;
before it `str.index` raised ValueError). -/
def parseComment (s : Str) : Py (Str × Str) :=
  if dashDash.isPrefixOf s then
    match findSub newline s with
    | none => .ok (s, [])
    | some i => .ok (s.take (i + 1), s.drop (i + 1))
  else if slashStar.isPrefixOf s then
    -- `sql_segment.find("*/", 2)`: the closing "*/" is looked for after the opening "/*" (41d65d3)
    match findSub starSlash (s.drop 2) with
    | none => .ok (s, [])
    | some i => .ok (s.take (i + 4), s.drop (i + 4))
  else .error .attributeError          -- `sql_segment.number` in the error branch

/-- loop of `get_index_of_closing_parenthesis`; the list is `string[index:]`, `prev` is
`string[index-1]`, `idx` the index relative to the opening parenthesis.
`cm`: 0 none, 1 `--`, 2 `/*`;  `cst`: `comment_start_index` (relative to the opening parenthesis like
`idx`; only read while `cm = 2`, and every `cm := 2` sets it, so its initial value never matters);
`lit`: 0 none, 1 `'`, 2 `"`, 3 back-tick, 4 `[`…`]`.
A `/*` comment ends at a "/" preceded by a "*" that is not the "*" of the opening "/*"
(`index - 1 > comment_start_index + 1`, 41d65d3). -/
def closeGo (prev : Char) (emb cm cst lit idx : Nat) : Str → Py Nat
  | [] => if prev == ')' then .ok (idx - 1) else .error .parseError
  | c :: cs =>
      if cm ≠ 0 then
        if (cm == 1 && c == '\n') || (cm == 2 && c == '/' && prev == '*' && decide (idx - 1 > cst + 1)) then
          closeGo c emb 0 cst lit (idx + 1) cs
        else closeGo c emb cm cst lit (idx + 1) cs
      else if lit ≠ 0 then
        if (lit == 1 && c == '\'') || (lit == 2 && c == '"') || (lit == 3 && c == '`') || (lit == 4 && c == ']') then
          closeGo c emb cm cst 0 (idx + 1) cs
        else closeGo c emb cm cst lit (idx + 1) cs
      else if c == '(' then closeGo c (emb + 1) cm cst lit (idx + 1) cs
      else if c == ')' then
        if emb == 0 then .ok idx else closeGo c (emb - 1) cm cst lit (idx + 1) cs
      else if c == '-' then
        match cs with
        | [] => .error .indexError
        | d :: _ => closeGo c emb (if d == '-' then 1 else 0) cst lit (idx + 1) cs
      else if c == '/' then
        match cs with
        | [] => .error .indexError
        | d :: _ => if d != '*' then .error .parseError else closeGo c emb 2 idx lit (idx + 1) cs
      else if c == '\'' then closeGo c emb cm cst 1 (idx + 1) cs
      else if c == '"' then closeGo c emb cm cst 2 (idx + 1) cs
      else if c == '`' then closeGo c emb cm cst 3 (idx + 1) cs
      else if c == '[' then closeGo c emb cm cst 4 (idx + 1) cs
      else closeGo c emb cm cst lit (idx + 1) cs

/-- `get_index_of_closing_parenthesis(string, off)` with the argument `string[off:]`; the result
is relative to `off`. -/
def closingParen : Str → Py Nat
  | [] => .error .indexError
  | c :: cs => if c == '(' then closeGo '(' 0 0 0 0 1 cs else .error .valueError

/-! ### constants.py -/

def COLUMN_PREFACES : List Str :=
  [['C','O','N','S','T','R','A','I','N','T'], ['P','R','I','M','A','R','Y'], ['N','O','T'],
   ['U','N','I','Q','U','E'], ['C','H','E','C','K'], ['D','E','F','A','U','L','T'],
   ['C','O','L','L','A','T','E'], ['R','E','F','E','R','E','N','C','E','S'],
   ['N','U','L','L'], ['G','E','N','E','R','A','T','E','D'], ['A','S']]

def TABLE_PREFACES : List Str :=
  [['C','O','N','S','T','R','A','I','N','T'], ['P','R','I','M','A','R','Y'], ['U','N','I','Q','U','E'],
   ['C','H','E','C','K'], ['F','O','R','E','I','G','N']]

def dtNotSpecified : Str := ['N','O','T','_','S','P','E','C','I','F','I','E','D']
def dtInvalid : Str := ['I','N','V','A','L','I','D']

/-- `DATA_TYPE` in declaration order: (name with `_\d+.*$` removed, name) -/
def DATA_TYPES : List (Str × Str) :=
  [(['I','N','T'], ['I','N','T']),
   (['I','N','T','E','G','E','R'], ['I','N','T','E','G','E','R']),
   (['T','I','N','Y','I','N','T'], ['T','I','N','Y','I','N','T']),
   (['S','M','A','L','L','I','N','T'], ['S','M','A','L','L','I','N','T']),
   (['M','E','D','I','U','M','I','N','T'], ['M','E','D','I','U','M','I','N','T']),
   (['B','I','G','I','N','T'], ['B','I','G','I','N','T']),
   (['U','N','S','I','G','N','E','D','_','B','I','G','_','I','N','T'], ['U','N','S','I','G','N','E','D','_','B','I','G','_','I','N','T']),
   (['I','N','T','2'], ['I','N','T','2']),
   (['I','N','T','8'], ['I','N','T','8']),
   (['C','H','A','R','A','C','T','E','R'], ['C','H','A','R','A','C','T','E','R','_','2','0']),
   (['V','A','R','C','H','A','R'], ['V','A','R','C','H','A','R','_','2','5','5']),
   (['V','A','R','Y','I','N','G','_','C','H','A','R','A','C','T','E','R'], ['V','A','R','Y','I','N','G','_','C','H','A','R','A','C','T','E','R','_','2','5','5']),
   (['N','C','H','A','R'], ['N','C','H','A','R','_','5','5']),
   (['N','A','T','I','V','E','_','C','H','A','R','A','C','T','E','R'], ['N','A','T','I','V','E','_','C','H','A','R','A','C','T','E','R','_','7','0']),
   (['N','V','A','R','C','H','A','R'], ['N','V','A','R','C','H','A','R','_','1','0','0']),
   (['T','E','X','T'], ['T','E','X','T']),
   (['C','L','O','B'], ['C','L','O','B']),
   (['B','L','O','B'], ['B','L','O','B']),
   (dtNotSpecified, dtNotSpecified),
   (['R','E','A','L'], ['R','E','A','L']),
   (['D','O','U','B','L','E'], ['D','O','U','B','L','E']),
   (['D','O','U','B','L','E','_','P','R','E','C','I','S','I','O','N'], ['D','O','U','B','L','E','_','P','R','E','C','I','S','I','O','N']),
   (['F','L','O','A','T'], ['F','L','O','A','T']),
   (['N','U','M','E','R','I','C'], ['N','U','M','E','R','I','C']),
   (['D','E','C','I','M','A','L'], ['D','E','C','I','M','A','L','_','1','0','_','5']),
   (['B','O','O','L','E','A','N'], ['B','O','O','L','E','A','N']),
   (['D','A','T','E'], ['D','A','T','E']),
   (['D','A','T','E','T','I','M','E'], ['D','A','T','E','T','I','M','E']),
   (dtInvalid, dtInvalid)]

abbrev Affinity := Spec.Affinity

/-! ### column.py -/

/-- `sub(r"\(.*\)$", "", s)`: cut at the left-most "(" from which the rest, up to an optional
final newline, contains no newline and ends with ")" -/
def argsTail (t : Str) : Bool :=
  let t' := if t.getLast? == some '\n' then t.dropLast else t
  !t'.contains '\n' && t'.getLast? == some ')'

def stripArgs : Str → Str
  | [] => []
  | c :: cs =>
      if c == '(' && argsTail cs then (if cs.getLast? == some '\n' then ['\n'] else [])
      else c :: stripArgs cs

def spaceToUnderscore (s : Str) : Str := s.map fun c => if c == ' ' then '_' else c

/-- the loop over `DATA_TYPE`; the markers NOT_SPECIFIED and INVALID are skipped -/
def lookupType (key : Str) : List (Str × Str) → Str
  | [] => dtInvalid
  | (k, v) :: rest =>
      if v == dtNotSpecified || v == dtInvalid then lookupType key rest
      else if k == key then v else lookupType key rest

/-- `ColumnDefinition._get_data_type` (the result is the enum's string value) -/
def getDataType (derived : Str) : Str :=
  lookupType (spaceToUnderscore (stripArgs (upper derived))) DATA_TYPES

def kINT : Str := ['I','N','T']
def kCHAR : Str := ['C','H','A','R']
def kCLOB : Str := ['C','L','O','B']
def kTEXT : Str := ['T','E','X','T']
def kBLOB : Str := ['B','L','O','B']
def kREAL : Str := ['R','E','A','L']
def kFLOA : Str := ['F','L','O','A']
def kDOUB : Str := ['D','O','U','B']

/-- the substring rules of `_get_column_affinity` applied to `column_type`; `noType` is
`data_type == DATA_TYPE.NOT_SPECIFIED` -/
def affinityRules (t : Str) (noType : Bool) : Affinity :=
  if hasSub kINT t then .integer
  else if hasSub kCHAR t || hasSub kCLOB t || hasSub kTEXT t then .text
  else if hasSub kBLOB t || noType then .blob
  else if hasSub kREAL t || hasSub kFLOA t || hasSub kDOUB t then .real
  else .numeric

/-- `ColumnDefinition._get_column_affinity(data_type, derived_data_type)` -/
def columnAffinity (dataType : Str) (derived : Option Str) : Py Affinity :=
  if dataType == dtInvalid then
    match derived with
    | none => .error .attributeError
    | some d => .ok (affinityRules (upper d) false)
  else .ok (affinityRules dataType (dataType == dtNotSpecified))

/-- `_is_column_constraint_preface` / the table-constraint test: does `seg` start
(case-insensitively) with one of the prefaces, not followed by a `\w` character? -/
def isPreface (prefaces : List Str) (seg : Str) : Py Bool :=
  match prefaces with
  | [] => .ok false
  | p :: ps =>
      if p.isPrefixOf (upper seg) then
        match seg.drop p.length with
        | [] => .ok true
        | c :: _ => do
            let w ← wordClass c
            if w then isPreface ps seg else .ok true
      else isPreface ps seg

/-- regex `^\[([^\]]*)\]` on `[ :: tl` (bracket names, 417a203), given `tl`: length of the match —
up to the first "]", whatever comes before it (a newline too: a negated class, not `.`); None when
there is no "]" -/
def bracketMatchLen : Str → Option Nat
  | [] => none
  | c :: cs =>
      if c == ']' then some 2
      else (bracketMatchLen cs).map (· + 1)

/-- regex `^Q((?:[^Q]|QQ)*)Q` on `Q :: tl` for a quote character `Q` (687226d), given `tl`:
(`group(1)`, length of the match).  The group is a sequence of units — one character other than `Q`
(a newline too: it is a negated class, not `.`), or `QQ` — and the repetition is greedy: a `Q`
followed by another `Q` continues the name; a `Q` followed by anything else (or nothing) closes it.
When the text ends inside the name the regex engine backtracks unit by unit; the only unit whose
first character can serve as the closing `Q` is a `QQ`, so the match then ends at the first
character of the last `QQ` (`"a""` → `"a"`, `"""` → `""`); without any `QQ` there is no match. -/
def quotedGroup (q : Char) : Str → Option (Str × Nat)
  | [] => none
  | [c] => if c == q then some ([], 2) else none
  | c :: d :: ds =>
      if c == q then
        if d == q then
          match quotedGroup q ds with
          | some (g, n) => some (q :: q :: g, n + 2)
          | none => some ([], 2)
        else some ([], 2)
      else (quotedGroup q (d :: ds)).map fun (g, n) => (c :: g, n + 1)

/-- `s.replace(QQ, Q)`: left to right, non-overlapping -/
def replaceDouble (q : Char) : Str → Str
  | [] => []
  | [c] => [c]
  | c :: d :: rest =>
      if c == q && d == q then q :: replaceDouble q rest else c :: replaceDouble q (d :: rest)

/-- the three quote characters whose doubling stands for the character itself -/
def isQuoteChar (c : Char) : Bool := c == '`' || c == '\'' || c == '"'

def spaceStr : Str := [' ']

/-- the name and the length of the match of a name that starts with a quote character or "[";
`none` = the text does not start with one; `some none` = the regex does not match -/
def quotedName (t : Str) : Option (Option (Str × Nat)) :=
  match t with
  | [] => none
  | c :: tl =>
      if c == '[' then
        -- the name is `group(1)`, the text between the brackets (d4f87a6); `n` counts both brackets
        some ((bracketMatchLen tl).map fun n => (tl.take (n - 2), n))
      else if isQuoteChar c then
        some ((quotedGroup c tl).map fun (g, n) => (replaceDouble c g, n))
      else none

/-- `_get_column_name_and_remaining_sql` -/
def columnNameAndRest (t : Str) : Py (Str × Str) :=
  match t with
  | [] => .error .indexError
  | _ :: _ =>
      match quotedName t with
      | some none => .error .parseError
      | some (some (name, n)) => .ok (name, strip (t.drop n))
      | none =>
          -- `match(r"\S+", column_text)`: the leading run of non-whitespace characters
          let n := (t.takeWhile fun x => !isSpace x).length
          if n != 0 && n != t.length then .ok (t.take n, strip (t.drop (n + 1)))
          else .ok (t, [])

/-- `_segment_end_after_parenthesis`: `s` = `remaining[base:]` starts at the "(", `rel` = the
closing parenthesis relative to it; the segment swallows the character after ")" only when it
is whitespace (or there is none) -/
def segEndAfterParen (s : Str) (rel base : Nat) : Nat :=
  match s.drop (rel + 1) with
  | [] => base + rel + 1
  | d :: _ => if isSpace d then base + rel + 1 else base + rel

/-- `_get_next_segment_ending_index`; the list is `remaining[idx:]` -/
def nextSegGo (idx : Nat) : Str → Py Nat
  | [] => .error .parseError
  | c :: tl =>
      if c == '(' then (closingParen (c :: tl)).map fun rel => segEndAfterParen (c :: tl) rel idx
      else if isSpace c then
        match tl with
        | [] => .error .indexError
        | d :: _ =>
            if d == '(' then (closingParen tl).map fun rel => segEndAfterParen tl rel (idx + 1)
            else do
              let pre ← isPreface COLUMN_PREFACES tl
              if pre then .ok idx else nextSegGo (idx + 1) tl
      else if tl.isEmpty then .ok idx
      else nextSegGo (idx + 1) tl

def nextSegmentEnd (rem : Str) : Py Nat :=
  match rem with
  | [] => .error .valueError
  | c :: _ => if isSpace c then .error .valueError else nextSegGo 0 rem

/-- the comment-removing loop at the top of `ColumnDefinition.__init__`; a removed comment leaves one space -/
def stripColumnComments : Nat → Str → Py Str
  | 0, _ => .ok []
  | _ + 1, [] => .ok []
  | fuel + 1, c :: tl =>
      if c == '/' then
        -- `column_text.index("*/", character_index + 2)` (41d65d3)
        match findSub starSlash (tl.drop 1) with
        | none => .error .valueError
        | some i => (stripColumnComments fuel (tl.drop (i + 3))).map (' ' :: ·)
      else if c == '-' then
        match tl with
        | [] => .error .indexError
        | d :: _ =>
            if d == '-' then
              match findSub newline (c :: tl) with
              | none => .error .valueError
              | some i => (stripColumnComments fuel ((c :: tl).drop (i + 1))).map (' ' :: ·)
            else (stripColumnComments fuel tl).map (c :: ·)
      else (stripColumnComments fuel tl).map (c :: ·)

structure Column where
  name : Str
  derived : Option Str       -- derived_data_type_name
  dataType : Str             -- data_type (enum value)
  affinity : Affinity
  hasConstraints : Bool      -- column_constraints non-empty
  deriving DecidableEq, Repr, Inhabited

/-- the `while len(remaining_column_text)` loop -/
def segmentLoop : Nat → Str → Option Str → Str → Py (Option Str × Str × Bool)
  | 0, _, derived, dt => .ok (derived, dt, false)
  | fuel + 1, rem, derived, dt =>
      if rem.isEmpty then .ok (derived, dt, false)
      else do
        let si ← nextSegmentEnd rem
        if si > rem.length then .error .indexError
        else
          let segment := rem.take (si + 1)
          let pre ← isPreface COLUMN_PREFACES segment
          let stop ←
            (if !pre then (.ok false : Py Bool)
             else if segment.length == rem.length then .ok true
             else match rem.drop (si + 1) with
               | [] => .ok true
               | c :: _ => wordClass c)
          if stop then .ok (derived, dt, true)
          else
            let d := upper (strip (squeeze ')' false (squeeze '(' false segment)))
            segmentLoop fuel (rem.drop (si + 1)) (some d) (getDataType d)

/-- `ColumnDefinition.__init__(index, column_text, comments)` -/
def parseColumn (text : Str) : Py Column := do
  let parsed ← stripColumnComments (text.length + 1) text
  let parsed := collapse isSpace (strip parsed)
  let (name, rem) ← columnNameAndRest parsed
  let (derived, dt, hasC) ← segmentLoop (rem.length + 1) rem none dtNotSpecified
  let aff ← columnAffinity dt derived
  .ok { name := name, derived := derived, dataType := dt, affinity := aff, hasConstraints := hasC }

/-! ### master.py -/

def createTable : Str := ['C','R','E','A','T','E',' ','T','A','B','L','E']
def createVirtualTable : Str :=
  ['C','R','E','A','T','E',' ','V','I','R','T','U','A','L',' ','T','A','B','L','E']
def sqlitePrefix : Str := ['s','q','l','i','t','e','_']
def kAS : Str := ['A','S']
def kWITHOUT : Str := ['W','I','T','H','O','U','T']
def kROWID : Str := ['R','O','W','I','D']

/-- the unquoted branch of `_get_master_schema_row_name_and_remaining_sql`; `acc` = characters
passed (reversed); `endOk` = `name_may_end_statement` (repair of C07-22: the module name of a virtual
table may be the last thing in the statement) -/
def unquotedName (endOk : Bool) (acc : Str) : Str → Py (Str × Str)
  | [] => if endOk then .ok (acc.reverse, []) else .error .parseError
  | c :: tl =>
      if isSpace c || c == '(' || c == '-' || c == '/' then
        if c == '-' || c == '/' then
          match tl with
          | [] => .error .indexError
          | d :: _ =>
              if (c == '-' && d != '-') || (c == '/' && d != '*') then .error .parseError
              else .ok (acc.reverse, c :: tl)
        else .ok (acc.reverse, c :: tl)
      else if c == '.' then .error .parseError
      else unquotedName endOk (c :: acc) tl

/-- `_get_master_schema_row_name_and_remaining_sql` (row type table or index);
`endOk` = `name_may_end_statement`, false for table and index names -/
def rowNameAndRest (t : Str) (endOk : Bool := false) : Py (Str × Str) :=
  match t with
  | [] => .error .indexError
  | _ :: _ =>
      match quotedName t with
      | some none => .error .parseError
      | some (some (name, n)) => .ok (name, t.drop n)
      | none => unquotedName endOk [] t

/-- `while s.startswith(("--", "/*")): comment, s = parse_comment(s); …; s = s.lstrip()`;
returns the rest and the number of comments taken -/
def skipComments : Nat → Str → Nat → Py (Str × Nat)
  | 0, s, n => .ok (s, n)
  | fuel + 1, s, n =>
      if startsWithComment s then do
        let (_, r) ← parseComment s
        skipComments fuel (lstrip r) (n + 1)
      else .ok (s, n)

/-- the comment bookkeeping after a top-level comma: `r` = `definitions[character_index+1:]`;
returns (ending_comments_length, number of comments appended).  `lsl` is
`left_stripped_character_length`, reset after every comment. -/
def endingCommentsGo : Nat → Str → Nat → Nat → Nat → Py (Nat × Nat)
  | 0, _, _, ecl, n => .ok (ecl, n)
  | fuel + 1, rem, lsl, ecl, n =>
      if slashStar.isPrefixOf rem then do
        let (c, r) ← parseComment rem
        let sp := (r.takeWhile (· == ' ')).length
        endingCommentsGo fuel (r.drop sp) 0 (ecl + c.length + (lsl + sp)) (n + 1)
      else if dashDash.isPrefixOf rem then do
        let (c, r) ← parseComment rem
        let sp := (r.takeWhile (· == ' ')).length
        .ok (ecl + c.length + (lsl + sp), n + 1)
      else .ok (ecl, n)

def endingComments (r : Str) : Py (Nat × Nat) :=
  let b0 := (r.takeWhile isBlank).length
  endingCommentsGo (r.length + 1) (r.drop b0) b0 0 0

structure ScanState where
  defIdx : Nat := 0
  tcFound : Bool := false
  comments : Nat := 0           -- len(column_definition_comments)
  cols : List Column := []      -- reversed
  ntc : Nat := 0
  deriving Repr, Inhabited

/-- what happens to one definition string (`definitions[beginning_definition_index:character_index]`) -/
def processDefinition (st : ScanState) (text : Str) : Py ScanState := do
  let (definition, _) ← skipComments (text.length + 1) (lstrip text) st.comments
  let isTc ← isPreface TABLE_PREFACES definition
  if isTc then
    if st.defIdx == 0 then .error .parseError
    else .ok { st with defIdx := st.defIdx + 1, tcFound := true, comments := 0, ntc := st.ntc + 1 }
  else if st.tcFound then .error .parseError
  else do
    let col ← parseColumn definition
    .ok { st with defIdx := st.defIdx + 1, comments := 0, cols := col :: st.cols }

/-- how far the scanner jumps from the current character: `rest = definitions[character_index:]`,
result `k` = new index − old index -/
def scanJump (rest : Str) : Py Nat :=
  match rest with
  | [] => .ok 0
  | ch :: tl =>
      if ch == '-' then
        match tl with
        | [] => .error .indexError
        | d :: _ =>
            if d == '-' then
              match findSub newline rest with
              | none => .error .valueError
              | some i => .ok i
            else .ok 0
      else if ch == '/' then
        match tl with
        | [] => .error .indexError
        | d :: _ =>
            if d != '*' then .error .parseError
            -- `definitions.index("*/", character_index + 2) + 1` (41d65d3)
            else match findSub starSlash (rest.drop 2) with
              | none => .error .valueError
              | some i => .ok (i + 3)
      else if ch == '[' then
        match findSub [']'] tl with
        | none => .error .valueError
        | some i => .ok (i + 1)
      else if ch == '`' || ch == '\'' || ch == '"' then
        match findSub [ch] tl with
        | none => .error .valueError
        | some i => .ok (i + 1)
      else if ch == '(' then closingParen rest
      else if ch == ')' then .error .parseError
      else .ok 0

/-- the `while character_index < len(definitions)` loop of `OrdinaryTableRow.__init__`.
`cur` = `definitions[beginning_definition_index:character_index]`, `rest` = `definitions[character_index:]`. -/
def scan : Nat → ScanState → Str → Str → Py ScanState
  | 0, st, _, _ => .ok st
  | fuel + 1, st, cur, rest =>
      match rest with
      | [] => .ok st
      | ch :: _ => do
          let k ← scanJump rest
          let cur' := cur ++ rest.take k
          let rest' := rest.drop k
          if rest'.length == 1 then do
            let st' ← processDefinition st (cur' ++ rest')
            .ok st'
          else if ch == ',' then do
            let (ecl, ncom) ← endingComments (rest'.drop 1)
            let st' ← processDefinition { st with comments := st.comments + ncom } cur'
            scan fuel st' [] (rest'.drop (ecl + 1))
          else
            scan fuel st (cur' ++ rest'.take 1) (rest'.drop 1)

structure Table where
  name : Str
  cols : List Column
  ntc : Nat
  withoutRowid : Bool
  internal : Bool
  deriving DecidableEq, Repr, Inhabited

/-- the check of what follows the closing parenthesis -/
def parseTrailer (t : Str) : Py Bool :=
  let t := lstrip t
  if t.isEmpty then .ok false
  else do
    let (t, _) ← skipComments (t.length + 1) t 0
    if kWITHOUT.isPrefixOf (upper t) then do
      let t := lstrip (t.drop 7)
      let (t, _) ← skipComments (t.length + 1) t 0
      if kROWID.isPrefixOf (upper t) then do
        let t := lstrip (t.drop 5)
        let (t, _) ← skipComments (t.length + 1) t 0
        if t.isEmpty then .ok true else .error .parseError
      else .error .parseError
    else .error .parseError

/-- case-insensitive comparison `a.lower() != b.lower()`; when the ASCII-lowered strings differ
and a non-ASCII character is involved Python's Unicode lowering decides: outside the model -/
def lowerNe (a b : Str) : Py Bool :=
  if lower a == lower b then .ok false
  else if a.any (fun c => c.toNat ≥ 128) && b.any (fun c => c.toNat ≥ 128) then .error .outsideModel
  else .ok true

/-- `OrdinaryTableRow.__init__` for a schema row (name, tbl_name, sql) -/
def parseOrdinaryTable (name tblName sql : Str) : Py Table :=
  if sql.any caseFoldsToAscii || name.any caseFoldsToAscii || tblName.any caseFoldsToAscii then .error .outsideModel
  else if name.isEmpty || tblName.isEmpty then .error .attributeError  -- MasterSchemaRow.__init__ formats self.row_type before it is set
  else if sql.isEmpty then .error .valueError                       -- TableRow.__init__
  else if !createTable.isPrefixOf sql then .error .parseError
  else do
    let cmd := collapse isBlank sql
    let rem := lstrip (cmd.drop 12)
    let (tname, rem) ← rowNameAndRest rem
    let rem := lstrip rem
    if tname.isEmpty then .error .parseError
    else do
    let ne1 ← lowerNe tname name
    if ne1 then .error .parseError
    else do
    let ne2 ← lowerNe tname tblName
    if ne2 then .error .parseError
    else do
      let internal := sqlitePrefix.isPrefixOf tblName
      let (rem, _) ← skipComments (rem.length + 1) rem 0
      if rem.head? != some '(' then
        if upper (rem.take 2) == kAS then .error .notImplemented else .error .parseError
      else do
        let close ← closingParen rem
        let definitions := lstrip ((rem.take close).drop 1)
        if definitions.isEmpty then .error .parseError
        else do
          let st ← scan (definitions.length + 1) {} [] definitions
          let wr ← parseTrailer (rem.drop (close + 1))
          .ok { name := tname, cols := st.cols.reverse, ntc := st.ntc, withoutRowid := wr, internal := internal }

/-- the composition the property speaks about for one declared type: the data type and affinity
the code derives for the (already isolated) declared-type text -/
def declaredAffinity (declared : Str) : Py Affinity :=
  let d := upper declared
  columnAffinity (getDataType d) (some d)

end SqliteDissect.Model.Schema
