/-
Model of file/wal_index/header.py (`WriteAheadLogIndexHeader`, `WriteAheadLogIndexSubHeader`,
`WriteAheadLogIndexCheckpointInfo`), of the `FILE_TYPE.WAL_INDEX` branch of
file/file_handle.py:`FileHandle.__init__` with `FileHandle.read_data`, and of
file/wal_index/wal_index.py:`WriteAheadLogIndex.__init__` — check for check, in the order the
constructors make them.

What the scan "observably computes" is what it writes to the debug log: one `Entry … is page
#p with key of k` line per non-zero u32 before the first zero word (`k = (p * 383) & 8191`), one
`Number …` line per non-zero u16 from the zero word to the end of the file, and the final count.
-/
import SqliteDissect.Bytes
import SqliteDissect.Generated.Constants
import SqliteDissect.Model.Header

namespace SqliteDissect

/-- little-endian unsigned of `n` bytes at `off`; no bounds check (callers check). -/
def Buf.leN (b : Buf) (off : Nat) : Nat → Nat
  | 0 => 0
  | n+1 => b.rd off + 256 * Buf.leN b (off + 1) n

/-- `struct.unpack("<I", b[off:off+4])`: a short slice is `struct.error`. -/
def Buf.u32le (b : Buf) (off : Nat) : Py Nat :=
  if off + 4 ≤ b.size then .ok (b.leN off 4) else .error .structError

/-- `struct.unpack("<H", b[off:off+2])` -/
def Buf.u16le (b : Buf) (off : Nat) : Py Nat :=
  if off + 2 ≤ b.size then .ok (b.leN off 2) else .error .structError

end SqliteDissect

namespace SqliteDissect.Model

/-- `WriteAheadLogIndexSubHeader` (one of the two copies of wal.c's `WalIndexHdr`) -/
structure WalIndexSubHeader where
  index : Nat
  bigEndian : Bool                  -- `endianness == ENDIANNESS.BIG_ENDIAN`
  fileFormatVersion : Nat
  unusedPadding : Nat
  changeCounter : Nat
  initialized : Nat
  checksumsBigEndian : Nat
  pageSize : Nat
  lastValidFrame : Nat
  dbSizeInPages : Nat
  frameChecksum1 : Nat
  frameChecksum2 : Nat
  salt1 : Nat
  salt2 : Nat
  checksum1 : Nat
  checksum2 : Nat
  deriving Repr, Inhabited, DecidableEq

/-- the fourteen integer fields in file order (iVersion, unused, iChange, isInit, bigEndCksum, szPage,
mxFrame, nPage, aFrameCksum[0..1], aSalt[0..1], aCksum[0..1]) -/
def WalIndexSubHeader.fields (s : WalIndexSubHeader) : List Nat :=
  [s.fileFormatVersion, s.unusedPadding, s.changeCounter, s.initialized, s.checksumsBigEndian, s.pageSize,
   s.lastValidFrame, s.dbSizeInPages, s.frameChecksum1, s.frameChecksum2, s.salt1, s.salt2, s.checksum1,
   s.checksum2]

/-- `WriteAheadLogIndexSubHeader.__init__(index, bytes)` -/
def parseWalIndexSubHeader (index : Nat) (b : Buf) : Py WalIndexSubHeader := do
  -- `index < 0` cannot happen for the caller's `range(2)`; `>` (not `>=`) is the code's comparison
  if index > Generated.WAL_INDEX_NUMBER_OF_SUB_HEADERS then .error .valueError
  else if b.size ≠ Generated.WAL_INDEX_SUB_HEADER_LENGTH then .error .valueError
  else
    let fv ← b.u32le 0
    if fv ≠ Generated.WAL_INDEX_FILE_FORMAT_VERSION then
      let fvBig ← b.u32 0
      if fvBig ≠ Generated.WAL_INDEX_FILE_FORMAT_VERSION then .error .parseError   -- HeaderParsingError
      else .error .notImplemented                                                -- big endian: unsupported
    else
      let up ← b.u32le 4
      let cc ← b.u32le 8
      let ini ← ordAt b 12
      let cbe ← ordAt b 13
      let ps ← b.u16le 14
      let lv ← b.u32le 16
      let sz ← b.u32le 20
      let f1 ← b.u32le 24
      let f2 ← b.u32le 28
      let s1 ← b.u32le 32
      let s2 ← b.u32le 36
      let c1 ← b.u32le 40
      let c2 ← b.u32le 44
      pure { index := index, bigEndian := false, fileFormatVersion := fv, unusedPadding := up,
             changeCounter := cc, initialized := ini, checksumsBigEndian := cbe, pageSize := ps,
             lastValidFrame := lv, dbSizeInPages := sz, frameChecksum1 := f1, frameChecksum2 := f2,
             salt1 := s1, salt2 := s2, checksum1 := c1, checksum2 := c2 }

/-- `WriteAheadLogIndexCheckpointInfo` (wal.c `WalCkptInfo`) -/
structure WalIndexCheckpointInfo where
  bigEndian : Bool
  backfilled : Nat
  readerMarks : List Nat
  deriving Repr, Inhabited, DecidableEq

/-- `WriteAheadLogIndexCheckpointInfo.__init__(bytes, endianness)`; the loop over
`range(WAL_INDEX_READER_MARK_SIZE)` (= 5) is unrolled, offsets `i * 4 + 4` -/
def parseWalIndexCheckpointInfo (b : Buf) (bigEndian : Bool) : Py WalIndexCheckpointInfo := do
  if b.size ≠ Generated.WAL_INDEX_CHECKPOINT_INFO_LENGTH then .error .valueError
  else
    let bf ← b.u32le 0
    let m0 ← b.u32le (0 * Generated.WAL_INDEX_READER_MARK_LENGTH + Generated.WAL_INDEX_NUMBER_OF_FRAMES_BACKFILLED_IN_DATABASE_LENGTH)
    let m1 ← b.u32le (1 * Generated.WAL_INDEX_READER_MARK_LENGTH + Generated.WAL_INDEX_NUMBER_OF_FRAMES_BACKFILLED_IN_DATABASE_LENGTH)
    let m2 ← b.u32le (2 * Generated.WAL_INDEX_READER_MARK_LENGTH + Generated.WAL_INDEX_NUMBER_OF_FRAMES_BACKFILLED_IN_DATABASE_LENGTH)
    let m3 ← b.u32le (3 * Generated.WAL_INDEX_READER_MARK_LENGTH + Generated.WAL_INDEX_NUMBER_OF_FRAMES_BACKFILLED_IN_DATABASE_LENGTH)
    let m4 ← b.u32le (4 * Generated.WAL_INDEX_READER_MARK_LENGTH + Generated.WAL_INDEX_NUMBER_OF_FRAMES_BACKFILLED_IN_DATABASE_LENGTH)
    pure { bigEndian := bigEndian, backfilled := bf, readerMarks := [m0, m1, m2, m3, m4] }

/-- `WriteAheadLogIndexHeader` -/
structure WalIndexHeader where
  subHeaders : List WalIndexSubHeader      -- always two
  pageSize : Nat                           -- `sub_headers[0].page_size`
  bigEndian : Bool                         -- `sub_headers[0].endianness`
  checkpoint : WalIndexCheckpointInfo
  lockReserved : List Nat
  raw : List Nat                           -- md5 input
  deriving Repr, Inhabited, DecidableEq

/-- `WriteAheadLogIndexHeader.__init__(bytes)`; the loop over `range(WAL_INDEX_NUMBER_OF_SUB_HEADERS)`
(= 2) is unrolled: the first copy is parsed (and may raise) before the second -/
def parseWalIndexHeader (b : Buf) : Py WalIndexHeader := do
  if b.size ≠ Generated.WAL_INDEX_HEADER_LENGTH then .error .valueError
  else
    let sl := Generated.WAL_INDEX_SUB_HEADER_LENGTH
    let s0 ← parseWalIndexSubHeader 0 (b.slice (0 * sl) (0 * sl + sl))
    let s1 ← parseWalIndexSubHeader 1 (b.slice (1 * sl) (1 * sl + sl))
    let ckStart := Generated.WAL_INDEX_NUMBER_OF_SUB_HEADERS * sl
    let ckEnd := ckStart + Generated.WAL_INDEX_CHECKPOINT_INFO_LENGTH
    let ck ← parseWalIndexCheckpointInfo (b.slice ckStart ckEnd) s0.bigEndian
    let lockEnd := ckEnd + Generated.WAL_INDEX_LOCK_RESERVED_LENGTH
    pure { subHeaders := [s0, s1], pageSize := s0.pageSize, bigEndian := s0.bigEndian, checkpoint := ck,
           lockReserved := (b.slice ckEnd lockEnd).toList, raw := b.toList }

/-! ### `FileHandle` (WAL_INDEX branch) and the scan -/

/-- `FileHandle.read_data(offset, n)` for a handle whose `file_size` is the size of the file
(`file_size=None` given, `os.fstat`): both bounds checks raise `EOFError`, otherwise exactly
`n` bytes are returned -/
def readData (file : Buf) (offset n : Nat) : Py Buf :=
  if offset ≥ file.size then .error .eofError
  else if offset + n > file.size then .error .eofError
  else .ok (file.slice offset (offset + n))

/-- `key = (data * 383) & 8191` of the `Entry …` log line -/
def walIndexKey (page : Nat) : Nat := (page * 383) &&& 8191

/-- first loop: u32 little-endian words from `start` until a zero word or `EOFError`.
Returns (number of `read_data` calls so far, entries before the zero word and its offset | error).
`fuel` bounds the iterations; `scanWords_fuel` shows `file.size / 4 + 1` is never exhausted. -/
def scanWords (file : Buf) : Nat → Nat → List Nat → Nat → Nat × Py (List Nat × Nat)
  | 0, _, _, reads => (reads, .error .outsideModel)
  | fuel + 1, start, acc, reads =>
    match readData file start 4 with
    | .error e => (reads + 1, .error e)
    | .ok d =>
      match d.u32le 0 with
      | .error e => (reads + 1, .error e)
      | .ok data =>
        if data = 0 then (reads + 1, .ok (acc.reverse, start))
        else scanWords file fuel (start + 4) (data :: acc) (reads + 1)

/-- second loop: u16 little-endian from `off` while `off < file_size`; collects (offset, value)
of the non-zero ones (`number_found` is the length) -/
def scanU16 (file : Buf) : Nat → Nat → List (Nat × Nat) → Nat → Nat × Py (List (Nat × Nat))
  | fuel, off, acc, reads =>
    if off < file.size then
      match fuel with
      | 0 => (reads, .error .outsideModel)
      | fuel + 1 =>
        match readData file off 2 with
        | .error e => (reads + 1, .error e)
        | .ok d =>
          match d.u16le 0 with
          | .error e => (reads + 1, .error e)
          | .ok data =>
            scanU16 file fuel (off + 2) (if data ≠ 0 then (off, data) :: acc else acc) (reads + 1)
    else (reads, .ok acc.reverse)

structure ScanResult where
  header : WalIndexHeader
  entries : List Nat                 -- page numbers before the first zero word
  zeroOffset : Nat                   -- `start` after the first loop
  found : List (Nat × Nat)           -- (offset, value) of every non-zero u16 from `zeroOffset` on
  deriving Repr, Inhabited, DecidableEq

def ScanResult.numberFound (r : ScanResult) : Nat := r.found.length

/-- `WriteAheadLogIndex.__init__(file_name)` on a file with the given content: the number of
`FileHandle.read_data` calls made (also when an exception ends the constructor) and the result.
`FileHandle.__init__` reads the header with `file_object.read(136)` (a plain read, clamped at the
end of the file — not a `read_data` call). -/
def walIndexScanCounted (file : Buf) : Nat × Py ScanResult :=
  match parseWalIndexHeader (file.slice 0 Generated.WAL_INDEX_HEADER_LENGTH) with
  | .error e => (0, .error e)
  | .ok hdr =>
    match scanWords file (file.size / 4 + 1) Generated.WAL_INDEX_HEADER_LENGTH [] 0 with
    | (r1, .error e) => (r1, .error e)
    | (r1, .ok (entries, z)) =>
      match scanU16 file (file.size / 2 + 1) z [] r1 with
      | (r2, .error e) => (r2, .error e)
      | (r2, .ok found) => (r2, .ok { header := hdr, entries := entries, zeroOffset := z, found := found })

def walIndexScan (file : Buf) : Py ScanResult := (walIndexScanCounted file).2

def walIndexScanReads (file : Buf) : Nat := (walIndexScanCounted file).1

end SqliteDissect.Model
