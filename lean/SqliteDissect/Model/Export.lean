/-
Model of the per-value rendering and per-row assembly of the four commit exporters

  sqlite_dissect/export/csv_export.py    CommitCsvExporter.write_commit / _write_cells
  sqlite_dissect/export/xlsx_export.py   CommitXlsxExporter.write_commit / _write_cells
  sqlite_dissect/export/sqlite_export.py CommitSqliteExporter.write_commit / _write_cells
  sqlite_dissect/export/text_export.py   CommitTextExporter.write_commit / _write_cells
  sqlite_dissect/output.py               stringify_cell_record
  sqlite_dissect/utilities.py            decode_str

What is modelled is *our side of the interface*: the Python objects handed to
`csv.writer.writerow`, `Worksheet.append`, `Connection.executemany` and `file.write`.
`csv`, `openpyxl` and `sqlite3` themselves are trusted; the small statement of what they do
with the objects they are handed (`csvWritten`, `sqliteStored`, `xlsxStored`) is in the section
"Trusted interface" and is validated against the real libraries by the harness on every run.

Python objects are `PyObj`; a `str` is its list of code points (so lone surrogates can be
represented), `bytes`/`bytearray` are lists of byte values.  Text decoding
(`bytes.decode(enc, "replace")` for utf-8, utf-16-le, utf-16-be) is modelled in full as
byte-at-a-time state machines that reproduce CPython's replacement behaviour (one U+FFFD per
maximal ill-formed prefix / lone surrogate / truncated tail); they are tied to CPython by the
correspondence run.  `repr(float)` is NOT modelled: every function that needs it takes it as the
parameter `fs : Nat → List Nat` (bit pattern ↦ code points of Python's `repr`), which the driver
receives from the harness.
-/
import SqliteDissect.Model.Codec
import SqliteDissect.Generated.XmlRanges

namespace SqliteDissect.Model.Export
open SqliteDissect SqliteDissect.Model

/-! ### Python objects -/

/-- `database_text_encoding` as passed to `bytes.decode` -/
inductive Enc where
  | utf8 | utf16le | utf16be
  deriving DecidableEq, Repr, Inhabited

/-- The Python objects that occur as `RecordColumn.value`, as row entries and as rendered fields. -/
inductive PyObj where
  | none
  | int (i : Int)
  | float (bits : Nat)
  | bytes (b : List Nat)
  | bytearray (b : List Nat)
  | str (s : List Nat)
  | memoryview (b : List Nat)
  deriving DecidableEq, Repr, Inhabited

/-- `record_column.serial_type`, `record_column.value` -/
structure Column where
  serialType : Int
  value : PyObj
  deriving DecidableEq, Repr, Inhabited

/-- `True if serial_type >= 13 and serial_type % 2 == 1 else False` -/
def textAffinity (st : Int) : Bool := decide (13 ≤ st) && decide (st % 2 = 1)

def cps (s : String) : List Nat := s.toList.map Char.toNat

/-- serial type SQLite uses for an integer (schema format 4) -/
def intSerialType (i : Int) : Int :=
  if i = 0 then 8 else if i = 1 then 9
  else if -128 ≤ i ∧ i < 128 then 1
  else if -32768 ≤ i ∧ i < 32768 then 2
  else if -8388608 ≤ i ∧ i < 8388608 then 3
  else if -2147483648 ≤ i ∧ i < 2147483648 then 4
  else if -140737488355328 ≤ i ∧ i < 140737488355328 then 5
  else 6

/-- What the library reports for a stored value (`get_record_content`): text and blobs are
`bytes` slices of the record body, never decoded. -/
def Column.ofVal : Val → Column
  | .null => ⟨0, .none⟩
  | .int i => ⟨intSerialType i, .int i⟩
  | .real b => ⟨7, .float b⟩
  | .blob b => ⟨12 + 2 * b.length, .bytes b⟩
  | .text b => ⟨13 + 2 * b.length, .bytes b⟩

/-! ### `bytes.decode(encoding, "replace")` -/

def repl : Nat := 0xFFFD

def isSurrogate (c : Nat) : Bool := decide (0xD800 ≤ c) && decide (c ≤ 0xDFFF)

/-- utf-8 decoder state: at a character boundary, or `k` continuation bytes still needed, the
next one restricted to `[lo, hi]` (this is where overlong forms, surrogates and values above
U+10FFFF are excluded, as in CPython's `utf8_decode`) -/
inductive U8 where
  | start
  | need (k acc lo hi : Nat)
  deriving DecidableEq, Repr

def u8Start (b : Nat) : List Nat × U8 :=
  if b < 0x80 then ([b], .start)
  else if b < 0xC2 then ([repl], .start)
  else if b < 0xE0 then ([], .need 1 (b % 32) 0x80 0xBF)
  else if b = 0xE0 then ([], .need 2 0 0xA0 0xBF)
  else if b = 0xED then ([], .need 2 13 0x80 0x9F)
  else if b < 0xF0 then ([], .need 2 (b % 16) 0x80 0xBF)
  else if b = 0xF0 then ([], .need 3 0 0x90 0xBF)
  else if b < 0xF4 then ([], .need 3 (b % 8) 0x80 0xBF)
  else if b = 0xF4 then ([], .need 3 4 0x80 0x8F)
  else ([repl], .start)

def u8Step : U8 → Nat → List Nat × U8
  | .start, b => u8Start b
  | .need k acc lo hi, b =>
      if lo ≤ b ∧ b ≤ hi then
        if k ≤ 1 then ([acc * 64 + b % 64], .start) else ([], .need (k - 1) (acc * 64 + b % 64) 0x80 0xBF)
      else
        -- the ill-formed prefix is replaced by one U+FFFD and the offending byte is looked at again
        (repl :: (u8Start b).1, (u8Start b).2)

def u8Run : U8 → List Nat → List Nat
  | .start, [] => []
  | .need _ _ _ _, [] => [repl]          -- "unexpected end of data": one U+FFFD for the whole tail
  | st, b :: rest => (u8Step st b).1 ++ u8Run (u8Step st b).2 rest

/-- utf-16 decoder state -/
inductive U16 where
  | start
  | half (b0 : Nat)
  | high (u : Nat)
  | highHalf (u b0 : Nat)
  deriving DecidableEq, Repr

def unit16 (le : Bool) (b0 b1 : Nat) : Nat := if le then b1 * 256 + b0 else b0 * 256 + b1

def u16Unit (u : Nat) : List Nat × U16 :=
  if 0xD800 ≤ u ∧ u < 0xDC00 then ([], .high u)
  else if 0xDC00 ≤ u ∧ u < 0xE000 then ([repl], .start)       -- "illegal encoding"
  else ([u], .start)

def u16Step (le : Bool) : U16 → Nat → List Nat × U16
  | .start, b => ([], .half b)
  | .half b0, b => u16Unit (unit16 le b0 b)
  | .high u, b => ([], .highHalf u b)
  | .highHalf u b0, b =>
      if 0xDC00 ≤ unit16 le b0 b ∧ unit16 le b0 b < 0xE000 then
        ([0x10000 + (u - 0xD800) * 1024 + (unit16 le b0 b - 0xDC00)], .start)
      else
        -- "illegal UTF-16 surrogate": the high surrogate is replaced, the unit is looked at again
        (repl :: (u16Unit (unit16 le b0 b)).1, (u16Unit (unit16 le b0 b)).2)

def u16Run (le : Bool) : U16 → List Nat → List Nat
  | .start, [] => []
  | _, [] => [repl]                        -- truncated data / unexpected end: one U+FFFD
  | st, b :: rest => (u16Step le st b).1 ++ u16Run le (u16Step le st b).2 rest

/-- `b.decode(enc, "replace")` -/
def decodeReplace : Enc → List Nat → List Nat
  | .utf8, b => u8Run .start b
  | .utf16le, b => u16Run true .start b
  | .utf16be, b => u16Run false .start b

/-! ### `str(value)` -/

def hexd (n : Nat) : Nat := if n < 10 then 48 + n else 87 + n

/-- one byte inside `repr(bytes)` with quote character `q` -/
def reprByte (q b : Nat) : List Nat :=
  if b = q ∨ b = 92 then [92, b]
  else if b = 9 then [92, 116]
  else if b = 10 then [92, 110]
  else if b = 13 then [92, 114]
  else if b < 32 ∨ 127 ≤ b then [92, 120, hexd (b / 16), hexd (b % 16)]
  else [b]

def reprQuote (b : List Nat) : Nat := if b.contains 39 && !b.contains 34 then 34 else 39

/-- `repr(b)` / `str(b)` of a `bytes` object: `b'…'` (or `b"…"` when it contains `'` and no `"`) -/
def bytesRepr (b : List Nat) : List Nat :=
  [98, reprQuote b] ++ b.flatMap (reprByte (reprQuote b)) ++ [reprQuote b]

/-- `str(bytearray(b))` = `bytearray(b'…')`: the quote is chosen as for `bytes`, but
`bytearray_repr` escapes `'` and `\\` whatever the quote is (so `bytearray(b"it\\'s")`) -/
def bytearrayRepr (b : List Nat) : List Nat :=
  cps "bytearray(b" ++ [reprQuote b] ++ b.flatMap (reprByte 39) ++ [reprQuote b] ++ [41]

def intStr (i : Int) : List Nat := cps (toString i)

/-- `str(value)`; `fs` is Python's `repr(float)` -/
def pyStr (fs : Nat → List Nat) : PyObj → List Nat
  | .none => cps "None"
  | .int i => intStr i
  | .float b => fs b
  | .bytes b => bytesRepr b
  | .bytearray b => bytearrayRepr b
  | .str s => s
  | .memoryview _ => cps "<memory>"      -- never reached by the exporters

/-! ### XML-illegal characters: `sub(ILLEGAL_XML_CHARACTER_PATTERN, " ", value)` -/

def illegalXml (c : Nat) : Bool := Generated.illegalXmlRanges.any fun r => decide (r.1 ≤ c) && decide (c ≤ r.2)

def scrub (s : List Nat) : List Nat := s.map fun c => if illegalXml c then 32 else c

/-! ### CSV / XLSX: per-value rendering -/

/-- The common tail of the CSV and XLSX branches once `value` is a `str`:
`value.encode(UTF_8)` (only `UnicodeDecodeError` is caught, so a lone surrogate escapes as
`UnicodeEncodeError`), back to `str`, `value.startswith("=")` ⇒ one leading space, the scrub. -/
def sheetTail (s : List Nat) : Py PyObj :=
  if s.any isSurrogate then .error .unicodeError
  else .ok (.str (scrub (match s with | 61 :: _ => 32 :: s | _ => s)))

/-- `CommitCsvExporter._write_cells`, the body of `for record_column in …` -/
def renderCsv (enc : Enc) (c : Column) : Py PyObj :=
  match c.value with
  | .bytes b => if textAffinity c.serialType then sheetTail (decodeReplace enc b) else sheetTail (bytesRepr b)
  | .bytearray b => if textAffinity c.serialType then sheetTail (decodeReplace enc b) else sheetTail (bytearrayRepr b)
  | .str s => if textAffinity c.serialType then .error .attributeError else sheetTail s
  | v => .ok v

/-- `CommitXlsxExporter._write_cells`: as CSV, except that an empty *bytearray* becomes `None` -/
def renderXlsx (enc : Enc) (c : Column) : Py PyObj :=
  match c.value with
  | .bytes b => if textAffinity c.serialType then sheetTail (decodeReplace enc b) else sheetTail (bytesRepr b)
  | .bytearray b =>
      if b.isEmpty then .ok .none
      else if textAffinity c.serialType then sheetTail (decodeReplace enc b) else sheetTail (bytearrayRepr b)
  | .str s => if textAffinity c.serialType then .error .attributeError else sheetTail s
  | v => .ok v

/-! ### SQLite: what is bound -/

/-- `CommitSqliteExporter._write_cells`: `bytes` and `bytearray` values with a text serial type are
decoded (bound as `str`, stored as TEXT), the others go through `memoryview` (BLOB); a `str`
value fails (`value.decode` / `memoryview(str)`), everything else is bound as it is. -/
def bindSqlite (enc : Enc) (c : Column) : Py PyObj :=
  match c.value with
  | .bytes b => if textAffinity c.serialType then .ok (.str (decodeReplace enc b)) else .ok (.memoryview b)
  | .bytearray b => if textAffinity c.serialType then .ok (.str (decodeReplace enc b)) else .ok (.memoryview b)
  | .str _ =>
      -- `value.decode` on a str: AttributeError; `memoryview(str)`: TypeError; neither is UnicodeDecodeError
      if textAffinity c.serialType then .error .attributeError else .error .typeError
  | v => .ok v

/-! ### Text: `stringify_cell_record` -/

/-- one element of `column_values` after `decode_str`: `NULL` only for `None` (`if value is not None`) -/
def textPiece (fs : Nat → List Nat) (enc : Enc) (c : Column) : Py (List Nat) :=
  if c.value != .none then
    if textAffinity c.serialType then
      match c.value with
      | .bytes b | .bytearray b =>
          -- `.decode(enc, "replace").encode(UTF_8)` then `decode_str` (`bytes.decode()`)
          if (decodeReplace enc b).any isSurrogate then .error .unicodeError else .ok (decodeReplace enc b)
      | _ => .error .attributeError
    else .ok (pyStr fs c.value)
  else .ok (cps "NULL")

def mapPy {α β : Type} (f : α → Py β) : List α → Py (List β)
  | [] => .ok []
  | a :: rest =>
      match f a with
      | .error e => .error e
      | .ok b =>
          match mapPy f rest with
          | .error e => .error e
          | .ok bs => .ok (b :: bs)

/-- `", ".join(...)` -/
def joinComma : List (List Nat) → List Nat
  | [] => []
  | [a] => a
  | a :: rest => a ++ [44, 32] ++ joinComma rest

inductive PageType where
  | tableLeaf | tableInterior | indexLeaf | other
  deriving DecidableEq, Repr, Inhabited

/-- `stringify_cell_record(cell, database_text_encoding, page_type)` -/
def stringifyCellRecord (fs : Nat → List Nat) (enc : Enc) (pt : PageType) (rowId : PyObj) (cols : List Column) :
    Py (List Nat) :=
  match pt with
  | .tableLeaf =>
      match mapPy (textPiece fs enc) cols with
      | .error e => .error e
      | .ok ps => .ok ([35] ++ pyStr fs rowId ++ [58, 32] ++ [40] ++ joinComma ps ++ [41])
  | .indexLeaf =>
      match mapPy (textPiece fs enc) cols with
      | .error e => .error e
      | .ok ps => .ok ([40] ++ joinComma ps ++ [41])
  | _ => .error .valueError

/-! ### Cells, rows, commits -/

/-- the attributes of a cell the exporters read (all kept as Python objects: carved cells carry
`row_id = "Unknown"`, index cells have no row id) -/
structure Cell where
  versionNumber : PyObj
  pageVersionNumber : PyObj
  source : PyObj
  pageNumber : PyObj
  location : PyObj
  fileOffset : PyObj
  rowId : PyObj
  columns : List Column
  deriving DecidableEq, Repr, Inhabited

/-- `row = [file_type, version_number, page_version_number, source, page_number, location,
operation, file_offset]`, `+ [row_id]` for table leaf pages, `+ values` -/
def rowOf (pt : PageType) (fileType op : PyObj) (c : Cell) (vals : List PyObj) : List PyObj :=
  [fileType, c.versionNumber, c.pageVersionNumber, c.source, c.pageNumber, c.location, op, c.fileOffset]
    ++ (if pt = .tableLeaf then [c.rowId] else []) ++ vals

def csvRow (enc : Enc) (pt : PageType) (fileType op : PyObj) (c : Cell) : Py (List PyObj) :=
  match mapPy (renderCsv enc) c.columns with
  | .error e => .error e
  | .ok vals => .ok (rowOf pt fileType op c vals)

def xlsxRow (enc : Enc) (pt : PageType) (fileType op : PyObj) (c : Cell) : Py (List PyObj) :=
  match mapPy (renderXlsx enc) c.columns with
  | .error e => .error e
  | .ok vals => .ok (rowOf pt fileType op c vals)

/-- `row.extend([None] * (column_count - len(row)))`; a longer row is an `ExportError` -/
def padRow (columnCount : Nat) (row : List PyObj) : Py (List PyObj) :=
  if row.length > columnCount then .error .parseError
  else .ok (row ++ List.replicate (columnCount - row.length) .none)

def sqliteRow (enc : Enc) (pt : PageType) (columnCount : Nat) (fileType op : PyObj) (c : Cell) : Py (List PyObj) :=
  match mapPy (bindSqlite enc) c.columns with
  | .error e => .error e
  | .ok vals => padRow columnCount (rowOf pt fileType op c vals)

/-- `"{}".format(x)` for the objects that occur in the preface -/
def fmt (fs : Nat → List Nat) (o : PyObj) : List Nat := pyStr fs o

/-- one line of `CommitTextExporter._write_cells` (as a `str`; it is written utf-8 encoded) -/
def textLine (fs : Nat → List Nat) (enc : Enc) (pt : PageType) (fileType op : PyObj) (c : Cell) : Py (List Nat) :=
  match stringifyCellRecord fs enc pt c.rowId c.columns with
  | .error e => .error e
  | .ok rv =>
      let line := cps "File Type: " ++ fmt fs fileType ++ cps " Version Number: " ++ fmt fs c.versionNumber
        ++ cps " Page Version Number: " ++ fmt fs c.pageVersionNumber ++ cps " Source: " ++ fmt fs c.source
        ++ cps " Page Number: " ++ fmt fs c.pageNumber ++ cps " Location: " ++ fmt fs c.location
        ++ cps " Operation: " ++ fmt fs op ++ cps " File Offset: " ++ fmt fs c.fileOffset
        ++ [32] ++ rv ++ [46, 10]
      if line.any isSurrogate then .error .unicodeError else .ok line

def rowIdKey (c : Cell) : Option Int :=
  match c.rowId with
  | .int k => some k
  | _ => none

/-- insert in front of the first element whose key is not smaller: elements are inserted from
the right, so equal keys keep their original relative order (`sorted` is stable) -/
def insertCell (k : Int) (c : Cell) : List (Int × Cell) → List (Int × Cell)
  | [] => [(k, c)]
  | (k', c') :: rest => if k ≤ k' then (k, c) :: (k', c') :: rest else (k', c') :: insertCell k c rest

/-- row ids that are not all integers leave the modelled fragment (added / updated / deleted
cells always carry integer row ids; carved cells, whose row id is the str "Unknown", are never sorted) -/
def sortKeyed : List Cell → Py (List (Int × Cell))
  | [] => .ok []
  | c :: rest =>
      match rowIdKey c, sortKeyed rest with
      | some k, .ok s => .ok (insertCell k c s)
      | none, _ => .error .outsideModel
      | _, .error e => .error e

/-- `sorted(cells, key=lambda b_tree_cell: b_tree_cell.row_id)` -/
def sortByRowId (cells : List Cell) : Py (List Cell) :=
  match sortKeyed cells with
  | .ok s => .ok (s.map (·.2))
  | .error e => .error e

/-- the attributes of a `Commit` the exporters read -/
structure Commit where
  updated : Bool
  pageType : PageType
  fileType : PyObj
  enc : Enc
  added : List Cell       -- `.values()` order
  updatedCells : List Cell
  deleted : List Cell
  carved : List Cell
  deriving Repr, Inhabited

def opAdded : PyObj := .str (cps "Added")
def opUpdated : PyObj := .str (cps "Updated")
def opDeleted : PyObj := .str (cps "Deleted")
def opCarved : PyObj := .str (cps "Carved")

/-- The cells of a commit in the order every exporter visits them, with the operation label:
added, updated, deleted (each sorted by row id for table pages), then carved. -/
def commitCells (table : Bool) (c : Commit) : Py (List (PyObj × Cell)) :=
  if table then
    match sortByRowId c.added, sortByRowId c.updatedCells, sortByRowId c.deleted with
    | .ok a, .ok u, .ok d =>
        .ok (a.map (fun x => (opAdded, x)) ++ u.map (fun x => (opUpdated, x)) ++ d.map (fun x => (opDeleted, x))
              ++ c.carved.map (fun x => (opCarved, x)))
    | .error e, _, _ => .error e
    | _, .error e, _ => .error e
    | _, _, .error e => .error e
  else
    .ok (c.added.map (fun x => (opAdded, x)) ++ c.updatedCells.map (fun x => (opUpdated, x))
          ++ c.deleted.map (fun x => (opDeleted, x)) ++ c.carved.map (fun x => (opCarved, x)))

def metaHeaders : List String :=
  ["File Source", "Version", "Page Version", "Cell Source", "Page Number", "Location", "Operation", "File Offset"]

/-- rows handed to `csv_writer.writerow` by `CommitCsvExporter.write_commit` (header rows included:
for index pages `writerow(column_headers)` is executed for *every* commit, with the empty list
after the first one; for table pages only when the file is created) -/
def csvCommit (writeHeaders : Bool) (columnNames : List (List Nat)) (c : Commit) : Py (List (List PyObj)) :=
  if !c.updated then .ok []
  else
    let hdr : List PyObj := if writeHeaders then metaHeaders.map (fun h => .str (cps h)) else []
    match c.pageType with
    | .indexLeaf =>
        match commitCells false c with
        | .error e => .error e
        | .ok cs =>
            match mapPy (fun oc => csvRow c.enc c.pageType c.fileType oc.1 oc.2) cs with
            | .error e => .error e
            | .ok rows => .ok (hdr :: rows)
    | .tableLeaf | .tableInterior =>
        match commitCells true c with
        | .error e => .error e
        | .ok cs =>
            match mapPy (fun oc => csvRow c.enc c.pageType c.fileType oc.1 oc.2) cs with
            | .error e => .error e
            | .ok rows =>
                .ok ((if writeHeaders then [hdr ++ [.str (cps "Row ID")] ++ columnNames.map .str] else []) ++ rows)
    | .other => .error .parseError

/-- rows handed to `sheet.append` by `CommitXlsxExporter.write_commit` (table *interior* is an
`ExportError` here, unlike the CSV exporter) -/
def xlsxCommit (writeHeaders : Bool) (columnNames : List (List Nat)) (c : Commit) : Py (List (List PyObj)) :=
  if !c.updated then .ok []
  else
    let hdr : List PyObj := if writeHeaders then metaHeaders.map (fun h => .str (cps h)) else []
    match c.pageType with
    | .indexLeaf =>
        match commitCells false c with
        | .error e => .error e
        | .ok cs =>
            match mapPy (fun oc => xlsxRow c.enc c.pageType c.fileType oc.1 oc.2) cs with
            | .error e => .error e
            | .ok rows => .ok (hdr :: rows)
    | .tableLeaf =>
        match commitCells true c with
        | .error e => .error e
        | .ok cs =>
            match mapPy (fun oc => xlsxRow c.enc c.pageType c.fileType oc.1 oc.2) cs with
            | .error e => .error e
            | .ok rows =>
                .ok ((if writeHeaders then [hdr ++ [.str (cps "Row ID")] ++ columnNames.map .str] else []) ++ rows)
    | _ => .error .parseError

/-- `column_header.replace(" ", "_").lower()` on the fixed ASCII headers -/
def lowerUnderscore (s : List Nat) : List Nat :=
  s.map fun c => if c = 32 then 95 else if 65 ≤ c ∧ c ≤ 90 then c + 32 else c

/-- `while name in column_definitions: name = "sd_" + name`; the loop runs at most
`len(column_definitions)` times (every round produces a longer, hence new, name), so
`fuel = len + 1` is never exhausted (`Proofs.Export.sdPrefix_fuel`). -/
def sdPrefixLoop (defs : List (List Nat)) : Nat → List Nat → Py (List Nat)
  | 0, _ => .error .outsideModel
  | fuel + 1, name => if defs.contains name then sdPrefixLoop defs fuel (cps "sd_" ++ name) else .ok name

/-- column names of the `CREATE TABLE` statement of the SQLite export.
`nIndexColumns` is `len(cells[0].payload.record_columns)` of the first cell of the first written commit. -/
def sqliteHeaders (pt : PageType) (columnDefs : List (List Nat)) (nIndexColumns : Nat) : Py (List (List Nat)) :=
  match pt with
  | .indexLeaf =>
      .ok ((metaHeaders.map cps ++ (List.range nIndexColumns).map (fun i => cps s!"Column {i}")).map lowerUnderscore)
  | .tableLeaf =>
      match mapPy (fun h => sdPrefixLoop columnDefs (columnDefs.length + 1) (cps "sd_" ++ lowerUnderscore h))
              ((metaHeaders ++ ["Row ID"]).map cps) with
      | .error e => .error e
      | .ok hs => .ok (hs ++ columnDefs)
  | _ => .error .parseError

/-- `"iso_" + name if internal_schema_object else name` -/
def sqliteTableName (internalSchemaObject : Bool) (name : List Nat) : List Nat :=
  if internalSchemaObject then cps "iso_" ++ name else name

/-- `_quote_identifier(name)`: `'"' + name.replace('"', '""') + '"'` -/
def quoteIdentifier (name : List Nat) : List Nat :=
  [34] ++ name.flatMap (fun c => if c = 34 then [34, 34] else [c]) ++ [34]

/-- `" ,".join(...)` -/
def joinSpaceComma : List (List Nat) → List Nat
  | [] => []
  | [a] => a
  | a :: rest => a ++ [32, 44] ++ joinSpaceComma rest

/-- `"CREATE TABLE {} ({})".format(_quote_identifier(table_name), " ,".join(_quote_identifier(h) …))` -/
def createTableStatement (tableName : List Nat) (headers : List (List Nat)) : List Nat :=
  cps "CREATE TABLE " ++ quoteIdentifier tableName ++ cps " (" ++ joinSpaceComma (headers.map quoteIdentifier) ++ [41]

/-- `f"INSERT INTO {_quote_identifier(table_name)} VALUES ({'?' + ', ?' * (n - 1)})"` for rows of `n ≥ 1` entries -/
def insertStatement (tableName : List Nat) (n : Nat) : List Nat :=
  cps "INSERT INTO " ++ quoteIdentifier tableName ++ cps " VALUES (?" ++ (List.replicate (n - 1) (cps ", ?")).flatten ++ [41]

/-- XLSX sheet title: `sub(r"[\\*?:/\[\]]", "_", commit.name)` (names longer than 31 characters are
shortened by the exporter afterwards; that part is not modelled) -/
def sheetTitle (name : List Nat) : List Nat :=
  name.map fun c => if c = 92 ∨ c = 42 ∨ c = 63 ∨ c = 58 ∨ c = 47 ∨ c = 91 ∨ c = 93 then 95 else c

/-- CSV file name stem: spaces, double quotes and the path separator `/` become `_` -/
def csvFileStem (name : List Nat) : List Nat :=
  name.map fun c => if c = 32 ∨ c = 34 ∨ c = 47 then 95 else c

/-- tuples handed to `executemany` for one commit, given the column count recorded at table creation -/
def sqliteCommit (columnCount : Nat) (c : Commit) : Py (List (List PyObj)) :=
  if !c.updated then .ok []
  else
    match c.pageType with
    | .indexLeaf =>
        match commitCells false c with
        | .error e => .error e
        | .ok cs => mapPy (fun oc => sqliteRow c.enc c.pageType columnCount c.fileType oc.1 oc.2) cs
    | .tableLeaf =>
        match commitCells true c with
        | .error e => .error e
        | .ok cs => mapPy (fun oc => sqliteRow c.enc c.pageType columnCount c.fileType oc.1 oc.2) cs
    | _ => .error .parseError

/-- lines written by `CommitTextExporter.write_commit` after the "Commit: …" header line -/
def textCommit (fs : Nat → List Nat) (c : Commit) : Py (List (List Nat)) :=
  if !c.updated then .ok []
  else
    match c.pageType with
    | .indexLeaf =>
        match commitCells false c with
        | .error e => .error e
        | .ok cs => mapPy (fun oc => textLine fs c.enc c.pageType c.fileType oc.1 oc.2) cs
    | .tableLeaf =>
        match commitCells true c with
        | .error e => .error e
        | .ok cs => mapPy (fun oc => textLine fs c.enc c.pageType c.fileType oc.1 oc.2) cs
    | _ => .error .parseError

/-! ### Trusted interface: what csv / sqlite3 / openpyxl do with the objects they are handed

Not our code.  Stated here so that "reads back" can be expressed; validated against the real
libraries by the harness (`export.written`, `export.stored`). -/

/-- the field `csv.writer` writes (before quoting): `None` ↦ empty, numbers ↦ `str`/`repr`, `str` itself -/
def csvWritten (fs : Nat → List Nat) : PyObj → List Nat
  | .none => []
  | .str s => s
  | o => pyStr fs o

/-- utf-8 encoding of a surrogate-free str (sqlite3 binds `str` as utf-8 TEXT) -/
def utf8Encode1 (c : Nat) : List Nat :=
  if c < 0x80 then [c]
  else if c < 0x800 then [0xC0 + c / 64, 0x80 + c % 64]
  else if c < 0x10000 then [0xE0 + c / 4096, 0x80 + c / 64 % 64, 0x80 + c % 64]
  else [0xF0 + c / 262144, 0x80 + c / 4096 % 64, 0x80 + c / 64 % 64, 0x80 + c % 64]

def utf8Encode (s : List Nat) : List Nat := s.flatMap utf8Encode1

/-- the value SQLite stores for a bound parameter in a column without type affinity
(the export tables declare no column types); text as its utf-8 bytes (the export database is utf-8) -/
def sqliteStored : PyObj → Val
  | .none => .null
  | .int i => .int i
  | .float b => .real b
  | .bytes b => .blob b
  | .bytearray b => .blob b
  | .memoryview b => .blob b
  | .str s => .text (utf8Encode s)

/-- what ends up in an XLSX cell: nothing, a number, or a string -/
inductive XCell where
  | empty
  | number (o : PyObj)
  | string (s : List Nat)
  deriving DecidableEq, Repr

def xlsxStored : PyObj → XCell
  | .none => .empty
  | .str [] => .empty      -- openpyxl writes an inline string without text, which reads back as an empty cell
  | .int i => .number (.int i)
  | .float b => .number (.float b)
  | .str s => .string s
  | o => .number o      -- never produced by renderXlsx

end SqliteDissect.Model.Export
