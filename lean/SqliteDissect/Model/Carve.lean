/-
Model of sqlite_dissect/carving/carved_cell.py (CarvedBTreeCell, CarvedRecord, CarvedRecordColumn),
sqlite_dissect/carving/carver.py (SignatureCarver.carve_freeblocks / carve_unallocated_space),
sqlite_dissect/carving/rollback_journal_carver.py (RollBackJournalCarver.carve), the carving part
of version_history.py:VersionParserIterator.next and interface.carve_table.

The model follows the tree after the `fix:` commits 6eca1fa (last_offset), 0b2b453 (hash strings are
bytes), 1323ad4 (freeblock file offset counts from the content), 4d9b308 (append_byte_strings accepts
bytearray), 1c3b10a (decode_varint_in_reverse raises), 0d6a473 (journal with fewer than two page
records), 56bb962 (digest over the record's own bytes), a784e20 (high-bit guard in front of decode_varint).  With these the Python type of the data object
(bytes / bytearray) and of the per-column hash strings no longer decides anything and is not modelled.
* `get_content_size` of an even serial type is a float with an integral value; every use either
  compares it, adds it or passes it through `int()`, so the model carries the integer.
md5 is the identity on the hashed bytes (`digest`).
-/
import SqliteDissect.Model.Regex
import SqliteDissect.Model.History

namespace SqliteDissect.Model.Carve
open SqliteDissect SqliteDissect.Model

/-- `CELL_LOCATION` as the carving code distinguishes it -/
inductive Loc where
  | unallocated | freeblock | allocated
  deriving DecidableEq, Repr, Inhabited

def Loc.name : Loc → String
  | .unallocated => "unalloc"
  | .freeblock => "freeblock"
  | .allocated => "allocated"

/-- what the carver reads from the `Signature` object -/
structure CarveSig where
  numberOfColumns : Nat
  totalRecords : Nat
  simplified : List (List Int)
  recommended : List (List Int)
  /-- `simplified_probabilistic_signature`: per column (serial type, numerator, denominator) -/
  simplifiedProb : List (List (Int × Nat × Nat))
  deriving Repr, Inhabited

/-- exceptions inside `CarvedBTreeCell.__init__`: `CellCarvingError` is told apart from the other
`sqlite_dissect.exception` classes because the carver catches exactly it (and `ValueError`) -/
inductive CErr where
  | cellCarving
  | py (e : PyErr)
  deriving DecidableEq, Repr, Inhabited

abbrev CM (α : Type) := Except CErr α

def liftPy {α : Type} : Py α → CM α
  | .ok a => .ok a
  | .error e => .error (.py e)

/-- content sizes travel through Python floats (`get_content_size` of a blob, the running body
size); the model follows them only while they are exact -/
def floatExact : Nat := 2 ^ 53

/-- `get_content_size(serial_type)` inside the carving code -/
def contentSize (st : Int) : CM Nat :=
  match getContentSize st with
  | .error e => .error (.py e)
  | .ok sz => if sz ≥ floatExact then .error (.py .outsideModel) else .ok sz

/-- a column value: never assigned (`None`), decoded by `get_record_content`, or the raw tail of
the data for the column at which the data ends -/
inductive CVal where
  | unset
  | dec (v : Val)
  | raw (b : List Nat)
  deriving DecidableEq, Repr, Inhabited

/-- a `CarvedRecordColumn` before its value is looked at -/
structure PreCol where
  serialType : Int
  varintLen : Nat
  contentSize : Nat
  truncatedFirst : Bool := false
  probabilisticFirst : Bool := false
  deriving DecidableEq, Repr, Inhabited

structure CCol where
  index : Nat
  serialType : Int
  varintLen : Nat
  contentSize : Nat
  value : CVal
  truncatedValue : Bool
  truncatedFirst : Bool
  probabilisticFirst : Bool
  /-- offset of the column's body bytes in the data -/
  bodyOffset : Nat
  deriving DecidableEq, Repr, Inhabited

/-- arguments of `CarvedRecord.__init__` -/
structure RecIn where
  loc : Loc
  data : Buf
  s : Nat
  e : Nat
  cutoff : Nat
  nCols : Nat
  sig : CarveSig
  firstCol : Option (List Int)
  fbSize : Option Nat
  pageSize : Nat

structure CarvedRec where
  cols : List CCol
  truncatedBeginning : Bool
  truncatedEnding : Bool
  bodyStart : Nat
  bodyEnd : Nat
  cellStart : Int
  cellEnd : Nat
  deriving Repr, Inhabited

/-! ### first column reconstruction -/

/-- `for serial_type in self.first_column_serial_types: if get_content_size(serial_type) == X or
serial_type in [-1, -2]: …` — `get_content_size` is evaluated first and raises `ValueError` for
-1 / -2, so the second disjunct never decides anything -/
def matchingTypes (x : Int) : List Int → CM (List Int)
  | [] => .ok []
  | st :: rest => do
    let sz ← contentSize st
    let r ← matchingTypes x rest
    pure (if (sz : Int) = x ∨ st = -1 ∨ st = -2 then st :: r else r)

/-- the block shared by `start == 0` (the freeblock's own size) and `start >= 2` (a size field
found in front of the match): all four cell fields are taken to be one byte long -/
def fromFreeblockSize (fc : List Int) (fbSize : Int) (sdSize sdcs : Nat) : CM (Option PreCol) := do
  let headerByteSize : Int := 1 + sdSize + 1
  let payloadByteSize : Int := fbSize - 2
  let bodyContentSize : Int := payloadByteSize - headerByteSize
  let x : Int := bodyContentSize - sdcs
  let ms ← matchingTypes x fc
  match ms with
  | [st] => pure (some { serialType := st, varintLen := 1, contentSize := x.toNat,
                         truncatedFirst := true })
  | _ => pure none

/-- `if ord(data[at:at+1]) & 0x80: raise CellCarvingError()` — the guard of fix a784e20 in front of
`decode_varint(data, at)`: the start of a varint of several bytes is rejected before it is decoded
(it could run past the end of the data).  `ord(b'')` past the end is a TypeError. -/
def precedingByteGuard (data : Buf) (at_ : Nat) : CM Unit :=
  if at_ < data.size then
    (if data.rd at_ &&& 0x80 ≠ 0 then .error .cellCarving else .ok ())
  else .error (.py .typeError)

/-- `decode_varint(data, at)` must be one byte long and its class must be listed -/
def fromPrecedingByte (fc : List Int) (data : Buf) (at_ : Nat) : CM (Option PreCol) := do
  precedingByteGuard data at_
  let (st, n) ← liftPy (decodeVarint data at_)
  if n ≠ 1 then .error .cellCarving
  else if serialTypeSignature st ∈ fc then do
    let sz ← contentSize st
    pure (some { serialType := st, varintLen := 1, contentSize := sz })
  else pure none

/-- the three `serial_type_definition_start_offset` branches.  `none` for the first column serial
types stands for Python's `None` (the full-pattern pass): iterating it is a TypeError. -/
def reconstructFirst (i : RecIn) (sdSize sdcs : Nat) : CM (Option PreCol) :=
  if i.s = 0 then
    match i.loc with
    | .unallocated => .ok none
    | .freeblock =>
      match i.fbSize, i.firstCol with
      | some fb, some fc => fromFreeblockSize fc fb sdSize sdcs
      | _, _ => .error (.py .typeError)
    | .allocated => .error .cellCarving
  else if i.s = 1 then
    match i.loc with
    | .unallocated => .ok none
    | .freeblock =>
      match i.firstCol with
      | some fc => fromPrecedingByte fc i.data 0
      | none => do
        precedingByteGuard i.data 0
        let (_, n) ← liftPy (decodeVarint i.data 0)
        if n ≠ 1 then .error .cellCarving else .error (.py .typeError)
    | .allocated => .error .cellCarving
  else
    match i.loc with
    | .unallocated => .ok none
    | .allocated => .ok none
    | .freeblock =>
      let fbSize := i.data.beN (i.s - 2) 2
      let headerByteSize := 1 + sdSize + 1
      let payloadMin := headerByteSize + sdcs
      let payloadMax := headerByteSize + sdcs + 127
      let valid0 := decide (fbSize ≥ payloadMin ∧ fbSize ≤ payloadMax)
      let valid := if valid0 ∧ i.s ≥ 4 then
          (if i.data.beN (i.s - 4) 2 ≥ i.pageSize then false else true)
        else valid0
      match i.firstCol with
      | none => .error (.py .typeError)
      | some fc =>
        if valid then fromFreeblockSize fc fbSize sdSize sdcs
        else if (-1 : Int) ∈ fc ∨ (-2 : Int) ∈ fc then
          -- the result of decode_varint_in_reverse is never used; `except InvalidVarIntError: pass`
          match decodeVarintRev i.data i.s 5 with
          | .error .parseError => .ok none
          | .error e => .error (.py e)
          | .ok _ => .ok none
        else fromPrecedingByte fc i.data (i.s - 1)

/-- `max(probs, key=lambda p: p[1])[0]`: the first entry of maximal probability -/
def argmaxProb : List (Int × Nat × Nat) → Option (Int × Nat × Nat)
  | [] => none
  | p :: rest =>
    match argmaxProb rest with
    | none => some p
    | some q => if q.2.1 * p.2.2 > p.2.1 * q.2.2 then some q else some p

/-- `if self.first_column_serial_types and not len(self.record_columns):` -/
def probabilisticFirst (sig : CarveSig) (fc : List Int) : CM PreCol := do
  let t0 ← (match fc with
    | [] => (.error (.py .indexError) : CM Int)
    | t :: _ => pure t)
  let t1 := if sig.totalRecords = 0 then 0 else t0
  let t2 ← (if fc.length ≠ 1 ∧ ¬ sig.simplifiedProb.isEmpty then
      match sig.simplifiedProb with
      | [] => pure t1
      | col :: _ =>
        match argmaxProb col with
        | none => (.error (.py .valueError) : CM Int)     -- max() of an empty sequence
        | some p => pure p.1
    else pure t1)
  let t3 : Int := if t2 = -2 then 12 else t2
  let t4 : Int := if t3 = -1 then 13 else t3
  let sz ← contentSize t4
  pure { serialType := t4, varintLen := 1, contentSize := sz,
         truncatedFirst := true, probabilisticFirst := true }

/-! ### header walk -/

/-- `while current_header_offset < self.serial_type_definition_end_offset:`; `n` columns exist
already (`column_index`) -/
def headerWalk (data : Buf) (e nCols : Nat) : Nat → Nat → Nat → CM (List PreCol)
  | 0, cur, _ => if cur < e then .error (.py .outsideModel) else .ok []
  | fuel+1, cur, n =>
    if cur < e then do
      let (st, len) ← liftPy (decodeVarint data cur)
      if cur + len > e then .error .cellCarving
      else if n ≥ nCols then .error (.py .indexError)     -- record_column_md5_hash_strings[column_index] = …
      else do
        let sz ← contentSize st
        let rest ← headerWalk data e nCols fuel (cur + len) (n + 1)
        pure ({ serialType := st, varintLen := len, contentSize := sz } :: rest)
    else .ok []

/-! ### values -/

/-- `for carved_record_column in self.record_columns:` from body offset `off` -/
def decodeCols (data : Buf) : List PreCol → Nat → Nat → CM (List CCol)
  | [], _, _ => .ok []
  | c :: rest, idx, off =>
    if off + c.contentSize > data.size then do
      let r ← decodeCols data rest (idx + 1) (off + c.contentSize)
      pure ({ index := idx, serialType := c.serialType, varintLen := c.varintLen, contentSize := c.contentSize,
              value := if off < data.size then .raw (data.slice off data.size).toList else .unset,
              truncatedValue := true,
              truncatedFirst := c.truncatedFirst, probabilisticFirst := c.probabilisticFirst,
              bodyOffset := off } :: r)
    else do
      let (sz, v) ← liftPy (getRecordContent c.serialType (data.slice off (off + c.contentSize)) 0)
      if sz ≠ c.contentSize then .error .cellCarving
      else do
        let r ← decodeCols data rest (idx + 1) (off + c.contentSize)
        pure ({ index := idx, serialType := c.serialType, varintLen := c.varintLen, contentSize := c.contentSize,
                value := .dec v, truncatedValue := false,
                truncatedFirst := c.truncatedFirst, probabilisticFirst := c.probabilisticFirst,
                bodyOffset := off } :: r)

def sumSizes (l : List PreCol) : Nat := (l.map (·.contentSize)).sum

/-- `CarvedRecord.__init__` -/
def carvedRecord (i : RecIn) : CM CarvedRec := do
  let sdSize0 := i.e - i.s
  let sdcs ← liftPy (calcBodyContentSize (i.data.slice i.s i.e))
  let sdcs ← (if sdcs ≥ floatExact then (.error (.py .outsideModel) : CM Nat) else pure sdcs)
  let first ← reconstructFirst i sdSize0 sdcs
  -- record_column_md5_hash_strings[0] = … on a list of length number_of_columns
  let first ← (if first.isSome ∧ i.nCols = 0 then (.error (.py .indexError) : CM (Option PreCol)) else pure first)
  let first ← (match first, i.firstCol with
    | some c, _ => pure (some c)
    | none, some fc => if fc.isEmpty then pure none else do
        let c ← probabilisticFirst i.sig fc
        pure (some c)
    | none, none => pure none)
  let pre := first.toList
  let sdSize := sdSize0 + pre.length
  let walked ← headerWalk i.data i.e i.nCols (i.e - i.s) i.s pre.length
  let cols := pre ++ walked
  if cols.length ≠ i.nCols then .error .cellCarving
  else if sumSizes cols ≥ floatExact then .error (.py .outsideModel)
  else
    let bodyByteSize := sumSizes cols
    let bodyStart := i.e
    let bodyEnd := i.e + bodyByteSize
    let ccols ← decodeCols i.data cols 0 bodyStart
    let headerByteSize : Nat := sdSize + 1
    let hv ← liftPy (encodeVarint headerByteSize)
    let payloadByteSize : Nat := headerByteSize + bodyByteSize
    let pv ← liftPy (encodeVarint payloadByteSize)
    match cols with
    | [] => .error (.py .indexError)
    | c0 :: _ =>
      pure { cols := ccols,
             truncatedBeginning := first.any (·.truncatedFirst),
             truncatedEnding := decide (bodyEnd > i.data.size),
             bodyStart, bodyEnd,
             cellStart := (i.s : Int) - c0.varintLen - hv.length - 1 - pv.length,
             cellEnd := bodyEnd }

/-! ### CarvedBTreeCell and the two carving loops -/

structure CarvedCell where
  fileOffset : Nat
  pageNumber : Nat
  loc : Loc
  index : Nat
  matchStart : Nat
  matchEnd : Nat
  cutoff : Nat
  rec_ : CarvedRec
  /-- `md5(data[serial_type_definition_start_offset:end_offset])` input: the matched serial types
  and the bodies as far as the data reaches -/
  digest : List Nat
  deriving Repr, Inhabited

/-- `try: CarvedBTreeCell(…) except (CellCarvingError, ValueError): warn` → `none` when absorbed -/
def tryCarve (fileOffset pageNumber index : Nat) (i : RecIn) : Py (Option CarvedCell) :=
  match carvedRecord i with
  | .ok r => .ok (some { fileOffset, pageNumber, loc := i.loc, index, matchStart := i.s, matchEnd := i.e,
                         cutoff := i.cutoff, rec_ := r,
                         digest := (i.data.slice i.s r.cellEnd).toList })
  | .error .cellCarving => .ok none
  | .error (.py .valueError) => .ok none
  | .error (.py e) => .error e

/-- `for match in reversed(matches):` with the cutoff moving to the start of every accepted match -/
def reverseLoop (mk : Nat → Nat → Nat → Py (Option CarvedCell)) :
    List (Nat × Nat) → Nat → Py (List CarvedCell)
  | [], _ => .ok []
  | (s, e) :: rest, cutoff =>
    match mk s e cutoff with
    | .error er => .error er
    | .ok none => reverseLoop mk rest cutoff
    | .ok (some c) =>
      match reverseLoop mk rest s with
      | .error er => .error er
      | .ok cs => .ok (c :: cs)

/-- the signature handed to `generate_signature_regex` -/
def chosenSignature (sig : CarveSig) : Py (List Int × List (List Int)) :=
  match (if sig.simplified.isEmpty then sig.recommended else sig.simplified) with
  | [] => .error .parseError
  | fc :: rest => .ok (fc, fc :: rest)

/-- a freeblock as the carver reads it -/
structure FbIn where
  pageNumber : Nat
  index : Nat
  start : Nat
  /-- `content_start_offset` = start + 4 -/
  contentStart : Nat
  byteSize : Nat
  content : Buf
  pageOffset : Nat

/-- `SignatureCarver.carve_freeblocks` for the freeblocks of pages whose offsets are known -/
def carveFreeblocks (sig : CarveSig) (pageSize : Nat) (fbs : List FbIn) : Py (List CarvedCell) := do
  let (fc, simplified) ← chosenSignature sig
  let pat ← Regex.genSignature simplified true
  let per := fun (fb : FbIn) =>
    let data := fb.content.toList
    let ms := Regex.finditer pat data
    reverseLoop (fun s e cutoff =>
      tryCarve (fb.pageOffset + fb.contentStart + s) fb.pageNumber fb.index
        { loc := .freeblock, data := fb.content, s, e, cutoff,
          nCols := sig.numberOfColumns, sig, firstCol := some fc, fbSize := some fb.byteSize, pageSize })
      ms.reverse fb.content.size
  let rec go : List FbIn → Py (List CarvedCell)
    | [] => .ok []
    | fb :: rest => do
      let a ← per fb
      let b ← go rest
      pure (a ++ b)
  go fbs

/-- the uncarved-interval bookkeeping; the lower bound is an `Option` because `last_offset` starts
as `None` (after the fix: commit it is assigned before it is used) -/
def uncarvedLoop (len n : Nat) : List (Nat × Nat) → Nat → Option Nat → List (Option Nat × Nat)
  | [], _, _ => []
  | (s, e) :: rest, idx, last =>
    if idx = 0 ∧ idx ≠ n - 1 then
      if s ≠ 0 then (some 0, s) :: uncarvedLoop len n rest (idx + 1) (some e)
      else uncarvedLoop len n rest (idx + 1) (some e)
    else if idx = 0 ∧ idx = n - 1 then
      (some 0, s) :: (if e ≠ len then (some e, len) :: uncarvedLoop len n rest (idx + 1) (some e)
                      else uncarvedLoop len n rest (idx + 1) last)
    else if idx ≠ n - 1 then
      (last, s) :: uncarvedLoop len n rest (idx + 1) (some e)
    else
      (last, s) :: (if e ≠ len then (some e, len) :: uncarvedLoop len n rest (idx + 1) last
                    else uncarvedLoop len n rest (idx + 1) last)

def uncarved (len : Nat) (ms : List (Nat × Nat)) : List (Option Nat × Nat) :=
  if ms.isEmpty then [(some 0, len)] else uncarvedLoop len ms.length ms 0 none

/-- inner loop `for interval in reversed(intervals):` for one partial match; state is the
partial cutoff and the cells carved so far (in order) -/
def partialInner (mk : Nat → Nat → Nat → Py (Option CarvedCell)) (s e : Nat) :
    List (Option Nat × Nat) → Nat → Py (List CarvedCell × Nat)
  | [], pc => .ok ([], pc)
  | (lo, hi) :: rest, pc =>
    let cutoff := min hi pc
    match lo with
    | none => .error .typeError                                   -- int >= None
    | some lo =>
      if s ≥ lo ∧ e ≤ hi then
        match mk s e cutoff with
        | .error er => .error er
        | .ok none => partialInner mk s e rest pc
        | .ok (some c) =>
          match partialInner mk s e rest s with
          | .error er => .error er
          | .ok (cs, pc') => .ok (c :: cs, pc')
      else partialInner mk s e rest pc

def partialOuter (mk : Nat → Nat → Nat → Py (Option CarvedCell)) (ivs : List (Option Nat × Nat)) :
    List (Nat × Nat) → Nat → Py (List CarvedCell)
  | [], _ => .ok []
  | (s, e) :: rest, pc =>
    match partialInner mk s e ivs pc with
    | .error er => .error er
    | .ok (cs, pc') =>
      match partialOuter mk ivs rest pc' with
      | .error er => .error er
      | .ok cs' => .ok (cs ++ cs')

/-- `SignatureCarver.carve_unallocated_space(version, source, page_number, start, data, signature,
page_offset)` -/
def carveUnallocated (sig : CarveSig) (pageSize pageNumber pageOffset regionStart : Nat) (data : Buf) :
    Py (List CarvedCell) := do
  let (fc, simplified) ← chosenSignature sig
  let pat ← Regex.genSignature simplified false
  let bytes := data.toList
  let ms := Regex.finditer pat bytes
  let full ← reverseLoop (fun s e cutoff =>
      tryCarve (pageOffset + regionStart + s) pageNumber 0
        { loc := .unallocated, data, s, e, cutoff, nCols := sig.numberOfColumns, sig,
          firstCol := none, fbSize := none, pageSize })
      ms.reverse data.size
  let ppat ← Regex.genSignature simplified true
  let pms := Regex.finditer ppat bytes
  let ivs := uncarved data.size ms
  let part ← partialOuter (fun s e cutoff =>
      tryCarve (pageOffset + (regionStart + s)) pageNumber 0
        { loc := .unallocated, data, s, e, cutoff, nCols := sig.numberOfColumns, sig,
          firstCol := some fc, fbSize := none, pageSize })
      ivs.reverse pms.reverse data.size
  pure (full ++ part)

/-! ### pages -/

/-- `page.unallocated_space`: `bytearray()` when empty, else `get_page_data` -/
def regionData (v : VersionIf) (number start len : Nat) : Py Buf :=
  if len = 0 then .ok Buf.empty
  else v.getData number start (some len)

/-- freeblocks then unallocated space of one b-tree page (`isinstance(page, BTreePage)`) -/
def carveBTreePage (sig : CarveSig) (v : VersionIf) (p : BPage) : Py (List CarvedCell) := do
  let fbs ← p.freeblocks.mapM fun f => do
    let len : Int := f.contentLength
    -- `content_length == 0` → bytearray(); a negative length reaches get_page_data
    let c ← (if len = 0 then pure Buf.empty
      else if len < 0 then (.error .outsideModel : Py Buf)
      else regionData v p.number f.contentStart len.toNat)
    let po ← v.pageOffset p.number
    pure ({ pageNumber := p.number, index := f.index, start := f.start, contentStart := f.contentStart,
            byteSize := f.byteSize, content := c, pageOffset := po } : FbIn)
  let a ← carveFreeblocks sig v.pageSize fbs
  let d ← regionData v p.number p.unallocStart (p.unallocEnd - p.unallocStart)
  let po ← v.pageOffset p.number
  let b ← carveUnallocated sig v.pageSize p.number po p.unallocStart d
  pure (a ++ b)

/-- unallocated space of an overflow page of the tree (the code carves every page object that
`get_pages_from_b_tree_page` returns) -/
def carveOverflowPage (sig : CarveSig) (v : VersionIf) (o : OvflPage) : Py (List CarvedCell) := do
  let start := o.contentLength + Generated.OVERFLOW_HEADER_LENGTH
  let d ← regionData v o.number start (v.pageSize - start)
  let po ← v.pageOffset o.number
  carveUnallocated sig v.pageSize o.number po start d

/-- a page object of `get_pages_from_b_tree_page` -/
inductive TreePage where
  | btree (p : BPage)
  | overflow (o : OvflPage)

def TreePage.number : TreePage → Nat
  | .btree p => p.number
  | .overflow o => o.number

/-- the page objects in `get_pages_from_b_tree_page` order -/
def treePages (t : List BPage) : List TreePage :=
  let nums := (treePageNumbers t).map (·.1)
  nums.filterMap fun n =>
    match t.find? (·.number = n) with
    | some p => some (.btree p)
    | none =>
      (t.findSome? fun p => (p.cells.findSome? fun c => c.overflowPages.find? (·.number = n))).map .overflow

def carveTreePage (sig : CarveSig) (v : VersionIf) : TreePage → Py (List CarvedCell)
  | .btree p => carveBTreePage sig v p
  | .overflow o => carveOverflowPage sig v o

/-- `{page.number: page for page in pages}`: first position, last value -/
def dictByNumber (ps : List TreePage) : List (Nat × TreePage) :=
  ps.foldl (fun d p => dictInsert d p.number p) []

/-- `interface.carve_table` for a rowid table rooted at `root` -/
def carveTable (sig : CarveSig) (v : VersionIf) (frames root : Nat) : Py (List CarvedCell) := do
  let t ← getBTreeRoot v frames root
  let d := dictByNumber (treePages t)
  let rec go : List (Nat × TreePage) → Py (List CarvedCell)
    | [] => .ok []
    | (_, p) :: rest => do
      let a ← carveTreePage sig v p
      let b ← go rest
      pure (a ++ b)
  go d

/-! ### de-duplication across versions -/

/-- `{c.md5: c for c in carved if c.md5 not in seen}` (first position, last value) -/
def dedup (seen : List (List Nat)) (cells : List CarvedCell) : List (List Nat × CarvedCell) :=
  (cells.filter fun c => ¬ seen.contains c.digest).foldl
    (fun d c => if d.any (·.1 = c.digest) then d.map (fun e => if e.1 = c.digest then (c.digest, c) else e)
                else d ++ [(c.digest, c)]) []

/-- `commit.carved_cells.update(new)` -/
def dictUpdate (d new : List (List Nat × CarvedCell)) : List (List Nat × CarvedCell) :=
  new.foldl (fun d e => if d.any (·.1 = e.1) then d.map (fun x => if x.1 = e.1 then e else x) else d ++ [e]) d

structure CarveCommit where
  version : Nat
  carved : List (List Nat × CarvedCell)
  freelistCarved : Bool
  deriving Inhabited

/-- the b-tree carving block of `VersionParserIterator.next` (table leaf page type, signature given) -/
def carveUpdatedPages (sig : CarveSig) (v : VersionIf) (t : List BPage) (updated : List Nat) :
    Py (List CarvedCell) := do
  let d := dictByNumber (treePages t)
  let rec go : List Nat → Py (List CarvedCell)
    | [] => .ok []
    | n :: rest =>
      match d.find? (·.1 = n) with
      | none => .error .keyError
      | some (_, p) => do
        let a ← carveTreePage sig v p
        let b ← go rest
        pure (a ++ b)
  go updated

/-- the freelist block: trunk and leaf pages that are in `version.updated_page_numbers`, keyed by
number, each carved as one unallocated region -/
def carveFreelist (sig : CarveSig) (v : VersionIf) (ver : Version) : Py (List CarvedCell) := do
  let pages : List (Nat × Nat) := ver.freelist.foldl (fun d t =>
      let d := if ver.updated.contains t.number then
          dictInsert d t.number (Generated.FREELIST_HEADER_LENGTH + t.leaves.length * Generated.FREELIST_LEAF_PAGE_NUMBER_LENGTH)
        else d
      t.leaves.foldl (fun d l => if ver.updated.contains l then dictInsert d l 0 else d) d) []
  let rec go : List (Nat × Nat) → Py (List CarvedCell)
    | [] => .ok []
    | (n, start) :: rest => do
      let d ← regionData v n start (v.pageSize - start)
      let po ← v.pageOffset n
      let a ← carveUnallocated sig v.pageSize n po start d
      let b ← go rest
      pure (a ++ b)
  go pages

/-- state of the iterator that matters to carving -/
structure CarveState where
  iter : IterState := {}
  seen : List (List Nat) := []

/-- `VersionParserIterator.next` for a table entry with a signature: the commit of
`historyStep`, then the two carving blocks -/
def carveStep (frames : Nat) (sig : CarveSig) (freelist : Bool) (first : Bool) (st : CarveState)
    (ver : Version) (v : VersionIf) (root : Nat) (prevRoot : Option Nat) :
    Py (Commit × CarveCommit × CarveState) := do
  let (c, it) ← historyStep frames true st.iter ver v root prevRoot
  let (carved1, seen1) ← (if c.bTreeUpdated then do
      let t ← getBTreeRoot v frames root
      let cells ← carveUpdatedPages sig v t c.updatedPageNumbers
      let d := dedup st.seen cells
      pure (d, st.seen ++ d.map (·.1))
    else pure ([], st.seen))
  let flUpdated := first ∨ ver.freelistModified
  if freelist ∧ flUpdated then do
    let cells ← carveFreelist sig v ver
    let d := dedup seen1 cells
    pure (c, ⟨ver.number, dictUpdate carved1 d, true⟩, ⟨it, seen1 ++ d.map (·.1)⟩)
  else pure (c, ⟨ver.number, carved1, false⟩, ⟨it, seen1⟩)

/-- `get_version_history_iterator(name, vh, signature, carve_freelist_pages)` iterated to the end -/
def carveHistory (frames : Nat) (sig : CarveSig) (freelist : Bool) (vs : List (Version × VersionIf))
    (id : EntryIdent) : Py (List CarveCommit) := do
  let idx := rootIndex id (constructorSchemas vs) none []
  let (commits, _, _) ← idx.foldlM
    (fun (acc : List CarveCommit × CarveState × Option Nat) (kr : Nat × Val) => do
      let (cs, st, prevRoot) := acc
      match vs.find? (fun vv => vv.1.number = kr.1), kr.2 with
      | some (ver, v), .int r =>
        if r < 0 then (.error .valueError : Py (List CarveCommit × CarveState × Option Nat))
        else
          let (_, cc, st') ← carveStep frames sig freelist prevRoot.isNone st ver v r.toNat prevRoot
          pure (cs ++ [cc], st', some r.toNat)
      | _, _ => .error .outsideModel)
    ([], {}, none)
  pure commits

/-! ### rollback journal -/

structure JournalCommit where
  pageNumber : Nat
  pageType : Nat
  carved : List (List Nat × CarvedCell)
  deriving Inhabited

/-- one page image of the journal carved as one unallocated region starting at offset 0 -/
def carveJournalPage (sig : CarveSig) (pageSize pageNumber contentOffset : Nat) (content : Buf) :
    Py (Option JournalCommit) :=
  if content.size ≥ 1 ∧ (content.rd 0 = 0x0d ∨ content.rd 0 = 0x05) then do
    let cells ← carveUnallocated sig pageSize pageNumber contentOffset 0 content
    pure (some ⟨pageNumber, content.rd 0, dedup [] cells⟩)
  else .ok none

/-- `RollBackJournalCarver.carve`: `while has_data:` from offset 512 -/
def journalLoop (sig : CarveSig) (pageSize : Nat) (fh : FileH) : Nat → Nat → Py (List JournalCommit)
  | 0, _ => .error .outsideModel
  | fuel+1, offset => do
    let recordSize := 4 + pageSize + 4
    let pn ← (do let b ← fh.read offset 4; b.u32 0)
    let content ← fh.read (offset + 4) pageSize
    let _ ← fh.read (offset + 4 + pageSize) 4
    let c1 ← carveJournalPage sig pageSize pn (offset + 4) content
    let offset' := offset + recordSize
    if offset' + recordSize ≥ fh.size then
      -- nothing is left when the journal ends exactly at a page record boundary
      if offset' + 4 ≥ fh.size then pure c1.toList
      else do
      let pn2 ← (do let b ← fh.read offset' 4; b.u32 0)
      -- file_size - 4 - offset is negative only when the read above already failed
      let content2 ← fh.read (offset' + 4) (fh.size - 4 - offset')
      let c2 ← carveJournalPage sig pageSize pn2 (offset' + 4) content2
      pure (c1.toList ++ c2.toList)
    else do
      let rest ← journalLoop sig pageSize fh fuel offset'
      pure (c1.toList ++ rest)

def carveJournal (sig : CarveSig) (pageSize : Nat) (fh : FileH) : Py (List JournalCommit) :=
  -- `has_data` is false from the start unless one whole page record follows the header sector
  if 512 + (4 + pageSize + 4) ≤ fh.size then journalLoop sig pageSize fh (fh.size / (pageSize + 8) + 2) 512
  else .ok []

/-- `journalLoop` with the number of page records visited (record headers whose read was
started: one per iteration, one more for a trailing partial record): a counter that survives
exceptions.  Erasing it gives `journalLoop` (Proofs/Cost.lean `journalLoopCounted_snd`). -/
def journalLoopCounted (sig : CarveSig) (pageSize : Nat) (fh : FileH) : Nat → Nat → Nat × Py (List JournalCommit)
  | 0, _ => (0, .error .outsideModel)
  | fuel+1, offset =>
    let recordSize := 4 + pageSize + 4
    let first : Py (Option JournalCommit) := do
      let pn ← (do let b ← fh.read offset 4; b.u32 0)
      let content ← fh.read (offset + 4) pageSize
      let _ ← fh.read (offset + 4 + pageSize) 4
      carveJournalPage sig pageSize pn (offset + 4) content
    match first with
    | .error e => (1, .error e)
    | .ok c1 =>
      let offset' := offset + recordSize
      if offset' + recordSize ≥ fh.size then
        if offset' + 4 ≥ fh.size then (1, .ok c1.toList)
        else (2, do
          let pn2 ← (do let b ← fh.read offset' 4; b.u32 0)
          let content2 ← fh.read (offset' + 4) (fh.size - 4 - offset')
          let c2 ← carveJournalPage sig pageSize pn2 (offset' + 4) content2
          pure (c1.toList ++ c2.toList))
      else ((journalLoopCounted sig pageSize fh fuel offset').1 + 1, do
        let rest ← (journalLoopCounted sig pageSize fh fuel offset').2
        pure (c1.toList ++ rest))

def carveJournalCounted (sig : CarveSig) (pageSize : Nat) (fh : FileH) : Nat × Py (List JournalCommit) :=
  if 512 + (4 + pageSize + 4) ≤ fh.size then journalLoopCounted sig pageSize fh (fh.size / (pageSize + 8) + 2) 512
  else (0, .ok [])

end SqliteDissect.Model.Carve
