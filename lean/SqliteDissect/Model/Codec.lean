/-
Model of sqlite_dissect/utilities.py (decode_varint, encode_varint, get_record_content,
get_serial_type_signature, calculate_expected_overflow) and
sqlite_dissect/carving/utilities.py (decode_varint_in_reverse, get_content_size,
calculate_body_content_size), loop for loop.
-/
import SqliteDissect.Bytes
import SqliteDissect.Generated.Constants

namespace SqliteDissect.Model

/-- A decoded column value.  REAL values are carried as their 64-bit pattern
(`struct.unpack(">d")` is trusted); text and blobs as bytes. -/
inductive Val where
  | null
  | int (i : Int)
  | real (bits : Nat)
  | blob (b : List Nat)
  | text (b : List Nat)
  deriving DecidableEq, Repr, Inhabited

/-- `for x in range(1, 10)` of `decode_varint`; `n` counts the iterations left
(`x = 10 - n`), `v` is `unsigned_integer_value`, `rel` is `varint_relative_offset`. -/
def dvLoop (b : Buf) (off : Nat) : Nat → Nat → Nat → Py (Nat × Nat)
  | 0, v, rel => .ok (v, rel)
  | n+1, v, rel =>
    if off + rel < b.size then
      let byte := b.rd (off + rel)
      if n = 0 then
        -- x == 9: shift by one more bit (the 8th iteration already shifted by 7)
        .ok ((v <<< 1) ||| byte, rel + 1)
      else
        let v' := v ||| (byte &&& 0x7F)
        if byte &&& 0x80 = 0 then .ok (v', rel + 1)
        else dvLoop b off n (v' <<< 7) (rel + 1)
    else
      -- ord(b'') : TypeError
      .error .typeError

/-- `decode_varint(byte_array, offset)` → (signed value, bytes consumed). -/
def decodeVarint (b : Buf) (off : Nat) : Py (Int × Nat) :=
  match dvLoop b off 9 0 0 with
  | .error e => .error e
  | .ok (u, n) =>
    if u &&& (0x80000000 <<< 32) ≠ 0 then .ok ((u : Int) - 0x10000000000000000, n)
    else .ok ((u : Int), n)

/-- `while value:` loop of `encode_varint` (the `len >= 9` error inside is unreachable for
values below 2^56 and is modelled all the same). `acc` is the byte array so far. -/
def evLoop : Nat → Nat → List Nat → Py (List Nat)
  | 0, _, acc => .ok acc
  | fuel+1, value, acc =>
    if value = 0 then .ok acc
    else
      let acc' := ((value &&& 0x7F) ||| 0x80) :: acc
      if acc'.length ≥ 9 then .error .parseError
      else evLoop fuel (value >>> 7) acc'

/-- the 8 leading bytes of the nine-byte form -/
def ev9 : Nat → Nat → List Nat → List Nat
  | 0, _, acc => acc
  | n+1, value, acc => ev9 n (value >>> 7) (((value &&& 0x7F) ||| 0x80) :: acc)

/-- `encode_varint(value)` (after the `fix:` commit that makes 0 encode as a single zero
byte instead of raising `IndexError` from `byte_array[-1]` on an empty array). -/
def encodeVarint (value : Int) : Py (List Nat) :=
  if value > 0x7FFFFFFFFFFFFFFF ∨ value < -0x8000000000000000 then .error .parseError
  else
    let u : Nat := (if value < 0 then value + 0x10000000000000000 else value).toNat
    if u &&& (0xFF000000 <<< 32) ≠ 0 then
      .ok (ev9 8 (u >>> 8) [u &&& 0xFF])
    else
      if u = 0 then .ok [0]
      else
        match evLoop 64 u [] with
        | .error e => .error e
        | .ok acc =>
          match acc.getLast? with
          | none => .error .indexError            -- byte_array[-1] on an empty array
          | some l => .ok (acc.dropLast ++ [l &&& 0x7F])

/-- the `while offset - inv - 1 >= 0` loop of `decode_varint_in_reverse`; `rem = offset - inv`.
More than `max` bytes read with a further byte still in front raises `InvalidVarIntError`
(after the fix: commit; the pinned tree RETURNED the exception object). -/
def dvrLoop (b : Buf) (offset max : Nat) : Nat → Nat → Py (Nat × Nat)
  | 0, v => .ok (v, 0)
  | rem+1, v =>
    let inv := offset - (rem + 1)
    if inv > max then .error .parseError
    else
      let byte := b.rd rem
      if byte &&& 0x80 ≠ 0 then
        dvrLoop b offset max rem (v ||| ((byte &&& 0x7F) <<< (7 * inv)))
      else .ok (v, rem + 1)

/-- `decode_varint_in_reverse(byte_array, offset, max_varint_length)` → (value, start offset) -/
def decodeVarintRev (b : Buf) (offset : Nat) (max : Nat := 9) : Py (Nat × Nat) :=
  if offset > b.size then .error .valueError
  else if offset = 0 then .error .typeError      -- ord(b[-1:0]) = ord(b'')
  else dvrLoop b offset max (offset - 1) (b.rd (offset - 1) &&& 0x7F)

/-- `get_content_size(serial_type)`; the blob branch returns a float in Python with the same
numeric value (exact below 2^53). -/
def getContentSize (st : Int) : Py Nat :=
  if st = 0 then .ok 0
  else if st = 1 then .ok 1
  else if st = 2 then .ok 2
  else if st = 3 then .ok 3
  else if st = 4 then .ok 4
  else if st = 5 then .ok 6
  else if st = 6 then .ok 8
  else if st = 7 then .ok 8
  else if st = 8 then .ok 0
  else if st = 9 then .ok 0
  else if st ≥ 12 ∧ st % 2 = 0 then .ok ((st - 12) / 2).toNat
  else if st ≥ 13 ∧ st % 2 = 1 then .ok ((st - 13) / 2).toNat
  else .error .valueError

/-- two's complement reading of an unsigned `bits`-bit value (struct's signed formats) -/
def toSigned (bits : Nat) (u : Nat) : Int :=
  if u ≥ 2 ^ (bits - 1) then (u : Int) - (2 ^ bits : Nat) else u

/-- exact-length unpack of `n` bytes at `off` out of the slice `body[off:off+n]` -/
def unpackN (body : Buf) (off n : Nat) : Py Nat :=
  if off + n ≤ body.size then .ok (body.beN off n) else .error .structError

/-- `get_record_content(serial_type, record_body, offset)` -/
def getRecordContent (st : Int) (body : Buf) (off : Nat) : Py (Nat × Val) :=
  if st = 0 then .ok (0, .null)
  else if st = 1 then do let u ← unpackN body off 1; pure (1, .int (toSigned 8 u))
  else if st = 2 then do let u ← unpackN body off 2; pure (2, .int (toSigned 16 u))
  else if st = 3 then do
    let u ← unpackN body off 3
    pure (3, .int (if u &&& 0x800000 ≠ 0 then (u : Int) - 0x1000000 else u))
  else if st = 4 then do let u ← unpackN body off 4; pure (4, .int (toSigned 32 u))
  else if st = 5 then do
    let u ← unpackN body off 6
    pure (6, .int (if u &&& 0x800000000000 ≠ 0 then (u : Int) - 0x1000000000000 else u))
  else if st = 6 then do let u ← unpackN body off 8; pure (8, .int (toSigned 64 u))
  else if st = 7 then do let u ← unpackN body off 8; pure (8, .real u)
  else if st = 8 then .ok (0, .int 0)
  else if st = 9 then .ok (0, .int 1)
  else if st = 10 ∨ st = 11 then .error .valueError
  else if st ≥ 12 ∧ st % 2 = 0 then
    let n := ((st - 12) / 2).toNat
    .ok (n, .blob (body.slice off (off + n)).toList)
  else if st ≥ 13 ∧ st % 2 = 1 then
    let n := ((st - 13) / 2).toNat
    .ok (n, .text (body.slice off (off + n)).toList)
  else .error .valueError

/-- `get_serial_type_signature` -/
def serialTypeSignature (st : Int) : Int :=
  if st ≥ 12 then (if st % 2 = 0 then -1 else -2) else st

/-- `calculate_body_content_size(serial_type_header)`; fuel = header length (each varint
consumes at least one byte). -/
def cbcsLoop (hdr : Buf) : Nat → Nat → Nat → Py Nat
  | 0, start, acc => if start < hdr.size then .error .parseError else .ok acc
  | fuel+1, start, acc =>
    if start < hdr.size then
      match decodeVarint hdr start with
      | .error e => .error e
      | .ok (st, n) =>
        match getContentSize st with
        | .error e => .error e
        | .ok sz =>
          if start + n > hdr.size then .error .parseError
          else cbcsLoop hdr fuel (start + n) (acc + sz)
    else .ok acc

def calcBodyContentSize (hdr : Buf) : Py Nat := cbcsLoop hdr hdr.size 0 0

/-- `calculate_expected_overflow(overflow_byte_size, page_size)` in closed form (fix: commit):
`pages = ceil(n / (page_size - 4))`, `last = n - (pages - 1)(page_size - 4)`.  `ps ≤ 4` divides by
zero or goes negative in Python; the model returns `none` for it (callers never pass it: page
sizes are ≥ 512). -/
def calcExpectedOverflow (n : Int) (ps : Nat) : Option (Nat × Int) :=
  if n > 0 then
    if ps ≤ Generated.OVERFLOW_HEADER_LENGTH then none
    else
      let c := ps - Generated.OVERFLOW_HEADER_LENGTH
      let pages := (n.toNat + c - 1) / c
      some (pages, n - ((pages - 1) * c : Nat))
  else some (0, n)

end SqliteDissect.Model
