/-
Model of sqlite_dissect/carving/utilities.py
  generate_regex_for_simplified_serial_type (199), generate_signature_regex (228)
and of the fragment of Python's `re` these two functions emit.

* `Pat` is an AST for exactly the emitted fragment: a raw literal byte, a byte range class
  `[\xLO-\xHI]`, a byte set `[b1 b2 …]` (raw bytes between brackets), a bounded greedy
  repetition `p{lo,hi}`, concatenation and the non-capturing ordered alternation `(?:p1|…|pn)`.
* `print` gives the bytes of the pattern; the correspondence check requires them to equal the
  bytes returned by the Python function, byte for byte.
* `m` is a backtracking matcher in continuation-passing style with Python `re` semantics for this
  fragment: alternation is ordered (first alternative first), `{lo,hi}` is greedy and gives
  back one repetition at a time.  `fullMatch`, `matchAt`, `search`, `finditer` are `re.fullmatch`,
  `re.match`, `re.search`, `re.finditer` (start/end offsets).
  The scanner advances by one byte after an empty match; Python additionally retries a
  *non-empty* match at the same position, which cannot differ for this fragment: an emitted
  pattern is either the empty concatenation (only empty matches exist) or every column pattern
  consumes at least one byte (no empty match exists).
-/
import SqliteDissect.Py

namespace SqliteDissect.Model.Regex

inductive Pat where
  | lit (b : Nat)
  | cls (lo hi : Nat)
  | set (bs : List Nat)
  | rep (lo hi : Nat) (p : Pat)
  | seq (ps : List Pat)
  | alt (ps : List Pat)
  deriving Repr, Inhabited

/-- ASCII decimal digits of `n` -/
def decimal (n : Nat) : List Nat := (Nat.toDigits 10 n).map Char.toNat

mutual
/-- the pattern as the byte string handed to `re.compile` -/
def print : Pat → List Nat
  | .lit b => [b]
  | .cls lo hi => [0x5B, lo, 0x2D, hi, 0x5D]
  | .set bs => 0x5B :: (bs ++ [0x5D])
  | .rep lo hi p => print p ++ ([0x7B] ++ decimal lo ++ [0x2C] ++ decimal hi ++ [0x7D])
  | .seq ps => printSeq ps
  | .alt ps => [0x28, 0x3F, 0x3A] ++ (printAlt ps ++ [0x29])
def printSeq : List Pat → List Nat
  | [] => []
  | p :: ps => print p ++ printSeq ps
def printAlt : List Pat → List Nat
  | [] => []
  | [p] => print p
  | p :: q :: ps => print p ++ (0x7C :: printAlt (q :: ps))
end

/-- greedy bounded repetition: `hi` more iterations allowed, `lo` still required.
`step` matches one iteration and hands the rest to its continuation. -/
def repLoop {α : Type} (step : List Nat → (List Nat → Option α) → Option α) :
    Nat → Nat → List Nat → (List Nat → Option α) → Option α
  | 0, lo, s, k => if lo = 0 then k s else none
  | hi + 1, lo, s, k =>
    match step s (fun s' => repLoop step hi (lo - 1) s' k) with
    | some a => some a
    | none => if lo = 0 then k s else none

mutual
/-- backtracking matcher: `m p s k` matches `p` at the front of `s` and calls `k` on the rest;
the first success in priority order wins -/
def m {α : Type} : Pat → List Nat → (List Nat → Option α) → Option α
  | .lit b, s, k =>
    match s with
    | c :: r => if c = b then k r else none
    | [] => none
  | .cls lo hi, s, k =>
    match s with
    | c :: r => if lo ≤ c ∧ c ≤ hi then k r else none
    | [] => none
  | .set bs, s, k =>
    match s with
    | c :: r => if c ∈ bs then k r else none
    | [] => none
  | .rep lo hi p, s, k => repLoop (m p) hi lo s k
  | .seq ps, s, k => mseq ps s k
  | .alt ps, s, k => malt ps s k
def mseq {α : Type} : List Pat → List Nat → (List Nat → Option α) → Option α
  | [], s, k => k s
  | p :: ps, s, k => m p s (fun s' => mseq ps s' k)
def malt {α : Type} : List Pat → List Nat → (List Nat → Option α) → Option α
  | [], _, _ => none
  | p :: ps, s, k =>
    match m p s k with
    | some a => some a
    | none => malt ps s k
end

/-- `re.fullmatch(print p, bytes s) is not None` -/
def fullMatch (p : Pat) (s : List Nat) : Bool :=
  (m p s (fun r => if r.isEmpty then some () else none)).isSome

/-- `re.match`: the unmatched rest after the priority match at the front of `s` -/
def matchAt (p : Pat) (s : List Nat) : Option (List Nat) := m p s some

/-- `re.search` from position `pos` (the list is the subject from `pos` on): (start, end) -/
def searchFrom (p : Pat) : List Nat → Nat → Option (Nat × Nat)
  | [], pos => match matchAt p [] with
    | some _ => some (pos, pos)
    | none => none
  | c :: t, pos => match matchAt p (c :: t) with
    | some r => some (pos, pos + ((c :: t).length - r.length))
    | none => searchFrom p t (pos + 1)

def search (p : Pat) (s : List Nat) : Option (Nat × Nat) := searchFrom p s 0

/-- `re.finditer`: non-overlapping matches left to right as (start, end) -/
def finditerAux (p : Pat) : Nat → List Nat → Nat → List (Nat × Nat)
  | 0, _, _ => []
  | fuel + 1, s, pos =>
    match matchAt p s with
    | some r =>
      let n := s.length - r.length
      if n = 0 then
        (pos, pos) :: (match s with
          | [] => []
          | _ :: t => finditerAux p fuel t (pos + 1))
      else (pos, pos + n) :: finditerAux p fuel r (pos + n)
    | none =>
      match s with
      | [] => []
      | _ :: t => finditerAux p fuel t (pos + 1)

def finditer (p : Pat) (s : List Nat) : List (Nat × Nat) := finditerAux p (s.length + 1) s 0

/-! ### generate_regex_for_simplified_serial_type / generate_signature_regex -/

/-- `[\x80-\xFF]{1,7}[\x00-\x7F]`: a varint of two to eight bytes -/
def varTail : Pat := .seq [.rep 1 7 (.cls 0x80 0xFF), .cls 0x00 0x7F]

/-- `generate_regex_for_simplified_serial_type`.  NB the code pairs -2 (text) with the class
starting at 0x0C and -1 (blob) with the class starting at 0x0D: swapped with respect to the
serial types (12 = empty blob, 13 = empty text); mirrored as it is. -/
def genSimplified (t : Int) : Py Pat :=
  if t = -2 then .ok (.alt [.cls 0x0C 0x7F, varTail])
  else if t = -1 then .ok (.alt [.cls 0x0D 0x7F, varTail])
  else if 0 ≤ t ∧ t ≤ 9 then .ok (.lit t.toNat)
  else .error .parseError

/-- the three accumulators of the inner loop: `basic_serial_type_regex` (bytes), `blob_regex`,
`text_regex` (`none` = `b""`) -/
structure Acc where
  basic : List Nat
  blob : Option Pat
  text : Option Pat

/-- `for column_serial_type in column_serial_type_array:` -/
def scanCol : List Int → Acc → Py Acc
  | [], a => .ok a
  | t :: ts, a =>
    match genSimplified t with
    | .error e => .error e
    | .ok p =>
      if t = -1 then scanCol ts { a with blob := some p }
      else if t = -2 then scanCol ts { a with text := some p }
      else scanCol ts { a with basic := a.basic ++ print p }

/-- one iteration of `for column_serial_type_array in signature:` -/
def genColumn (c : List Int) : Py Pat :=
  match c with
  | [t] => genSimplified t
  | _ =>
    if 1 < c.length ∧ c.length < 13 then
      match scanCol c ⟨[], none, none⟩ with
      | .error e => .error e
      | .ok a =>
        match a.blob, a.text with
        | none, none => if a.basic.isEmpty then .error .parseError else .ok (.set a.basic)
        | some b, none => if a.basic.isEmpty then .error .parseError else .ok (.alt [.set a.basic, b])
        | none, some t => if a.basic.isEmpty then .error .parseError else .ok (.alt [.set a.basic, t])
        | some b, some t =>
          if a.basic.isEmpty then .ok (.alt [b, t]) else .ok (.alt [.set a.basic, b, t])
    else .error .parseError

def genColumns : List (List Int) → Py (List Pat)
  | [] => .ok []
  | c :: cs =>
    match genColumn c with
    | .error e => .error e
    | .ok p =>
      match genColumns cs with
      | .error e => .error e
      | .ok ps => .ok (p :: ps)

/-- `generate_signature_regex(signature, skip_first_serial_type)` -/
def genSignature (sig : List (List Int)) (skipFirst : Bool) : Py Pat :=
  match genColumns (if skipFirst then sig.drop 1 else sig) with
  | .error e => .error e
  | .ok ps => .ok (.seq ps)

end SqliteDissect.Model.Regex
