/-
Model of file/file_handle.py:FileHandle (DATABASE), file/database/database.py:Database and
file/version.py:Version.pages, plus the row extraction of file/schema/master.py:MasterSchema
(the SQL text parsing of the row classes is outside this model, see DESIGN.md C07).
-/
import SqliteDissect.Model.Tree
import SqliteDissect.Model.Header

namespace SqliteDissect.Model

/-- a file as the FileHandle sees it: the size it believes (given or fstat) and the bytes -/
structure FileH where
  size : Nat
  data : Buf

/-- `FileHandle.read_data(offset, number_of_bytes)` -/
def FileH.read (f : FileH) (off n : Nat) : Py Buf :=
  if off ≥ f.size then .error .eofError
  else if off + n > f.size then .error .eofError
  else .ok (f.data.slice off (off + n))

structure Config where
  storeInMemory : Bool := false
  strict : Bool := true
  givenSize : Option Nat := none      -- file_size argument (0 / None = not given)
  givenWalSize : Option Nat := none
  frames : Nat := 900                 -- Python stack frames available at Database.__init__
  deriving Repr, Inhabited

/-- database size in pages as a rational (Python may hold a float here) -/
structure DbSize where
  num : Nat
  den : Nat
  deriving Repr, Inhabited, DecidableEq

def DbSize.floor (d : DbSize) : Nat := d.num / d.den
def DbSize.exact (d : DbSize) : Bool := d.num % d.den = 0

/-- `Database.get_page_data` / `get_page_offset` -/
def dbGetData (ps : Nat) (dsize : DbSize) (f : FileH) (p off : Nat) (n : Option Nat) : Py Buf :=
  let nb := match n with
    | none => ps - off
    | some 0 => ps - off
    | some k => k
  if off ≥ ps then .error .valueError
  else if off + nb > ps then .error .valueError
  else if p < 1 ∨ p > dsize.floor then .error .valueError
  else f.read ((p - 1) * ps + off) nb

def dbVersionIf (cfg : Config) (ps : Nat) (dsize : DbSize) (f : FileH) : VersionIf :=
  { pageSize := ps, versionNumber := 0, strict := cfg.strict,
    getData := dbGetData ps dsize f,
    pageVersion := fun p => if 1 ≤ p ∧ p ≤ dsize.floor then .ok 0 else .error .keyError,
    pageOffset := fun p => if p < 1 ∨ p > dsize.floor then .error .valueError else .ok ((p - 1) * ps) }

/-- one row of sqlite_master as MasterSchema reads it -/
structure SchemaRow where
  rowid : Int
  rowType : String
  name : List Nat
  tableName : List Nat
  rootPage : Val
  sql : Option (List Nat)
  leafPage : Nat
  digest : List Nat
  deriving Repr, Inhabited, DecidableEq

/-- decode a *pure ASCII* text value in the database encoding (1 utf-8, 2 utf-16le, 3 utf-16be);
anything else leaves the modelled fragment -/
def decodeAscii (enc : Nat) (bs : List Nat) : Py String :=
  if enc = 1 then
    if bs.all (· < 128) then .ok (String.ofList (bs.map Char.ofNat)) else .error .outsideModel
  else
    let rec go : List Nat → List Char → Py String
      | [], acc => .ok (String.ofList acc.reverse)
      | [_], _ => .error .outsideModel
      | a :: b :: rest, acc =>
        let (lo, hi) := if enc = 2 then (a, b) else (b, a)
        if hi = 0 ∧ lo < 128 then go rest (Char.ofNat lo :: acc) else .error .outsideModel
    go bs []

def valTruthy : Val → Bool
  | .null => false
  | .int i => i ≠ 0
  | .real b => b ≠ 0 ∧ b ≠ 0x8000000000000000
  | .blob l => !l.isEmpty
  | .text l => !l.isEmpty

def valBytes? : Val → Option (List Nat)
  | .blob l => some l
  | .text l => some l
  | _ => none

/-- `_create_master_schema_entry_data_named_tuple` + the checks of `MasterSchemaRow.__init__` -/
def schemaRowOfCell (enc : Nat) (leafPage : Nat) (c : Cell) : Py (Option SchemaRow) := do
  match c.record with
  | none => .error .attributeError
  | some r =>
    let col := fun (i : Nat) => r.cols[i]?
    match col 0 with
    | none => .error .parseError
    | some c0 =>
      if ¬ valTruthy c0.value then .error .parseError
      else match valBytes? c0.value with
        | none => .error .attributeError          -- int/float has no .decode
        | some tb => do
          let ty ← decodeAscii enc tb
          match col 4 with
          | none => .error .parseError
          | some c4 =>
            let sql ← (if valTruthy c4.value then
                match valBytes? c4.value with
                | some b => pure (some b)
                | none => (.error .attributeError : Py (Option (List Nat)))
              else pure none)
            if ty ≠ "table" ∧ ty ≠ "index" ∧ ty ≠ "view" ∧ ty ≠ "trigger" then pure none
            else if r.cols.length ≠ Generated.MASTER_SCHEMA_NUMBER_OF_COLUMNS then .error .parseError
            else
              match col 1, col 2, col 3 with
              | some c1, some c2, some c3 =>
                if ¬ valTruthy c1.value ∨ ¬ valTruthy c2.value then .error .parseError
                else match valBytes? c1.value, valBytes? c2.value with
                  | some nb, some tnb =>
                    pure (some ⟨c.rowid.getD 0, ty, nb, tnb, c3.value, sql, leafPage, c.digest⟩)
                  | _, _ => .error .attributeError
              | _, _, _ => .error .parseError

structure MasterSchema where
  entries : List SchemaRow           -- tables, indexes, views, triggers (in that order)
  pages : List (Nat × String)        -- master_schema_pages: (number, class)
  rootNumbers : List Nat             -- master_schema_b_tree_root_page_numbers
  deriving Repr, Inhabited

/-- `MasterSchema.__init__` up to (excluding) the SQL text parsing of each row class -/
def parseMasterSchema (v : VersionIf) (enc : Nat) (rootTree : List BPage) : Py MasterSchema := do
  match rootTree with
  | [] => .error .valueError
  | root :: _ =>
    -- leaves in _parse_table_interior order = flat order; an empty non-root leaf is an error
    let leaves := rootTree.filter fun p => ¬ p.ptype.isInterior
    if leaves.any (fun p => p.cells.isEmpty ∧ p.number ≠ 1) then .error .parseError
    else
      let rows ← leaves.foldlM (fun (acc : List SchemaRow) p => do
        let rs ← p.cells.foldlM (fun (a : List SchemaRow) c => do
          match ← schemaRowOfCell enc p.number c with
          | some r => pure (a ++ [r])
          | none => pure a) []
        pure (acc ++ rs)) []
      let allCells : Nat := (leaves.map fun p => p.cells.length).foldl (· + ·) 0
      if allCells = 0 then
        -- empty schema: the root must be an empty leaf whose content offset is the page size
        if root.hdr.nCells ≠ 0 then .error .parseError
        else if root.hdr.cellContentOffset ≠ v.pageSize then .error .parseError
        else if root.ptype.isInterior then .error .parseError
        else pure ⟨[], treePageNumbers rootTree, []⟩
      else if enc = 0 then .error .parseError
      else
        let ofType := fun (t : String) => rows.filter (·.rowType = t)
        let entries := ofType "table" ++ ofType "index" ++ ofType "view" ++ ofType "trigger"
        -- root page numbers: truthy root_page_number values
        let roots ← entries.foldlM (fun (acc : List Nat) e =>
          match e.rootPage with
          | .null => pure acc
          | .int i => if i = 0 then pure acc else if i < 0 then (.error .outsideModel : Py (List Nat)) else pure (acc ++ [i.toNat])
          | _ => .error .outsideModel) []
        pure ⟨entries, treePageNumbers rootTree, roots⟩

/-- Python `list.remove(x)`: ValueError when absent -/
def listRemove (l : List Nat) (x : Nat) : Py (List Nat) :=
  if l.contains x then .ok (l.erase x) else .error .valueError

structure Database where
  hdr : DbHeader
  pageSize : Nat
  dbSize : DbSize
  encoding : Nat
  freelist : List FreelistTrunk
  freelistPageNumbers : List Nat
  ptrmap : List PtrmapPage
  rootTree : List BPage
  schema : MasterSchema
  updatedBTreePages : List Nat
  deriving Repr, Inhabited

/-- `Version.pages` (no cache): union keyed by page number, then the two census checks.
Returns the dictionary as an insertion-ordered association list (page number, class). -/
def pagesCensus (db : Database) (v : VersionIf) (frames : Nat) : Py (List (Nat × String)) := do
  let put := fun (d : List (Nat × String)) (k : Nat) (s : String) => dictInsert d k s
  let d := db.freelist.foldl (fun d t =>
      t.leaves.foldl (fun d l => put d l "FREELIST_LEAF") (put d t.number "FREELIST_TRUNK")) []
  let d := db.ptrmap.foldl (fun d p => put d p.number "POINTER_MAP") d
  let d := db.schema.pages.foldl (fun d pn => put d pn.1 pn.2) d
  let d ← db.schema.rootNumbers.foldlM (fun d r => do
      let t ← getBTreeRoot v frames r
      pure ((treePageNumbers t).foldl (fun d pn => put d pn.1 pn.2) d)) d
  if ¬ db.dbSize.exact ∨ d.length ≠ db.dbSize.floor then .error .parseError
  else if (List.range db.dbSize.floor).any (fun i => ¬ d.any (·.1 = i + 1)) then .error .parseError
  else pure d

/-- `FileHandle.__init__` (DATABASE) + `Database.__init__` -/
def openDatabase (cfg : Config) (file : Buf) : Py (Database × VersionIf) := do
  let fsize := match cfg.givenSize with
    | some 0 => file.size
    | some n => n
    | none => file.size
  if fsize > Generated.LOCK_BYTE_PAGE_START_OFFSET then .error .notImplemented
  else
    let hdr ← parseDbHeader (file.slice 0 Generated.SQLITE_DATABASE_HEADER_LENGTH)
    let fh : FileH := ⟨fsize, file⟩
    let ps := hdr.pageSize
    let dsize ← (if hdr.sizeInPages = 0 then
        if hdr.sqliteVersion ≥ Generated.SQLITE_3_7_0_VERSION_NUMBER then (.error .parseError : Py DbSize)
        else pure ⟨fsize, ps⟩
      else if hdr.versionValidFor ≠ hdr.changeCounter then pure ⟨fsize, ps⟩
      else if hdr.sizeInPages * ps ≥ fsize + ps then .error .parseError    -- more pages than the file can hold (fix: commit)
      else pure ⟨hdr.sizeInPages, 1⟩)
    let v := dbVersionIf cfg ps dsize fh
    let updated := (List.range dsize.floor).map (· + 1)
    -- freelist
    let fl ← (if hdr.firstFreelistTrunk ≠ 0 then parseFreelist v cfg.frames hdr.firstFreelistTrunk else pure [])
    let (updated, flNums, observed) ← fl.foldlM (fun (st : List Nat × List Nat × Nat) t => do
        let (u, nums, obs) := st
        let u ← listRemove u t.number
        pure (u, nums ++ [t.number] ++ t.leaves, obs + 1 + t.leaves.length)) (updated, [], 0)
    if observed ≠ hdr.freelistPages then .error .parseError
    else
      -- pointer map
      let pm ← (if hdr.largestRoot ≠ 0 then
          if ¬ dsize.exact then (.error .outsideModel : Py (List PtrmapPage))
          else createPtrmapPages v dsize.floor
        else pure [])
      let updated ← pm.foldlM (fun u pg => listRemove u pg.number) updated
      -- root page and master schema
      let rootTree ← getBTreeRoot v cfg.frames 1
      let ms ← parseMasterSchema v hdr.textEncoding rootTree
      let updated ← ms.pages.foldlM (fun u pn => listRemove u pn.1) updated
      -- (no check of schema format / encoding against an empty schema: removed by a fix: commit)
      do
        let db : Database := ⟨hdr, ps, dsize, hdr.textEncoding, fl, flNums, pm, rootTree, ms, updated⟩
        if cfg.storeInMemory then do
          let _ ← pagesCensus db v cfg.frames
          pure (db, v)
        else pure (db, v)

end SqliteDissect.Model
