/-
Byte buffers.  `Buf` is a size plus a total reader; every model function is written against
`rd`, so the driver instantiates it with a `ByteArray` (O(1) reads) and the proofs treat it
abstractly or instantiate it with a `List Nat`.
-/
import SqliteDissect.Py

namespace SqliteDissect

structure Buf where
  size : Nat
  rd   : Nat → Nat

namespace Buf

/-- All bytes readable below `size` are bytes. -/
def WF (b : Buf) : Prop := ∀ i, i < b.size → b.rd i < 256

def ofList (l : List Nat) : Buf := ⟨l.length, fun i => l.getD i 0⟩

def ofByteArray (a : ByteArray) : Buf := ⟨a.size, fun i => (a.get! i).toNat⟩

def empty : Buf := ⟨0, fun _ => 0⟩

/-- array-backed buffer: O(1) reads (used where many chunks are concatenated) -/
def ofArray (a : Array Nat) : Buf := ⟨a.size, fun i => a.getD i 0⟩

def toArray (b : Buf) : Array Nat := Array.ofFn (n := b.size) fun i => b.rd i

/-- Python `b[lo:hi]` for `0 ≤ lo`, `0 ≤ hi` (clamped, possibly short or empty). -/
def slice (b : Buf) (lo hi : Nat) : Buf :=
  let lo' := min lo b.size
  let hi' := min hi b.size
  ⟨hi' - lo', fun i => b.rd (lo' + i)⟩

/-- `a + b` on byte strings. -/
def append (a b : Buf) : Buf :=
  ⟨a.size + b.size, fun i => if i < a.size then a.rd i else b.rd (i - a.size)⟩

def toList (b : Buf) : List Nat := (List.range b.size).map b.rd

/-- optional read (none past the end) -/
def get? (b : Buf) (i : Nat) : Option Nat := if i < b.size then some (b.rd i) else none

/-- big-endian unsigned of `n` bytes at `off`; no bounds check (callers check). -/
def beN (b : Buf) (off : Nat) : Nat → Nat
  | 0 => 0
  | n+1 => beN b off n * 256 + b.rd (off + n)

/-- `struct.unpack(">H", b[off:off+2])`: a short slice is `struct.error`. -/
def u16 (b : Buf) (off : Nat) : Py Nat :=
  if off + 2 ≤ b.size then .ok (b.beN off 2) else .error .structError

def u32 (b : Buf) (off : Nat) : Py Nat :=
  if off + 4 ≤ b.size then .ok (b.beN off 4) else .error .structError

def u64 (b : Buf) (off : Nat) : Py Nat :=
  if off + 8 ≤ b.size then .ok (b.beN off 8) else .error .structError

def u8 (b : Buf) (off : Nat) : Py Nat :=
  if off + 1 ≤ b.size then .ok (b.rd off) else .error .structError

end Buf

def hexDigit (n : Nat) : Char :=
  if n < 10 then Char.ofNat (48 + n) else Char.ofNat (87 + n)

def hexOfList (l : List Nat) : String :=
  String.ofList (l.flatMap fun b => [hexDigit (b / 16), hexDigit (b % 16)])

def Buf.hex (b : Buf) : String := hexOfList b.toList

def hexVal (c : Char) : Option Nat :=
  if '0' ≤ c ∧ c ≤ '9' then some (c.toNat - 48)
  else if 'a' ≤ c ∧ c ≤ 'f' then some (c.toNat - 87)
  else if 'A' ≤ c ∧ c ≤ 'F' then some (c.toNat - 55)
  else none

def parseHexList : List Char → Option (List Nat)
  | [] => some []
  | [_] => none
  | a :: b :: rest => do
      let x ← hexVal a
      let y ← hexVal b
      let r ← parseHexList rest
      pure ((x * 16 + y) :: r)

/-- "-" denotes the empty string on the wire. -/
def parseHex (s : String) : Option (List Nat) :=
  if s = "-" then some [] else parseHexList s.toList

def parseHexBA (s : String) : Option ByteArray :=
  (parseHex s).map fun l => ByteArray.mk (l.map (·.toUInt8)).toArray

end SqliteDissect
