/-
C02 + C01, end to end in the model — "the rows sqlite-dissect reports for version k are the rows
stored in SQLite's snapshot after the k-th commit".

`Spec.snapshotIf` (Spec/SnapshotIf.lean) is SQLite's snapshot after the `k`-th transaction of the
log as a version interface: pages `1 … Spec.snapshotSize` (the size field of the `k`-th commit
frame), page `p` = the image of the latest frame for `p` among the first `k` transactions, else the
database file's page (`Spec.snapshotPage` / `Spec.snapshotBytes`, see `snapshotIf_whole/_part`).

Composition: `C02b.history_indices` + `C02Content` (where version `k` reads every page) ⇒ version
`k`'s interface and the snapshot agree on every page (`version_agrees_with_snapshot`) ⇒ by the frame
lemma of the b-tree constructor (Proofs/TreeFrame: the construction depends only on the pages it
visits) the constructed trees coincide (`version_tree_eq_snapshot_tree`) ⇒ with `C01Tree`
(`table_tree_rows`, `index_tree_entries`) the rows coincide with the rows stored (`version_rows`).

Throughout: `(groupFrames w.frames [] []).1` = the transactions of the log, `vs[k]` = version `k` of
the accepted history, `dbv` = the interface of the database file, `db.dbSize.floor` = its pages.
No hypothesis on the log beyond acceptance: pages a commit declares but neither file holds are
refused by both sides (`C02Content.version_page_uncovered`).  `hdb0` only concerns `k = 0`: the
database file is read through `dbVersionIf` with the log's page size (what `openDatabase` returns
when the two headers agree on the page size).
-/
import SqliteDissect.Proofs.VersionRows
import SqliteDissect.Proofs.TreeDemo
import SqliteDissect.Proofs.Codec

namespace SqliteDissect.Properties.C02Rows
open SqliteDissect SqliteDissect.Model
open SqliteDissect.Spec (CellSpec TTree TreeLaidOut Elementwise snapshotIf snapshotSize)

/-- the size of version `k` is the size of the snapshot: the size field of the `k`-th commit frame
(`k = 0`: the pages of the database file) -/
theorem version_size (cfg : Config) (db : Database) (dbv : VersionIf) (w : Wal)
    (vs : List (Version × VersionIf)) (h : versionHistory cfg db dbv (some w) = .ok vs)
    (k : Nat) (ver : Version) (v : VersionIf) (hk : vs[k]? = some (ver, v)) :
    ver.dbSize = snapshotSize db.dbSize.floor (groupFrames w.frames [] []).1 k := by
  exact Proofs.VersionRows.version_size cfg db dbv w vs h k ver v hk

/-- **page level**: on every page of the snapshot after commit `k+1`, the interface of version
`k+1` and the snapshot are the same: every read (any offset, any length, result or exception), the
page's version number and its file offset -/
theorem version_agrees_with_snapshot (cfg : Config) (db : Database) (dbv : VersionIf) (w : Wal)
    (vs : List (Version × VersionIf)) (h : versionHistory cfg db dbv (some w) = .ok vs)
    (k : Nat) (ver : Version) (v : VersionIf) (hk : vs[k + 1]? = some (ver, v))
    (p : Nat) (hp1 : 1 ≤ p) (hp2 : p ≤ snapshotSize db.dbSize.floor (groupFrames w.frames [] []).1 (k + 1)) :
    let s := snapshotIf cfg.strict dbv db.dbSize.floor w.fh w.hdr.pageSize (groupFrames w.frames [] []).1 (k + 1)
    s.getData p = v.getData p ∧ s.pageVersion p = v.pageVersion p ∧ s.pageOffset p = v.pageOffset p := by
  rw [← Proofs.VersionRows.version_size cfg db dbv w vs h (k + 1) ver v hk] at hp2
  exact Proofs.VersionRows.agree_commit cfg db dbv w vs h k ver v hk p hp1 hp2

/-- what the snapshot interface serves as a whole page is `Spec.snapshotPage` … -/
theorem snapshotIf_whole (strict : Bool) (dbv : VersionIf) (n : Nat) (fh : FileH) (ps : Nat)
    (gs : List (List Frame)) (k p : Nat) (hp : 1 ≤ p ∧ p ≤ snapshotSize n gs k) (hps : 0 < ps)
    (hcov : p ≤ n ∨ Spec.latestFrame ((gs.take k).flatten) p ≠ none) :
    (snapshotIf strict dbv n fh ps gs k).getData p 0 none =
      Spec.snapshotPage (fun q => dbv.getData q 0 none) fh ps gs k p := by
  exact Proofs.VersionRows.snapshotIf_whole strict dbv n fh ps gs k p hp hps hcov

/-- … and as a byte range `Spec.snapshotBytes` -/
theorem snapshotIf_part (strict : Bool) (dbv : VersionIf) (n : Nat) (fh : FileH) (ps : Nat)
    (gs : List (List Frame)) (k p : Nat) (hp : 1 ≤ p ∧ p ≤ snapshotSize n gs k)
    (hcov : p ≤ n ∨ Spec.latestFrame ((gs.take k).flatten) p ≠ none)
    (off len : Nat) (hlen : 0 < len) (hoff : off + len ≤ ps) :
    (snapshotIf strict dbv n fh ps gs k).getData p off (some len) =
      Spec.snapshotBytes (fun q o l => dbv.getData q o (some l)) fh ps gs k p off len := by
  exact Proofs.VersionRows.snapshotIf_part strict dbv n fh ps gs k p hp hcov off len hlen hoff

/-- **tree level**: `get_b_tree_root_page` on version `k` and on the snapshot after commit `k`
construct the same list of pages (cell for cell, field for field), and one succeeds iff the other
does -/
theorem version_tree_eq_snapshot_tree (cfg : Config) (db : Database) (dbv : VersionIf) (w : Wal)
    (vs : List (Version × VersionIf)) (h : versionHistory cfg db dbv (some w) = .ok vs)
    (k : Nat) (ver : Version) (v : VersionIf) (hk : vs[k]? = some (ver, v))
    (hdb0 : k = 0 → ∃ f, dbv = dbVersionIf cfg w.hdr.pageSize db.dbSize f)
    (frames r : Nat) (t : List BPage) :
    getBTreeRoot v frames r = .ok t ↔
      getBTreeRoot (snapshotIf cfg.strict dbv db.dbSize.floor w.fh w.hdr.pageSize
        (groupFrames w.frames [] []).1 k) frames r = .ok t := by
  exact Proofs.VersionRows.version_tree_eq_snapshot_tree cfg db dbv w vs h k ver v hk hdb0 frames r t

/-- **C02 + C01.**  For every version `k` of an accepted history and every table b-tree `T` laid
out, as SQLite lays it out, in SQLite's snapshot after the `k`-th commit (rowids pairwise distinct,
`T.frames` stack frames available): `get_b_tree_root_page` on version `k` succeeds, and the rows it
reports — by the leaf pages and by the `aggregate_leaf_cells` dictionary — are the rows stored in
the snapshot, with the same rowids and column values, in traversal order; none lost, none invented,
none from an older or a later state of the page.  (`hpd`: no page number occurs twice in the tree —
the repaired `get_b_tree_root_page` refuses a b-tree in which a page is reached twice.) -/
theorem version_rows (cfg : Config) (db : Database) (dbv : VersionIf) (w : Wal)
    (vs : List (Version × VersionIf)) (h : versionHistory cfg db dbv (some w) = .ok vs)
    (k : Nat) (ver : Version) (v : VersionIf) (hk : vs[k]? = some (ver, v))
    (hdb0 : k = 0 → ∃ f, dbv = dbVersionIf cfg w.hdr.pageSize db.dbSize f)
    (hu : 512 ≤ w.hdr.pageSize) (hu2 : w.hdr.pageSize ≤ 65536)
    (T : TTree)
    (hT : TreeLaidOut (snapshotIf cfg.strict dbv db.dbSize.floor w.fh w.hdr.pageSize
      (groupFrames w.frames [] []).1 k) true T)
    (frames : Nat) (hf : T.frames ≤ frames) (hpd : T.PagesDistinct)
    (hnd : (T.leafCells.map (·.rowid)).Nodup) :
    ∃ t, getBTreeRoot v frames T.page = .ok t ∧
      Elementwise (fun s c => CellSpec.ReportedAs w.hdr.pageSize s c) T.leafCells (leafCells t) ∧
      (leafCells t).map Spec.cellRow = T.leafCells.map CellSpec.row ∧
      (aggregateLeafCells t []).1 = T.leafCells.length ∧
      (aggregateLeafCells t []).2.1.map (fun e => Spec.cellRow e.2) = T.leafCells.map CellSpec.row := by
  exact Proofs.VersionRows.version_rows cfg db dbv w vs h k ver v hk hdb0 hu hu2 T hT frames hf hpd hnd

/-- the same for index b-trees (C14): every entry, interior cells included -/
theorem version_index_entries (cfg : Config) (db : Database) (dbv : VersionIf) (w : Wal)
    (vs : List (Version × VersionIf)) (h : versionHistory cfg db dbv (some w) = .ok vs)
    (k : Nat) (ver : Version) (v : VersionIf) (hk : vs[k]? = some (ver, v))
    (hdb0 : k = 0 → ∃ f, dbv = dbVersionIf cfg w.hdr.pageSize db.dbSize f)
    (hu : 512 ≤ w.hdr.pageSize) (hu2 : w.hdr.pageSize ≤ 65536)
    (T : TTree)
    (hT : TreeLaidOut (snapshotIf cfg.strict dbv db.dbSize.floor w.fh w.hdr.pageSize
      (groupFrames w.frames [] []).1 k) false T)
    (frames : Nat) (hf : T.frames ≤ frames) (hpd : T.PagesDistinct) :
    ∃ t, getBTreeRoot v frames T.page = .ok t ∧
      Elementwise (fun s c => CellSpec.ReportedAs w.hdr.pageSize s c) T.allCells (t.flatMap (·.cells)) ∧
      (t.flatMap (·.cells)).map Spec.cellRow = T.allCells.map CellSpec.row ∧
      Elementwise (fun s c => CellSpec.ReportedAs w.hdr.pageSize s c) T.leafCells (leafCells t) ∧
      (aggregateLeafCells t []).1 = T.leafCells.length := by
  exact Proofs.VersionRows.version_index_entries cfg db dbv w vs h k ver v hk hdb0 hu hu2 T hT frames hf hpd

/-! ### a literal pair (the model does not verify frame checksums)

A 3-page database file of 512-byte pages (all zero; header and schema never touched by the log) and
a log with one transaction: a single commit frame (size 3) for page 3 carrying the table leaf page
`TreeDemo.L3` with the row (1; 7, 'hi'). -/

open Proofs.TreeDemo

private def walR : Buf :=
  Buf.ofList ([0x37, 0x7f, 0x06, 0x82, 0x00, 0x2d, 0xe2, 0x18, 0, 0, 2, 0, 0, 0, 0, 0, 0, 0, 0, 1, 0, 0, 0, 2, 0, 0, 0, 0, 0, 0, 0, 0]
    ++ [0, 0, 0, 3, 0, 0, 0, 3, 0, 0, 0, 1, 0, 0, 0, 2, 0, 0, 0, 0, 0, 0, 0, 0] ++ packBytes 512 L3)

private def dbR : Database :=
  { hdr := default, pageSize := 512, dbSize := ⟨3, 1⟩, encoding := 1, freelist := [], freelistPageNumbers := [],
    ptrmap := [], rootTree := [], schema := ⟨[], [], []⟩, updatedBTreePages := [] }

private def dbvR : VersionIf := dbVersionIf {} 512 ⟨3, 1⟩ ⟨1536, Buf.ofList (List.replicate 1536 0)⟩

/-- what the model computes for the pair: number of versions, the rows of the b-tree rooted at page 3
in version 1, and whether version 0 has a b-tree there -/
private def observedR : Py (Nat × List (Option Int × Option (List RecordCol)) × Bool) := do
  let w ← openWal none walR
  let vs ← versionHistory {} dbR dbvR (some w)
  match vs[1]? with
  | none => .error .indexError
  | some (_, v1) =>
    match vs[0]? with
    | none => .error .indexError
    | some (_, v0) => do
      let t ← getBTreeRoot v1 5 3
      pure (vs.length, (leafCells t).map Spec.cellRow, (getBTreeRoot v0 5 3).isOk)

/-- evaluated by the kernel, independently of the theorems: the pair is accepted with two versions;
version 1 reports the row from page 3, version 0 (the zeroed database file) has no b-tree there -/
example : observedR.map (·.1) = .ok 2 ∧
    observedR.map (·.2.1) = .ok [(some 1, some [⟨1, 1, 1, .int 7⟩, ⟨17, 1, 2, .text [104, 105]⟩])] ∧
    observedR.map (·.2.2) = .ok false := by decide +kernel

private def factsHold : Bool :=
  match openWal none walR with
  | .ok w =>
    match versionHistory {} dbR dbvR (some w) with
    | .ok vs =>
      match vs[1]? with
      | some _ =>
        decide (w.hdr.pageSize = 512 ∧
          (1 ≤ 3 ∧ 3 ≤ snapshotSize 3 (groupFrames w.frames [] []).1 1) ∧
          Spec.latestFrame (((groupFrames w.frames [] []).1.take 1).flatten) 3 = some 1 ∧
          (w.fh.read (Spec.frameImageOffset 512 1) 512).map Buf.toList = .ok (packBytes 512 L3))
      | none => false
    | .error _ => false
  | .error _ => false

/-- the table `T` = one leaf, page 3, holding `row1` is laid out in the snapshot after commit 1 -/
private theorem laidOutR (w : Wal) (hps : w.hdr.pageSize = 512)
    (hr : 1 ≤ 3 ∧ 3 ≤ snapshotSize 3 (groupFrames w.frames [] []).1 1)
    (hl : Spec.latestFrame (((groupFrames w.frames [] []).1.take 1).flatten) 3 = some 1)
    (hread : (w.fh.read (Spec.frameImageOffset 512 1) 512).map Buf.toList = .ok (packBytes 512 L3)) :
    TreeLaidOut (snapshotIf true dbvR 3 w.fh w.hdr.pageSize (groupFrames w.frames [] []).1 1) true
      (.leaf 3 [row1]) := by
  rw [hps]
  cases hb : w.fh.read (Spec.frameImageOffset 512 1) 512 with
  | error e => rw [hb] at hread; exact nomatch hread
  | ok b =>
    rw [hb] at hread
    have hbl : b.toList = packBytes 512 L3 := by injection hread
    refine TreeLaidOut.leaf 3 _ L3 rfl rfl ⟨packBytes 512 L3, ?_, demo_page3, rfl, ?_⟩
    · exact Proofs.VersionRows.snapshotIf_serves_wal true dbvR 3 w.fh 512 _ 1 3 1 b _ hr (by decide) hl hb hbl
        (by decide +kernel)
    · intro c hc
      refine Proofs.VersionRows.valid_of_local _ 512 rfl c ?_
      revert c
      decide +kernel

/-- the hypotheses of `version_rows` are jointly satisfiable for a commit record (`k = 1`) and a
page that comes from the log, and its conclusion is the row stored in the frame -/
example : ∃ (w : Wal) (vs : List (Version × VersionIf)) (ver : Version) (v : VersionIf) (t : List BPage),
    openWal none walR = .ok w ∧ versionHistory {} dbR dbvR (some w) = .ok vs ∧ vs[1]? = some (ver, v) ∧
    TreeLaidOut (snapshotIf true dbvR 3 w.fh w.hdr.pageSize (groupFrames w.frames [] []).1 1) true (.leaf 3 [row1]) ∧
    getBTreeRoot v 1 3 = .ok t ∧
    (leafCells t).map Spec.cellRow = [(some 1, some [⟨1, 1, 1, .int 7⟩, ⟨17, 1, 2, .text [104, 105]⟩])] := by
  have hc : factsHold = true := by decide +kernel
  unfold factsHold at hc
  split at hc
  · rename_i w hw
    split at hc
    · rename_i vs hvs
      split at hc
      · rename_i x hk
        obtain ⟨ver, v⟩ := x
        rw [decide_eq_true_eq] at hc
        obtain ⟨hps, hr, hl, hread⟩ := hc
        have hT := laidOutR w hps hr hl hread
        obtain ⟨t, ht, -, hrows, -⟩ := version_rows {} dbR dbvR w vs hvs 1 ver v hk (fun h => nomatch h)
          (by omega) (by omega) (.leaf 3 [row1]) hT 1 (by simp [TTree.frames])
          (by simp [TTree.PagesDistinct, TTree.nodes]) (by simp [TTree.leafCells])
        refine ⟨w, vs, ver, v, t, hw, hvs, hk, hT, ht, ?_⟩
        have hleaf : (TTree.leaf 3 [row1]).leafCells = [row1] := by simp [TTree.leafCells]
        rw [hrows, hleaf]
        decide +kernel
      · exact nomatch hc
    · exact nomatch hc
  · exact nomatch hc

end SqliteDissect.Properties.C02Rows
