/-
C04 — evidence files are never modified, created or removed; everything written goes beneath the output
directory or the log file the user named.

The first group of theorems is decided over `Generated.fsEffects`, the table of *every* call site under
sqlite_dissect/ that can touch the file system (regenerated from the source on every run by
harness/translate/fs_effects.py; its completeness is what the runtime audit correspondence of
harness/props/c04.py checks).  The second group is about `Model.Cli`: which files a run writes and what has
been created by the time a run is refused.
-/
import SqliteDissect.Proofs.FsTable
import SqliteDissect.Proofs.Cli

namespace SqliteDissect.Properties.C04
open SqliteDissect.Generated SqliteDissect.Model.Cli

/-- every call site whose path argument can derive from the evidence paths only reads or stats -/
theorem evidence_read_only (e : FsEffect) (he : e ∈ fsEffects) (hp : Prov.EVIDENCE ∈ e.prov) :
    e.mode = .read ∨ e.mode = .stat := by
  exact Proofs.FsTable.evidence_read_only e he hp

/-- … and when it is an `open`, every mode string that can reach it is "r" or "rb" -/
theorem evidence_opened_rb_only (e : FsEffect) (he : e ∈ fsEffects) (ha : e.api = .open)
    (hp : Prov.EVIDENCE ∈ e.prov) (m : String) (hm : m ∈ e.openModes) : m = "r" ∨ m = "rb" := by
  exact Proofs.FsTable.evidence_opened_rb_only e he ha hp m hm

/-- FULL STATEMENT (false of the code): every call site that writes, creates or deletes takes its path from
--directory / --file-prefix / output names, or from --log-file. -/
def WritesUnderOutputFull : Prop :=
  ∀ e ∈ fsEffects, (e.mode = .write ∨ e.mode = .create ∨ e.mode = .delete) →
    ∀ p ∈ e.prov, p = .OUTPUT ∨ p = .LOG

/-- witness: the XLSX exporter's write-only worksheets spool their rows into `tempfile.mkstemp` files in the
system temporary directory (created by `sheet.append`, removed by `Workbook.save`) -/
theorem writes_under_output_counterexample : ¬ WritesUnderOutputFull := by
  intro h
  obtain ⟨e, he, hm, ht⟩ := Proofs.FsTable.writes_under_output_strict_fails
  rcases h e he hm _ ht with h1 | h1 <;> cases h1

/-- PARTIAL: every mutating call site other than those XLSX spool files takes its path from --directory /
--file-prefix / output names or from --log-file — never from an evidence path, a literal, the config file
or an unclassified source -/
theorem writes_under_output_partial (e : FsEffect) (he : e ∈ fsEffects)
    (hm : e.mode = .write ∨ e.mode = .create ∨ e.mode = .delete)
    (hx : Proofs.FsTable.xlsxTempFile e = false) (p : Prov) (hp : p ∈ e.prov) :
    p = .OUTPUT ∨ p = .LOG := by
  exact Proofs.FsTable.writes_under_output e he hm hx p hp

/-- the temporary directory is touched by the XLSX exporter only -/
theorem temp_files_only_from_xlsx (e : FsEffect) (he : e ∈ fsEffects)
    (ht : Prov.TEMP ∈ e.prov ∨ e.api = .tempFile) : Proofs.FsTable.xlsxTempFile e = true := by
  exact Proofs.FsTable.temp_only_xlsx e he ht

/-- `sqlite3.connect` is only ever given an output path -/
theorem no_sqlite_connect_on_evidence (e : FsEffect) (he : e ∈ fsEffects) (ha : e.api = .sqliteConnect) :
    Prov.EVIDENCE ∉ e.prov ∧ ∀ p ∈ e.prov, p = .OUTPUT := by
  exact Proofs.FsTable.no_sqlite_connect_on_evidence e he ha

/-- the translator classified every call site (no OTHER provenance, no unknown FS api) -/
theorem every_site_classified (e : FsEffect) (he : e ∈ fsEffects) :
    Prov.OTHER ∉ e.prov ∧ e.api ≠ .other ∧ e.prov ≠ [] := by
  exact Proofs.FsTable.every_site_classified e he

-- non-vacuity: the table has evidence readers, writers and the connect call
example : (fsEffects.filter (fun e => e.prov.contains .EVIDENCE)).length > 0 := by decide
example : (fsEffects.filter (fun e => Proofs.FsTable.mutatingMode e.mode)).length > 0 := by decide
example : (fsEffects.filter (fun e => e.api == .sqliteConnect)).length > 0 := by decide
example : (fsEffects.filter (fun e => Proofs.FsTable.mutatingMode e.mode && !Proofs.FsTable.xlsxTempFile e)).length > 0 := by
  decide
example : (fsEffects.filter (fun e => e.api == .open && e.prov.contains .EVIDENCE)).length > 0 := by decide

/-- the validation phase of `main` (everything before the library is called) creates at most the log file,
the output directory and the per-file sub-directory (the directories only after every check has passed, see
C12.refused_before_write) -/
theorem validation_creates_only_log_and_directories (o : Opts) (i : Input) (w : World) :
    ∀ e ∈ (validate o i w).effects,
      e = .logFile o.logFile ∨ (e = .mkdir o.directory ∧ w.pathExists o.directory = false)
        ∨ (e = .mkdir (Proofs.Cli.subDir o i) ∧ i.multi = true) := by
  exact Proofs.Cli.validation_effects_bounded o i w

/-- every file written by a run that passed validation is a direct child of the output directory (case.json:
of the directory the user named) — for every prefix (one containing a path separator is refused, the default
is a base name), every table name (the CSV file name replaces `os.sep`) and every journal name.
(Before 430cb54 / ccb6063 this was false: `-p ../x` wrote next to the output directory, a table named
`/../../esc` steered the CSV file out of it; both inputs stay in corpus/C04.) -/
theorem paths_under (o : Opts) (i : Input) (w : World) (r : Ready) (eff : List Effect)
    (ex : List Str) (es : List Entry) (h : validate o i w = .ready r eff) (hd : r.outDir ≠ []) :
    ∀ f ∈ writtenFiles o r ex es, Under r.outDir f ∨ Under o.directory f := by
  exact Proofs.Cli.written_files_under_ready o i w r eff ex es h hd

/-- … and without `--directory` nothing is written at all -/
theorem no_directory_no_files (o : Opts) (i : Input) (w : World) (r : Ready) (eff : List Effect)
    (ex : List Str) (es : List Entry) (h : validate o i w = .ready r eff) (hd : r.outDir = []) :
    writtenFiles o r ex es = [] := by
  exact Proofs.Cli.no_directory_no_files o i w r eff ex es h hd

/-- the prefix `main` settles on never contains a path separator -/
theorem prefix_has_no_separator (o : Opts) (i : Input) (w : World) (r : Ready) (eff : List Effect)
    (h : validate o i w = .ready r eff) : NoSep r.filePrefix := by
  exact Proofs.Cli.ready_prefix_noSep o i w r eff h

-- non-vacuity: a run with a table whose name contains '/' passes validation and writes beneath `o`
example : validate { directory := ['o'], exports := [.text, .csv] } { sqlitePath := ['/', 'e', '/', 'a', '.', 'd', 'b'] }
    { pathExists := fun p => p == ['/', 'e', '/', 'a', '.', 'd', 'b'], size := fun _ => 4096, mkdirOk := fun _ => true }
    = .ready { outDir := ['o'], filePrefix := ['a', '.', 'd', 'b'], exportTypes := [.text, .csv], walName := [],
               rjName := [], walOpened := false, rjOpened := false, exempted := false } [.mkdir ['o']] := by decide

example : writtenFiles { directory := ['o'], exports := [.text, .csv] }
    { outDir := ['o'], filePrefix := ['a', '.', 'd', 'b'], exportTypes := [.text, .csv], walName := [], rjName := [],
      walOpened := false, rjOpened := false, exempted := false } []
    [{ name := ['a', '/', 'b'], tableOrIndex := true, sigEligible := true }]
    = [['o', '/', 'a', '.', 'd', 'b', '.', 't', 'x', 't'], ['o', '/', 'a', '.', 'd', 'b', '.', 't', 'x', 't'],
       ['o', '/', 'a', '.', 'd', 'b', '-', 'a', '_', 'b', '.', 'c', 's', 'v']] := by decide

-- the former witness is now refused before anything is created
example : validate { directory := ['o'], filePrefix := ['.', '.', '/', 'x'] } { sqlitePath := ['d'] }
    { pathExists := fun p => p == ['d'], size := fun _ => 100, mkdirOk := fun _ => true }
    = .refuse .prefixHasSeparator [] := by decide

end SqliteDissect.Properties.C04
