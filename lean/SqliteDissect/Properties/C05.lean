import SqliteDissect.Model.Wal
namespace SqliteDissect.Properties.C05
end SqliteDissect.Properties.C05
