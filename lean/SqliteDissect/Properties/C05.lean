/-
C05 — "If the write-ahead log is cut off at an arbitrary byte, sqlite-dissect either declines the
pair with an error or reports only states SQLite actually committed: every version it shows equals
the contents after some committed transaction, in commit order.  Rows of an uncommitted or
partially written transaction are never presented as part of a version."

End-to-end composition through `openWal` and `versionHistory`, for every truncation offset `n`
(`file.slice 0 n` is the file cut to its first `n` bytes).  The frame-level half is in
`Properties/C02.lean` (`frames_of_truncated`, `truncated_frames_prefix`, `group_prefix`,
`accepted_ends_in_commit`).

A version is the pair of its `Version` record (header, schema, page indices, updated pages, …) and
the `VersionIf` through which every page byte of that version is read; the theorems below state
equality of both, the interface as a *function* (so all rows parsed through it coincide).
-/
import SqliteDissect.Proofs.WalTruncate
import SqliteDissect.Proofs.Codec

namespace SqliteDissect.Properties.C05
open SqliteDissect SqliteDissect.Model

/-- "reports only states SQLite actually committed … in commit order": whatever a cut-off log shows
is an initial segment, in commit order, of what the whole log shows — the same `Version` records and
the very same version interfaces (as functions: every page read, page version and page offset). -/
theorem truncated_history_prefix (cfg : Config) (db : Database) (dbv : VersionIf) (file : Buf) (n : Nat)
    (hn : n ≤ file.size) (w w' : Wal)
    (hw : openWal none file = .ok w) (hw' : openWal none (file.slice 0 n) = .ok w')
    (vs vs' : List (Version × VersionIf))
    (hv : versionHistory cfg db dbv (some w) = .ok vs) (hv' : versionHistory cfg db dbv (some w') = .ok vs') :
    vs' <+: vs := by
  exact Proofs.WalTruncate.truncated_history_prefix cfg db dbv file n hn w w' hw hw' vs vs' hv hv'

/-- the same, index by index and observation by observation: version `i` of the cut-off log has the
`Version` record of version `i` of the whole log and serves byte for byte the same pages -/
theorem truncated_history_pointwise (cfg : Config) (db : Database) (dbv : VersionIf) (file : Buf) (n : Nat)
    (hn : n ≤ file.size) (w w' : Wal)
    (hw : openWal none file = .ok w) (hw' : openWal none (file.slice 0 n) = .ok w')
    (vs vs' : List (Version × VersionIf))
    (hv : versionHistory cfg db dbv (some w) = .ok vs) (hv' : versionHistory cfg db dbv (some w') = .ok vs') :
    vs'.length ≤ vs.length ∧
    ∀ (i : Nat) (hi : i < vs'.length) (hi2 : i < vs.length),
      (vs'[i]).1 = (vs[i]).1 ∧
      (∀ p off len, (vs'[i]).2.getData p off len = (vs[i]).2.getData p off len) ∧
      (∀ p, (vs'[i]).2.pageVersion p = (vs[i]).2.pageVersion p ∧ (vs'[i]).2.pageOffset p = (vs[i]).2.pageOffset p) := by
  exact Proofs.WalTruncate.truncated_history_pointwise cfg db dbv file n hn w w' hw hw' vs vs' hv hv'

/-- exactly which initial segment: the database file's version plus one version per commit frame
among the valid frames below the cut; and the cut-off pair is *accepted* whenever the whole pair is
and the WAL reader accepts the cut-off file -/
theorem truncated_history_take (cfg : Config) (db : Database) (dbv : VersionIf) (file : Buf) (n : Nat)
    (hn : n ≤ file.size) (w w' : Wal)
    (hw : openWal none file = .ok w) (hw' : openWal none (file.slice 0 n) = .ok w')
    (vs : List (Version × VersionIf)) (hv : versionHistory cfg db dbv (some w) = .ok vs) :
    versionHistory cfg db dbv (some w') = .ok (vs.take ((groupFrames w'.frames [] []).1.length + 1)) := by
  exact Proofs.WalTruncate.truncated_history_take cfg db dbv file n hn w w' hw hw' vs hv

/-- without assuming that the whole pair is accepted: result *or error*, the history of the cut-off
log is the history computed from the whole file over the valid frames below the cut (the cut-off
file handle never makes a difference: no read goes past the cut) -/
theorem truncated_history_eq_restricted (cfg : Config) (db : Database) (dbv : VersionIf) (file : Buf) (n : Nat)
    (hn : n ≤ file.size) (w w' : Wal)
    (hw : openWal none file = .ok w) (hw' : openWal none (file.slice 0 n) = .ok w') :
    versionHistory cfg db dbv (some w') = versionHistory cfg db dbv (some { w with frames := w'.frames }) := by
  exact Proofs.WalTruncate.truncated_history_eq_restricted cfg db dbv file n hn w w' hw hw'

/-- "declines the pair with an error": a cut inside the 32-byte WAL header is refused (`ValueError`) -/
theorem truncated_header_rejected (gs : Option Nat) (file : Buf) (n : Nat) (hn : n < 32) :
    openWal gs (file.slice 0 n) = .error .valueError := by
  exact Proofs.WalTruncate.truncated_header_rejected gs file n hn

/-- "Rows of an uncommitted or partially written transaction are never presented as part of a
version": in an accepted history of a cut-off log no valid frame is left over after the last commit
frame, and every version `k+1 ≥ 1` is the commit record of the `k`-th transaction of the *whole*
log — a run of non-commit frames closed by its single commit frame, all of them whole frames below
the cut; the version's size is that commit frame's size field, its updated pages are exactly the
pages of those frames, and every frame its page→frame index refers to lies in the first `k+1`
transactions (nothing from a later or unfinished transaction). -/
theorem truncated_history_versions_committed (cfg : Config) (db : Database) (dbv : VersionIf) (file : Buf) (n : Nat)
    (hn : n ≤ file.size) (w w' : Wal)
    (hw : openWal none file = .ok w) (hw' : openWal none (file.slice 0 n) = .ok w')
    (vs' : List (Version × VersionIf)) (hv' : versionHistory cfg db dbv (some w') = .ok vs') :
    w'.frames <+: w.frames ∧ (groupFrames w'.frames [] []).2 = [] ∧
    (groupFrames w'.frames [] []).1 <+: (groupFrames w.frames [] []).1 ∧
    ∀ (k : Nat) (ver : Version) (v : VersionIf), vs'[k + 1]? = some (ver, v) →
      ∃ (init : List Frame) (last : Frame) (fd : List (Nat × Frame)),
        (groupFrames w'.frames [] []).1[k]? = some (init ++ [last]) ∧
        (groupFrames w.frames [] []).1[k]? = some (init ++ [last]) ∧
        last.isCommit = true ∧ (∀ f ∈ init, f.isCommit = false) ∧
        (∀ f ∈ init ++ [last], f ∈ w.frames ∧ 32 + (f.index + 1) * (24 + w.hdr.pageSize) ≤ n) ∧
        recordFrames (init ++ [last]) = .ok (fd, true, last.hdr.sizeAfterCommit) ∧
        ver.number = k + 1 ∧ ver.committed = true ∧ ver.sizeExact = true ∧
        ver.dbSize = last.hdr.sizeAfterCommit ∧ ver.updated = fd.map (·.1) ∧
        (∀ p, p ∈ ver.updated ↔ ∃ f ∈ init ++ [last], f.hdr.pageNumber = p) ∧
        (∀ p f, dictGet? ver.pfi p = some f →
          ∃ fr ∈ ((groupFrames w.frames [] []).1.take (k + 1)).flatten, fr.hdr.pageNumber = p ∧ f = fr.index + 1) := by
  exact Proofs.WalTruncate.truncated_history_versions_committed cfg db dbv file n hn w w' hw hw' vs' hv'

/-- the statements above are not vacuous: a cut exactly after the `j`-th valid frame, when that is
a commit frame, is accepted by the WAL reader (valid frames = the first `j` valid frames) … -/
theorem truncated_at_commit_openWal (file : Buf) (w : Wal) (hw : openWal none file = .ok w)
    (j : Nat) (hj1 : 1 ≤ j) (hc : ∃ f, w.frames[j - 1]? = some f ∧ f.isCommit = true) :
    32 + j * (24 + w.hdr.pageSize) ≤ file.size ∧
    ∃ w', openWal none (file.slice 0 (32 + j * (24 + w.hdr.pageSize))) = .ok w' ∧ w'.frames = w.frames.take j := by
  exact Proofs.WalTruncate.truncated_at_commit_openWal file w hw j hj1 hc

/-- … and, when the whole pair is accepted, so is the cut-off pair, showing exactly the database
file's version and one version per commit frame among the first `j` frames -/
theorem truncated_history_success (cfg : Config) (db : Database) (dbv : VersionIf) (file : Buf) (w : Wal)
    (hw : openWal none file = .ok w)
    (vs : List (Version × VersionIf)) (hv : versionHistory cfg db dbv (some w) = .ok vs)
    (j : Nat) (hj1 : 1 ≤ j) (hc : ∃ f, w.frames[j - 1]? = some f ∧ f.isCommit = true) :
    ∃ w', openWal none (file.slice 0 (32 + j * (24 + w.hdr.pageSize))) = .ok w' ∧ w'.frames = w.frames.take j ∧
      versionHistory cfg db dbv (some w') = .ok (vs.take (((w.frames.take j).filter Frame.isCommit).length + 1)) := by
  exact Proofs.WalTruncate.truncated_history_success cfg db dbv file w hw vs hv j hj1 hc

/-! ### concrete cuts (the model does not verify frame checksums, so literal files are easy)

A log with 8-byte pages: header (salts 1, 2), then 32-byte frames. -/

private def hdrBytes : List Nat :=
  [0x37, 0x7f, 0x06, 0x82, 0x00, 0x2d, 0xe2, 0x18, 0, 0, 0, 8, 0, 0, 0, 0, 0, 0, 0, 1, 0, 0, 0, 2, 0, 0, 0, 0, 0, 0, 0, 0]
/-- frame for page `p` with size-after-commit field `c` (0 = not a commit frame) -/
private def frameBytes (p c : Nat) : List Nat :=
  [0, 0, 0, p, 0, 0, 0, c, 0, 0, 0, 1, 0, 0, 0, 2, 0, 0, 0, 0, 0, 0, 0, 0] ++ List.replicate 8 p

private def obs (r : Py Wal) : Py (List (Nat × Bool)) := r.map fun w => w.frames.map fun f => (f.hdr.pageNumber, f.isCommit)

/-- two transactions (page 2+3 committed by the second frame, page 4 by the third) … -/
private def walA : Buf := Buf.ofList (hdrBytes ++ frameBytes 2 0 ++ frameBytes 3 3 ++ frameBytes 4 4)

example : obs (openWal none walA) = .ok [(2, false), (3, true), (4, true)] := by decide +kernel
/-- … cut in the middle of the third frame: accepted, the first transaction only -/
example : obs (openWal none (walA.slice 0 (32 + 32 + 32 + 17))) = .ok [(2, false), (3, true)] := by decide +kernel
/-- … cut in the middle of the second (commit) frame: the unfinished transaction is declined
(`NotImplementedError` in sqlite-dissect) -/
example : obs (openWal none (walA.slice 0 (32 + 32 + 5))) = .error .notImplemented := by decide +kernel
/-- … cut inside the first frame: no frame at all, declined (`ValueError`: `max()` of an empty sequence) -/
example : obs (openWal none (walA.slice 0 (32 + 20))) = .error .valueError := by decide +kernel
/-- … cut inside the header: declined -/
example : obs (openWal none (walA.slice 0 31)) = .error .valueError := by decide +kernel

end SqliteDissect.Properties.C05
