/-
C16 — payload overflow split and page-layout arithmetic match SQLite at every size.
-/
import SqliteDissect.Proofs.CellArith

namespace SqliteDissect.Properties.C16
open SqliteDissect SqliteDissect.Model

/-- the two constants computed with float division + int() in the code are SQLite's integer
constants, for every page size the header accepts (≥ 512; any u ≥ 196 works) -/
theorem payload_constants (u : Nat) (hu : 512 ≤ u) :
    payloadConst u 32 = (Spec.minLocal u : Int) ∧ payloadConst u 64 = (Spec.maxLocalIndex u : Int) := by
  exact Proofs.CellArith.payload_constants u hu

/-- table leaf cells: bytes kept on the page, for every page size and every payload size -/
theorem table_local_eq_spec (u : Nat) (hu : 512 ≤ u) (p : Nat) :
    localPayload u ((u : Int) - 35) (p : Int) =
      ((Spec.localSize u (Spec.maxLeaf u) p : Int), decide (Spec.maxLeaf u < p),
        if Spec.maxLeaf u < p then (Spec.minLocal u : Int) else 0) := by
  exact Proofs.CellArith.table_local_eq_spec u hu p

/-- index cells (leaf and interior) -/
theorem index_local_eq_spec (u : Nat) (hu : 512 ≤ u) (p : Nat) :
    localPayload u (payloadConst u 64) (p : Int) =
      ((Spec.localSize u (Spec.maxLocalIndex u) p : Int), decide (Spec.maxLocalIndex u < p),
        if Spec.maxLocalIndex u < p then (Spec.minLocal u : Int) else 0) := by
  exact Proofs.CellArith.index_local_eq_spec u hu p

/-- whenever there is overflow the local part lies between SQLite's minLocal and the limit,
so the code's `bytes_on_first_page < m` rejection never fires on a cell SQLite wrote -/
theorem local_bounds (u : Nat) (hu : 512 ≤ u) (maxLoc : Nat) (hm : Spec.minLocal u ≤ maxLoc) (p : Nat)
    (hp : maxLoc < p) :
    Spec.minLocal u ≤ Spec.localSize u maxLoc p ∧ Spec.localSize u maxLoc p ≤ maxLoc ∧
      Spec.localSize u maxLoc p < p := by
  exact Proofs.CellArith.local_bounds u hu maxLoc hm p hp

/-- `calculate_expected_overflow`: number of overflow pages and fill of the last one -/
theorem overflow_closed_form (u : Nat) (hu : 4 < u) (n : Nat) (hn : 0 < n) :
    calcExpectedOverflow (n : Int) u =
      some (Spec.overflowPages u n, (Spec.lastOverflowFill u n : Int)) := by
  exact Proofs.CellArith.overflow_closed_form u hu n hn

theorem overflow_none (u : Nat) (n : Int) (hn : n ≤ 0) : calcExpectedOverflow n u = some (0, n) := by
  exact Proofs.CellArith.overflow_none u n hn

/-- the last page of a chain is non-empty and not over-full; all pages together hold exactly
the overflow bytes -/
theorem overflow_fill_bounds (u : Nat) (hu : 4 < u) (n : Nat) (hn : 0 < n) :
    0 < Spec.lastOverflowFill u n ∧ Spec.lastOverflowFill u n ≤ u - 4 ∧
      (Spec.overflowPages u n - 1) * (u - 4) + Spec.lastOverflowFill u n = n ∧ 0 < Spec.overflowPages u n := by
  exact Proofs.CellArith.overflow_fill_bounds u hu n hn

/-- a chain the overflow walk accepts is never longer than expected … -/
theorem chain_length_le (v : VersionIf) (hu : 4 < v.pageSize) (first : Nat) (ov : Nat) (ch : List OvflPage)
    (h : parseOverflowChain v first (ov : Int) = .ok ch) :
    0 < ov ∧ 1 ≤ ch.length ∧ ch.length ≤ Spec.overflowPages v.pageSize ov := by
  exact Proofs.CellArith.chain_length_le v hu first ov ch h

/-- … and when it has the expected number of pages (the check every cell constructor makes) all
pages but the last are full, the last one carries SQLite's fill and ends the chain, and the
content lengths add up to the overflow bytes: the payload is reassembled byte for byte -/
theorem chain_shape (v : VersionIf) (hu : 4 < v.pageSize) (first : Nat) (ov : Nat) (ch : List OvflPage)
    (h : parseOverflowChain v first (ov : Int) = .ok ch)
    (hlen : ch.length = Spec.overflowPages v.pageSize ov) :
    ((ch.map fun p => p.contentLength).foldl (· + ·) 0) = ov ∧
      (∀ p ∈ ch.dropLast, p.contentLength = v.pageSize - 4) ∧
      (∀ p, ch.getLast? = some p → p.contentLength = Spec.lastOverflowFill v.pageSize ov ∧ p.next = 0) := by
  exact Proofs.CellArith.chain_shape v hu first ov ch h hlen

/-- the overflow walk needs no fuel beyond the payload bound: RecursionError can only come out
of it if the version interface itself produced one -/
theorem chain_fuel_adequate (v : VersionIf) (hu : 4 < v.pageSize) (first : Nat) (ov : Int)
    (hv : ∀ p, v.pageVersion p ≠ .error .recursionError)
    (ho : ∀ p, v.pageOffset p ≠ .error .recursionError)
    (hd : ∀ p o n, v.getData p o n ≠ .error .recursionError) :
    parseOverflowChain v first ov ≠ .error .recursionError := by
  exact Proofs.CellArith.chain_fuel_adequate v hu first ov hv ho hd

/-- pointer-map pages: positions and entry counts are SQLite's, for every database size -/
theorem ptrmap_eq_spec (D ps : Nat) (hps : 5 ≤ ps) (hD : 3 ≤ D)
    (hlast : (D - 2) % (ps / 5 + 1) ≠ 0) :
    ptrmapPlan D ps = .ok (Spec.ptrmapPages D (ps / 5)) := by
  exact Proofs.CellArith.ptrmap_eq_spec D ps hps hD hlast

/-- a database that would end in a pointer-map page is refused (SQLite never writes one) -/
theorem ptrmap_last_page_refused (D ps : Nat) (hps : 5 ≤ ps) (hD : 2 ≤ D)
    (hlast : (D - 2) % (ps / 5 + 1) = 0) :
    ptrmapPlan D ps = .error .parseError := by
  exact Proofs.CellArith.ptrmap_last_page_refused D ps hps hD hlast

/-- a page is in the plan exactly when SQLite's `ptrmapPageno` maps it to itself -/
theorem ptrmap_iff (D E : Nat) (p n : Nat) (hE : 0 < E) :
    (p, n) ∈ Spec.ptrmapPages D E ↔
      (2 ≤ p ∧ p < D ∧ (p - 2) / (E + 1) * (E + 1) + 2 = p ∧ n = min E (D - p)) := by
  exact Proofs.CellArith.ptrmap_iff D E p n hE

/-! non-vacuity -/
example : localPayload 1024 ((1024 : Int) - 35) 5000 = (920, true, 103) := by decide
example : calcExpectedOverflow 5000 1024 = some (5, 920) := by decide
example : ptrmapPlan 300 512 = .ok [(2, 102), (105, 102), (208, 92)] := by rfl
example : Spec.ptrmapPages 300 102 = [(2, 102), (105, 102), (208, 92)] := by decide

end SqliteDissect.Properties.C16
