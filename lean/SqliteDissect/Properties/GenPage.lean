/-
GenPage — the b-tree page header constructors and the WAL-index header constructors regenerated from
the Python source are the hand-written parsers of `Model/Page.lean` (`parsePageHdr`) and
`Model/WalIndex.lean` (`parseWalIndexSubHeader`, `parseWalIndexCheckpointInfo`, `parseWalIndexHeader`); the
arithmetic of `OverflowPage.__init__` is that of `Model.parseOverflowPage`.

`Generated/PyPage.lean` is rewritten by `harness/translate/pyfun.py` on every run from
`BTreePageHeader.__init__(page, header_length)`, `LeafPageHeader.__init__`, `InteriorPageHeader.__init__`
(file/database/header.py) and `WriteAheadLogIndexSubHeader.__init__(index, bytes)`,
`WriteAheadLogIndexCheckpointInfo.__init__(bytes, endianness)`, `WriteAheadLogIndexHeader.__init__(bytes)`
(file/wal_index/header.py) and `OverflowPage.__init__` (file/database/page.py, without `super().__init__`):
one structure per class holding the attributes the constructor assigns (those of
the base class first) and one function that performs every extraction and every check in source order with the
exception class the code raises (`struct.error`, `TypeError` of `ord`, `ValueError`, `HeaderParsingError`,
`NotImplementedError`, `IndexError`).  Each theorem states, for EVERY buffer (and every header length /
index / endianness argument), that the generated constructor returns exactly what the model parser returns:
the same exception class when either fails, and otherwise the same value in every attribute (`castBTree`,
`castLeaf`, `castInterior`, `castSub`, `castCk`, `castHdr` of Proofs/GenPage.lean spell out which model field is
which attribute).  md5 is the identity on both sides (`pyMd5`): a `…md5_hex_digest` attribute is the byte string
the code hashes.  Logging and message formatting are dropped.  Changing an offset, an unpack format, the
offset-100 rule, the `0 → 65536` rule, a bound, the order of two checks or an exception class in the Python
source breaks the corresponding theorem on the next run.
-/
import SqliteDissect.Proofs.GenPage

namespace SqliteDissect.Properties.GenPage
open SqliteDissect SqliteDissect.Model SqliteDissect.Generated SqliteDissect.Proofs.GenPage

/-! ### b-tree page headers (file/database/header.py) -/

/-- `BTreePageHeader(page, header_length)` = `parsePageHdr page false` with the given header length (the model
has no parser for the abstract base class: its leaf parser is read with `header_length`, which only enters the
attribute of that name and the md5 input `page[offset:header_length]`) -/
theorem btree_page_header_eq (page : Buf) (header_length : Int) :
    PyPage.BTreePageHeader.init page header_length =
      castBTreeR page header_length (parsePageHdr page false) := by
  exact Proofs.GenPage.btree_eq page header_length

/-- `LeafPageHeader(page)` = `parsePageHdr page false` -/
theorem leaf_page_header_eq (page : Buf) :
    PyPage.LeafPageHeader.init page = castLeafR page (parsePageHdr page false) := by
  exact Proofs.GenPage.leaf_eq page

/-- `InteriorPageHeader(page)` = `parsePageHdr page true` (the right-most pointer is read after the base
constructor has finished, at `offset + 8`) -/
theorem interior_page_header_eq (page : Buf) :
    PyPage.InteriorPageHeader.init page = castInteriorR page (parsePageHdr page true) := by
  exact Proofs.GenPage.interior_eq page

/-- what the source says about the header digest of page 1: the hashed slice is `page[100:8]`, which is empty
(the code writes `page[self.offset : self.header_length]`, not `… : self.offset + self.header_length`) -/
theorem root_page_header_md5_input_empty (page : Buf) (r : PyPage.LeafPageHeader)
    (h : PyPage.LeafPageHeader.init page = .ok r) (hc : r.contains_sqlite_database_header = true) :
    r.md5_hex_digest = [] := by
  exact Proofs.GenPage.root_md5_empty page r h hc

/-! ### WAL-index headers (file/wal_index/header.py) -/

/-- `WriteAheadLogIndexSubHeader(index, bytes)` = `parseWalIndexSubHeader index bytes` for every index ≥ 0 -/
theorem wal_index_sub_header_eq (index : Nat) (b : Buf) :
    PyPage.WriteAheadLogIndexSubHeader.init (index : Int) b =
      castSubR b.toList (parseWalIndexSubHeader index b) := by
  exact Proofs.GenPage.sub_eq index b

/-- … and a `ValueError` before anything is read for every index < 0 (the model's index is a natural number) -/
theorem wal_index_sub_header_negative_index (index : Int) (hi : index < 0) (b : Buf) :
    PyPage.WriteAheadLogIndexSubHeader.init index b = .error .valueError := by
  exact Proofs.GenPage.sub_neg index hi b

/-- `WriteAheadLogIndexCheckpointInfo(bytes, endianness)` = `parseWalIndexCheckpointInfo bytes bigEndian`, the
endianness argument being the member of `ENDIANNESS` the model's flag stands for -/
theorem wal_index_checkpoint_info_eq (b : Buf) (bigEndian : Bool) :
    PyPage.WriteAheadLogIndexCheckpointInfo.init b (endName bigEndian) =
      castCkR b.toList (parseWalIndexCheckpointInfo b bigEndian) := by
  exact Proofs.GenPage.ck_eq b bigEndian

/-- `WriteAheadLogIndexHeader(bytes)` = `parseWalIndexHeader bytes` (both sub-headers, the checkpoint info with
the endianness of the first sub-header, the lock bytes, the md5 input) -/
theorem wal_index_header_eq (b : Buf) :
    PyPage.WriteAheadLogIndexHeader.init b = castHdrR b (parseWalIndexHeader b) := by
  exact Proofs.GenPage.hdr_eq b

/-! ### OverflowPage (file/database/page.py) -/

/-- `OverflowPage(version_interface, number, parent_cell_page_number, parent_overflow_page_number, index,
payload_remaining)`: `Page.__init__` is not translated — the model's two calls of the version interface
(`get_page_version`, `get_page_offset`) stand for it; what follows it in the constructor, regenerated as a function
of `self.size` (= the page size) and of the outcome of `get_page_data(number)`, gives the model's result: the same
exception class (`PageParsingError` before the page is read when nothing remains, the exception of
`get_page_data`, `struct.error` on a short page, `PageParsingError` for a next pointer on the last page) and
otherwise the same next pointer and content length (`castOvfl`), for every version interface, page number,
remaining payload and parent / index arguments (which only enter the attributes of their names) -/
theorem overflow_page_eq (v : VersionIf) (number : Nat) (remaining parentCell parentOverflow index : Int) :
    parseOverflowPage v number remaining = (do
      let pv ← v.pageVersion number
      let _ ← v.pageOffset number
      let r ← PyPage.OverflowPage.init parentCell parentOverflow index remaining (v.getData number 0 none)
        (v.pageSize : Int)
      pure (castOvfl number pv r)) := by
  exact Proofs.GenPage.overflow_eq v number remaining parentCell parentOverflow index

/-! ### non-vacuity: the generated constructors accept and reject -/

example : PyPage.OverflowPage.init 3 5 2 0 (.ok (Buf.ofList [0, 0, 0, 0, 1, 2, 3, 4])) 8 = .error .parseError := by rfl
example : PyPage.OverflowPage.init 3 5 2 4 (.error .valueError) 8 = .error .valueError := by rfl
example : PyPage.OverflowPage.init 3 5 2 4 (.ok (Buf.ofList [0, 0, 0])) 8 = .error .structError := by rfl
example : PyPage.OverflowPage.init 3 5 2 4 (.ok (Buf.ofList [0, 0, 0, 9, 1, 2, 3, 4])) 8 = .error .parseError := by rfl
example : (PyPage.OverflowPage.init 3 5 2 3 (.ok (Buf.ofList [0, 0, 0, 0, 1, 2, 3, 4])) 8).map
    (fun r => (r.page_type, r.index, r.next_overflow_page_number, r.unallocated_space_start_offset,
      r.unallocated_space_end_offset)) = .ok (['O', 'V', 'E', 'R', 'F', 'L', 'O', 'W'], 2, 0, 7, 8) := by rfl
example : (PyPage.OverflowPage.init 3 5 2 5 (.ok (Buf.ofList [0, 0, 0, 9, 1, 2, 3, 4])) 8).map
    (fun r => (r.next_overflow_page_number, r.unallocated_space_start_offset)) = .ok (9, 8) := by rfl

example : PyPage.LeafPageHeader.init (Buf.ofList []) = .error .structError := by rfl
example : PyPage.LeafPageHeader.init (Buf.ofList [13, 0, 0, 0, 3, 0, 0]) = .error .typeError := by rfl
example : (PyPage.LeafPageHeader.init (Buf.ofList [13, 0, 0, 0, 3, 0, 0, 2])).map
    (fun r => (r.offset, r.number_of_cells_on_page, r.cell_content_offset, r.number_of_fragmented_free_bytes,
      r.root_page_only_md5_hex_digest, r.md5_hex_digest)) =
      .ok (0, 3, 65536, 2, none, [13, 0, 0, 0, 3, 0, 0, 2]) := by rfl
example : (PyPage.LeafPageHeader.init (Buf.ofList (83 :: List.replicate 99 0 ++ [13, 0, 0, 0, 3, 15, 240, 2, 7]))).map
    (fun r => (r.offset, r.contains_sqlite_database_header, r.page_type, r.cell_content_offset,
      r.root_page_only_md5_hex_digest, r.md5_hex_digest)) =
      .ok (100, true, [13], 4080, some [13, 0, 0, 0, 3, 15, 240, 2, 7], []) := by rfl
example : PyPage.InteriorPageHeader.init (Buf.ofList [5, 0, 0, 0, 1, 0, 0, 0]) = .error .structError := by rfl
example : (PyPage.InteriorPageHeader.init (Buf.ofList [5, 0, 0, 0, 1, 0, 0, 0, 0, 0, 1, 7])).map
    (fun r => (r.header_length, r.right_most_pointer)) = .ok (12, 263) := by rfl
example : (PyPage.BTreePageHeader.init (Buf.ofList [5, 0, 0, 0, 1, 0, 0, 0, 9]) (-1)).map (·.md5_hex_digest) =
    .ok [5, 0, 0, 0, 1, 0, 0, 0] := by rfl

example : PyPage.WriteAheadLogIndexSubHeader.init 0 (Buf.ofList (List.replicate 47 0)) = .error .valueError := by rfl
example : PyPage.WriteAheadLogIndexSubHeader.init 3 (Buf.ofList (List.replicate 48 0)) = .error .valueError := by rfl
example : PyPage.WriteAheadLogIndexSubHeader.init 2 (Buf.ofList (List.replicate 48 0)) = .error .parseError := by rfl
example : PyPage.WriteAheadLogIndexSubHeader.init 0 (Buf.ofList ([0, 0x2D, 0xE2, 0x18] ++ List.replicate 44 0)) =
    .error .notImplemented := by rfl
example : (PyPage.WriteAheadLogIndexSubHeader.init 1 (Buf.ofList ([0x18, 0xE2, 0x2D, 0] ++ List.replicate 10 0 ++
    [0, 0x10] ++ List.replicate 32 0))).map (fun r => (r.index, r.endianness, r.page_size)) =
      .ok (1, endName false, 4096) := by rfl
example : PyPage.WriteAheadLogIndexCheckpointInfo.init (Buf.ofList (List.replicate 23 0)) (endName false) =
    .error .valueError := by rfl
example : (PyPage.WriteAheadLogIndexCheckpointInfo.init (Buf.ofList ([9, 0, 0, 0] ++ [0, 0, 0, 0] ++
    [255, 255, 255, 255] ++ [3, 0, 0, 0] ++ [4, 0, 0, 0] ++ [0, 0, 0, 128])) (endName false)).map
      (fun r => (r.number_of_frames_backfilled_in_database, r.reader_marks)) =
      .ok (9, [0, 4294967295, 3, 4, 2147483648]) := by rfl
example : PyPage.WriteAheadLogIndexHeader.init (Buf.ofList (List.replicate 135 0)) = .error .valueError := by
  decide +kernel
example : PyPage.WriteAheadLogIndexHeader.init (Buf.ofList (List.replicate 136 0)) = .error .parseError := by
  decide +kernel
example : (PyPage.WriteAheadLogIndexHeader.init (Buf.ofList (
    ([0x18, 0xE2, 0x2D, 0] ++ List.replicate 10 0 ++ [0, 0x10] ++ List.replicate 32 0) ++
    ([0x18, 0xE2, 0x2D, 0] ++ List.replicate 10 0 ++ [0, 0x10] ++ List.replicate 32 0) ++
    List.replicate 24 1 ++ List.replicate 16 2))).map
      (fun r => (r.page_size, r.endianness, r.sub_headers.length, r.checkpoint_info.reader_marks.length,
        r.lock_reserved)) =
      .ok (4096, endName false, 2, 5, List.replicate 16 2) := by decide +kernel

end SqliteDissect.Properties.GenPage
