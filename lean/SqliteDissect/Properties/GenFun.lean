/-
GenFun — the functions regenerated from the Python source are the hand-written model functions.

`Generated/PyFun.lean` is rewritten by `harness/translate/pyfun.py` from the *current*
sqlite_dissect sources on every run (meaning of the Python operations: `PyPrelude.lean`).  Each
theorem below states that one generated function equals, for ALL arguments, the model function the
property theorems (C01, C08, C09, C15, C16 …) are about; a semantic change of the Python function
changes the generated definition and breaks the corresponding proof on the next run.

Shapes.  The generated code computes in `Int`; the models use `Nat` where a value cannot be
negative and sometimes bundle results differently.  The readings are spelled out by the `cast*`
functions of `Proofs/GenFun.lean`:
  `castN`, `castNN`, `castIN`  — `Nat` components read as `Int`;
  `castOvfl`                   — `calcExpectedOverflow`'s `none` is Python's ZeroDivisionError;
  `castPat`                    — a model regex pattern is compared through its printed bytes;
  `castLocal (b, ov, m)`       — the constructors' `bytes_on_first_page < m` rejection, then `(b, ov)`.
Fuel.  A generated function that contains a `while` loop takes a first argument `fuel : Nat`
(out of fuel = `.error .outsideModel`); the theorems hold for every fuel above the stated bound
(`offset ≤ fuel` for decode_varint_in_reverse, `9 ≤ fuel` for encode_varint, `len < fuel` for
calculate_body_content_size) and the bounds are
sharp (examples).  `for … in range` loops carry their exact fuel themselves.
-/
import SqliteDissect.Proofs.GenFun

namespace SqliteDissect.Properties.GenFun
open SqliteDissect SqliteDissect.Model SqliteDissect.Generated SqliteDissect.Proofs.GenFun

/-! ### sqlite_dissect/utilities.py -/

/-- `decode_varint(byte_array, offset)` for every buffer and every offset `≥ 0` -/
theorem decode_varint_eq (b : Buf) (off : Nat) :
    PyFun.decode_varint b (off : Int) = castIN (decodeVarint b off) := by
  exact Proofs.GenFun.decode_varint_eq b off

/-- … and for every integer offset (negative offsets wrap as Python slices do): the Page model's
`decodeVarintI` -/
theorem decode_varint_eq_int (b : Buf) (off : Int) :
    PyFun.decode_varint b off = castIN (decodeVarintI b off) := by
  exact Proofs.GenFun.decode_varint_eq_int b off

/-- `encode_varint(value)` for every integer, with any fuel `≥ 9` for its `while value:` loop -/
theorem encode_varint_eq (fuel : Nat) (hf : 9 ≤ fuel) (value : Int) :
    PyFun.encode_varint fuel value = encodeVarint value := by
  exact Proofs.GenFun.encode_varint_eq fuel hf value

/-- `get_serial_type_signature(serial_type)` (total: never raises) -/
theorem get_serial_type_signature_eq (st : Int) :
    PyFun.get_serial_type_signature st = .ok (serialTypeSignature st) := by
  exact Proofs.GenFun.get_serial_type_signature_eq st

/-- `calculate_expected_overflow(overflow_byte_size, page_size)` wherever the model is defined
(`n ≤ 0`, or a page size `≥ 4`; at exactly 4 both sides are the division by zero) -/
theorem calculate_expected_overflow_eq (n : Int) (ps : Nat) (h : n ≤ 0 ∨ 4 ≤ ps) :
    PyFun.calculate_expected_overflow n ps = castOvfl (calcExpectedOverflow n ps) := by
  exact Proofs.GenFun.calculate_expected_overflow_eq n ps h

/-- `get_record_content(serial_type, record_body, offset)` for every serial type, body and offset `≥ 0`: sizes,
the 1/2/4/8-byte two's-complement integers, the zero-padded 3- and 6-byte integers with their sign fix, doubles as
their 64-bit pattern, the constants 8/9, the reserved 10/11, blob and text slices (`castVal` forgets the
blob/text distinction: both are `bytes` at this level) -/
theorem get_record_content_eq (st : Int) (body : Buf) (off : Nat) :
    PyFun.get_record_content st body (off : Int) = castRec (getRecordContent st body off) := by
  exact Proofs.GenFun.get_record_content_eq st body off

/-! ### sqlite_dissect/carving/utilities.py -/

/-- `calculate_body_content_size(serial_type_header)` with any fuel above the header length for its `while` loop
(every iteration consumes at least one byte: `decodeVarint_pos`) -/
theorem calculate_body_content_size_eq (hdr : Buf) (fuel : Nat) (hf : hdr.size < fuel) :
    PyFun.calculate_body_content_size fuel hdr = castN (calcBodyContentSize hdr) := by
  exact Proofs.GenFun.calculate_body_content_size_eq hdr fuel hf

/-- `get_content_size(serial_type)` for every integer (the blob branch returns a float of the same
value in Python: `pyFloatAsInt`) -/
theorem get_content_size_eq (st : Int) :
    PyFun.get_content_size st = castN (getContentSize st) := by
  exact Proofs.GenFun.get_content_size_eq st

/-- `decode_varint_in_reverse(byte_array, offset, max_varint_length)` for every buffer, offset and
limit, with any fuel `≥ offset` for its `while` loop -/
theorem decode_varint_in_reverse_eq (b : Buf) (offset max fuel : Nat) (hf : offset ≤ fuel) :
    PyFun.decode_varint_in_reverse fuel b (offset : Int) (max : Int) =
      castNN (decodeVarintRev b offset max) := by
  exact Proofs.GenFun.decode_varint_in_reverse_eq b offset max fuel hf

/-- `generate_regex_for_simplified_serial_type`: the byte strings of the table are the printed
patterns of `Regex.genSimplified`, for every integer -/
theorem generate_regex_for_simplified_serial_type_eq (t : Int) :
    PyFun.generate_regex_for_simplified_serial_type t = castPat (Regex.genSimplified t) := by
  exact Proofs.GenFun.regex_eq t

/-! ### local payload arithmetic of the cell constructors (sqlite_dissect/file/database/page.py) -/

/-- `TableLeafCell.__init__`: `localPayload` with the limit `u - 35`, every page size above 4 and
every (also negative) payload size -/
theorem tableLeafLocal_eq (u : Nat) (hu : 4 < u) (p : Int) :
    PyFun.tableLeafLocal u p = castLocal (localPayload u ((u : Int) - 35) p) := by
  exact Proofs.GenFun.tableLeafLocal_eq u hu p

/-- `IndexLeafCell.__init__`: `localPayload` with the limit `payloadConst u 64` -/
theorem indexLeafLocal_eq (u : Nat) (hu : 4 < u) (p : Int) :
    PyFun.indexLeafLocal u p = castLocal (localPayload u (payloadConst u 64) p) := by
  exact Proofs.GenFun.indexLeafLocal_eq u hu p

/-- `IndexInteriorCell.__init__` -/
theorem indexInteriorLocal_eq (u : Nat) (hu : 4 < u) (p : Int) :
    PyFun.indexInteriorLocal u p = castLocal (localPayload u (payloadConst u 64) p) := by
  exact Proofs.GenFun.indexInteriorLocal_eq u hu p

/-! ### where the hypotheses are needed: the hand-written models differ from the code there -/

/-- page size 4: Python divides by zero (`% (u - 4)`), `localPayload` computes on (Lean's `x % 0 = x`) -/
theorem tableLeafLocal_differs_at_4 :
    PyFun.tableLeafLocal 4 100 = .error .zeroDivision ∧
      castLocal (localPayload 4 ((4 : Int) - 35) 100) = .ok (-24, true) := by
  exact ⟨rfl, rfl⟩

/-- page size below 4: `%` by a negative number has Python's sign in the code and is non-negative
in `localPayload` (unreachable: the header check demands a page size ≥ 512) -/
theorem indexLeafLocal_differs_below_4 :
    PyFun.indexLeafLocal 0 (-23) = .error .parseError ∧
      castLocal (localPayload 0 (payloadConst 0 64) (-23)) = .ok (-24, true) := by
  exact ⟨rfl, rfl⟩

/-- page size below 4 with overflow: the code returns a (meaningless) pair, the model has `none` -/
theorem calculate_expected_overflow_differs_below_4 :
    PyFun.calculate_expected_overflow 1 3 = .ok (-1, -1) ∧ calcExpectedOverflow 1 3 = none := by
  exact ⟨rfl, rfl⟩

/-! ### non-vacuity and sharpness of the fuel bounds -/

example : PyFun.decode_varint (Buf.ofList [0x81, 0x82, 0x03]) 0 = .ok (16643, 3) := by rfl
example : PyFun.decode_varint (Buf.ofList [0x81, 0x82, 0x03]) (-1) = .error .typeError := by rfl
example : PyFun.decode_varint_in_reverse 3 (Buf.ofList [0x81, 0x82, 0x03]) 3 9 = .ok (16643, 0) := by rfl
example : PyFun.decode_varint_in_reverse 2 (Buf.ofList [0x81, 0x82, 0x03]) 3 9 = .error .outsideModel := by rfl
example : PyFun.encode_varint 9 72057594037927935 = .ok [255, 255, 255, 255, 255, 255, 255, 127] := by rfl
example : PyFun.encode_varint 8 72057594037927935 = .error .outsideModel := by rfl
example : PyFun.encode_varint 0 (-1) = .ok [255, 255, 255, 255, 255, 255, 255, 255, 255] := by rfl
example : PyFun.tableLeafLocal 512 1000 = .ok (39, true) := by rfl
example : PyFun.indexInteriorLocal 512 102 = .ok (102, false) := by rfl
example : PyFun.indexLeafLocal 512 103 = .ok (39, true) := by rfl
example : PyFun.calculate_expected_overflow 1017 512 = .ok (3, 1) := by rfl
example : PyFun.calculate_expected_overflow 1 4 = .error .zeroDivision := by rfl
example : PyFun.get_record_content 3 (Buf.ofList [0xFF, 0xFF, 0xFE]) 0 = .ok (3, .int (-2)) := by rfl
example : PyFun.get_record_content 2 (Buf.ofList [0xFF]) 0 = .error .structError := by rfl
example : PyFun.get_record_content 17 (Buf.ofList [1, 2, 3]) 1 = .ok (2, .bytes [2, 3]) := by rfl
example : PyFun.calculate_body_content_size 4 (Buf.ofList [1, 6, 17]) = .ok 11 := by rfl
example : PyFun.calculate_body_content_size 3 (Buf.ofList [1, 6, 17]) = .error .outsideModel := by rfl
example : PyFun.get_content_size 23 = .ok 5 := by rfl
example : PyFun.get_content_size 10 = .error .valueError := by rfl
example : PyFun.generate_regex_for_simplified_serial_type 7 = .ok [7] := by rfl

end SqliteDissect.Properties.GenFun
