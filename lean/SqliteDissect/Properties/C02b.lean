/-
C02 (composition) — through the whole VersionHistory fold: version k's page→frame index is the
latest frame among the first k commit records, its page→version index the last record that wrote
the page (0 = database file), and its page reads go exactly there.
-/
import SqliteDissect.Proofs.WalHistory

namespace SqliteDissect.Properties.C02b
open SqliteDissect SqliteDissect.Model

/-- what `WriteAheadLogCommitRecord.__init__` leaves in the indices and which interface it serves -/
theorem commit_record_indices (cfg : Config) (dbv : VersionIf) (wal : Wal) (number : Nat) (frames : List Frame)
    (prev : Version) (lastHdr : DbHeader) (lastSchema : MasterSchema) (lastRoot : List BPage) (enc : Nat)
    (ver : Version) (v : VersionIf)
    (h : makeCommitRecord cfg dbv wal number frames prev lastHdr lastSchema lastRoot enc = .ok (ver, v)) :
    ∃ fd csize, recordFrames frames = .ok (fd, true, csize) ∧ ver.number = number ∧ ver.dbSize = csize ∧
      ver.updated = fd.map (·.1) ∧
      ver.pvi = nextPvi prev.pvi number (fd.map (·.1)) ∧ ver.pfi = nextPfi prev.pfi fd ∧
      v = walVersionIf cfg.strict dbv wal number csize ver.pvi ver.pfi (fd.map (·.1)) := by
  exact Proofs.WalHistory.commit_record_indices cfg dbv wal number frames prev lastHdr lastSchema lastRoot enc ver v h

/-- every version of an accepted history: numbering, and both indices as SQLite defines them -/
theorem history_indices (cfg : Config) (db : Database) (dbv : VersionIf) (w : Wal)
    (vs : List (Version × VersionIf)) (h : versionHistory cfg db dbv (some w) = .ok vs) :
    vs.length = (groupFrames w.frames [] []).1.length + 1 ∧
    ∀ (k : Nat) (ver : Version) (v : VersionIf), vs[k]? = some (ver, v) →
      ver.number = k ∧
      ∀ p : Nat,
        dictGet? ver.pfi p = Spec.latestFrame (((groupFrames w.frames [] []).1.take k).flatten) p ∧
        dictGet? ver.pvi p =
          (match Spec.latestTxn ((groupFrames w.frames [] []).1.take k) p with
           | some j => some j
           | none => dictGet? (versionOfDatabase db).pvi p) := by
  exact Proofs.WalHistory.history_indices cfg db dbv w vs h

/-- where a commit record reads page `p` from: the database file when no record up to this one
wrote it, otherwise the page image of the indexed frame in the WAL file -/
theorem wal_page_source (strict : Bool) (dbv : VersionIf) (wal : Wal) (number dbSize : Nat)
    (pvi pfi : List (Nat × Nat)) (own : List Nat) (p : Nat)
    (hps : 0 < wal.hdr.pageSize) (hp : 1 ≤ p ∧ p ≤ dbSize)
    (hf : ∀ q f, dictGet? pfi q = some f → 1 ≤ f) :
    (walVersionIf strict dbv wal number dbSize pvi pfi own).getData p 0 none =
      match dictGet? pvi p with
      | none => .error .keyError
      | some 0 => dbv.getData p 0 none
      | some (k + 1) =>
        if k + 1 = number ∧ ¬ own.contains p then .error .parseError
        else match dictGet? pfi p with
          | none => .error .keyError
          | some f => wal.fh.read (Spec.frameImageOffset wal.hdr.pageSize f) wal.hdr.pageSize := by
  exact Proofs.WalHistory.wal_page_source strict dbv wal number dbSize pvi pfi own p hps hp hf

/-- frame numbers stored in the index are 1-based frame numbers of frames of the log -/
theorem pfi_values_are_frame_numbers (gs : List (List Frame)) (p f : Nat)
    (h : Spec.latestFrame gs.flatten p = some f) : ∃ fr ∈ gs.flatten, fr.hdr.pageNumber = p ∧ f = fr.index + 1 := by
  exact Proofs.WalHistory.pfi_values_are_frame_numbers gs p f h

end SqliteDissect.Properties.C02b
