/-
C01 / C14 / C16 — any cell SQLite can write is parsed and its payload reassembled byte for byte
(cell level: composes the varint codec (C15), the payload split and chain shape (C16) and the
record parser (C01)).
-/
import SqliteDissect.Proofs.CellParse

namespace SqliteDissect.Properties.C01Cell
open SqliteDissect SqliteDissect.Model

/-- the column the model reports for a stored column (same as Properties.C01.expectedCol) -/
def expectedCol (c : Spec.Col) : RecordCol :=
  ⟨c.st, Spec.varintLen (Spec.toU64 c.st), c.content.length, (Spec.serialGet c.st c.content).getD .null⟩

/-- A table-leaf cell written by SQLite anywhere in a page (`pre`/`post` arbitrary), with its
overflow chain laid out in the pages `pgs` of the same version, is parsed to exactly its
rowid, payload size, local size, overflow page list and record; the digest covers the on-page
bytes and the overflow content.  (That the pages of `pgs` are pairwise distinct need not be
assumed: it follows from `ChainLaidOut`, see `chain_pages_distinct`.) -/
theorem table_leaf_cell_roundtrip (v : VersionIf) (hu : 512 ≤ v.pageSize)
    (cols : List Spec.Col) (hv : ∀ c ∈ cols, Spec.ValidCol c)
    (hn : (Spec.typeBytes cols).length + 3 < 2 ^ 21)
    (rowid : Int) (hr1 : -(2 ^ 63 : Int) ≤ rowid) (hr2 : rowid < (2 ^ 63 : Int))
    (hp : (Spec.encodeRecord cols).length < 2 ^ 63)
    (pgs : List Nat) (hpg : ∀ p ∈ pgs, p < 2 ^ 32)
    (pre post : List Nat) (index : Nat)
    (hchain : Spec.ChainLaidOut v pgs ((Spec.encodeRecord cols).drop
        (Spec.localSize v.pageSize (Spec.maxLeaf v.pageSize) (Spec.encodeRecord cols).length))) :
    ∃ c, parseCellLocal v .tableLeaf
          (Buf.ofList (pre ++ Spec.writeTableLeafCell v.pageSize rowid (Spec.encodeRecord cols) (pgs.headD 0) ++ post))
          index pre.length = .ok c ∧
      c.rowid = some rowid ∧
      c.payloadSize = some ((Spec.encodeRecord cols).length : Int) ∧
      c.bytesOnFirst = some (Spec.localSize v.pageSize (Spec.maxLeaf v.pageSize) (Spec.encodeRecord cols).length : Int) ∧
      c.overflowPages.map (·.number) = pgs ∧
      c.start = pre.length ∧
      c.end_ = ((pre.length + (Spec.writeTableLeafCell v.pageSize rowid (Spec.encodeRecord cols) (pgs.headD 0)).length : Nat) : Int) ∧
      (∃ r, c.record = some r ∧ r.cols = cols.map expectedCol ∧ r.content = Spec.encodeRecord cols) ∧
      c.digest = Spec.writeTableLeafCell v.pageSize rowid (Spec.encodeRecord cols) (pgs.headD 0) ++
        (Spec.encodeRecord cols).drop (Spec.localSize v.pageSize (Spec.maxLeaf v.pageSize) (Spec.encodeRecord cols).length) := by
  exact Proofs.CellParse.table_leaf_cell_roundtrip v hu cols hv hn rowid hr1 hr2 hp pgs hpg pre post index hchain

/-- the same for index leaf cells (index entries, WITHOUT ROWID rows) -/
theorem index_leaf_cell_roundtrip (v : VersionIf) (hu : 512 ≤ v.pageSize)
    (cols : List Spec.Col) (hv : ∀ c ∈ cols, Spec.ValidCol c)
    (hn : (Spec.typeBytes cols).length + 3 < 2 ^ 21)
    (hp : (Spec.encodeRecord cols).length < 2 ^ 63)
    (pgs : List Nat) (hpg : ∀ p ∈ pgs, p < 2 ^ 32)
    (pre post : List Nat) (index : Nat)
    (hchain : Spec.ChainLaidOut v pgs ((Spec.encodeRecord cols).drop
        (Spec.localSize v.pageSize (Spec.maxLocalIndex v.pageSize) (Spec.encodeRecord cols).length))) :
    ∃ c, parseCellLocal v .indexLeaf
          (Buf.ofList (pre ++ Spec.writeIndexLeafCell v.pageSize (Spec.encodeRecord cols) (pgs.headD 0) ++ post))
          index pre.length = .ok c ∧
      c.rowid = none ∧
      c.payloadSize = some ((Spec.encodeRecord cols).length : Int) ∧
      c.bytesOnFirst = some (Spec.localSize v.pageSize (Spec.maxLocalIndex v.pageSize) (Spec.encodeRecord cols).length : Int) ∧
      c.overflowPages.map (·.number) = pgs ∧
      c.start = pre.length ∧
      c.end_ = ((pre.length + (Spec.writeIndexLeafCell v.pageSize (Spec.encodeRecord cols) (pgs.headD 0)).length : Nat) : Int) ∧
      (∃ r, c.record = some r ∧ r.cols = cols.map expectedCol ∧ r.content = Spec.encodeRecord cols) ∧
      c.digest = Spec.writeIndexLeafCell v.pageSize (Spec.encodeRecord cols) (pgs.headD 0) ++
        (Spec.encodeRecord cols).drop (Spec.localSize v.pageSize (Spec.maxLocalIndex v.pageSize) (Spec.encodeRecord cols).length) := by
  exact Proofs.CellParse.index_leaf_cell_roundtrip v hu cols hv hn hp pgs hpg pre post index hchain

/-- an overflow chain laid out as SQLite does (every page holds the number of the next one, the
last page holds 0) necessarily runs through pairwise distinct pages -/
theorem chain_pages_distinct (v : VersionIf) (pgs rest : List Nat)
    (hchain : Spec.ChainLaidOut v pgs rest) (hpg : ∀ p ∈ pgs, p < 2 ^ 32) : pgs.Nodup := by
  exact Proofs.CellChain.laid_nodup v pgs rest hchain hpg

/-- a laid-out chain has exactly the number of pages `Spec.overflowPages` predicts -/
theorem chain_page_count (v : VersionIf) (hu : 4 < v.pageSize) (pgs rest : List Nat)
    (hchain : Spec.ChainLaidOut v pgs rest) :
    pgs.length = Spec.overflowPages v.pageSize rest.length := by
  exact Proofs.CellChain.laid_length v hu pgs rest hchain

end SqliteDissect.Properties.C01Cell
