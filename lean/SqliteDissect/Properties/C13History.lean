/-
C13 for WAL histories — the versions `VersionHistory` returns for a database file and its
write-ahead log do not depend on how the parser is configured: `store_in_memory` (the eager parse
of everything in every commit record), `strict_format_checking` (on accepted input), and the file
size handed to the WAL file handle.  `Properties/C13.lean` has the same for the database file alone.
-/
import SqliteDissect.Proofs.ConfigHistory
import SqliteDissect.Proofs.CommitSchemaDemo

namespace SqliteDissect.Properties.C13History
open SqliteDissect SqliteDissect.Model

/-- `store_in_memory` only adds the page census at the end of `WriteAheadLogCommitRecord.__init__`:
a commit record the in-memory configuration accepts is accepted on demand, with the same result -/
theorem commit_record_store_in_memory_irrelevant (cfg : Config) (dbv : VersionIf) (w : Wal) (number : Nat)
    (frames : List Frame) (prev : Version) (lh : DbHeader) (ls : MasterSchema) (lrt : List BPage) (enc : Nat)
    (r : Version × VersionIf)
    (h : makeCommitRecord { cfg with storeInMemory := true } dbv w number frames prev lh ls lrt enc = .ok r) :
    makeCommitRecord { cfg with storeInMemory := false } dbv w number frames prev lh ls lrt enc = .ok r := by
  exact Proofs.ConfigHistory.makeCommitRecord_sim cfg dbv w number frames prev lh ls lrt enc r h

/-- **storeInMemory.**  Whatever history the in-memory configuration returns, the on-demand
configuration returns too: the same list of versions — the same `Version` records and the same
page-access interfaces (neither carries the flag) -/
theorem history_store_in_memory_irrelevant (cfg : Config) (db : Database) (dbv : VersionIf) (wal : Option Wal)
    (vs : List (Version × VersionIf))
    (h : versionHistory { cfg with storeInMemory := true } db dbv wal = .ok vs) :
    versionHistory { cfg with storeInMemory := false } db dbv wal = .ok vs := by
  exact Proofs.ConfigHistory.history_store_in_memory_irrelevant cfg db dbv wal vs h

/-- relaxed format checking accepts the commit record strict checking accepted: the same `Version`
record; the interface differs in the `strict` flag only (it is built over the relaxed database
interface) -/
theorem commit_record_strict_irrelevant (cfg : Config) (dbv : VersionIf) (w : Wal) (number : Nat)
    (frames : List Frame) (prev : Version) (lh : DbHeader) (ls : MasterSchema) (lrt : List BPage) (enc : Nat)
    (ver : Version) (v : VersionIf)
    (h : makeCommitRecord { cfg with strict := true } dbv w number frames prev lh ls lrt enc = .ok (ver, v)) :
    makeCommitRecord { cfg with strict := false } { dbv with strict := false } w number frames prev lh ls lrt enc
      = .ok (ver, { v with strict := false }) := by
  exact Proofs.ConfigHistory.makeCommitRecord_strict cfg dbv w number frames prev lh ls lrt enc ver v h

/-- **strict.**  Relaxed format checking does not change an accepted history: the same `Version`
records in the same order; every page-access interface is the strict one with the flag cleared
(`dbv`, the database's interface, is the one `openDatabase` returns under the respective
configuration: `database_strict_irrelevant_named`) -/
theorem history_strict_irrelevant (cfg : Config) (db : Database) (dbv : VersionIf) (wal : Option Wal)
    (vs : List (Version × VersionIf))
    (h : versionHistory { cfg with strict := true } db dbv wal = .ok vs) :
    versionHistory { cfg with strict := false } db { dbv with strict := false } wal
      = .ok (vs.map fun p => (p.1, { p.2 with strict := false })) := by
  exact Proofs.ConfigHistory.history_strict_irrelevant cfg db dbv wal vs h

/-- `C13.database_strict_irrelevant` with the interface named -/
theorem database_strict_irrelevant_named (cfg : Config) (file : Buf) (db : Database) (v : VersionIf)
    (h : openDatabase { cfg with strict := true } file = .ok (db, v)) :
    openDatabase { cfg with strict := false } file = .ok (db, { v with strict := false }) := by
  exact Proofs.ConfigHistory.database_strict_relax cfg file db v h

/-- **given size.**  Supplying the true size of the `-wal` file is the same as not supplying it
(also for an empty file: a given size 0 is "not given", `if file_size:`) -/
theorem wal_given_size_irrelevant (file : Buf) : openWal (some file.size) file = openWal none file := by
  exact Proofs.ConfigHistory.openWal_given_size file

/-- the three constructors in sequence, as `VersionHistory(Database(db), WriteAheadLog(wal))` -/
theorem history_of_files_eq (cfg : Config) (dbFile walFile : Buf) :
    Proofs.ConfigHistory.historyOfFiles cfg dbFile walFile = (do
      let (db, dbv) ← openDatabase cfg dbFile
      let w ← openWal cfg.givenWalSize walFile
      versionHistory cfg db dbv (some w)) := by
  rfl

/-- from the two files: strict ⇒ relaxed -/
theorem files_strict_irrelevant (cfg : Config) (dbFile walFile : Buf) (vs : List (Version × VersionIf))
    (h : Proofs.ConfigHistory.historyOfFiles { cfg with strict := true } dbFile walFile = .ok vs) :
    Proofs.ConfigHistory.historyOfFiles { cfg with strict := false } dbFile walFile
      = .ok (vs.map fun p => (p.1, { p.2 with strict := false })) := by
  exact Proofs.ConfigHistory.historyOfFiles_strict cfg dbFile walFile vs h

/-- from the two files: in memory ⇒ on demand -/
theorem files_store_in_memory_irrelevant (cfg : Config) (dbFile walFile : Buf) (vs : List (Version × VersionIf))
    (h : Proofs.ConfigHistory.historyOfFiles { cfg with storeInMemory := true } dbFile walFile = .ok vs) :
    Proofs.ConfigHistory.historyOfFiles { cfg with storeInMemory := false } dbFile walFile = .ok vs := by
  exact Proofs.ConfigHistory.historyOfFiles_sim cfg dbFile walFile vs h

/-! ### non-vacuity

`Proofs/CommitSchemaDemo.lean`: a 3-page database file (page 1: header + schema leaf with table `x`;
page 2: an empty freelist trunk; page 3: a table leaf) and a log whose single commit frame rewrites
page 1 (change counter, schema cookie, schema leaf with table `t` and a trigger). -/

open Proofs.CommitSchemaDemo in
/-- the pair is accepted under all four combinations of `strict` and `storeInMemory`, with two
versions each (evaluated by the kernel, independently of the theorems) -/
example : observe {} = expected ∧ observe { strict := false } = expected ∧
    observe { storeInMemory := true } = expected ∧
    observe { storeInMemory := true, strict := false } = expected :=
  ⟨observe_default, observe_relaxed, observe_in_memory, observe_in_memory_relaxed⟩

open Proofs.CommitSchemaDemo in
/-- the hypothesis of `history_strict_irrelevant` / `files_strict_irrelevant` holds of the pair … -/
example : ∃ db dbv w vs, openDatabase { ({} : Config) with strict := true } dbFile = .ok (db, dbv) ∧
    openWal none walFile = .ok w ∧
    versionHistory { ({} : Config) with strict := true } db dbv (some w) = .ok vs ∧ vs.length = 2 := by
  obtain ⟨db, dbv, w, a, ver, v, h1, h2, h3, -, -⟩ := demo_history {} observe_default
  exact ⟨db, dbv, w, _, h1, h2, h3, rfl⟩

open Proofs.CommitSchemaDemo in
/-- … and so does the hypothesis of `history_store_in_memory_irrelevant` -/
example : ∃ db dbv w vs, openDatabase { ({} : Config) with storeInMemory := true } dbFile = .ok (db, dbv) ∧
    openWal none walFile = .ok w ∧
    versionHistory { ({} : Config) with storeInMemory := true } db dbv (some w) = .ok vs ∧ vs.length = 2 := by
  obtain ⟨db, dbv, w, a, ver, v, h1, h2, h3, -, -⟩ := demo_history { storeInMemory := true } observe_in_memory
  exact ⟨db, dbv, w, _, h1, h2, h3, rfl⟩

open Proofs.CommitSchemaDemo in
/-- `wal_given_size_irrelevant` on the log of the pair (56 + 512 bytes) -/
example : (openWal (some walFile.size) walFile).isOk = true ∧ (openWal none walFile).isOk = true := by
  decide +kernel

open Proofs.CommitSchemaDemo in
/-- **the converse of the `storeInMemory` theorems is false** (as for the database alone): with
page 2 of the file claimed by nothing, the history is accepted on demand, while the in-memory
configuration — which runs the page census in the constructors — refuses the same two files.  The
result of an *accepted* run does not depend on the flag; whether a damaged file is accepted does. -/
theorem store_in_memory_converse_false :
    (Proofs.ConfigHistory.historyOfFiles {} dbFileLoose walFileLoose).isOk = true ∧
    (Proofs.ConfigHistory.historyOfFiles { storeInMemory := true } dbFileLoose walFileLoose).isOk = false := by
  have h1 := loose_on_demand
  have h2 := loose_in_memory
  unfold observeLoose at h1 h2
  constructor
  · cases h : Proofs.ConfigHistory.historyOfFiles {} dbFileLoose walFileLoose with
    | ok _ => rfl
    | error e => rw [h] at h1; exact nomatch h1
  · cases h : Proofs.ConfigHistory.historyOfFiles { storeInMemory := true } dbFileLoose walFileLoose with
    | ok _ => rw [h] at h2; exact nomatch h2
    | error e => rfl

end SqliteDissect.Properties.C13History
