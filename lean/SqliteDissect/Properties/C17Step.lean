/-
C17 (continued) — "each version's header is SQLite's view after that commit": the header-difference
classification of WriteAheadLogCommitRecord (`_parse_database_header_differences`) accepts exactly
the legal transitions of the database header across one commit (Spec.HeaderStep) and reports which
fields moved.
-/
import SqliteDissect.Proofs.HeaderStep

namespace SqliteDissect.Properties.C17Step
open SqliteDissect SqliteDissect.Model

/-- an unchanged header is accepted with no flag set -/
theorem classify_identical (h : DbHeader) (cs : Nat) (sm : Bool) :
    classifyDifferences h h cs sm = .ok {} := by
  exact Proofs.HeaderStep.classify_identical h cs sm

/-- whatever the classification lets through is no change at all or a legal transition -/
theorem classify_sound (prev next : DbHeader) (cs : Nat) (sm : Bool) (fl : HeaderFlags)
    (h : classifyDifferences prev next cs sm = .ok fl) :
    prev = next ∨ Spec.HeaderStep prev next cs sm := by
  exact Proofs.HeaderStep.classify_sound prev next cs sm fl h

/-- every legal transition between two different headers is accepted (a history SQLite wrote is
never rejected by this check), and the flags say which fields moved -/
theorem classify_accepts (prev next : DbHeader) (cs : Nat) (sm : Bool)
    (hne : prev ≠ next) (hraw : prev.raw ≠ next.raw) (hs : Spec.HeaderStep prev next cs sm) :
    ∃ fl, classifyDifferences prev next cs sm = .ok fl ∧
      fl.changeCounterIncremented = decide (prev.changeCounter ≠ next.changeCounter) ∧
      fl.sizeModified = decide (prev.sizeInPages ≠ next.sizeInPages) ∧
      fl.cookieModified = decide (prev.schemaCookie ≠ next.schemaCookie) ∧
      fl.userVersionModified = decide (prev.userVersion ≠ next.userVersion) ∧
      fl.modFreelistPages = (if prev.freelistPages ≠ next.freelistPages then some next.freelistPages else none) ∧
      fl.modFirstTrunk = (if prev.firstFreelistTrunk ≠ next.firstFreelistTrunk then some next.firstFreelistTrunk else none) ∧
      fl.newEncoding = (if prev.textEncoding ≠ next.textEncoding then some next.textEncoding else none) := by
  exact Proofs.HeaderStep.classify_accepts prev next cs sm hne hraw hs

/-- the executable form of the specification (run on SQLite-written histories) is the specification -/
theorem headerStepB_iff (prev next : DbHeader) (cs : Nat) (sm : Bool) :
    Spec.headerStepB prev next cs sm = true ↔ Spec.HeaderStep prev next cs sm := by
  exact Proofs.HeaderStep.check_iff prev next cs sm

end SqliteDissect.Properties.C17Step
