/-
C06 (census half) — "In every version, each page number from 1 to the database size is
classified exactly once - as an interior or leaf page of exactly one table or index b-tree, an
overflow page of exactly one cell, a freelist trunk or leaf page, a pointer-map page, or part of
the schema b-tree."

`Version.pages` (file/version.py; models `pagesCensus` in Model/Database.lean for the database
file and `versionCensus` in Model/Wal.lean for any version) fills a dictionary page number →
class from four sources, in this order, later assignments overwriting earlier ones:
freelist trunks and leaves, pointer-map pages, schema b-tree pages, pages (overflow included)
of every b-tree named by the schema.  Then it checks `len(pages) == database_size_in_pages` and
that every number 1..size is a key.

What is proved, and what is not:
* `census_keys_*`: an accepted census has exactly the keys 1..N, each once (the "each page number
  … is classified" part; as a *dictionary* it cannot hold a key twice).
* `census_sources_*`: each entry comes from one of the four sources and carries the class of the
  last source listing the page; every listed page is a key.
* `census_exactly_once_*`: if no page is listed twice by the sources, the dictionary is the source
  list itself and has N entries: each page 1..N is listed by exactly one source ("exactly once").
* `census_accepts_iff_pages_covered`, `census_accepts_double_listing_*`: the limit.  The two
  checks look at the set of keys only; a page listed twice (by two sources, by two b-trees, or
  as overflow page of two cells) is *not* detected as long as all of 1..N are listed.  So the
  "exactly once" of the property text is a consequence of the checks only together with the
  disjointness SQLite guarantees for a consistent file; the code does not check it.
-/
import SqliteDissect.Proofs.Census

namespace SqliteDissect.Properties.C06Census
open SqliteDissect SqliteDissect.Model
open SqliteDissect.Proofs.Census (buildDict censusSources censusChecks censusOf witnessDb witnessSources)

/-! ### refactoring: `Version.pages` = build sources; fold; checks -/

/-- `pagesCensus` is: parse the b-trees named by the schema, concatenate the four sources in
insertion order (`censusSources`), fold the dictionary assignment over them (`buildDict`), run
the two checks (`censusChecks`, inside `censusOf`) -/
theorem pagesCensus_refactored (db : Database) (v : VersionIf) (frames : Nat) :
    pagesCensus db v frames
      = censusOf db.dbSize.exact db.dbSize.floor db.freelist db.ptrmap db.schema v frames := by
  exact Proofs.Census.pagesCensus_eq db v frames

/-- the same for any version; the schema is the one the version *observes* (its own, or page 1
re-parsed under the version when the commit record did not modify the schema) -/
theorem versionCensus_refactored (ver : Version) (v : VersionIf) (frames : Nat) :
    versionCensus ver v frames
      = match observedSchema ver v frames with
        | .error e => .error e
        | .ok rs => censusOf ver.sizeExact ver.dbSize ver.freelist ver.ptrmap rs.2 v frames := by
  exact Proofs.Census.versionCensus_eq ver v frames

/-! ### 1. the keys of an accepted census are exactly 1..N, each once -/

/-- database file: every page number from 1 to the database size is classified, nothing else
is, and no number is a key twice -/
theorem census_keys_db (db : Database) (v : VersionIf) (frames : Nat) (d : List (Nat × String))
    (h : pagesCensus db v frames = .ok d) :
    (d.map (·.1)).Nodup ∧ ∀ p, p ∈ d.map (·.1) ↔ (1 ≤ p ∧ p ≤ db.dbSize.floor) := by
  exact Proofs.Census.census_keys_db db v frames d h

/-- any version ("in every version") -/
theorem census_keys_version (ver : Version) (v : VersionIf) (frames : Nat) (d : List (Nat × String))
    (h : versionCensus ver v frames = .ok d) :
    (d.map (·.1)).Nodup ∧ ∀ p, p ∈ d.map (·.1) ↔ (1 ≤ p ∧ p ≤ ver.dbSize) := by
  exact Proofs.Census.census_keys_version ver v frames d h

/-! ### 2. where the classes come from -/

/-- database file: with `sources` the concatenation, in insertion order, of freelist
(trunk, then its leaves, trunk by trunk), pointer-map pages, schema b-tree pages and the pages of
the b-trees in schema order, the accepted census is the dictionary built from `sources`; a page's
class is the one given by the *last* entry of `sources` for that page; every entry of the census
is an entry of `sources` ("an interior or leaf page of a b-tree, an overflow page, a freelist
trunk or leaf page, a pointer-map page, or part of the schema b-tree"); every page listed by a
source is classified.  Also: the size in pages is a whole number. -/
theorem census_sources_db (db : Database) (v : VersionIf) (frames : Nat) (d : List (Nat × String))
    (h : pagesCensus db v frames = .ok d) :
    db.dbSize.exact = true ∧
    ∃ trees, db.schema.rootNumbers.mapM (getBTreeRoot v frames) = .ok trees ∧
      let sources := censusSources db.freelist db.ptrmap db.schema.pages trees
      d = buildDict sources ∧
      (∀ p, dictGet? d p = ((sources.filter (·.1 = p)).getLast?).map (·.2)) ∧
      (∀ p cls, (p, cls) ∈ d ↔ (sources.filter (·.1 = p)).getLast? = some (p, cls)) ∧
      (∀ e ∈ d, e ∈ sources) ∧
      (∀ e ∈ sources, e.1 ∈ d.map (·.1)) := by
  exact Proofs.Census.census_sources_db db v frames d h

/-- any version -/
theorem census_sources_version (ver : Version) (v : VersionIf) (frames : Nat) (d : List (Nat × String))
    (h : versionCensus ver v frames = .ok d) :
    ver.sizeExact = true ∧
    ∃ rt schema trees, observedSchema ver v frames = .ok (rt, schema) ∧
      schema.rootNumbers.mapM (getBTreeRoot v frames) = .ok trees ∧
      let sources := censusSources ver.freelist ver.ptrmap schema.pages trees
      d = buildDict sources ∧
      (∀ p, dictGet? d p = ((sources.filter (·.1 = p)).getLast?).map (·.2)) ∧
      (∀ p cls, (p, cls) ∈ d ↔ (sources.filter (·.1 = p)).getLast? = some (p, cls)) ∧
      (∀ e ∈ d, e ∈ sources) ∧
      (∀ e ∈ sources, e.1 ∈ d.map (·.1)) := by
  exact Proofs.Census.census_sources_version ver v frames d h

/-! ### 3. exactly once, given disjoint sources -/

/-- database file: if no page number is listed twice by the sources (what SQLite guarantees for
a consistent file: a page belongs to one b-tree, or is an overflow page of one cell, or is on
the freelist, or is a pointer-map page), then the sources list exactly N pages, the census is
the source list itself (in particular a permutation of it), and each page 1..N is listed by
exactly one source entry, whose class is the class the census reports -/
theorem census_exactly_once_db (db : Database) (v : VersionIf) (frames : Nat) (d : List (Nat × String))
    (trees : List (List BPage))
    (h : pagesCensus db v frames = .ok d)
    (ht : db.schema.rootNumbers.mapM (getBTreeRoot v frames) = .ok trees)
    (hdis : ((censusSources db.freelist db.ptrmap db.schema.pages trees).map (·.1)).Nodup) :
    let sources := censusSources db.freelist db.ptrmap db.schema.pages trees
    sources.length = db.dbSize.floor ∧ d = sources ∧ d.Perm sources ∧
    ∀ p, 1 ≤ p ∧ p ≤ db.dbSize.floor →
      ∃ cls, sources.filter (·.1 = p) = [(p, cls)] ∧ dictGet? d p = some cls := by
  exact Proofs.Census.census_exactly_once_db db v frames d trees h ht hdis

/-- any version -/
theorem census_exactly_once_version (ver : Version) (v : VersionIf) (frames : Nat) (d : List (Nat × String))
    (rt : List BPage) (schema : MasterSchema) (trees : List (List BPage))
    (h : versionCensus ver v frames = .ok d)
    (hs : observedSchema ver v frames = .ok (rt, schema))
    (ht : schema.rootNumbers.mapM (getBTreeRoot v frames) = .ok trees)
    (hdis : ((censusSources ver.freelist ver.ptrmap schema.pages trees).map (·.1)).Nodup) :
    let sources := censusSources ver.freelist ver.ptrmap schema.pages trees
    sources.length = ver.dbSize ∧ d = sources ∧ d.Perm sources ∧
    ∀ p, 1 ≤ p ∧ p ≤ ver.dbSize →
      ∃ cls, sources.filter (·.1 = p) = [(p, cls)] ∧ dictGet? d p = some cls := by
  exact Proofs.Census.census_exactly_once_version ver v frames d rt schema trees h hs ht hdis

/-! ### 4. the converse limit: what the checks do not detect -/

/-- the two checks accept the dictionary built from a source list iff the *set* of listed page
numbers is exactly {1..N}: multiplicity and classes play no role -/
theorem census_accepts_iff_pages_covered (dbSize : Nat) (sources : List (Nat × String)) :
    censusChecks dbSize (buildDict sources) = true ↔
      ∀ p, p ∈ sources.map (·.1) ↔ (1 ≤ p ∧ p ≤ dbSize) := by
  exact Proofs.Census.checks_iff_keys dbSize sources

/-- witness, abstract: three pages, page 3 listed twice — as FREELIST_LEAF and as OVERFLOW.  The
sources are not disjoint, the checks pass, and the census reports page 3 as OVERFLOW only (the
freelist classification is silently overwritten) -/
theorem census_accepts_double_listing :
    witnessSources = [(2, "FREELIST_TRUNK"), (3, "FREELIST_LEAF"), (1, "TABLE_LEAF"), (3, "OVERFLOW")] ∧
    ¬ (witnessSources.map (·.1)).Nodup ∧
    buildDict witnessSources = [(2, "FREELIST_TRUNK"), (3, "OVERFLOW"), (1, "TABLE_LEAF")] ∧
    censusChecks 3 (buildDict witnessSources) = true ∧
    dictGet? (buildDict witnessSources) 3 = some "OVERFLOW" := by
  exact ⟨rfl, Proofs.Census.witness_pure⟩

/-- witness, in the model: a `Database` value (3 pages; freelist trunk 2 with leaf 3; schema
b-tree = page 1 with an overflow page 3; no other b-trees) whose census is accepted by
`pagesCensus` for every page-access interface, although page 3 is listed twice -/
theorem census_accepts_double_listing_db (v : VersionIf) (frames : Nat) :
    censusSources witnessDb.freelist witnessDb.ptrmap witnessDb.schema.pages [] = witnessSources ∧
    pagesCensus witnessDb v frames = .ok [(2, "FREELIST_TRUNK"), (3, "OVERFLOW"), (1, "TABLE_LEAF")] := by
  exact ⟨Proofs.Census.witness_sources_eq, Proofs.Census.witness_db v frames⟩

/-- … and by `versionCensus` for the base version made from it -/
theorem census_accepts_double_listing_version (v : VersionIf) (frames : Nat) :
    versionCensus (versionOfDatabase witnessDb) v frames
      = .ok [(2, "FREELIST_TRUNK"), (3, "OVERFLOW"), (1, "TABLE_LEAF")] := by
  exact Proofs.Census.witness_version v frames

/-! ### 5. non-vacuity -/

/-- disjoint sources covering 1..3 are accepted, and the census is the source list -/
example :
    let s : List (Nat × String) := [(2, "FREELIST_TRUNK"), (3, "FREELIST_LEAF"), (1, "TABLE_LEAF")]
    (s.map (·.1)).Nodup ∧ censusChecks 3 (buildDict s) = true ∧ buildDict s = s := by decide

/-- a page missing: rejected by the key count -/
example : censusChecks 3 (buildDict [(2, "FREELIST_TRUNK"), (1, "TABLE_LEAF")]) = false := by decide

/-- a page listed twice *and* another one missing: rejected (the count is short) -/
example : censusChecks 3 (buildDict [(2, "FREELIST_TRUNK"), (1, "TABLE_LEAF"), (2, "OVERFLOW")]) = false := by
  decide

/-- right count but a key outside 1..N: rejected by the second check -/
example : censusChecks 3 (buildDict [(2, "FREELIST_TRUNK"), (1, "TABLE_LEAF"), (4, "OVERFLOW")]) = false := by
  decide

/-- the sources of the freelist come trunk first, then its leaves, trunk by trunk -/
example : Proofs.Census.freelistSources [⟨5, 7, [6, 8], 0⟩, ⟨7, 0, [], 0⟩]
    = [(5, "FREELIST_TRUNK"), (6, "FREELIST_LEAF"), (8, "FREELIST_LEAF"), (7, "FREELIST_TRUNK")] := by decide

/-- last writer wins: lookup returns the class of the last source entry for the page -/
example : dictGet? (buildDict [(1, "A"), (2, "B"), (1, "C")]) 1 = some "C" := by decide

end SqliteDissect.Properties.C06Census
