/-
C03 (skip) — the per-commit iterator of the version history does not re-read a table's b-tree in
a commit when its root page number is unchanged and none of the pages of the previous parse
(overflow pages included) is among the b-tree pages the commit wrote.  That skip loses nothing:
a forced re-read would have produced the same tree, hence the same cells, hence an empty report.

`Coherent v` (Proofs/TreeFrame.lean) says that a one-byte read of a page returns that byte of the
whole page; it holds for both concrete interfaces (`coherent_db`, `coherent_wal` below).  It is
needed because `treeAllPageNumbers` walks the parsed pages by their own type byte whereas the
parser descended by the byte its caller read separately.
-/
import SqliteDissect.Proofs.TreeFrame
import SqliteDissect.Proofs.SkipWal

namespace SqliteDissect.Properties.C03Skip
open SqliteDissect SqliteDissect.Model
open SqliteDissect.Proofs.TreeFrame (Agree Coherent RootTyped)

/-- The parse of a b-tree depends only on the pages it reports having visited (b-tree pages and
overflow pages): any version interface that serves those pages identically yields the same tree. -/
theorem tree_depends_only_on_visited_pages (v v' : VersionIf)
    (hps : v.pageSize = v'.pageSize) (hst : v.strict = v'.strict) (hc : Coherent v)
    (frames n : Nat) (t : List BPage)
    (h : getBTreeRoot v frames n = .ok t)
    (ha : ∀ p ∈ treeAllPageNumbers t, Agree v v' p) :
    getBTreeRoot v' frames n = .ok t := by
  exact Proofs.TreeFrame.getBTreeRoot_agree v v' hps hst hc frames n t h ha

/-- the same for the recursive page constructor called with the class its page denotes -/
theorem subtree_depends_only_on_visited_pages (v v' : VersionIf)
    (hps : v.pageSize = v'.pageSize) (hst : v.strict = v'.strict) (hc : Coherent v)
    (fuel n : Nat) (cls : PageType) (t : List BPage)
    (h : parseBTree v fuel n cls = .ok t) (hty : RootTyped v n cls)
    (ha : ∀ p ∈ treeAllPageNumbers t, Agree v v' p) :
    parseBTree v' fuel n cls = .ok t := by
  exact Proofs.TreeFrame.parseBTree_agree v v' hps hst hc fuel n cls t h hty ha

/-- Lock-step: `W` = pages the commit wrote, `NonB` = freelist / pointer-map / schema pages of the
new version.  If every page of the old tree that was written is a `NonB` page (this is what "no
page of the previous parse is in `updatedBTree`" says) and the new tree contains no `NonB` page
(census disjointness, C06), the new tree is the old tree.  Agreement off `W` is only required on
the pages that are in both trees. -/
theorem unchanged_tree (v v' : VersionIf)
    (hps : v.pageSize = v'.pageSize) (hst : v.strict = v'.strict) (hc : Coherent v) (hc' : Coherent v')
    (W NonB : Nat → Prop) (frames n : Nat) (t t' : List BPage)
    (h : getBTreeRoot v frames n = .ok t) (h' : getBTreeRoot v' frames n = .ok t')
    (hag : ∀ p ∈ treeAllPageNumbers t, p ∈ treeAllPageNumbers t' → ¬ W p → Agree v v' p)
    (hold : ∀ p ∈ treeAllPageNumbers t, W p → NonB p)
    (hnew : ∀ p ∈ treeAllPageNumbers t', ¬ NonB p) :
    t' = t := by
  exact Proofs.TreeFrame.getBTreeRoot_lockstep' v v' hps hst hc hc' W NonB frames n t t' h h' hag hold hnew

/-- Soundness of the skip in `historyStep`.  `t` is the previous version's tree (the state of the
iterator holds its page numbers and its leaf cells), the step for the next version took the skip
branch, the commit's written pages `W` that are not `NonB` pages are all in `updatedBTree`, pages
of both trees outside `W` are served identically by both versions, and a re-read would succeed with a tree `t'`
that contains no `NonB` page.  Then `t' = t`; the forced re-read would have reported nothing and
left the iterator in the same state, which is what the skipping step returned. -/
theorem skip_sound (frames : Nat) (isTable : Bool) (st st' : IterState) (ver : Version)
    (v v' : VersionIf) (root : Nat) (c : Commit) (t t' : List BPage) (W NonB : List Nat)
    (hps : v.pageSize = v'.pageSize) (hst : v.strict = v'.strict)
    (hc : Coherent v) (hc' : Coherent v')
    (hprev : getBTreeRoot v frames root = .ok t)
    (hpages : st.currentPages = treeAllPageNumbers t)
    (hcells : st.currentCells = (aggregateLeafCells t []).2.1)
    (hskip : st.currentPages.any ver.updatedBTree.contains = false)
    (hstep : historyStep frames isTable st ver v' root (some root) = .ok (c, st'))
    (hW : ∀ p, p ∈ W → p ∉ NonB → p ∈ ver.updatedBTree)
    (hnext : getBTreeRoot v' frames root = .ok t')
    (hag : ∀ p ∈ treeAllPageNumbers t, p ∈ treeAllPageNumbers t' → p ∉ W → Agree v v' p)
    (hnew : ∀ p ∈ treeAllPageNumbers t', p ∉ NonB) :
    t' = t ∧
    diffCells isTable st.currentCells (aggregateLeafCells t' []).2.1 = ([], [], []) ∧
    c.added = [] ∧ c.updated = [] ∧ c.deleted = [] ∧ c.bTreeUpdated = false ∧
    c.pageNumbers = treeAllPageNumbers t' ∧ st' = st ∧
    st'.currentCells = (aggregateLeafCells t' []).2.1 ∧ st'.currentPages = treeAllPageNumbers t' := by
  exact Proofs.TreeFrame.skip_sound frames isTable st st' ver v v' root c t t' W NonB hps hst hc hc'
    hprev hpages hcells hskip hstep hW hnext hag hnew

/-- what the forced re-read (`prevRoot = none`) returns, for comparison with `skip_sound`: its
report is `diffCells` of the current cells against the re-read cells -/
theorem forced_reread (frames : Nat) (isTable : Bool) (st : IterState) (ver : Version) (v' : VersionIf)
    (root : Nat) (t' : List BPage) (h' : getBTreeRoot v' frames root = .ok t')
    (htot : (aggregateLeafCells t' []).1 = (aggregateLeafCells t' []).2.1.length) :
    historyStep frames isTable st ver v' root none =
      .ok ({ version := ver.number, rootPage := root, pageNumbers := treeAllPageNumbers t',
             updatedPageNumbers := (treeAllPageNumbers t').filter ver.updatedBTree.contains,
             bTreeUpdated := true,
             added := (diffCells isTable st.currentCells (aggregateLeafCells t' []).2.1).1,
             updated := (diffCells isTable st.currentCells (aggregateLeafCells t' []).2.1).2.1,
             deleted := (diffCells isTable st.currentCells (aggregateLeafCells t' []).2.1).2.2 },
           { currentCells := (aggregateLeafCells t' []).2.1, currentPages := treeAllPageNumbers t' }) := by
  exact Proofs.TreeFrame.historyStep_forced frames isTable st ver v' root t' h' htot

/-! ### the WAL model: what `W`, `Agree`, `Coherent` and `updatedBTree` are there -/

/-- The version interfaces of two consecutive commit records (same WAL, same database interface;
the later one's indices are `nextPvi` / `nextPfi` of the earlier one's for the frame dictionary
`fd`) serve every page without a frame in the later record identically, provided the page number
is within both database sizes.  `hown`: the pages the earlier record attributes to itself are its
own pages; `hlt`: no page is attributed to a later version (both hold for records built by
`makeCommitRecord`, which checks the latter). -/
theorem wal_agree (strict : Bool) (dbv : VersionIf) (wal : Wal) (number dbSize dbSize' : Nat)
    (pvi pfi : List (Nat × Nat)) (own : List Nat) (fd : List (Nat × Frame)) (p : Nat)
    (hp : p ∉ fd.map (·.1)) (hle : p ≤ dbSize) (hle' : p ≤ dbSize')
    (hown : ∀ q, dictGet? pvi q = some number → own.contains q = true)
    (hlt : ∀ q k, dictGet? pvi q = some k → k ≤ number) :
    Agree (walVersionIf strict dbv wal number dbSize pvi pfi own)
      (walVersionIf strict dbv wal (number + 1) dbSize' (nextPvi pvi (number + 1) (fd.map (·.1)))
        (nextPfi pfi fd) (fd.map (·.1))) p := by
  exact Proofs.SkipWal.wal_agree strict dbv wal number dbSize dbSize' pvi pfi own fd p hp hle hle' hown hlt

theorem coherent_db (cfg : Config) (ps : Nat) (dsize : DbSize) (f : FileH) :
    Coherent (dbVersionIf cfg ps dsize f) := by
  exact Proofs.SkipWal.coherent_db cfg ps dsize f

theorem coherent_wal (strict : Bool) (dbv : VersionIf) (wal : Wal) (number dbSize : Nat)
    (pvi pfi : List (Nat × Nat)) (own : List Nat) (hdb : Coherent dbv) :
    Coherent (walVersionIf strict dbv wal number dbSize pvi pfi own) := by
  exact Proofs.SkipWal.coherent_wal strict dbv wal number dbSize pvi pfi own hdb

/-- `updatedBTree` of a commit record contains every page with a frame in the record that is not
page 1, a page of the record's schema, a freelist page or a pointer-map page of the new version:
the hypothesis `hW` of `skip_sound` with `W = ver.updated` and `NonB` those pages. -/
theorem updatedBTree_complete (cfg : Config) (dbv : VersionIf) (wal : Wal) (number : Nat) (frames : List Frame)
    (prev : Version) (lastHdr : DbHeader) (lastSchema : MasterSchema) (lastRoot : List BPage) (enc : Nat)
    (ver : Version) (v : VersionIf)
    (h : makeCommitRecord cfg dbv wal number frames prev lastHdr lastSchema lastRoot enc = .ok (ver, v))
    (p : Nat) (hp : p ∈ ver.updated) (h1 : p ≠ 1)
    (hs : ∀ pn ∈ ver.schema.pages, pn.1 ≠ p)
    (hf : p ∉ ver.freelistNumbers) (hm : p ∉ ver.ptrmap.map (·.number)) :
    p ∈ ver.updatedBTree := by
  exact Proofs.SkipWal.updatedBTree_complete cfg dbv wal number frames prev lastHdr lastSchema lastRoot enc
    ver v h p hp h1 hs hf hm

/-- every page reported by `treeAllPageNumbers` of a successful parse was served by the interface
(`get_page_offset` and `get_page_version` succeeded on it) -/
theorem tree_pages_served (v : VersionIf) (hc : Coherent v) (frames n : Nat)
    (t : List BPage) (h : getBTreeRoot v frames n = .ok t) :
    ∀ p ∈ treeAllPageNumbers t, Proofs.TreeFrame.Served v p := by
  exact Proofs.TreeFrame.getBTreeRoot_served v hc frames n t h

/-- Soundness of the skip for two consecutive commit records of the WAL model: `prev` (record
`number`, interface `v`) and `ver` (record `number + 1`, interface `v'`), both built by
`makeCommitRecord` over the same WAL and database interface.  All hypotheses of `skip_sound`
about the interfaces and about `updatedBTree` are discharged; what is left is about the b-tree:
the state of the iterator is the parse under `v`, the step skipped, a re-read would succeed, and
the new tree contains neither page 1 nor a schema, freelist or pointer-map page of the new
version (census disjointness, C06). -/
theorem skip_sound_wal (cfg : Config) (dbv : VersionIf) (wal : Wal) (number : Nat)
    (frames0 frames1 : List Frame) (pprev prev ver : Version) (v v' : VersionIf)
    (lh0 lh1 : DbHeader) (ls0 ls1 : MasterSchema) (lr0 lr1 : List BPage) (enc0 enc1 : Nat)
    (hmk0 : makeCommitRecord cfg dbv wal number frames0 pprev lh0 ls0 lr0 enc0 = .ok (prev, v))
    (hmk1 : makeCommitRecord cfg dbv wal (number + 1) frames1 prev lh1 ls1 lr1 enc1 = .ok (ver, v'))
    (hdb : Coherent dbv)
    (fr : Nat) (isTable : Bool) (st st' : IterState) (root : Nat) (c : Commit) (t t' : List BPage)
    (hprev : getBTreeRoot v fr root = .ok t)
    (hpages : st.currentPages = treeAllPageNumbers t)
    (hcells : st.currentCells = (aggregateLeafCells t []).2.1)
    (hskip : st.currentPages.any ver.updatedBTree.contains = false)
    (hstep : historyStep fr isTable st ver v' root (some root) = .ok (c, st'))
    (hnext : getBTreeRoot v' fr root = .ok t')
    (hnew : ∀ p ∈ treeAllPageNumbers t', p ≠ 1 ∧ (∀ pn ∈ ver.schema.pages, pn.1 ≠ p) ∧
      p ∉ ver.freelistNumbers ∧ p ∉ ver.ptrmap.map (·.number)) :
    t' = t ∧
    diffCells isTable st.currentCells (aggregateLeafCells t' []).2.1 = ([], [], []) ∧
    c.added = [] ∧ c.updated = [] ∧ c.deleted = [] ∧ c.bTreeUpdated = false ∧
    c.pageNumbers = treeAllPageNumbers t' ∧ st' = st ∧
    st'.currentCells = (aggregateLeafCells t' []).2.1 ∧ st'.currentPages = treeAllPageNumbers t' := by
  exact Proofs.SkipWal.skip_sound_wal cfg dbv wal number frames0 frames1 pprev prev ver v v' lh0 lh1 ls0 ls1
    lr0 lr1 enc0 enc1 hmk0 hmk1 hdb fr isTable st st' root c t t' hprev hpages hcells hskip hstep hnext hnew

/-- the same for the first commit record of a WAL against the database file (`prev` is the
database's version: every page of the file at version 0) -/
theorem skip_sound_wal_first (cfg : Config) (ps : Nat) (dsize : DbSize) (f : FileH) (wal : Wal)
    (hwps : wal.hdr.pageSize = ps)
    (frames1 : List Frame) (prev ver : Version) (v' : VersionIf)
    (lh1 : DbHeader) (ls1 : MasterSchema) (lr1 : List BPage) (enc1 : Nat)
    (hbase : prev.pvi = (List.range dsize.floor).map fun i => (i + 1, 0))
    (hmk1 : makeCommitRecord cfg (dbVersionIf cfg ps dsize f) wal 1 frames1 prev lh1 ls1 lr1 enc1 = .ok (ver, v'))
    (fr : Nat) (isTable : Bool) (st st' : IterState) (root : Nat) (c : Commit) (t t' : List BPage)
    (hprev : getBTreeRoot (dbVersionIf cfg ps dsize f) fr root = .ok t)
    (hpages : st.currentPages = treeAllPageNumbers t)
    (hcells : st.currentCells = (aggregateLeafCells t []).2.1)
    (hskip : st.currentPages.any ver.updatedBTree.contains = false)
    (hstep : historyStep fr isTable st ver v' root (some root) = .ok (c, st'))
    (hnext : getBTreeRoot v' fr root = .ok t')
    (hnew : ∀ p ∈ treeAllPageNumbers t', p ≠ 1 ∧ (∀ pn ∈ ver.schema.pages, pn.1 ≠ p) ∧
      p ∉ ver.freelistNumbers ∧ p ∉ ver.ptrmap.map (·.number)) :
    t' = t ∧
    diffCells isTable st.currentCells (aggregateLeafCells t' []).2.1 = ([], [], []) ∧
    c.added = [] ∧ c.updated = [] ∧ c.deleted = [] ∧ c.bTreeUpdated = false ∧
    c.pageNumbers = treeAllPageNumbers t' ∧ st' = st ∧
    st'.currentCells = (aggregateLeafCells t' []).2.1 ∧ st'.currentPages = treeAllPageNumbers t' := by
  exact Proofs.SkipWal.skip_sound_wal_first cfg ps dsize f wal hwps frames1 prev ver v' lh1 ls1 lr1 enc1 hbase hmk1
    fr isTable st st' root c t t' hprev hpages hcells hskip hstep hnext hnew

/-! ### non-vacuity: a one-leaf-page table (page 2, no cells); the commit wrote page 3, which is
a freelist page of the new version, so `updatedBTree` is empty and the step skips -/

def exPage : Buf := Buf.ofList [13, 0, 0, 0, 0, 0, 8, 0]

def exIf (alsoThree : Bool) : VersionIf :=
  { pageSize := 8, versionNumber := 0, strict := true,
    getData := fun p off n =>
      if p = 2 ∨ (alsoThree ∧ p = 3) then
        match n with
        | none => .ok exPage
        | some k => .ok (exPage.slice off (off + k))
      else .error .keyError,
    pageVersion := fun p => if p = 2 ∨ (alsoThree ∧ p = 3) then .ok 0 else .error .keyError,
    pageOffset := fun p => if p = 2 ∨ (alsoThree ∧ p = 3) then .ok 8 else .error .keyError }

def exT : List BPage :=
  match getBTreeRoot (exIf false) 5 2 with
  | .ok t => t
  | .error _ => []

def exVer : Version :=
  { number := 1, pageSize := 8, dbSize := 3, sizeExact := true, updated := [3], pvi := [], pfi := [],
    hdr := default, schema := default, rootTree := [], encoding := 1, hdrModified := false,
    rootModified := false, schemaModified := false, freelistModified := true, ptrmapModified := false,
    freelist := [], freelistNumbers := [3], ptrmap := [], updatedBTree := [], committed := true, flags := {} }

def exSt : IterState := { currentCells := (aggregateLeafCells exT []).2.1, currentPages := treeAllPageNumbers exT }

theorem exRoot (b : Bool) : getBTreeRoot (exIf b) 5 2 = .ok exT := by
  have h : ∀ b, (getBTreeRoot (exIf b) 5 2).isOk = true := by decide +kernel
  have e : getBTreeRoot (exIf false) 5 2 = .ok exT := by
    unfold exT
    cases hr : getBTreeRoot (exIf false) 5 2 with
    | ok t => rfl
    | error e => have := h false; rw [hr] at this; exact nomatch this
  cases b with
  | false => exact e
  | true =>
    refine Proofs.TreeFrame.getBTreeRoot_frame (exIf false) (exIf true) rfl rfl 5 2 exT e ?_
    have hv : Proofs.TreeFrame.visitedPages exT = [2] := by decide +kernel
    intro p hp
    rw [hv] at hp
    simp only [List.mem_singleton] at hp
    subst hp
    exact ⟨rfl, rfl, rfl⟩

theorem exCoherent (b : Bool) : Coherent (exIf b) := by
  intro n off fb page h1 h2 hsz
  simp only [exIf, Generated.PAGE_TYPE_LENGTH] at h1 h2
  split at h1
  · rename_i hn
    rw [if_pos hn] at h2
    simp only [Except.ok.injEq] at h1 h2
    subst h1 h2
    simp only [exPage, Buf.slice, Buf.ofList, List.length_cons, List.length_nil] at hsz ⊢
    refine ⟨by omega, ?_⟩
    rw [Nat.min_eq_left (by omega : off ≤ 8)]
    rfl
  · exact nomatch h1

example :
    let c : Commit := { version := 1, rootPage := 2, pageNumbers := exSt.currentPages, updatedPageNumbers := [],
                        bTreeUpdated := false, added := [], updated := [], deleted := [] }
    exT = exT ∧ diffCells true exSt.currentCells (aggregateLeafCells exT []).2.1 = ([], [], []) ∧
    c.added = [] ∧ c.updated = [] ∧ c.deleted = [] ∧ c.bTreeUpdated = false ∧
    c.pageNumbers = treeAllPageNumbers exT ∧ exSt = exSt ∧
    exSt.currentCells = (aggregateLeafCells exT []).2.1 ∧ exSt.currentPages = treeAllPageNumbers exT :=
  skip_sound 5 true exSt exSt exVer (exIf false) (exIf true) 2 _ exT exT [3] [3] rfl rfl
    (exCoherent false) (exCoherent true) (exRoot false) rfl rfl (by decide +kernel)
    (Proofs.TreeFrame.historyStep_skip 5 true exSt exVer (exIf true) 2 (by decide +kernel))
    (fun p hp hn => absurd hp hn) (exRoot true)
    (fun p _ _ hp => by
      have h3 : p ≠ 3 := by simpa using hp
      simp only [Agree, exIf, h3, Bool.false_eq_true, false_and, and_false, or_false, and_self])
    (by
      have hv : treeAllPageNumbers exT = [2] := by decide +kernel
      rw [hv]; decide)

/-! ### why `Coherent` is a hypothesis: a counterexample to the frame property without it

Page 2 is typed "table leaf" by its own first byte but a one-byte read of it returns 0x05, so the
parser treats it as an interior page and descends into page 3; `treeAllPageNumbers` walks by the
page's own byte and reports only page 2.  Changing page 3 changes the parse although every reported
page agrees.  (No real reader behaves like this: `coherent_db`, `coherent_wal`.) -/

def cexIf (withThree : Bool) : VersionIf :=
  { pageSize := 12, versionNumber := 0, strict := true,
    getData := fun p _ n =>
      if p = 2 then
        match n with
        | none => .ok (Buf.ofList [13, 0, 0, 0, 0, 0, 12, 0, 0, 0, 0, 3])
        | some _ => .ok (Buf.ofList [5])
      else if p = 3 ∧ withThree then
        match n with
        | none => .ok (Buf.ofList [13, 0, 0, 0, 0, 0, 12, 0, 0, 0, 0, 0])
        | some _ => .ok (Buf.ofList [13])
      else .error .keyError,
    pageVersion := fun p => if p = 2 ∨ (p = 3 ∧ withThree) then .ok 0 else .error .keyError,
    pageOffset := fun p => if p = 2 ∨ (p = 3 ∧ withThree) then .ok 0 else .error .keyError }

def cexT : List BPage :=
  match getBTreeRoot (cexIf true) 5 2 with
  | .ok t => t
  | .error _ => []

theorem frame_fails_without_coherence :
    getBTreeRoot (cexIf true) 5 2 = .ok cexT ∧ cexT.length = 2 ∧
    (∀ p ∈ treeAllPageNumbers cexT, Agree (cexIf true) (cexIf false) p) ∧
    getBTreeRoot (cexIf false) 5 2 ≠ .ok cexT := by
  have h : (getBTreeRoot (cexIf true) 5 2).isOk = true := by decide +kernel
  have e : getBTreeRoot (cexIf true) 5 2 = .ok cexT := by
    unfold cexT
    cases hr : getBTreeRoot (cexIf true) 5 2 with
    | ok t => rfl
    | error e => rw [hr] at h; exact nomatch h
  refine ⟨e, by decide +kernel, ?_, ?_⟩
  · have hv : treeAllPageNumbers cexT = [2] := by decide +kernel
    intro p hp
    rw [hv] at hp
    simp only [List.mem_singleton] at hp
    subst hp
    exact ⟨rfl, rfl, rfl⟩
  · intro h'
    have : (getBTreeRoot (cexIf false) 5 2).isOk = false := by decide +kernel
    rw [h'] at this
    exact nomatch this

/-! ### why `RootTyped` is a hypothesis of the `parseBTree` form: the same with a coherent
interface, when `parseBTree` is called with a class other than the one the page denotes -/

def cex2If (withThree : Bool) : VersionIf :=
  { pageSize := 12, versionNumber := 0, strict := true,
    getData := fun p off n =>
      if p = 2 then
        match n with
        | none => .ok (Buf.ofList [13, 0, 0, 0, 0, 0, 12, 0, 0, 0, 0, 3])
        | some k => .ok ((Buf.ofList [13, 0, 0, 0, 0, 0, 12, 0, 0, 0, 0, 3]).slice off (off + k))
      else if p = 3 ∧ withThree then
        match n with
        | none => .ok (Buf.ofList [13, 0, 0, 0, 0, 0, 12, 0, 0, 0, 0, 0])
        | some k => .ok ((Buf.ofList [13, 0, 0, 0, 0, 0, 12, 0, 0, 0, 0, 0]).slice off (off + k))
      else .error .keyError,
    pageVersion := fun p => if p = 2 ∨ (p = 3 ∧ withThree) then .ok 0 else .error .keyError,
    pageOffset := fun p => if p = 2 ∨ (p = 3 ∧ withThree) then .ok 0 else .error .keyError }

def cex2T : List BPage :=
  match parseBTree (cex2If true) 5 2 .tableInterior with
  | .ok t => t
  | .error _ => []

theorem frame_fails_for_wrong_class :
    parseBTree (cex2If true) 5 2 .tableInterior = .ok cex2T ∧ cex2T.length = 2 ∧
    (∀ p ∈ treeAllPageNumbers cex2T, Agree (cex2If true) (cex2If false) p) ∧
    parseBTree (cex2If false) 5 2 .tableInterior ≠ .ok cex2T := by
  have h : (parseBTree (cex2If true) 5 2 .tableInterior).isOk = true := by decide +kernel
  have e : parseBTree (cex2If true) 5 2 .tableInterior = .ok cex2T := by
    unfold cex2T
    cases hr : parseBTree (cex2If true) 5 2 .tableInterior with
    | ok t => rfl
    | error e => rw [hr] at h; exact nomatch h
  refine ⟨e, by decide +kernel, ?_, ?_⟩
  · have hv : treeAllPageNumbers cex2T = [2] := by decide +kernel
    intro p hp
    rw [hv] at hp
    simp only [List.mem_singleton] at hp
    subst hp
    exact ⟨rfl, rfl, rfl⟩
  · intro h'
    have : (parseBTree (cex2If false) 5 2 .tableInterior).isOk = false := by decide +kernel
    rw [h'] at this
    exact nomatch this

end SqliteDissect.Properties.C03Skip
