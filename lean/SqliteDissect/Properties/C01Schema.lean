/-
C01, schema level — the link "schema row → root page": the entries (type, name, tbl_name,
rootpage, sql) sqlite-dissect reports are exactly the rows of the page-1 b-tree, and the root page
number it uses for a table is the `rootpage` column SQLite stored in that table's row; composed
with `C01Tree.table_tree_rows` (and `C02Rows.version_rows` for version `k` of a WAL history): the
rows reported for a table found through the schema are the rows stored in its b-tree.

Specification (trusted, executable): Spec/SchemaFmt.lean — `schemaEntryOf enc s` recognises a
table-leaf cell as a stored schema row (five columns: type text ∈ {table, index, view, trigger} in
the database encoding, name text, tbl_name text, rootpage integer or NULL, sql text or NULL) and
gives the abstract `SchemaEntry`; `StoredSchemaRows enc cells es`; `schemaOrder` (the order of
`master_schema_entries`); `schemaRoots`.

**Order.**  `MasterSchema.__init__` collects the rows in traversal order of the leaf pages
(`TTree.leafCells`: right-most subtree first, then the left subtrees in cell order; within a page
in cell-pointer order), then lists them by kind: tables, indexes, views, triggers, traversal order
within each kind — `Spec.schemaOrder es`.

**Hypotheses beyond the layout** (each needed, see the `_full_false` theorems and the remarks):
* `henc`: the text encoding of a database with a non-empty schema is 1, 2 or 3;
* `hne`: the schema is not empty (an empty page 1 is checked through page-header fields that
  `NodeReported` does not expose; not covered here);
* `hleaf`: no leaf page other than the root is empty (true of every b-tree SQLite writes; the code
  raises on an empty non-root leaf of the schema b-tree);
* `hwf`: root page numbers are not negative (file format);
* `hsup`: `SchemaEntry.Supported` — non-empty name and table name, sql not the empty string.  This
  is a restriction of the *tool*: `CREATE TABLE ""(a)` is legal and is refused
  (`schema_rows_full_false`);
* by-name lookups: no other entry *of the same kind* (table, resp. index) carries the name — what
  SQLite guarantees.  (Before commit c7e48c5 of /repo the dictionary was built over all entries and
  a trigger named like a table replaced it: `old_lookup_shadowed`.)
The DDL text parsing of the row classes (`Model/Schema.lean`) is not part of `parseMasterSchema`
(see its header comment), so no hypothesis about the sql text is needed here.
-/
import SqliteDissect.Proofs.SchemaRows

namespace SqliteDissect.Properties.C01Schema
open SqliteDissect SqliteDissect.Model
open SqliteDissect.Spec (CellSpec Elementwise TTree TreeLaidOut NodeReported SchemaEntry schemaEntryOf
  StoredSchemaRows schemaOrder schemaRoots snapshotIf)

/-- **cell level.**  A stored schema row, reported as the cell level of C01 says, is turned by
`_create_master_schema_entry_data_named_tuple` + `MasterSchemaRow.__init__` into a row with the
entry's rowid, type, name, table name, root page value and sql (plus leaf page number and digest). -/
theorem schema_cell_row (u enc : Nat) (henc : enc = 1 ∨ enc = 2 ∨ enc = 3) (lp : Nat) (s : CellSpec) (c : Cell)
    (e : SchemaEntry) (hrep : s.ReportedAs u c) (he : schemaEntryOf enc s = some e) (hsup : e.Supported) :
    ∃ r, schemaRowOfCell enc lp c = .ok (some r) ∧ e.ReportedAs r ∧ r.leafPage = lp ∧ r.digest = c.digest := by
  exact ⟨_, Proofs.SchemaRows.cell_row u enc henc lp s c e hrep he hsup,
    Proofs.SchemaRows.mkRow_reported lp e c, rfl, rfl⟩

/-- **schema_rows.**  A table b-tree rooted at page 1, laid out in `v` as SQLite lays it out, whose
leaf cells are the stored schema rows `es` (in traversal order): `get_b_tree_root_page(1)` succeeds
and `MasterSchema.__init__` — whatever version interface it is handed — returns the entries
`schemaOrder es` field by field, the root page numbers `schemaRoots es`, and the pages of the tree. -/
theorem schema_rows (v : VersionIf) (hu : 512 ≤ v.pageSize) (hu2 : v.pageSize ≤ 65536)
    (enc : Nat) (henc : enc = 1 ∨ enc = 2 ∨ enc = 3)
    (Ts : TTree) (hp1 : Ts.page = 1) (hT : TreeLaidOut v true Ts) (frames : Nat) (hf : Ts.frames ≤ frames)
    (hpd : Ts.PagesDistinct)
    (hleaf : ∀ nd ∈ Ts.nodes true, nd.2.1.isInterior = false → nd.2.2 = [] → nd.1 = 1)
    (es : List SchemaEntry) (hes : StoredSchemaRows enc Ts.leafCells es) (hne : es ≠ [])
    (hwf : ∀ e ∈ es, e.WellFormed) (hsup : ∀ e ∈ es, e.Supported) :
    ∃ t ms, getBTreeRoot v frames 1 = .ok t ∧ (∀ v' : VersionIf, parseMasterSchema v' enc t = .ok ms) ∧
      Elementwise (NodeReported v.pageSize) (Ts.nodes true) t ∧
      Elementwise SchemaEntry.ReportedAs (schemaOrder es) ms.entries ∧
      ms.rootNumbers = schemaRoots es ∧ ms.pages = treePageNumbers t := by
  exact Proofs.SchemaRows.schema_rows_strong v hu hu2 enc henc Ts hp1 hT frames hf hpd hleaf es hes hne hwf hsup

/-- `schema_rows` without `hsup` -/
def SchemaRowsFull : Prop :=
  ∀ (v : VersionIf) (_ : 512 ≤ v.pageSize) (_ : v.pageSize ≤ 65536)
    (enc : Nat) (_ : enc = 1 ∨ enc = 2 ∨ enc = 3)
    (Ts : TTree) (_ : Ts.page = 1) (_ : TreeLaidOut v true Ts) (frames : Nat) (_ : Ts.frames ≤ frames)
    (_ : Ts.PagesDistinct)
    (_ : ∀ nd ∈ Ts.nodes true, nd.2.1.isInterior = false → nd.2.2 = [] → nd.1 = 1)
    (es : List SchemaEntry) (_ : StoredSchemaRows enc Ts.leafCells es) (_ : es ≠ [])
    (_ : ∀ e ∈ es, e.WellFormed),
    ∃ t ms, getBTreeRoot v frames 1 = .ok t ∧ parseMasterSchema v enc t = .ok ms

open Proofs.SchemaRows.Demo in
/-- **finding.**  The legal schema row of `CREATE TABLE ""(a)` — `(1; 'table', '', '', 3,
'CREATE TABLE ""(a)')` on a page-1 leaf laid out as SQLite lays it out — is refused:
`parseMasterSchema` ends in `parseError` (the code: while building the message of that
`MasterSchemaRowParsingError` it reads `self.row_type` before it is set and dies with
`AttributeError`). -/
theorem schema_rows_full_false : ¬ SchemaRowsFull := by
  intro hfull
  obtain ⟨hst, hwf, _, hT, hrej⟩ := empty_name_rejected
  have hl : (TTree.leaf 1 [schemaRowE]).leafCells = [schemaRowE] := by simp [TTree.leafCells]
  obtain ⟨t, ms, ht, hms⟩ := hfull schemaVE (by decide) (by decide) 1 (Or.inl rfl) (.leaf 1 [schemaRowE]) rfl hT 1
    (by simp [TTree.frames]) (by simp [TTree.PagesDistinct, TTree.nodes])
    (by
      intro nd hnd _ hempty
      simp only [TTree.nodes, List.mem_singleton] at hnd
      rw [hnd] at hempty
      exact absurd hempty (by simp))
    [entryE] (by rw [hl]; exact hst) (by simp)
    (by intro e he; rw [List.mem_singleton] at he; rw [he]; exact hwf)
  rw [ht] at hrej
  simp only [hms] at hrej
  exact absurd hrej (by decide)

/-- **table_rows_by_name.**  Under the hypotheses of `schema_rows` (rowids of the schema rows
pairwise distinct), for an entry `e ∈ es` of type table with `rootpage = r`, no other entry *of
type table* carrying its name (`huniq`: what SQLite guarantees — tables, views and indexes share
one name space; triggers have their own and are not looked at), and a table b-tree `T` rooted at
page `r` laid out in the same `v`:
* the root page tracked for the entry's identity (`VersionParser`: `rootOf ms e.ident`) is `r`;
* the by-name dictionary of `interface.select_all_from_table` (entries of type table only) yields
  `r`, and `selectAllFromTable` returns the aggregate of the tree constructed at `r`;
* `r` (when not 0) is among `master_schema_b_tree_root_page_numbers`;
* `get_b_tree_root_page(r)` succeeds and the rows reported — by the leaf pages and by the
  `aggregate_leaf_cells` dictionary — are the rows of `T`, in traversal order. -/
theorem table_rows_by_name (v : VersionIf) (hu : 512 ≤ v.pageSize) (hu2 : v.pageSize ≤ 65536)
    (enc : Nat) (henc : enc = 1 ∨ enc = 2 ∨ enc = 3)
    (Ts : TTree) (hp1 : Ts.page = 1) (hT : TreeLaidOut v true Ts) (frames : Nat) (hf : Ts.frames ≤ frames)
    (hpd : Ts.PagesDistinct) (hnd : (Ts.leafCells.map (·.rowid)).Nodup)
    (hleaf : ∀ nd ∈ Ts.nodes true, nd.2.1.isInterior = false → nd.2.2 = [] → nd.1 = 1)
    (es : List SchemaEntry) (hes : StoredSchemaRows enc Ts.leafCells es)
    (hwf : ∀ e ∈ es, e.WellFormed) (hsup : ∀ e ∈ es, e.Supported)
    (e : SchemaEntry) (he : e ∈ es) (hty : e.type = "table") (r : Nat) (hr : e.rootpage = some (r : Int))
    (huniq : ∀ e' ∈ es, e'.type = "table" → e'.name = e.name → e' = e)
    (T : TTree) (hTp : T.page = r) (hTl : TreeLaidOut v true T) (framesT : Nat) (hfT : T.frames ≤ framesT)
    (hpdT : T.PagesDistinct) (hndT : (T.leafCells.map (·.rowid)).Nodup) :
    ∃ t ms tt, getBTreeRoot v frames 1 = .ok t ∧ (∀ v' : VersionIf, parseMasterSchema v' enc t = .ok ms) ∧
      rootOf ms e.ident = some (.int r) ∧
      (tableByName ms e.name).map (·.rootPage) = some (.int r) ∧
      selectAllFromTable v framesT ms e.name = .ok ((aggregateLeafCells tt []).1, (aggregateLeafCells tt []).2.1) ∧
      (r ≠ 0 → r ∈ ms.rootNumbers) ∧
      getBTreeRoot v framesT r = .ok tt ∧
      (leafCells tt).map Spec.cellRow = T.leafCells.map CellSpec.row ∧
      (aggregateLeafCells tt []).1 = T.leafCells.length ∧
      (aggregateLeafCells tt []).2.1.map (fun x => Spec.cellRow x.2) = T.leafCells.map CellSpec.row := by
  exact Proofs.SchemaRows.table_rows_by_name v hu hu2 enc henc Ts hp1 hT frames hf hpd hnd hleaf es hes hwf hsup
    e he hty r hr huniq T hTp hTl framesT hfT hpdT hndT

/-- **index_entries_by_name.**  The same for an entry of type index and an index b-tree `T` rooted
at its root page: `select_all_from_index` finds it among the entries of type index and returns the
aggregate of the tree; every entry of the index — interior cells included — is reported
(`C01Tree.index_tree_entries`). -/
theorem index_entries_by_name (v : VersionIf) (hu : 512 ≤ v.pageSize) (hu2 : v.pageSize ≤ 65536)
    (enc : Nat) (henc : enc = 1 ∨ enc = 2 ∨ enc = 3)
    (Ts : TTree) (hp1 : Ts.page = 1) (hT : TreeLaidOut v true Ts) (frames : Nat) (hf : Ts.frames ≤ frames)
    (hpd : Ts.PagesDistinct) (hnd : (Ts.leafCells.map (·.rowid)).Nodup)
    (hleaf : ∀ nd ∈ Ts.nodes true, nd.2.1.isInterior = false → nd.2.2 = [] → nd.1 = 1)
    (es : List SchemaEntry) (hes : StoredSchemaRows enc Ts.leafCells es)
    (hwf : ∀ e ∈ es, e.WellFormed) (hsup : ∀ e ∈ es, e.Supported)
    (e : SchemaEntry) (he : e ∈ es) (hty : e.type = "index") (r : Nat) (hr : e.rootpage = some (r : Int))
    (huniq : ∀ e' ∈ es, e'.type = "index" → e'.name = e.name → e' = e)
    (T : TTree) (hTp : T.page = r) (hTl : TreeLaidOut v false T) (framesT : Nat) (hfT : T.frames ≤ framesT)
    (hpdT : T.PagesDistinct) :
    ∃ t ms tt, getBTreeRoot v frames 1 = .ok t ∧ (∀ v' : VersionIf, parseMasterSchema v' enc t = .ok ms) ∧
      rootOf ms e.ident = some (.int r) ∧
      (indexByName ms e.name).map (·.rootPage) = some (.int r) ∧
      selectAllFromIndex v framesT ms e.name = .ok ((aggregateLeafCells tt []).1, (aggregateLeafCells tt []).2.1) ∧
      (r ≠ 0 → r ∈ ms.rootNumbers) ∧
      getBTreeRoot v framesT r = .ok tt ∧
      Elementwise (fun s c => CellSpec.ReportedAs v.pageSize s c) T.allCells (tt.flatMap (·.cells)) ∧
      (tt.flatMap (·.cells)).map Spec.cellRow = T.allCells.map CellSpec.row ∧
      Elementwise (fun s c => CellSpec.ReportedAs v.pageSize s c) T.leafCells (leafCells tt) ∧
      (aggregateLeafCells tt []).1 = T.leafCells.length := by
  exact Proofs.SchemaRows.index_entries_by_name v hu hu2 enc henc Ts hp1 hT frames hf hpd hnd hleaf es hes hwf hsup
    e he hty r hr huniq T hTp hTl framesT hfT hpdT

open Proofs.SchemaRows.Demo in
/-- **witness of a repaired finding** (ledger: the by-name dictionary over all entries; repaired by
commit c7e48c5 of /repo).  On a stub holding `CREATE TABLE t(a,b)` (root page 3) and
`CREATE TRIGGER t AFTER INSERT ON u …` — legal: triggers have their own name space — laid out as
SQLite lays it out, the *old* lookup (`entryByNameOld`: name-keyed dictionary over all entries, the
trigger, listed last, replacing the table) handed back the trigger's root page 0 for the table `t`
(the code then failed with `ValueError: Invalid page number: 0`); evaluated by the kernel. -/
theorem old_lookup_shadowed :
    TreeLaidOut schemaVC true schemaTreeC ∧ StoredSchemaRows 1 schemaTreeC.leafCells [entryT, entryTrig] ∧
    (match getBTreeRoot schemaVC 1 1 with
      | .ok t => (match parseMasterSchema schemaVC 1 t with
        | .ok ms => decide ((entryByNameOld ms entryT.name).map (·.rootPage) = some (.int 0))
        | .error _ => false)
      | .error _ => false) = true := by
  exact ⟨collision_hyps.2.2.2.2.1, collision_hyps.1, Proofs.SchemaRows.Demo.old_lookup_shadowed⟩

/-- **version `k` of a WAL history** (composition with `C02Rows`): schema b-tree and table b-tree
laid out in SQLite's snapshot after the `k`-th commit; the same conclusions for the version's own
interface `v`. -/
theorem version_table_rows_by_name (cfg : Config) (db : Database) (dbv : VersionIf) (w : Wal)
    (vs : List (Version × VersionIf)) (h : versionHistory cfg db dbv (some w) = .ok vs)
    (k : Nat) (ver : Version) (v : VersionIf) (hk : vs[k]? = some (ver, v))
    (hdb0 : k = 0 → ∃ f, dbv = dbVersionIf cfg w.hdr.pageSize db.dbSize f)
    (hu : 512 ≤ w.hdr.pageSize) (hu2 : w.hdr.pageSize ≤ 65536)
    (enc : Nat) (henc : enc = 1 ∨ enc = 2 ∨ enc = 3)
    (Ts : TTree) (hp1 : Ts.page = 1)
    (hT : TreeLaidOut (snapshotIf cfg.strict dbv db.dbSize.floor w.fh w.hdr.pageSize
      (groupFrames w.frames [] []).1 k) true Ts)
    (frames : Nat) (hf : Ts.frames ≤ frames)
    (hpd : Ts.PagesDistinct) (hnd : (Ts.leafCells.map (·.rowid)).Nodup)
    (hleaf : ∀ nd ∈ Ts.nodes true, nd.2.1.isInterior = false → nd.2.2 = [] → nd.1 = 1)
    (es : List SchemaEntry) (hes : StoredSchemaRows enc Ts.leafCells es)
    (hwf : ∀ e ∈ es, e.WellFormed) (hsup : ∀ e ∈ es, e.Supported)
    (e : SchemaEntry) (he : e ∈ es) (hty : e.type = "table") (r : Nat) (hr : e.rootpage = some (r : Int))
    (huniq : ∀ e' ∈ es, e'.type = "table" → e'.name = e.name → e' = e)
    (T : TTree) (hTp : T.page = r)
    (hTl : TreeLaidOut (snapshotIf cfg.strict dbv db.dbSize.floor w.fh w.hdr.pageSize
      (groupFrames w.frames [] []).1 k) true T)
    (framesT : Nat) (hfT : T.frames ≤ framesT)
    (hpdT : T.PagesDistinct) (hndT : (T.leafCells.map (·.rowid)).Nodup) :
    ∃ t ms tt, getBTreeRoot v frames 1 = .ok t ∧ (∀ v' : VersionIf, parseMasterSchema v' enc t = .ok ms) ∧
      rootOf ms e.ident = some (.int r) ∧
      (tableByName ms e.name).map (·.rootPage) = some (.int r) ∧
      selectAllFromTable v framesT ms e.name = .ok ((aggregateLeafCells tt []).1, (aggregateLeafCells tt []).2.1) ∧
      (r ≠ 0 → r ∈ ms.rootNumbers) ∧
      getBTreeRoot v framesT r = .ok tt ∧
      (leafCells tt).map Spec.cellRow = T.leafCells.map CellSpec.row ∧
      (aggregateLeafCells tt []).1 = T.leafCells.length ∧
      (aggregateLeafCells tt []).2.1.map (fun x => Spec.cellRow x.2) = T.leafCells.map CellSpec.row := by
  exact Proofs.SchemaRows.version_table_rows_by_name cfg db dbv w vs h k ver v hk hdb0 hu hu2 enc henc Ts hp1 hT
    frames hf hpd hnd hleaf es hes hwf hsup e he hty r hr huniq T hTp hTl framesT hfT hpdT hndT

/-- … and for an index of version `k` -/
theorem version_index_entries_by_name (cfg : Config) (db : Database) (dbv : VersionIf) (w : Wal)
    (vs : List (Version × VersionIf)) (h : versionHistory cfg db dbv (some w) = .ok vs)
    (k : Nat) (ver : Version) (v : VersionIf) (hk : vs[k]? = some (ver, v))
    (hdb0 : k = 0 → ∃ f, dbv = dbVersionIf cfg w.hdr.pageSize db.dbSize f)
    (hu : 512 ≤ w.hdr.pageSize) (hu2 : w.hdr.pageSize ≤ 65536)
    (enc : Nat) (henc : enc = 1 ∨ enc = 2 ∨ enc = 3)
    (Ts : TTree) (hp1 : Ts.page = 1)
    (hT : TreeLaidOut (snapshotIf cfg.strict dbv db.dbSize.floor w.fh w.hdr.pageSize
      (groupFrames w.frames [] []).1 k) true Ts)
    (frames : Nat) (hf : Ts.frames ≤ frames)
    (hpd : Ts.PagesDistinct) (hnd : (Ts.leafCells.map (·.rowid)).Nodup)
    (hleaf : ∀ nd ∈ Ts.nodes true, nd.2.1.isInterior = false → nd.2.2 = [] → nd.1 = 1)
    (es : List SchemaEntry) (hes : StoredSchemaRows enc Ts.leafCells es)
    (hwf : ∀ e ∈ es, e.WellFormed) (hsup : ∀ e ∈ es, e.Supported)
    (e : SchemaEntry) (he : e ∈ es) (hty : e.type = "index") (r : Nat) (hr : e.rootpage = some (r : Int))
    (huniq : ∀ e' ∈ es, e'.type = "index" → e'.name = e.name → e' = e)
    (T : TTree) (hTp : T.page = r)
    (hTl : TreeLaidOut (snapshotIf cfg.strict dbv db.dbSize.floor w.fh w.hdr.pageSize
      (groupFrames w.frames [] []).1 k) false T)
    (framesT : Nat) (hfT : T.frames ≤ framesT) (hpdT : T.PagesDistinct) :
    ∃ t ms tt, getBTreeRoot v frames 1 = .ok t ∧ (∀ v' : VersionIf, parseMasterSchema v' enc t = .ok ms) ∧
      rootOf ms e.ident = some (.int r) ∧
      (indexByName ms e.name).map (·.rootPage) = some (.int r) ∧
      selectAllFromIndex v framesT ms e.name = .ok ((aggregateLeafCells tt []).1, (aggregateLeafCells tt []).2.1) ∧
      (r ≠ 0 → r ∈ ms.rootNumbers) ∧
      getBTreeRoot v framesT r = .ok tt ∧
      Elementwise (fun s c => CellSpec.ReportedAs w.hdr.pageSize s c) T.allCells (tt.flatMap (·.cells)) ∧
      (tt.flatMap (·.cells)).map Spec.cellRow = T.allCells.map CellSpec.row ∧
      Elementwise (fun s c => CellSpec.ReportedAs w.hdr.pageSize s c) T.leafCells (leafCells tt) ∧
      (aggregateLeafCells tt []).1 = T.leafCells.length := by
  exact Proofs.SchemaRows.version_index_entries_by_name cfg db dbv w vs h k ver v hk hdb0 hu hu2 enc henc Ts hp1 hT
    frames hf hpd hnd hleaf es hes hwf hsup e he hty r hr huniq T hTp hTl framesT hfT hpdT

/-- … and this `(t, ms)` is what `version.root_page` / `version.master_schema` are observed to be
for a commit record that did not modify the schema (it re-parses page 1 under itself).  (A record
that did modify it stores the result of the same two calls made with `cfg.frames` in
`makeCommitRecord`.) -/
theorem observed_schema_unmodified (ver : Version) (v : VersionIf) (frames : Nat) (t : List BPage)
    (ms : MasterSchema) (hm : ver.schemaModified = false) (ht : getBTreeRoot v frames 1 = .ok t)
    (hms : parseMasterSchema v ver.encoding t = .ok ms) : observedSchema ver v frames = .ok (t, ms) := by
  exact Proofs.SchemaRows.observed_schema_unmodified ver v frames t ms hm ht hms

/-! ### non-vacuity

A version interface serving two 512-byte pages: page 1 = database header + table leaf holding the
schema row `(1; 'table', 'x', 'x', 3, 'CREATE TABLE x(a,b)')` (UTF-8); page 3 = `TreeDemo.L3`, the
table leaf with the row `(1; 7, 'hi')`. -/

open Proofs.SchemaRows.Demo in
/-- the schema row is a stored schema row denoting the entry; page 1 satisfies `PageLaidOut`
(decided by the executable checker); both trees are laid out -/
example : StoredSchemaRows 1 [schemaRowX] [entryX] ∧ entryX.WellFormed ∧ entryX.Supported ∧
    Spec.PageLaidOut 512 (Proofs.TreeDemo.packBytes 512 L1) L1 ∧
    TreeLaidOut schemaV true schemaTree ∧ TreeLaidOut schemaV true tableTree :=
  ⟨by decide +kernel, by decide, by decide, demo_page1, demo_schema_laid_out, demo_table_laid_out⟩

open Proofs.SchemaRows.Demo in
/-- every hypothesis of `table_rows_by_name` holds for it, and the conclusion is: one entry, both
lookups give root page 3, `master_schema_b_tree_root_page_numbers = [3]`, and the table's row is
`(1; 7, 'hi')` -/
example : ∃ t ms tt,
    getBTreeRoot schemaV 1 1 = .ok t ∧ parseMasterSchema schemaV 1 t = .ok ms ∧
    rootOf ms entryX.ident = some (.int 3) ∧ (tableByName ms [120]).map (·.rootPage) = some (.int 3) ∧
    ms.rootNumbers = [3] ∧
    getBTreeRoot schemaV 1 3 = .ok tt ∧
    (leafCells tt).map Spec.cellRow = [(some 1, some [⟨1, 1, 1, .int 7⟩, ⟨17, 1, 2, .text [104, 105]⟩])] :=
  Proofs.SchemaRows.Demo.demo_table_rows_by_name

open Proofs.SchemaRows.Demo in
/-- the same, evaluated by the kernel independently of the theorems: the entry the model reports -/
example : (match getBTreeRoot schemaV 1 1 with
    | .ok t => (match parseMasterSchema schemaV 1 t with
      | .ok ms => decide (ms.entries.map (fun r => { r with digest := [] }) =
          [⟨1, "table", [120], [120], .int 3, some sqlX, 1, []⟩] ∧ ms.rootNumbers = [3])
      | .error _ => false)
    | .error _ => false) = true := by decide +kernel

open Proofs.SchemaRows.Demo in
/-- the stub with the table `t` and the trigger `t`: the repaired lookups, evaluated by the kernel
independently of the theorems — `tableByName` and `tableOrIndexByName` give the table's root page 3,
`indexByName` finds nothing, the tracking identity gives 3, `selectAllFromTable` returns one cell,
the row `(1; 7, 'hi')` -/
example :
    (match getBTreeRoot schemaVC 1 1 with
      | .ok t => (match parseMasterSchema schemaVC 1 t with
        | .ok ms => decide ((tableByName ms entryT.name).map (·.rootPage) = some (.int 3) ∧
            (tableOrIndexByName ms entryT.name).map (·.rootPage) = some (.int 3) ∧
            (indexByName ms entryT.name).map (·.rootPage) = none ∧
            rootOf ms entryT.ident = some (.int 3)) &&
          (match selectAllFromTable schemaVC 1 ms entryT.name with
            | .ok (n, d) => decide (n = 1 ∧ d.map (fun x => Spec.cellRow x.2) =
                [(some 1, some [⟨1, 1, 1, .int 7⟩, ⟨17, 1, 2, .text [104, 105]⟩])])
            | .error _ => false)
        | .error _ => false)
      | .error _ => false) = true := Proofs.SchemaRows.Demo.new_lookup_on_collision

open Proofs.SchemaRows.Demo in
/-- … and `table_rows_by_name` applies to it (the trigger is not of type table): root 3, the row -/
example : ∃ t ms tt,
    getBTreeRoot schemaVC 1 1 = .ok t ∧ parseMasterSchema schemaVC 1 t = .ok ms ∧
    (tableByName ms entryT.name).map (·.rootPage) = some (.int 3) ∧
    selectAllFromTable schemaVC 1 ms entryT.name = .ok ((aggregateLeafCells tt []).1, (aggregateLeafCells tt []).2.1) ∧
    (leafCells tt).map Spec.cellRow = [(some 1, some [⟨1, 1, 1, .int 7⟩, ⟨17, 1, 2, .text [104, 105]⟩])] :=
  Proofs.SchemaRows.Demo.collision_table_rows

open Proofs.SchemaRows.Demo in
/-- a stub with a table `x` (root 3) and an index `ix` (root 7 = `TreeDemo.page7`): every hypothesis
of `index_entries_by_name` holds, the index is found at root page 7 and its three entries are
reported -/
example : ∃ t ms tt,
    getBTreeRoot schemaVI 1 1 = .ok t ∧ parseMasterSchema schemaVI 1 t = .ok ms ∧
    (indexByName ms entryIx.name).map (·.rootPage) = some (.int 7) ∧
    selectAllFromIndex schemaVI 1 ms entryIx.name = .ok ((aggregateLeafCells tt []).1, (aggregateLeafCells tt []).2.1) ∧
    (aggregateLeafCells tt []).1 = 3 ∧
    (tt.flatMap (·.cells)).map Spec.cellRow =
      [(none, some [⟨8, 1, 0, .int 0⟩]), (none, some [⟨9, 1, 0, .int 1⟩]), (none, some [⟨13, 1, 0, .text []⟩])] :=
  Proofs.SchemaRows.Demo.demo_index_entries_by_name

/-- UTF-16: the type column `'table'` in UTF-16le / UTF-16be is recognised and decoded -/
example : Spec.kindOfBytes 2 [116, 0, 97, 0, 98, 0, 108, 0, 101, 0] = some "table" ∧
    decodeAscii 2 [116, 0, 97, 0, 98, 0, 108, 0, 101, 0] = .ok "table" ∧
    Spec.kindOfBytes 3 [0, 118, 0, 105, 0, 101, 0, 119] = some "view" := by decide +kernel

/-- the order: a trigger stored before a table is listed after it -/
example : (schemaOrder [⟨1, "trigger", [97], [98], some 0, none⟩, ⟨2, "table", [98], [98], some 2, none⟩,
    ⟨3, "index", [99], [98], some 3, none⟩]).map (·.rowid) = [2, 3, 1] := by decide +kernel

end SqliteDissect.Properties.C01Schema
