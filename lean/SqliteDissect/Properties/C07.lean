/-
C07 — schema entries, schema history and column typing agree with SQLite (partial).

Property theorems only; helper lemmas live in Proofs/Schema.lean.  `Model.Schema` mirrors the SQL
text parsing of sqlite_dissect/file/schema/{master,column,table,utilities}.py for ordinary table
rows; `Spec.Affinity` is SQLite's `sqlite3AffinityType`, `Spec.Ddl` a small grammar of column
definitions with its renderer.

What is proved: (1) the affinity rules, (2) the closing-parenthesis scanner on balanced text,
(3) that for `Simple` column definitions written in the plainest syntax the definition scanner and
`ColumnDefinition` recover SQLite's names and affinities.  What is *not* true of the code, and
therefore only stated as `…FullStatement` with a counterexample: the affinity of every declared
type (NOT_SPECIFIED), and the recovery of names/affinities for all of SQLite's CREATE TABLE syntax
(a tab between name and type is enough) — see `columns_counterexample`.

That the schema *rows* of every version are the rows of the page-1 b-tree (type, name, tbl_name,
rootpage, sql) is the business of Model.Database / Model.Wal (db.dump / vh.dump correspondence,
C01/C02); this file is about the SQL text of table rows.
-/
import SqliteDissect.Proofs.Schema

namespace SqliteDissect.Properties.C07
open SqliteDissect SqliteDissect.Model.Schema SqliteDissect.Spec.Ddl

/-! ### Affinity -/

/-- The full statement: for every non-empty declared type the code's data-type detour plus
substring rules give the affinity SQLite assigns. -/
def AffinityFullStatement : Prop :=
  ∀ s : Str, s ≠ [] → declaredAffinity s = .ok (Spec.typeAffinity s)

/-- It is false of the code: the declared type `NOT_SPECIFIED` is mapped to the enum value that
means "no type", hence BLOB; SQLite gives NUMERIC. -/
theorem affinity_counterexample : ¬ AffinityFullStatement := by
  intro h
  have h1 := h dtNotSpecified (by decide)
  have h2 := Proofs.Schema.affinity_counterexample
  rw [h2.1, h2.2] at h1
  cases h1

/-- Whenever `_get_data_type` answers INVALID the substring rules run on the declared type itself
and agree with SQLite — for every string. -/
theorem affinity_invalid_branch (d : Str) (h : getDataType d = dtInvalid) :
    columnAffinity (getDataType d) (some d) = .ok (Spec.typeAffinity d) := by
  exact Proofs.Schema.affinity_invalid_branch d h

/-- Whenever `_get_data_type` finds an enum entry other than NOT_SPECIFIED, the affinity computed
from the enum's name is SQLite's affinity of the declared type with its argument list cut off (the
regex `\(.*\)$`) — for every string. -/
theorem affinity_enum_branch (d : Str) (h1 : getDataType d ≠ dtInvalid)
    (h2 : spaceToUnderscore (stripArgs (upper d)) ≠ dtNotSpecified) :
    columnAffinity (getDataType d) (some d) = .ok (Spec.typeAffinity (stripArgs (upper d))) := by
  exact Proofs.Schema.affinity_enum_branch d h1 h2

/-- The partial statement: for a declared type in SQLite's `typetoken` shape (a name without "(",
optionally followed by a parenthesised argument list that contains none of the eight keywords — the
grammar only allows signed numbers there), other than NOT_SPECIFIED, the code's affinity is
SQLite's. -/
theorem affinity_eq_spec_partial (name args : Str) (h : Proofs.Schema.TypeToken name args)
    (hns : spaceToUnderscore (upper name) ≠ dtNotSpecified) :
    declaredAffinity (name ++ args) = .ok (Spec.typeAffinity (name ++ args)) := by
  exact Proofs.Schema.affinity_eq_spec_partial name args h hns

/-- non-vacuity: `VARCHAR(255)` is such a type token (and gets TEXT) -/
example : Proofs.Schema.TypeToken ['V','A','R','C','H','A','R'] ['(','2','5','5',')'] ∧
    declaredAffinity ['V','A','R','C','H','A','R','(','2','5','5',')'] = .ok .text :=
  ⟨⟨by decide, Or.inr rfl, by decide⟩, rfl⟩

example : getDataType ['F','L','O','A','T','I','N','G',' ','P','O','I','N','T'] = dtInvalid := by decide +kernel
example : getDataType ['D','O','U','B','L','E',' ','P','R','E','C','I','S','I','O','N'] ≠ dtInvalid := by decide +kernel

/-! ### Closing parenthesis -/

/-- On text made of parentheses and characters that start neither a comment nor a quoted string,
`get_index_of_closing_parenthesis` returns the position of the parenthesis that balances the
opening one — whatever follows it. -/
theorem closing_paren_balanced (body rest : Str) (h : balance 0 body = some 0) :
    closingParen ('(' :: body ++ ')' :: rest) = .ok (body.length + 1) := by
  exact Proofs.Schema.closing_paren_balanced body rest h

example : balance 0 ['a',' ','I','N','T','(','1','0',',','5',')',',',' ','b'] = some 0 := by decide +kernel

/-- For every string: an index returned by `get_index_of_closing_parenthesis` holds a ")". -/
theorem closing_paren_points (s : Str) (i : Nat) (h : closingParen s = .ok i) : s[i]? = some ')' := by
  exact Proofs.Schema.closing_paren_points s i h

example : closingParen ['(','a',' ','-','-',')','\n',')',' ','x'] = .ok 7 := by rfl

/-! ### Column definitions -/

/-- `ColumnDefinition.__init__` on a `Simple` definition in plain syntax (`name` or `name type`)
recovers the column name and the affinity SQLite assigns. -/
theorem columns_partial (d : ColDef) (h : Simple d = true) :
    ∃ col, parseColumn (renderCol d) = .ok col ∧ col.name = d.name ∧ col.affinity = d.affinity := by
  exact Proofs.Schema.parseColumn_simple d h

/-- The definition scanner of `OrdinaryTableRow.__init__` on a body of `Simple` definitions
separated by ", " ends without error, finds no table constraint and yields, in order, the names and
the affinities SQLite assigns. -/
theorem split_render (ds : List ColDef) (hne : ds ≠ []) (h : ∀ d ∈ ds, Simple d = true) :
    ∃ st, scan ((renderBody ds).length + 1) {} [] (renderBody ds) = .ok st ∧ st.ntc = 0 ∧
      st.cols.reverse.map (·.name) = ds.map (·.name) ∧
      st.cols.reverse.map (·.affinity) = ds.map (·.affinity) := by
  exact Proofs.Schema.split_render ds hne h

def exA : ColDef := ⟨['i','d'], some ['I','N','T','E','G','E','R']⟩
def exB : ColDef := ⟨['n','o','t','e','s'], some ['V','a','r','C','h','a','r']⟩
def exC : ColDef := ⟨['p','r','i','m','a','r','y','E','m','a','i','l'], none⟩

/-- non-vacuity: three `Simple` definitions, and the whole CREATE TABLE statement built from them
goes through `OrdinaryTableRow.__init__` with SQLite's names and affinities -/
example : Simple exA = true ∧ Simple exB = true ∧ Simple exC = true := by decide +kernel

example :
    (parseOrdinaryTable ['t'] ['t'] (renderTable ['t'] [exA, exB, exC])).toOption.map
        (fun t => (t.cols.map (·.name), t.cols.map (·.affinity), t.ntc, t.withoutRowid, t.internal)) =
      some ([exA.name, exB.name, exC.name], [.integer, .text, .blob], 0, false, false) := by
  decide +kernel

/-- The full statement for column lists — every column definition SQLite's grammar allows, here
already for the plain syntax with an arbitrary single whitespace character between name and type —
is false of the code. -/
def ColumnsFullStatement : Prop :=
  ∀ (d : ColDef) (sep : Char), isSpace sep = true → Simple d = true →
    ∀ t, d.type = some t →
      ∃ col, parseColumn (d.name ++ sep :: t) = .ok col ∧ col.name = d.name ∧ col.affinity = d.affinity

/-- witness: `id<TAB>INTEGER` is read as a column named "id\tINTEGER" of BLOB affinity -/
theorem columns_counterexample : ¬ ColumnsFullStatement := by
  intro h
  obtain ⟨col, h1, h2, _⟩ := h exA '\t' (by decide) (by decide +kernel) _ rfl
  have h3 : parseColumn (exA.name ++ '\t' :: ['I','N','T','E','G','E','R']) =
      .ok { name := ['i','d','\t','I','N','T','E','G','E','R'], derived := none, dataType := dtNotSpecified,
            affinity := .blob, hasConstraints := false } := by rfl
  rw [h3] at h1
  cases h1
  revert h2
  decide

end SqliteDissect.Properties.C07
