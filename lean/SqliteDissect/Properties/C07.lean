/-
C07 — schema entries, schema history and column typing agree with SQLite (partial).

Property theorems only; helper lemmas live in Proofs/Schema.lean.  `Model.Schema` mirrors the SQL
text parsing of sqlite_dissect/file/schema/{master,column,table,utilities}.py for ordinary table
rows; `Spec.Affinity` is SQLite's `sqlite3AffinityType`, `Spec.Ddl` a small grammar of column
definitions with its renderer.

What is proved: (1) the affinity rules — now the full statement for every declared type SQLite's
grammar produces, (2) the closing-parenthesis scanner on balanced text, with any number of block
comments in it (those that start with "/*/" included, repair 41d65d3; the same comment through the
other three comment scanners: `parse_comment_block`, `scan_jump_block_comment`,
`columns_block_comment`), (3) that for `Simple` column
definitions, with any whitespace between name and type, the definition scanner and
`ColumnDefinition` recover SQLite's names and affinities, (4) that `ColumnDefinition` recovers the
name of a column written in quotes — double quotes, single quotes, back-ticks — with the quote
character doubled inside it (repair 687226d), for every name without "/", "--" and whitespace runs.
What is still *not* true of the code, and therefore only stated as `ColumnsFullStatement` with a
counterexample: the recovery of names for all of SQLite's CREATE TABLE syntax (a "/" inside a quoted
name is enough: open finding C07-09, "/" and "--" inside names, literals and expressions; further
open findings: C07-13 whitespace runs inside quoted names, C07-03 STRICT, C07-17 SQLite's reading of
`GENERATED/**/ALWAYS` as a declared type).  (5) `[bracket]` names: read up to the first "]", a newline
included (repair 417a203), the name being the text between the brackets (repair d4f87a6) — the name
readers for every name, `ColumnDefinition` with the same two exceptions (`BracketFullStatement`).
The model mirrors /repo after the repairs 65104eb … 07e13e3, 687226d, 41d65d3, 417a203, d4f87a6
(C07-01, -02, -04, -05, -06, -07, -08, -10, -11, -12, -14, -16, -18; C07-15 is in output.py).

That the schema *rows* of every version are the rows of the page-1 b-tree (type, name, tbl_name,
rootpage, sql) is the business of Model.Database / Model.Wal (db.dump / vh.dump correspondence,
C01/C02); this file is about the SQL text of table rows.
-/
import SqliteDissect.Proofs.Schema
import SqliteDissect.Proofs.SchemaQuoted
import SqliteDissect.Proofs.SchemaBracket

namespace SqliteDissect.Properties.C07
open SqliteDissect SqliteDissect.Model.Schema SqliteDissect.Spec.Ddl

/-! ### Affinity -/

/-- The full statement for declared types: every declared type SQLite's grammar can produce — a
type name without "(", optionally followed by a parenthesised argument list (`typetoken`: one or
two signed numbers, so none of the eight keywords occurs in it) — gets from the code's data-type
detour plus substring rules the affinity SQLite assigns.  (Before commit 1f55f9a this needed the
extra hypothesis "the name is not NOT_SPECIFIED".) -/
theorem affinity_eq_spec (name args : Str) (h : Proofs.Schema.TypeToken name args) :
    declaredAffinity (name ++ args) = .ok (Spec.typeAffinity (name ++ args)) := by
  exact Proofs.Schema.affinity_eq_spec name args h

/-- the former counterexample is gone: the type name NOT_SPECIFIED gets NUMERIC, as in SQLite -/
theorem affinity_not_specified :
    declaredAffinity dtNotSpecified = .ok .numeric ∧ Spec.typeAffinity dtNotSpecified = .numeric := by
  exact ⟨Proofs.Schema.affinity_not_specified, by decide +kernel⟩

/-- Whenever `_get_data_type` answers INVALID the substring rules run on the declared type itself
and agree with SQLite — for every string. -/
theorem affinity_invalid_branch (d : Str) (h : getDataType d = dtInvalid) :
    columnAffinity (getDataType d) (some d) = .ok (Spec.typeAffinity d) := by
  exact Proofs.Schema.affinity_invalid_branch d h

/-- Whenever `_get_data_type` finds an enum entry, the affinity computed from the enum's name is
SQLite's affinity of the declared type with its argument list cut off (the regex `\(.*\)$`) — for
every string. -/
theorem affinity_enum_branch (d : Str) (h1 : getDataType d ≠ dtInvalid) :
    columnAffinity (getDataType d) (some d) = .ok (Spec.typeAffinity (stripArgs (upper d))) := by
  exact Proofs.Schema.affinity_enum_branch d h1

/-- The statement over *all* strings (not only SQLite's type tokens) stays false: the argument
list is cut off before the rules run, SQLite scans the whole text.  `DATE(INT)` is not a type
SQLite's grammar accepts, so this does not touch the property; it records why `affinity_eq_spec`
carries the `TypeToken` hypothesis. -/
def AffinityAllStrings : Prop :=
  ∀ s : Str, s ≠ [] → declaredAffinity s = .ok (Spec.typeAffinity s)

theorem affinity_all_strings_counterexample : ¬ AffinityAllStrings := by
  intro h
  have h1 := h Proofs.Schema.dateInt (by decide)
  have h2 := Proofs.Schema.affinity_outside_grammar
  rw [h2.1, h2.2] at h1
  cases h1

/-- non-vacuity: `VARCHAR(255)` and `NOT_SPECIFIED` are such type tokens -/
example : Proofs.Schema.TypeToken ['V','A','R','C','H','A','R'] ['(','2','5','5',')'] ∧
    declaredAffinity ['V','A','R','C','H','A','R','(','2','5','5',')'] = .ok .text :=
  ⟨⟨by decide, Or.inr rfl, by decide⟩, rfl⟩

example : Proofs.Schema.TypeToken dtNotSpecified [] := ⟨by decide, Or.inl rfl, by decide⟩

example : getDataType ['F','L','O','A','T','I','N','G',' ','P','O','I','N','T'] = dtInvalid := by decide +kernel
example : getDataType ['D','O','U','B','L','E',' ','P','R','E','C','I','S','I','O','N'] ≠ dtInvalid := by decide +kernel

/-! ### Closing parenthesis -/

/-- On text made of parentheses and characters that start neither a comment nor a quoted string,
`get_index_of_closing_parenthesis` returns the position of the parenthesis that balances the
opening one — whatever follows it. -/
theorem closing_paren_balanced (body rest : Str) (h : balance 0 body = some 0) :
    closingParen ('(' :: body ++ ')' :: rest) = .ok (body.length + 1) := by
  exact Proofs.Schema.closing_paren_balanced body rest h

example : balance 0 ['a',' ','I','N','T','(','1','0',',','5',')',',',' ','b'] = some 0 := by decide +kernel

/-- The same with block comments anywhere in the text (`withComments p [(b₁, q₁), …]` is
`p /*b₁*/ q₁ …`): whatever a comment contains — parentheses, quotes, commas, "--", a "/" as its very
first character (`/*/ x */`, which before commit 41d65d3 was closed at its third character, finding
C07-07) — as long as it is one comment for SQLite (no `*/` inside `bᵢ`), and the text outside the
comments is balanced, the index returned is that of the balancing parenthesis. -/
theorem closing_paren_comments (p : Str) (segs : List (Str × Str)) (rest : Str)
    (hb : ∀ s ∈ segs, Spec.contains ['*', '/'] s.1 = false) (h : balance 0 (plainText p segs) = some 0) :
    closingParen ('(' :: withComments p segs ++ ')' :: rest) = .ok ((withComments p segs).length + 1) := by
  exact Proofs.Schema.closing_paren_comments p segs rest hb h

def exPlain : Str := ['a', ' ']
def exSegs : List (Str × Str) :=
  [(['/', ' ', 'x', ')', ' '], [' ', 'I', 'N', 'T', '(', '1', ')', ',', ' ', 'b', ' ']), ([], [])]

/-- non-vacuity, and the former witness of C07-07: the text `(a /*/ x) */ INT(1), b /**/) r` -/
example :
    '(' :: withComments exPlain exSegs ++ [')', ' ', 'r'] =
      ['(', 'a', ' ', '/', '*', '/', ' ', 'x', ')', ' ', '*', '/', ' ', 'I', 'N', 'T', '(', '1', ')', ',', ' ', 'b', ' ',
       '/', '*', '*', '/', ')', ' ', 'r'] ∧
    (∀ s ∈ exSegs, Spec.contains ['*', '/'] s.1 = false) ∧
    balance 0 (plainText exPlain exSegs) = some 0 ∧
    (closingParen ('(' :: withComments exPlain exSegs ++ [')', ' ', 'r'])).toOption = some 27 := by
  refine ⟨by decide +kernel, by decide +kernel, by decide +kernel, by decide +kernel⟩

/-- a comment that is opened by "/*/" and never closed: the scanner runs to the end of the text
(and answers the last index if a ")" happens to stand there, as for every unclosed comment) -/
example : (closingParen ['(', 'a', ' ', '/', '*', '/', ' ', 'x', ')']).toOption = some 8 ∧
    Proofs.Schema.errorOf (closingParen ['(', 'a', ' ', '/', '*', '/', ' ', 'x', ')', ' ']) = some .parseError := by
  exact ⟨by decide +kernel, by decide +kernel⟩

/-- The other scanners repaired by 41d65d3 on one whole comment `/*` b `*/` (no `*/` inside b; b may
begin with "/"): `parse_comment_from_sql_segment` returns exactly the comment and what follows it, -/
theorem parse_comment_block (b rest : Str) (hb : Spec.contains ['*', '/'] b = false) :
    parseComment ('/' :: '*' :: b ++ '*' :: '/' :: rest) = .ok ('/' :: '*' :: b ++ ['*', '/'], rest) := by
  exact Proofs.Schema.parseComment_block b rest (by rw [Proofs.Schema.hasSub_eq]; exact hb)

/-- and the definition splitter of `OrdinaryTableRow.__init__`, standing on the "/" that opens the
comment, moves to the comment's last character (commas and parentheses inside are not seen). -/
theorem scan_jump_block_comment (b rest : Str) (hb : Spec.contains ['*', '/'] b = false) :
    scanJump ('/' :: '*' :: b ++ '*' :: '/' :: rest) = .ok (b.length + 3) := by
  exact Proofs.Schema.scanJump_block b rest (by rw [Proofs.Schema.hasSub_eq]; exact hb)

example : Spec.contains ['*', '/'] ['/', ',', '('] = false ∧
    (parseComment ['/', '*', '/', ',', '(', '*', '/', ' ', 'x']).toOption = some (['/', '*', '/', ',', '(', '*', '/'], [' ', 'x']) := by
  exact ⟨by decide +kernel, by decide +kernel⟩

/-- `/*/` without a closing `*/`: `parse_comment_from_sql_segment` takes the comment to run to the end of the
text, as SQLite does (repair of C07-21; before it `str.index` raised ValueError), and likewise a `--` comment
without a newline; inside a column list - where SQLite cannot have stored such a comment - the definition
splitter and the comment stripper of `ColumnDefinition` still answer Python's ValueError -/
example : (parseComment ['/', '*', '/']).toOption = some (['/', '*', '/'], []) ∧
    (parseComment ['-', '-', ' ', 'c']).toOption = some (['-', '-', ' ', 'c'], []) ∧
    Proofs.Schema.errorOf (scanJump ['/', '*', '/', ' ', 'x']) = some .valueError ∧
    Proofs.Schema.errorOf (parseColumn ['a', ' ', '/', '*', '/', ' ', 'I', 'N', 'T']) = some .valueError := by
  exact ⟨by decide +kernel, by decide +kernel, by decide +kernel, by decide +kernel⟩

/-- For every string: an index returned by `get_index_of_closing_parenthesis` holds a ")". -/
theorem closing_paren_points (s : Str) (i : Nat) (h : closingParen s = .ok i) : s[i]? = some ')' := by
  exact Proofs.Schema.closing_paren_points s i h

example : closingParen ['(','a',' ','-','-',')','\n',')',' ','x'] = .ok 7 := by rfl

/-! ### Column definitions -/

/-- `ColumnDefinition.__init__` on a `Simple` definition in plain syntax (`name` or `name type`)
recovers the column name and the affinity SQLite assigns.  `Simple` no longer excludes one-character
types (bf76d3b) nor the type name NOT_SPECIFIED (1f55f9a). -/
theorem columns_partial (d : ColDef) (h : Simple d = true) :
    ∃ col, parseColumn (renderCol d) = .ok col ∧ col.name = d.name ∧ col.affinity = d.affinity := by
  exact Proofs.Schema.parseColumn_simple d h

/-- The same with *any* non-empty run of whitespace characters (tab, newline, CR, FF, several
spaces, …) between name and type: what was `ColumnsFullStatement` with the single-tab
counterexample before commit 7c5a905 is now a theorem. -/
theorem columns_any_whitespace (d : ColDef) (h : Simple d = true) (t : Str) (hty : d.type = some t)
    (ws : Str) (hwne : ws ≠ []) (hws : ∀ w ∈ ws, isSpace w = true) :
    ∃ col, parseColumn (d.name ++ ws ++ t) = .ok col ∧ col.name = d.name ∧ col.affinity = d.affinity := by
  exact Proofs.Schema.parseColumn_simple_ws d h t hty ws hwne hws

/-- A block comment between name and type, with or without whitespace around it (`a /*/ x */ INT`,
`a/**/INT`): the comment stripper of `ColumnDefinition.__init__` takes out the whole comment — also
when it begins with "/*/" (41d65d3, finding C07-07) — and leaves a separator (07e13e3, C07-08). -/
theorem columns_block_comment (d : ColDef) (h : Simple d = true) (t : Str) (hty : d.type = some t)
    (ws1 ws2 b : Str) (hws1 : ∀ w ∈ ws1, isSpace w = true) (hws2 : ∀ w ∈ ws2, isSpace w = true)
    (hb : Spec.contains ['*', '/'] b = false) :
    ∃ col, parseColumn (d.name ++ ws1 ++ '/' :: '*' :: b ++ '*' :: '/' :: ws2 ++ t) = .ok col ∧
      col.name = d.name ∧ col.affinity = d.affinity := by
  exact Proofs.Schema.parseColumn_simple_comment d h t hty ws1 ws2 b hws1 hws2 hb

/-- the former witness of C07-07: `a /*/ x */ INT` -/
example : (parseColumn ['a', ' ', '/', '*', '/', ' ', 'x', ' ', '*', '/', ' ', 'I', 'N', 'T']).toOption.map
    (fun c => (c.name, c.affinity)) = some (['a'], .integer) := by
  decide +kernel

/-- The definition scanner of `OrdinaryTableRow.__init__` on a body of `Simple` definitions
separated by ", " ends without error, finds no table constraint and yields, in order, the names and
the affinities SQLite assigns. -/
theorem split_render (ds : List ColDef) (hne : ds ≠ []) (h : ∀ d ∈ ds, Simple d = true) :
    ∃ st, scan ((renderBody ds).length + 1) {} [] (renderBody ds) = .ok st ∧ st.ntc = 0 ∧
      st.cols.reverse.map (·.name) = ds.map (·.name) ∧
      st.cols.reverse.map (·.affinity) = ds.map (·.affinity) := by
  exact Proofs.Schema.split_render ds hne h

def exA : ColDef := ⟨['i','d'], some ['I','N','T','E','G','E','R']⟩
def exB : ColDef := ⟨['n','o','t','e','s'], some ['V','a','r','C','h','a','r']⟩
def exC : ColDef := ⟨['p','r','i','m','a','r','y','E','m','a','i','l'], none⟩
def exD : ColDef := ⟨['f','l','a','g'], some ['N']⟩
def exE : ColDef := ⟨['k'], some dtNotSpecified⟩

/-- non-vacuity: `Simple` definitions (a one-character type and NOT_SPECIFIED among them), and the
whole CREATE TABLE statement built from them goes through `OrdinaryTableRow.__init__` with SQLite's
names and affinities -/
example : Simple exA = true ∧ Simple exB = true ∧ Simple exC = true ∧ Simple exD = true ∧ Simple exE = true := by
  decide +kernel

example :
    (parseOrdinaryTable ['t'] ['t'] (renderTable ['t'] [exA, exB, exC, exD, exE])).toOption.map
        (fun t => (t.cols.map (·.name), t.cols.map (·.affinity), t.ntc, t.withoutRowid, t.internal)) =
      some ([exA.name, exB.name, exC.name, exD.name, exE.name],
            [.integer, .text, .blob, .numeric, .numeric], 0, false, false) := by
  decide +kernel

/-- the former witness of `columns_counterexample`: `id<TAB>INTEGER` -/
example : (parseColumn (exA.name ++ ['\t'] ++ ['I','N','T','E','G','E','R'])).toOption.map
    (fun c => (c.name, c.affinity)) = some (['i','d'], .integer) := by
  decide +kernel

/-- Open finding C07-17, a witness on the model side: for `b GENERATED/**/ALWAYS AS (1)` the code
finds no declared type (BLOB); SQLite 3.40.1 records the declared type `GENERATED/**/` (its removal
of a trailing "generated always" from the type name needs the two words separated by whitespace
only), for which `Spec.typeAffinity` — and SQLite — say NUMERIC. -/
example :
    (parseColumn ['b', ' ', 'G','E','N','E','R','A','T','E','D', '/', '*', '*', '/', 'A','L','W','A','Y','S', ' ', 'A','S', ' ', '(', '1', ')']).toOption.map
        (fun c => (c.name, c.derived, c.affinity)) = some (['b'], none, .blob) ∧
    Spec.typeAffinity ['G','E','N','E','R','A','T','E','D', '/', '*', '*', '/'] = .numeric := by
  exact ⟨by decide +kernel, by decide +kernel⟩

/-! ### Quoted column names -/

/-- `ColumnDefinition.__init__` on a column whose name is written in quotes (`q` one of `"`, `'`,
back-tick), every quote character inside the name doubled as SQLite writes it, followed by nothing
or by a one-word type: the name is the one SQLite means (the doubled character read as one), the
affinity the one SQLite assigns.  `QuotedSafe`: the name contains no "/", no "--" and no run of two
or more whitespace characters (what is left of the full statement, see below); everything else —
the quote character itself, other quote characters, parentheses, commas, a newline, a "-", any
non-ASCII character — is allowed.  Before commit 687226d `"x""y"` was read as `x` (finding C07-02). -/
theorem columns_quoted_partial (q : Char) (hq : isQuote q = true) (d : ColDef)
    (hname : Proofs.Schema.QuotedSafe d.name)
    (hty : ∀ t, d.type = some t → isIdent t = true ∧ beginsWithKeyword columnKeywords t = false) :
    ∃ col, parseColumn (renderColQ q d) = .ok col ∧ col.name = d.name ∧ col.affinity = d.affinity := by
  exact Proofs.Schema.parseColumn_quoted q hq d hname hty

/-- The same with any non-empty run of whitespace characters between the closing quote and the type. -/
theorem columns_quoted_any_whitespace (q : Char) (hq : isQuote q = true) (d : ColDef)
    (hname : Proofs.Schema.QuotedSafe d.name) (t : Str) (hty : d.type = some t)
    (ht : isIdent t = true) (hkw : beginsWithKeyword columnKeywords t = false)
    (ws : Str) (hwne : ws ≠ []) (hws : ∀ w ∈ ws, isSpace w = true) :
    ∃ col, parseColumn (quoteName q d.name ++ ws ++ t) = .ok col ∧ col.name = d.name ∧ col.affinity = d.affinity := by
  exact Proofs.Schema.parseColumn_quoted_any_ws q hq d hname t hty ht hkw ws hwne hws

/-- The name reader shared by table names and index names
(`_get_master_schema_row_name_and_remaining_sql`) on a quoted name followed by anything that does
not begin with the same quote character: SQLite's name, and the rest of the statement untouched —
for every name (no `QuotedSafe` needed: this function neither strips comments nor collapses whitespace). -/
theorem row_name_quoted (q : Char) (hq : isQuote q = true) (name rest : Str) (hr : rest.head? ≠ some q) :
    rowNameAndRest (quoteName q name ++ rest) = .ok (name, rest) := by
  exact Proofs.Schema.rowNameAndRest_quoted q hq name rest hr

def exQ : ColDef := ⟨['x', '"', 'y', '`', ' ', '(', ',', '-', '\n', 'é'], some ['V','a','r','C','h','a','r']⟩

/-- non-vacuity: a name with both kinds of quote characters, a space, a parenthesis, a comma, a
dash, a newline and a non-ASCII letter is `QuotedSafe`; the former witness of C07-02 -/
example : Proofs.Schema.QuotedSafe exQ.name := ⟨by decide, by decide +kernel, by decide +kernel⟩

example : (parseColumn (renderColQ '"' ⟨['x', '"', 'y'], some ['I','N','T']⟩)).toOption.map (fun c => (c.name, c.affinity)) =
    some (['x', '"', 'y'], .integer) ∧
    renderColQ '"' ⟨['x', '"', 'y'], some ['I','N','T']⟩ = ['"', 'x', '"', '"', 'y', '"', ' ', 'I', 'N', 'T'] := by
  exact ⟨by decide +kernel, by decide +kernel⟩

def exStatement : Str :=
  ['C','R','E','A','T','E',' ','T','A','B','L','E',' ','"','t','"','"','1','"',' ','(','"','x','"','"','y','"',' ','I','N','T',',',' ',
   '\'','i','t','\'','\'','s','\'',' ','T','E','X','T',',',' ','`','a','`','`','b','`',')']

/-- the whole statement `CREATE TABLE "t""1" ("x""y" INT, 'it''s' TEXT, `a``b`)` through `OrdinaryTableRow.__init__` -/
example :
    (parseOrdinaryTable ['t', '"', '1'] ['t', '"', '1'] exStatement).toOption.map
        (fun t => (t.name, t.cols.map (·.name), t.cols.map (·.affinity))) =
      some (['t', '"', '1'], [['x', '"', 'y'], ['i', 't', '\'', 's'], ['a', '`', 'b']], [.integer, .text, .blob]) := by
  decide +kernel

/-! ### Bracket names

The fourth quoting style, `[…]`, has no doubling: the name ends at the first "]".  Since commit 417a203
the regex is `^\[([^\]]*)\]` (a negated class: a newline inside the brackets is read, finding C07-16);
since commit d4f87a6 the name is `group(1)`, the text between the brackets (before: the matched text
with `.strip("[]")`, which also removed "[" characters belonging to the name, finding C07-18). -/

/-- The name reader shared by table and index names on `[n]` followed by anything, for every n
without "]" (a newline, "[" anywhere, quote characters, parentheses, commas, "/", "--", whitespace
runs allowed; the empty name too): the name is n itself and the rest of the statement is untouched. -/
theorem row_name_bracketed (n rest : Str) (hn : ']' ∉ n) :
    rowNameAndRest ('[' :: n ++ ']' :: rest) = .ok (n, rest) := by
  exact Proofs.Schema.rowNameAndRest_bracket n rest hn

/-- `ColumnDefinition.__init__` on a column whose name is written in brackets, followed by nothing
or by any non-empty whitespace run and a one-word type: SQLite's name and affinity, for every
`QuotedSafe` name without "]" (no "/", "--", whitespace run: C07-09, C07-13 as for quoted names —
the whole column text still passes the comment stripper and the whitespace collapse). -/
theorem columns_bracketed_partial (d : ColDef) (hn : ']' ∉ d.name)
    (hname : Proofs.Schema.QuotedSafe d.name)
    (hty : ∀ t, d.type = some t → isIdent t = true ∧ beginsWithKeyword columnKeywords t = false)
    (ws : Str) (hwne : ws ≠ []) (hws : ∀ w ∈ ws, isSpace w = true) :
    ∃ col, parseColumn ('[' :: d.name ++ [']'] ++ (match d.type with | none => [] | some t => ws ++ t)) = .ok col ∧
      col.name = d.name ∧ col.affinity = d.affinity := by
  exact Proofs.Schema.parseColumn_bracketed d hn hname hty ws hwne hws

def exBr : ColDef := ⟨['[', 'a', '\n', 'b', '[', '"', ' ', '(', ',', 'c', '['], some ['I', 'N', 'T']⟩

/-- non-vacuity (a name that begins and ends with "["); the former witnesses of C07-16 `[a<NL>b] INT`
and C07-18 `[[a] INT`, `[a[] INT`, `[[]` -/
example : ']' ∉ exBr.name ∧ Proofs.Schema.QuotedSafe exBr.name :=
  ⟨by decide, ⟨by decide, by decide +kernel, by decide +kernel⟩⟩

example : (parseColumn ['[', 'a', '\n', 'b', ']', ' ', 'I', 'N', 'T']).toOption.map (fun c => (c.name, c.affinity)) =
      some (['a', '\n', 'b'], .integer) ∧
    (parseColumn ['"', 'a', '\n', 'b', '"', ' ', 'I', 'N', 'T']).toOption.map (·.name) = some ['a', '\n', 'b'] ∧
    Proofs.Schema.errorOf (rowNameAndRest ['[', 'a', 'b']) = some .parseError := by
  exact ⟨by decide +kernel, by decide +kernel, by decide +kernel⟩

example : (parseColumn ['[', '[', 'a', ']', ' ', 'I', 'N', 'T']).toOption.map (·.name) = some ['[', 'a'] ∧
    (parseColumn ['[', 'a', '[', ']', ' ', 'I', 'N', 'T']).toOption.map (·.name) = some ['a', '['] ∧
    (parseColumn ['[', '[', ']']).toOption.map (·.name) = some ['['] := by
  exact Proofs.Schema.bracket_edge_kept

/-- The statement for *every* bracket column name stays false, no longer because of the brackets
(C07-18 is repaired) but for the same two reasons as for quoted names: the column text as a whole
goes through the comment stripper (open finding C07-09: `[a/b]` is rejected with ValueError) and
the whitespace collapse (open finding C07-13: `[a  b]` is read as `a b`). -/
def BracketFullStatement : Prop :=
  ∀ (n : Str), ']' ∉ n → n ≠ [] → ∃ col, parseColumn ('[' :: n ++ [']']) = .ok col ∧ col.name = n

/-- witness (C07-09): `[a/b]` -/
theorem bracket_counterexample : ¬ BracketFullStatement := by
  exact Proofs.Schema.bracket_counterexample

/-- and without "/" and "-" it is still false (C07-13): `[a  b]` -/
theorem bracket_counterexample_whitespace :
    ¬ ∀ (n : Str), ']' ∉ n → '/' ∉ n → '-' ∉ n → ∃ col, parseColumn ('[' :: n ++ [']']) = .ok col ∧ col.name = n := by
  exact Proofs.Schema.bracket_counterexample_whitespace

/-- unterminated and oddly terminated names, as the regex engine backtracks: `"abc` has no match;
`"a""` is `"a"` followed by `"`; `"""` is the empty name followed by `"`; `""""` is the name `"` -/
example :
    Proofs.Schema.errorOf (rowNameAndRest ['"', 'a', 'b', 'c']) = some .parseError ∧
    (rowNameAndRest ['"', 'a', '"', '"']).toOption = some (['a'], ['"']) ∧
    (rowNameAndRest ['"', '"', '"']).toOption = some ([], ['"']) ∧
    (rowNameAndRest ['"', '"', '"', '"']).toOption = some (['"'], []) := by
  refine ⟨by decide +kernel, by decide +kernel, by decide +kernel, by decide +kernel⟩

/-- The full statement for quoted column names — every name SQLite accepts inside quotes — is still
false of the code (open findings C07-09 and C07-13; for column lists also C07-03 STRICT). -/
def ColumnsFullStatement : Prop :=
  ∀ (q : Char), isQuote q = true → ∀ (name : Str), name ≠ [] →
    ∃ col, parseColumn (quoteName q name) = .ok col ∧ col.name = name

/-- witness (C07-09): the column `"a/b"` is rejected — the "/" is taken for the start of a comment -/
theorem columns_counterexample : ¬ ColumnsFullStatement := by
  exact Proofs.Schema.columns_counterexample

/-- and without "/" and "-" it is still false (C07-13): the column `"a  b"` is read as `a b` -/
theorem columns_counterexample_whitespace :
    ¬ ∀ (q : Char), isQuote q = true → ∀ (name : Str), '/' ∉ name → '-' ∉ name →
      ∃ col, parseColumn (quoteName q name) = .ok col ∧ col.name = name := by
  exact Proofs.Schema.columns_counterexample_whitespace

end SqliteDissect.Properties.C07
