/-
C07 — schema entries, schema history and column typing agree with SQLite (partial).

Property theorems only; helper lemmas live in Proofs/Schema.lean.  `Model.Schema` mirrors the SQL
text parsing of sqlite_dissect/file/schema/{master,column,table,utilities}.py for ordinary table
rows; `Spec.Affinity` is SQLite's `sqlite3AffinityType`, `Spec.Ddl` a small grammar of column
definitions with its renderer.

What is proved: (1) the affinity rules — now the full statement for every declared type SQLite's
grammar produces, (2) the closing-parenthesis scanner on balanced text, (3) that for `Simple` column
definitions, with any whitespace between name and type, the definition scanner and
`ColumnDefinition` recover SQLite's names and affinities.  What is still *not* true of the code, and
therefore only stated as `ColumnsFullStatement` with a counterexample: the recovery of names for all
of SQLite's CREATE TABLE syntax (a doubled quote inside a quoted name is enough; further open
findings: STRICT, "/*/" comments, "/" and "--" inside literals, whitespace runs inside quoted names).
The model mirrors /repo after the repairs 65104eb … 07e13e3 (C07-01, -04, -05, -06, -08, -10, -11,
-12, -14; C07-15 is in output.py).

That the schema *rows* of every version are the rows of the page-1 b-tree (type, name, tbl_name,
rootpage, sql) is the business of Model.Database / Model.Wal (db.dump / vh.dump correspondence,
C01/C02); this file is about the SQL text of table rows.
-/
import SqliteDissect.Proofs.Schema

namespace SqliteDissect.Properties.C07
open SqliteDissect SqliteDissect.Model.Schema SqliteDissect.Spec.Ddl

/-! ### Affinity -/

/-- The full statement for declared types: every declared type SQLite's grammar can produce — a
type name without "(", optionally followed by a parenthesised argument list (`typetoken`: one or
two signed numbers, so none of the eight keywords occurs in it) — gets from the code's data-type
detour plus substring rules the affinity SQLite assigns.  (Before commit 1f55f9a this needed the
extra hypothesis "the name is not NOT_SPECIFIED".) -/
theorem affinity_eq_spec (name args : Str) (h : Proofs.Schema.TypeToken name args) :
    declaredAffinity (name ++ args) = .ok (Spec.typeAffinity (name ++ args)) := by
  exact Proofs.Schema.affinity_eq_spec name args h

/-- the former counterexample is gone: the type name NOT_SPECIFIED gets NUMERIC, as in SQLite -/
theorem affinity_not_specified :
    declaredAffinity dtNotSpecified = .ok .numeric ∧ Spec.typeAffinity dtNotSpecified = .numeric := by
  exact ⟨Proofs.Schema.affinity_not_specified, by decide +kernel⟩

/-- Whenever `_get_data_type` answers INVALID the substring rules run on the declared type itself
and agree with SQLite — for every string. -/
theorem affinity_invalid_branch (d : Str) (h : getDataType d = dtInvalid) :
    columnAffinity (getDataType d) (some d) = .ok (Spec.typeAffinity d) := by
  exact Proofs.Schema.affinity_invalid_branch d h

/-- Whenever `_get_data_type` finds an enum entry, the affinity computed from the enum's name is
SQLite's affinity of the declared type with its argument list cut off (the regex `\(.*\)$`) — for
every string. -/
theorem affinity_enum_branch (d : Str) (h1 : getDataType d ≠ dtInvalid) :
    columnAffinity (getDataType d) (some d) = .ok (Spec.typeAffinity (stripArgs (upper d))) := by
  exact Proofs.Schema.affinity_enum_branch d h1

/-- The statement over *all* strings (not only SQLite's type tokens) stays false: the argument
list is cut off before the rules run, SQLite scans the whole text.  `DATE(INT)` is not a type
SQLite's grammar accepts, so this does not touch the property; it records why `affinity_eq_spec`
carries the `TypeToken` hypothesis. -/
def AffinityAllStrings : Prop :=
  ∀ s : Str, s ≠ [] → declaredAffinity s = .ok (Spec.typeAffinity s)

theorem affinity_all_strings_counterexample : ¬ AffinityAllStrings := by
  intro h
  have h1 := h Proofs.Schema.dateInt (by decide)
  have h2 := Proofs.Schema.affinity_outside_grammar
  rw [h2.1, h2.2] at h1
  cases h1

/-- non-vacuity: `VARCHAR(255)` and `NOT_SPECIFIED` are such type tokens -/
example : Proofs.Schema.TypeToken ['V','A','R','C','H','A','R'] ['(','2','5','5',')'] ∧
    declaredAffinity ['V','A','R','C','H','A','R','(','2','5','5',')'] = .ok .text :=
  ⟨⟨by decide, Or.inr rfl, by decide⟩, rfl⟩

example : Proofs.Schema.TypeToken dtNotSpecified [] := ⟨by decide, Or.inl rfl, by decide⟩

example : getDataType ['F','L','O','A','T','I','N','G',' ','P','O','I','N','T'] = dtInvalid := by decide +kernel
example : getDataType ['D','O','U','B','L','E',' ','P','R','E','C','I','S','I','O','N'] ≠ dtInvalid := by decide +kernel

/-! ### Closing parenthesis -/

/-- On text made of parentheses and characters that start neither a comment nor a quoted string,
`get_index_of_closing_parenthesis` returns the position of the parenthesis that balances the
opening one — whatever follows it. -/
theorem closing_paren_balanced (body rest : Str) (h : balance 0 body = some 0) :
    closingParen ('(' :: body ++ ')' :: rest) = .ok (body.length + 1) := by
  exact Proofs.Schema.closing_paren_balanced body rest h

example : balance 0 ['a',' ','I','N','T','(','1','0',',','5',')',',',' ','b'] = some 0 := by decide +kernel

/-- For every string: an index returned by `get_index_of_closing_parenthesis` holds a ")". -/
theorem closing_paren_points (s : Str) (i : Nat) (h : closingParen s = .ok i) : s[i]? = some ')' := by
  exact Proofs.Schema.closing_paren_points s i h

example : closingParen ['(','a',' ','-','-',')','\n',')',' ','x'] = .ok 7 := by rfl

/-! ### Column definitions -/

/-- `ColumnDefinition.__init__` on a `Simple` definition in plain syntax (`name` or `name type`)
recovers the column name and the affinity SQLite assigns.  `Simple` no longer excludes one-character
types (bf76d3b) nor the type name NOT_SPECIFIED (1f55f9a). -/
theorem columns_partial (d : ColDef) (h : Simple d = true) :
    ∃ col, parseColumn (renderCol d) = .ok col ∧ col.name = d.name ∧ col.affinity = d.affinity := by
  exact Proofs.Schema.parseColumn_simple d h

/-- The same with *any* non-empty run of whitespace characters (tab, newline, CR, FF, several
spaces, …) between name and type: what was `ColumnsFullStatement` with the single-tab
counterexample before commit 7c5a905 is now a theorem. -/
theorem columns_any_whitespace (d : ColDef) (h : Simple d = true) (t : Str) (hty : d.type = some t)
    (ws : Str) (hwne : ws ≠ []) (hws : ∀ w ∈ ws, isSpace w = true) :
    ∃ col, parseColumn (d.name ++ ws ++ t) = .ok col ∧ col.name = d.name ∧ col.affinity = d.affinity := by
  exact Proofs.Schema.parseColumn_simple_ws d h t hty ws hwne hws

/-- The definition scanner of `OrdinaryTableRow.__init__` on a body of `Simple` definitions
separated by ", " ends without error, finds no table constraint and yields, in order, the names and
the affinities SQLite assigns. -/
theorem split_render (ds : List ColDef) (hne : ds ≠ []) (h : ∀ d ∈ ds, Simple d = true) :
    ∃ st, scan ((renderBody ds).length + 1) {} [] (renderBody ds) = .ok st ∧ st.ntc = 0 ∧
      st.cols.reverse.map (·.name) = ds.map (·.name) ∧
      st.cols.reverse.map (·.affinity) = ds.map (·.affinity) := by
  exact Proofs.Schema.split_render ds hne h

def exA : ColDef := ⟨['i','d'], some ['I','N','T','E','G','E','R']⟩
def exB : ColDef := ⟨['n','o','t','e','s'], some ['V','a','r','C','h','a','r']⟩
def exC : ColDef := ⟨['p','r','i','m','a','r','y','E','m','a','i','l'], none⟩
def exD : ColDef := ⟨['f','l','a','g'], some ['N']⟩
def exE : ColDef := ⟨['k'], some dtNotSpecified⟩

/-- non-vacuity: `Simple` definitions (a one-character type and NOT_SPECIFIED among them), and the
whole CREATE TABLE statement built from them goes through `OrdinaryTableRow.__init__` with SQLite's
names and affinities -/
example : Simple exA = true ∧ Simple exB = true ∧ Simple exC = true ∧ Simple exD = true ∧ Simple exE = true := by
  decide +kernel

example :
    (parseOrdinaryTable ['t'] ['t'] (renderTable ['t'] [exA, exB, exC, exD, exE])).toOption.map
        (fun t => (t.cols.map (·.name), t.cols.map (·.affinity), t.ntc, t.withoutRowid, t.internal)) =
      some ([exA.name, exB.name, exC.name, exD.name, exE.name],
            [.integer, .text, .blob, .numeric, .numeric], 0, false, false) := by
  decide +kernel

/-- the former witness of `columns_counterexample`: `id<TAB>INTEGER` -/
example : (parseColumn (exA.name ++ ['\t'] ++ ['I','N','T','E','G','E','R'])).toOption.map
    (fun c => (c.name, c.affinity)) = some (['i','d'], .integer) := by
  decide +kernel

/-- The full statement for column lists — every column definition SQLite's grammar allows — is still
false of the code (open findings C07-02, -03, -07, -09, -13).  Stated for the smallest remaining
deviation: a quoted column name may contain a doubled quote character. -/
def ColumnsFullStatement : Prop :=
  ∀ (name : Str), name ≠ [] →
    ∃ col, parseColumn ('"' :: Proofs.Schema.escapeDq name ++ ['"']) = .ok col ∧ col.name = name

/-- witness: the column `"x""y"` (SQLite: name `x"y`) is read as `x` -/
theorem columns_counterexample : ¬ ColumnsFullStatement := by
  exact Proofs.Schema.columns_counterexample

end SqliteDissect.Properties.C07
