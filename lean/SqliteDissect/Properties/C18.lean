/-
C18 — damaged input is processed in bounded time: the bounds of the overflow machinery do not
depend on what the (possibly forged) payload size or next-page pointers say, and the b-tree walk
(`Version.get_b_tree_root_page`) constructs no page twice, whatever the child pointers say.
-/
import SqliteDissect.Proofs.CellArith
import SqliteDissect.Proofs.Codec
import SqliteDissect.Proofs.TreeWalk
import SqliteDissect.Proofs.TreeWalkDemo

namespace SqliteDissect.Properties.C18
open SqliteDissect SqliteDissect.Model

/-- every overflow chain the walk accepts visits pairwise distinct pages, so the walk takes at
most as many steps as the database has pages, whatever the payload size claims (a chain that
loops back is refused with a parse error instead of being followed) -/
theorem overflow_walk_no_repeat (v : VersionIf) (first : Nat) (ov : Int) (ch : List OvflPage)
    (h : parseOverflowChain v first ov = .ok ch) : (ch.map (·.number)).Nodup := by
  exact Proofs.CellArith.overflow_walk_no_repeat v first ov ch h

/-- `calculate_expected_overflow` is a closed form for every `n`: no loop over the payload size -/
theorem expected_overflow_constant_time (n : Int) (ps : Nat) :
    calcExpectedOverflow n ps =
      if n ≤ 0 then some (0, n)
      else if ps ≤ 4 then none
      else some ((n.toNat + (ps - 4) - 1) / (ps - 4),
        n - (((n.toNat + (ps - 4) - 1) / (ps - 4) - 1) * (ps - 4) : Nat)) := by
  exact Proofs.CellArith.expected_overflow_constant_time n ps

/-! non-vacuity: a 16-byte-page stub whose page `p` points to `f p` -/
private def stub (f : Nat → Nat) : VersionIf :=
  { pageSize := 16, versionNumber := 0, strict := true,
    getData := fun p _ _ => .ok (Buf.ofList ([0, 0, 0, f p] ++ List.replicate 12 7)),
    pageVersion := fun _ => .ok 0, pageOffset := fun p => .ok (p * 16) }

/-- 2 → 3 → 4 → 0 with 30 bytes is accepted … -/
example : (parseOverflowChain (stub fun p => if p = 4 then 0 else p + 1) 2 30).map
    (·.map (·.number)) = .ok [2, 3, 4] := by rfl
/-- … 2 → 3 → 2 → … with a forged huge payload size is refused after two pages -/
example : parseOverflowChain (stub fun p => if p = 2 then 3 else 2) 2 1000000 =
    .error .parseError := by decide +kernel
example : calcExpectedOverflow 1000000000000 1024 = some (980392157, 880) := by decide

/-! ### the b-tree walk

`getBTreeRoot` mirrors `Version.get_b_tree_root_page` of the repaired code: the walk shares one set
of page numbers (`parseBTreeLog`: the set is threaded through the whole recursive construction and
is returned also when the walk fails; `parseBTreeW` is `parseBTreeLog` with the set erased), and a
page whose number is already in the set is refused with a parse error.  `getBTreeRootPure` /
`parseBTree` mirror the code before the repair, where a chain of `d` interior pages whose `k` child
pointers all name the next page was parsed in `k^d` steps and then accepted. -/

/-- erasing the log of the instrumented walk gives the walk -/
theorem btree_walk_erase_log (v : VersionIf) (fuel n : Nat) (cls : PageType) (seen : List Nat) :
    (parseBTreeLog v fuel n cls seen).2 = parseBTreeW v fuel n cls seen := by
  exact (Proofs.TreeWalk.parseBTreeW_eq v fuel n cls seen).symm

/-- the walk succeeds exactly when the construction without the set does, the pages of the result
have pairwise distinct numbers, and none of them was in the set the walk started with -/
theorem btree_walk_iff_pure (v : VersionIf) (fuel n : Nat) (cls : PageType) (seen : List Nat) (ps : List BPage) :
    parseBTreeW v fuel n cls seen = .ok ps ↔
      parseBTree v fuel n cls = .ok ps ∧ (ps.map (·.number)).Nodup ∧ ∀ p ∈ ps, p.number ∉ seen := by
  exact Proofs.TreeWalk.parseBTreeW_iff v fuel n cls seen ps

/-- hence for `get_b_tree_root_page`: the repaired code accepts exactly the b-trees the code
before the repair accepted in which no page is reached twice, with the same result -/
theorem btree_root_iff_pure (v : VersionIf) (frames n : Nat) (ps : List BPage) :
    getBTreeRoot v frames n = .ok ps ↔
      getBTreeRootPure v frames n = .ok ps ∧ (ps.map (·.number)).Nodup := by
  exact Proofs.TreeFrame.getBTreeRoot_iff v frames n ps

/-- every b-tree the walk accepts consists of pairwise distinct pages -/
theorem btree_walk_no_repeat (v : VersionIf) (frames n : Nat) (ps : List BPage)
    (h : getBTreeRoot v frames n = .ok ps) : (ps.map (·.number)).Nodup := by
  exact Proofs.TreeFrame.getBTreeRoot_nodup v frames n ps h

/-- the log of page constructions — the set when the walk ends, *whether it succeeded or failed* —
is the initial set extended by pairwise distinct page numbers: it is duplicate free whenever the
initial set is, and every logged page is one whose offset the version looks up successfully -/
theorem btree_walk_log_nodup (v : VersionIf) (fuel n : Nat) (cls : PageType) (seen : List Nat)
    (hs : seen.Nodup) :
    (parseBTreeLog v fuel n cls seen).1.Nodup ∧
    seen <:+ (parseBTreeLog v fuel n cls seen).1 ∧
    ∀ p ∈ (parseBTreeLog v fuel n cls seen).1, p ∈ seen ∨ (v.pageOffset p).isOk = true := by
  exact Proofs.TreeWalk.log_nodup v fuel n cls seen hs

/-- when the walk succeeds the log is the initial set extended by exactly the pages of the result -/
theorem btree_walk_log_of_ok (v : VersionIf) (fuel n : Nat) (cls : PageType) (seen : List Nat) (ps : List BPage)
    (h : parseBTreeW v fuel n cls seen = .ok ps) :
    ∃ new, (parseBTreeLog v fuel n cls seen).1 = new ++ seen ∧ new.Perm (ps.map (·.number)) := by
  exact Proofs.TreeWalk.log_of_ok v fuel n cls seen ps h

/-- **at most `D` page constructions are started** by a walk over a version that looks up the
offsets of the pages `1 … D` only — whatever the child pointers say, whatever the number of stack
frames, whether the walk succeeds or fails (before the repair: `k^d` for the chain above) -/
theorem btree_walk_constructions_le (v : VersionIf) (D : Nat)
    (hD : ∀ p, (v.pageOffset p).isOk = true → 1 ≤ p ∧ p ≤ D) (fuel n : Nat) (cls : PageType) :
    (parseBTreeLog v fuel n cls []).1.length ≤ D := by
  exact Proofs.TreeWalk.constructions_le v D hD fuel n cls

/-- the hypothesis holds of the version interface of a database file with its number of pages … -/
theorem btree_walk_constructions_le_db (cfg : Config) (ps : Nat) (dsize : DbSize) (f : FileH)
    (fuel n : Nat) (cls : PageType) :
    (parseBTreeLog (dbVersionIf cfg ps dsize f) fuel n cls []).1.length ≤ dsize.floor := by
  exact Proofs.TreeWalk.constructions_le _ _
    (Proofs.TreeWalk.dbVersionIf_offset_range cfg ps dsize f) fuel n cls

/-- … and of the version interface of a WAL commit record with the database size of its commit frame -/
theorem btree_walk_constructions_le_wal (strict : Bool) (dbv : VersionIf) (wal : Wal) (number dbSize : Nat)
    (pvi pfi : List (Nat × Nat)) (ownPages : List Nat) (fuel n : Nat) (cls : PageType) :
    (parseBTreeLog (walVersionIf strict dbv wal number dbSize pvi pfi ownPages) fuel n cls []).1.length ≤ dbSize := by
  exact Proofs.TreeWalk.constructions_le _ _
    (Proofs.TreeWalk.walVersionIf_offset_range strict dbv wal number dbSize pvi pfi ownPages) fuel n cls

/-- a page that is already in the set is refused with a parse error and the set is left as it was -/
theorem btree_walk_seen_refused (v : VersionIf) (fuel n : Nat) (cls : PageType) (seen : List Nat) (pv off : Nat)
    (hpv : v.pageVersion n = .ok pv) (hoff : v.pageOffset n = .ok off) (h : n ∈ seen) :
    parseBTreeLog v (fuel + 1) n cls seen = (seen, .error .parseError) := by
  exact Proofs.TreeWalk.parseBTreeLog_seen v fuel n cls seen pv off hpv hoff h

/-! non-vacuity: 512-byte pages written by the page writer of Proofs/TreeDemo.lean -/

open Proofs.TreeWalkDemo in
/-- **a page reached twice is refused.**  Interior page 2 of `dagV` has one cell with left child 3
and the right-most pointer 3: the repaired code raises a parse error, the code before the repair
accepted the "tree" and listed leaf 3 twice -/
theorem dag_refused :
    getBTreeRoot dagV 5 2 = .error .parseError ∧
    (getBTreeRootPure dagV 5 2).map (fun t => t.map (·.number)) = .ok [2, 3, 3] := by
  exact Proofs.TreeWalkDemo.dag_refused

open Proofs.TreeWalkDemo in
/-- **a page that names itself as a child is refused** with a parse error after one page
construction, however many stack frames there are; the code before the repair descended until the
frames ran out (`RecursionError`) -/
theorem cycle_refused :
    getBTreeRoot cycV 100 2 = .error .parseError ∧
    (parseBTreeLog cycV 100 2 .tableInterior []).1 = [2] ∧
    getBTreeRootPure cycV 100 2 = .error .recursionError := by
  exact Proofs.TreeWalkDemo.cycle_refused

open Proofs.TreeDemo in
/-- `btree_walk_no_repeat`, `btree_root_iff_pure`: the laid-out tree of Properties/C01Tree.lean is
accepted by both, with the pages 2, 4, 3 -/
example : (getBTreeRoot demoV 5 2).map (fun t => t.map (·.number)) = .ok [2, 4, 3] ∧
    (getBTreeRootPure demoV 5 2).map (fun t => t.map (·.number)) = .ok [2, 4, 3] := by decide +kernel

open Proofs.TreeDemo in
/-- `btree_walk_log_of_ok`: the log of that walk, most recent first -/
example : (parseBTreeLog demoV 5 2 .tableInterior []).1 = [4, 3, 2] := by decide +kernel

open Proofs.TreeWalkDemo in
/-- `btree_walk_log_nodup` on a failing walk: the refused walk over `dagV` logged pages 2 and 3 once
each; `btree_walk_constructions_le`: `dagV3` serves the same pages but knows the offsets of pages
1 … 3 only, as the interface of a 3-page database file does: the hypothesis holds with `D = 3` -/
example : (parseBTreeLog dagV 5 2 .tableInterior []).1 = [3, 2] ∧
    (parseBTreeLog dagV3 5 2 .tableInterior []).1 = [3, 2] ∧
    parseBTreeW dagV3 5 2 .tableInterior [] = .error .parseError ∧
    (∀ p, (dagV3.pageOffset p).isOk = true → 1 ≤ p ∧ p ≤ 3) :=
  ⟨Proofs.TreeWalkDemo.dag_log.1, Proofs.TreeWalkDemo.dag_log.2.1, Proofs.TreeWalkDemo.dag_log.2.2,
    Proofs.TreeWalkDemo.dagV3_range⟩

open Proofs.TreeWalkDemo in
/-- `btree_walk_seen_refused`: leaf 3 is refused when it is already in the set -/
example : parseBTreeLog dagV 1 3 .tableLeaf [3, 2] = ([3, 2], .error .parseError) :=
  btree_walk_seen_refused dagV 0 3 .tableLeaf [3, 2] 0 1024 rfl rfl (by decide)

end SqliteDissect.Properties.C18
