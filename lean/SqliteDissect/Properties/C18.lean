/-
C18 — damaged input is processed in bounded time: the bounds of the overflow machinery do not
depend on what the (possibly forged) payload size or next-page pointers say.
-/
import SqliteDissect.Proofs.CellArith
import SqliteDissect.Proofs.Codec

namespace SqliteDissect.Properties.C18
open SqliteDissect SqliteDissect.Model

/-- every overflow chain the walk accepts visits pairwise distinct pages, so the walk takes at
most as many steps as the database has pages, whatever the payload size claims (a chain that
loops back is refused with a parse error instead of being followed) -/
theorem overflow_walk_no_repeat (v : VersionIf) (first : Nat) (ov : Int) (ch : List OvflPage)
    (h : parseOverflowChain v first ov = .ok ch) : (ch.map (·.number)).Nodup := by
  exact Proofs.CellArith.overflow_walk_no_repeat v first ov ch h

/-- `calculate_expected_overflow` is a closed form for every `n`: no loop over the payload size -/
theorem expected_overflow_constant_time (n : Int) (ps : Nat) :
    calcExpectedOverflow n ps =
      if n ≤ 0 then some (0, n)
      else if ps ≤ 4 then none
      else some ((n.toNat + (ps - 4) - 1) / (ps - 4),
        n - (((n.toNat + (ps - 4) - 1) / (ps - 4) - 1) * (ps - 4) : Nat)) := by
  exact Proofs.CellArith.expected_overflow_constant_time n ps

/-! non-vacuity: a 16-byte-page stub whose page `p` points to `f p` -/
private def stub (f : Nat → Nat) : VersionIf :=
  { pageSize := 16, versionNumber := 0, strict := true,
    getData := fun p _ _ => .ok (Buf.ofList ([0, 0, 0, f p] ++ List.replicate 12 7)),
    pageVersion := fun _ => .ok 0, pageOffset := fun p => .ok (p * 16) }

/-- 2 → 3 → 4 → 0 with 30 bytes is accepted … -/
example : (parseOverflowChain (stub fun p => if p = 4 then 0 else p + 1) 2 30).map
    (·.map (·.number)) = .ok [2, 3, 4] := by rfl
/-- … 2 → 3 → 2 → … with a forged huge payload size is refused after two pages -/
example : parseOverflowChain (stub fun p => if p = 2 then 3 else 2) 2 1000000 =
    .error .parseError := by decide +kernel
example : calcExpectedOverflow 1000000000000 1024 = some (980392157, 880) := by decide

end SqliteDissect.Properties.C18
