/-
C17 — reported header fields equal the on-disk values; invalid headers are rejected, headers
SQLite writes are accepted.
-/
import SqliteDissect.Proofs.Header

namespace SqliteDissect.Properties.C17
open SqliteDissect SqliteDissect.Model

/-- every reported database-header field is the big-endian value at its file-format offset
(page size 1 ⇒ 65536) -/
theorem db_fields_at_offsets (bs : List Nat) (h : DbHeader)
    (hp : parseDbHeader (Buf.ofList bs) = .ok h) :
    h.pageSize = Spec.pageSizeOfField (Spec.be bs 16 2) ∧
    h.writeVersion = bs.getD 18 0 ∧ h.readVersion = bs.getD 19 0 ∧ h.reservedBytes = bs.getD 20 0 ∧
    h.maxFraction = bs.getD 21 0 ∧ h.minFraction = bs.getD 22 0 ∧ h.leafFraction = bs.getD 23 0 ∧
    h.changeCounter = Spec.be bs 24 4 ∧ h.sizeInPages = Spec.be bs 28 4 ∧
    h.firstFreelistTrunk = Spec.be bs 32 4 ∧ h.freelistPages = Spec.be bs 36 4 ∧
    h.schemaCookie = Spec.be bs 40 4 ∧ h.schemaFormat = Spec.be bs 44 4 ∧
    h.defaultCacheSize = Spec.be bs 48 4 ∧ h.largestRoot = Spec.be bs 52 4 ∧
    h.textEncoding = Spec.be bs 56 4 ∧ h.userVersion = Spec.be bs 60 4 ∧
    h.incrementalVacuum = Spec.be bs 64 4 ∧ h.applicationId = Spec.be bs 68 4 ∧
    h.versionValidFor = Spec.be bs 92 4 ∧ h.sqliteVersion = Spec.be bs 96 4 := by
  exact Proofs.Header.db_fields_at_offsets bs h hp

/-- a header that violates the file format in its magic string, page size, payload fractions,
schema format, text encoding or reserved bytes is rejected -/
theorem db_rejects_invalid (bs : List Nat) (h : DbHeader)
    (hp : parseDbHeader (Buf.ofList bs) = .ok h) : Spec.validDbHeader bs = true := by
  exact Proofs.Header.db_rejects_invalid bs h hp

/-- every header SQLite writes (for the files the tool supports) is accepted -/
theorem db_accepts_sqlite (bs : List Nat) (hs : Spec.sqliteWritesDbHeader bs = true) :
    ∃ h, parseDbHeader (Buf.ofList bs) = .ok h := by
  exact Proofs.Header.db_accepts_sqlite bs hs

/-- the only errors are the documented ones -/
theorem db_error_kinds (b : Buf) (e : PyErr) (hp : parseDbHeader b = .error e) :
    e = .valueError ∨ e = .parseError ∨ e = .notImplemented := by
  exact Proofs.Header.db_error_kinds b e hp

theorem wal_fields_at_offsets (bs : List Nat) (h : WalHeader)
    (hp : parseWalHeader (Buf.ofList bs) = .ok h) :
    h.magic = Spec.be bs 0 4 ∧ h.formatVersion = Spec.be bs 4 4 ∧ h.pageSize = Spec.be bs 8 4 ∧
    h.checkpointSeq = Spec.be bs 12 4 ∧ h.salt1 = Spec.be bs 16 4 ∧ h.salt2 = Spec.be bs 20 4 ∧
    h.checksum1 = Spec.be bs 24 4 ∧ h.checksum2 = Spec.be bs 28 4 := by
  exact Proofs.Header.wal_fields_at_offsets bs h hp

theorem wal_accepts_iff_valid (bs : List Nat) :
    (∃ h, parseWalHeader (Buf.ofList bs) = .ok h) ↔ Spec.validWalHeader bs = true := by
  exact Proofs.Header.wal_accepts_iff_valid bs

theorem frame_fields_at_offsets (bs : List Nat) (h : FrameHeader)
    (hp : parseFrameHeader (Buf.ofList bs) = .ok h) :
    bs.length = 24 ∧ h.pageNumber = Spec.be bs 0 4 ∧ h.sizeAfterCommit = Spec.be bs 4 4 ∧
    h.salt1 = Spec.be bs 8 4 ∧ h.salt2 = Spec.be bs 12 4 ∧ h.checksum1 = Spec.be bs 16 4 ∧
    h.checksum2 = Spec.be bs 20 4 := by
  exact Proofs.Header.frame_fields_at_offsets bs h hp

theorem frame_accepts (bs : List Nat) (hl : bs.length = 24) :
    ∃ h, parseFrameHeader (Buf.ofList bs) = .ok h := by
  exact Proofs.Header.frame_accepts bs hl

theorem journal_fields_at_offsets (bs : List Nat) (h : JournalHeader)
    (hp : parseJournalHeader (Buf.ofList bs) = .ok h) :
    bs.length = 28 ∧ h.headerString = bs.take 8 ∧
    h.pageCount = (if (bs.drop 8).take 4 = [255, 255, 255, 255] then (-1 : Int) else (Spec.be bs 8 4 : Int)) ∧
    h.nonce = Spec.be bs 12 4 ∧ h.initialSize = Spec.be bs 16 4 ∧ h.sectorSize = Spec.be bs 20 4 ∧
    h.pageSize = Spec.be bs 24 4 := by
  exact Proofs.Header.journal_fields_at_offsets bs h hp

theorem journal_accepts (bs : List Nat) (hl : bs.length = 28) :
    ∃ h, parseJournalHeader (Buf.ofList bs) = .ok h := by
  exact Proofs.Header.journal_accepts bs hl

end SqliteDissect.Properties.C17
