/-
GenHdrDiff — the header-difference classification regenerated from the Python source is the
hand-written `Model.classifyDifferences` (the function the C17Step theorems are about).

`Generated/PyHdrDiff.lean` is rewritten by `harness/translate/hdrdiff.py` on every run from
`WriteAheadLogCommitRecord._parse_database_header_differences` (file/wal/commit_record.py: one Lean
`block<k>` per top-level statement, every membership test, subscript, comparison, `del`, `raise` and
assignment to `self` in source order), from `compare_database_headers` (file/wal/utilities.py: the
reflection loop over `__dict__`, unrolled over the attributes of the generated `DatabaseHeader`
structure) and from DATABASE_HEADER_VERSIONED_FIELDS (constants.py: the keys).  The dictionary of
differences is an association list `attribute name ↦ (previous, new)` (`PyDict.lean`).

`diffOf bv prev next` is the generated `compare_database_headers` applied to the Python views (`castDb`
of Proofs/GenHeader.lean, which `GenHeader.database_header_eq` proves to be the attribute record of
`DatabaseHeader(bytes)`) of two model headers; `diffOf_eq` spells it out field by field.
`magic_header_string` and `reserved_for_expansion` cannot differ between accepted headers (the
constructor raises unless they are the magic string / twenty zero bytes) and are no model fields;
`bv` is the encoding of the three byte-string valued attributes, which the method never reads — every
theorem holds for every `bv`.  `castFlags` reads the model's flags as the attributes the method
leaves on `self` (the model keeps one flag for the two counters that move together, and the number of
the new text encoding where the code stores its name: `encodingName`).

Changing a key, a tuple index, a comparison, the `+ 1` of the counter rule, an exception class, the
order of two checks, or dropping a `del` in the Python source breaks
`parse_database_header_differences_eq` on the next run; renaming a local does not.
-/
import SqliteDissect.Proofs.GenHdrDiff

namespace SqliteDissect.Properties.GenHdrDiff
open SqliteDissect SqliteDissect.Model SqliteDissect.Generated SqliteDissect.Generated.PyHdrDiff
open SqliteDissect.Proofs.GenHdrDiff SqliteDissect.Proofs.GenHeader

/-- `_parse_database_header_differences` on the differences of two headers = `classifyDifferences`: for EVERY previous
header, every accepted new header, committed size and schema-modified flag — the same exception class when either
fails, the same flags otherwise -/
theorem parse_database_header_differences_eq (bv : List Nat → Int) (prev next : DbHeader) (hn : Accepted next)
    (cs : Nat) (sm : Bool) :
    parse_database_header_differences (cs : Int) sm (diffOf bv prev next) =
      castFlagsR (classifyDifferences prev next cs sm) := by
  exact Proofs.GenHdrDiff.parse_differences_eq bv prev next hn cs sm

/-- end to end on the Python objects: for any two buffers the generated constructor `DatabaseHeader(bytes)` accepts,
the generated `compare_database_headers` of the two objects followed by the generated method is the model
classification of the two model headers the model parser returns for the same buffers -/
theorem parse_database_header_differences_of_buffers (bv : List Nat → Int) (b1 b2 : Buf)
    (p n : PyHeader.DatabaseHeader)
    (hp : PyHeader.DatabaseHeader.init b1 = .ok p) (hn : PyHeader.DatabaseHeader.init b2 = .ok n)
    (cs : Nat) (sm : Bool) :
    ∃ prev next, parseDbHeader b1 = .ok prev ∧ parseDbHeader b2 = .ok next ∧
      parse_database_header_differences (cs : Int) sm (compare_database_headers bv p n) =
        castFlagsR (classifyDifferences prev next cs sm) := by
  exact Proofs.GenHdrDiff.parse_differences_of_buffers bv b1 b2 p n hp hn cs sm

/-- what `compare_database_headers` produces, over the model fields: one entry per differing attribute, in
`__dict__` order -/
theorem diffOf_spelled_out (bv : List Nat → Int) (prev next : DbHeader) :
    diffOf bv prev next =
      (pyDiffCons (decide (prev.pageSize ≠ next.pageSize)) "page_size" (prev.pageSize, next.pageSize) <|
       pyDiffCons (decide (prev.raw ≠ next.raw)) "md5_hex_digest" (bv prev.raw, bv next.raw) <|
       pyDiffCons (decide (prev.writeVersion ≠ next.writeVersion)) "file_format_write_version"
         (prev.writeVersion, next.writeVersion) <|
       pyDiffCons (decide (prev.readVersion ≠ next.readVersion)) "file_format_read_version"
         (prev.readVersion, next.readVersion) <|
       pyDiffCons (decide (prev.reservedBytes ≠ next.reservedBytes)) "reserved_bytes_per_page"
         (prev.reservedBytes, next.reservedBytes) <|
       pyDiffCons (decide (prev.maxFraction ≠ next.maxFraction)) "maximum_embedded_payload_fraction"
         (prev.maxFraction, next.maxFraction) <|
       pyDiffCons (decide (prev.minFraction ≠ next.minFraction)) "minimum_embedded_payload_fraction"
         (prev.minFraction, next.minFraction) <|
       pyDiffCons (decide (prev.leafFraction ≠ next.leafFraction)) "leaf_payload_fraction"
         (prev.leafFraction, next.leafFraction) <|
       pyDiffCons (decide (prev.changeCounter ≠ next.changeCounter)) "file_change_counter"
         (prev.changeCounter, next.changeCounter) <|
       pyDiffCons (decide (prev.sizeInPages ≠ next.sizeInPages)) "database_size_in_pages"
         (prev.sizeInPages, next.sizeInPages) <|
       pyDiffCons (decide (prev.firstFreelistTrunk ≠ next.firstFreelistTrunk)) "first_freelist_trunk_page_number"
         (prev.firstFreelistTrunk, next.firstFreelistTrunk) <|
       pyDiffCons (decide (prev.freelistPages ≠ next.freelistPages)) "number_of_freelist_pages"
         (prev.freelistPages, next.freelistPages) <|
       pyDiffCons (decide (prev.schemaCookie ≠ next.schemaCookie)) "schema_cookie"
         (prev.schemaCookie, next.schemaCookie) <|
       pyDiffCons (decide (prev.schemaFormat ≠ next.schemaFormat)) "schema_format_number"
         (prev.schemaFormat, next.schemaFormat) <|
       pyDiffCons (decide (prev.defaultCacheSize ≠ next.defaultCacheSize)) "default_page_cache_size"
         (prev.defaultCacheSize, next.defaultCacheSize) <|
       pyDiffCons (decide (prev.largestRoot ≠ next.largestRoot)) "largest_root_b_tree_page_number"
         (prev.largestRoot, next.largestRoot) <|
       pyDiffCons (decide (prev.textEncoding ≠ next.textEncoding)) "database_text_encoding"
         (prev.textEncoding, next.textEncoding) <|
       pyDiffCons (decide (prev.userVersion ≠ next.userVersion)) "user_version" (prev.userVersion, next.userVersion) <|
       pyDiffCons (decide (prev.incrementalVacuum ≠ next.incrementalVacuum)) "incremental_vacuum_mode"
         (prev.incrementalVacuum, next.incrementalVacuum) <|
       pyDiffCons (decide (prev.applicationId ≠ next.applicationId)) "application_id"
         (prev.applicationId, next.applicationId) <|
       pyDiffCons (decide (prev.versionValidFor ≠ next.versionValidFor)) "version_valid_for_number"
         (prev.versionValidFor, next.versionValidFor) <|
       pyDiffCons (decide (prev.sqliteVersion ≠ next.sqliteVersion)) "sqlite_version_number"
         (prev.sqliteVersion, next.sqliteVersion) <|
       []) := by
  exact Proofs.GenHdrDiff.diffOf_eq bv prev next

/-- the dictionary is empty exactly when the two headers are equal (the method's early `return`) -/
theorem diffOf_empty_iff (bv : List Nat → Int) (prev next : DbHeader) :
    pyDictIsEmpty (diffOf bv prev next) = decide (prev = next) := by
  exact Proofs.GenHdrDiff.diffOf_isEmpty bv prev next

/-- every accepted header has a text encoding in 0..3 — the one fact about accepted headers the equality needs -/
theorem accepted_text_encoding (h : DbHeader) (ha : Accepted h) : h.textEncoding ≤ 3 := by
  exact Proofs.GenHdrDiff.accepted_encoding h ha

/-- The hypothesis `Accepted next` cannot be dropped: with a text encoding no parser returns (7) the code raises
("not recognized as a valid database text encoding") where the model, which hands the number on, accepts.
Unreachable in `Model.walVersionStep`, whose new header comes out of `parseDbHeader`. -/
theorem unaccepted_encoding_code_raises (bv : List Nat → Int) :
    parse_database_header_differences 2 false (diffOf bv strayPrev strayNext) = .error .parseError := by
  exact Proofs.GenHdrDiff.stray_generated bv

theorem unaccepted_encoding_model_accepts :
    classifyDifferences strayPrev strayNext 2 false =
      .ok { sizeModified := true, formatModified := true, encodingModified := true, newEncoding := some 7 } := by
  exact Proofs.GenHdrDiff.stray_model

theorem unaccepted_encoding_not_accepted : ¬ Accepted strayNext := by
  exact Proofs.GenHdrDiff.stray_not_accepted

/-! ### non-vacuity: accepted headers exist, the generated method accepts and rejects -/

/-- an empty database (one page, counters 5) -/
def emptyDbBytes : List Nat :=
  Generated.MAGIC_HEADER_STRING ++ [0x10, 0, 1, 1, 0, 64, 32, 32] ++ [0, 0, 0, 5] ++ [0, 0, 0, 1] ++
    List.replicate 60 0 ++ [0, 0, 0, 5] ++ [0, 0, 0, 0]

/-- the same database after its first table was created in one commit: counters 6, two pages, schema cookie 1,
schema format 4, UTF-8 -/
def firstTableBytes : List Nat :=
  Generated.MAGIC_HEADER_STRING ++ [0x10, 0, 1, 1, 0, 64, 32, 32] ++ [0, 0, 0, 6] ++ [0, 0, 0, 2] ++
    List.replicate 8 0 ++ [0, 0, 0, 1] ++ [0, 0, 0, 4] ++ List.replicate 8 0 ++ [0, 0, 0, 1] ++
    List.replicate 32 0 ++ [0, 0, 0, 6] ++ [0, 0, 0, 0]

set_option maxRecDepth 8192 in
example : ∃ prev next, parseDbHeader (Buf.ofList emptyDbBytes) = .ok prev ∧
    parseDbHeader (Buf.ofList firstTableBytes) = .ok next ∧ Accepted next ∧
    parse_database_header_differences 2 true (diffOf (fun _ => 0) prev next) =
      .ok { file_change_counter_incremented := true, version_valid_for_number_incremented := true,
            database_size_in_pages_modified := true, modified_first_freelist_trunk_page_number := none,
            modified_number_of_freelist_pages := none, modified_largest_root_b_tree_page_number := none,
            schema_cookie_modified := true, schema_format_number_modified := true,
            database_text_encoding_modified := true, user_version_modified := false,
            database_text_encoding := some "utf-8" } := by
  exact ⟨_, _, rfl, rfl, ⟨Buf.ofList firstTableBytes, rfl⟩, rfl⟩

set_option maxRecDepth 8192 in
/-- the same step with a committed size that is not the new header's: rejected -/
example : ∃ prev next, parseDbHeader (Buf.ofList emptyDbBytes) = .ok prev ∧
    parseDbHeader (Buf.ofList firstTableBytes) = .ok next ∧
    parse_database_header_differences 3 true (diffOf (fun _ => 0) prev next) = .error .parseError := by
  exact ⟨_, _, rfl, rfl, rfl⟩

set_option maxRecDepth 8192 in
/-- schema cookie moved but the master schema pages did not: rejected -/
example : ∃ prev next, parseDbHeader (Buf.ofList emptyDbBytes) = .ok prev ∧
    parseDbHeader (Buf.ofList firstTableBytes) = .ok next ∧
    parse_database_header_differences 2 false (diffOf (fun _ => 0) prev next) = .error .parseError := by
  exact ⟨_, _, rfl, rfl, rfl⟩

set_option maxRecDepth 8192 in
/-- equal headers: the early return, no flag -/
example : ∃ h, parseDbHeader (Buf.ofList emptyDbBytes) = .ok h ∧
    parse_database_header_differences 1 false (diffOf (fun _ => 0) h h) = .ok HeaderDifferenceFlags.initial := by
  exact ⟨_, rfl, rfl⟩

/-- dictionaries `compare_database_headers` never produces are handled as the code handles them: a key left over -/
example : parse_database_header_differences 1 false [("md5_hex_digest", (0, 1)), ("page_size", (512, 1024))] =
    .error .parseError := by rfl
example : parse_database_header_differences 1 false [("page_size", (512, 1024))] = .error .parseError := by rfl
example : parse_database_header_differences 1 false [("md5_hex_digest", (0, 1)), ("user_version", (0, 9))] =
    .ok { HeaderDifferenceFlags.initial with user_version_modified := true } := by rfl

end SqliteDissect.Properties.GenHdrDiff
