/-
GenHeader — the header constructors regenerated from the Python source are the hand-written
header parsers of `Model/Header.lean`.

`Generated/PyHeader.lean` is rewritten by `harness/translate/pyfun.py` on every run from
`DatabaseHeader.__init__` (file/database/header.py), `WriteAheadLogHeader.__init__`,
`WriteAheadLogFrameHeader.__init__` (file/wal/header.py) and `RollbackJournalHeader.__init__`
(file/journal/header.py): one structure per class holding the attributes the constructor assigns
(in source order) and one function `Buf → Py <structure>` that performs every extraction and every
validity check in source order with the exception class the code raises.  Each theorem states, for
EVERY buffer, that the generated constructor returns exactly what the model parser returns:
the same exception class when either fails, and otherwise the same value in every attribute
(`castDb`, `castWal`, `castFrame`, `castJournal` of Proofs/GenHeader.lean spell out which model
field is which attribute).  Changing an offset, a format, a bound, the order of two checks or an
exception class in the Python source breaks the corresponding theorem on the next run.
-/
import SqliteDissect.Proofs.GenHeader

namespace SqliteDissect.Properties.GenHeader
open SqliteDissect SqliteDissect.Model SqliteDissect.Generated SqliteDissect.Proofs.GenHeader

/-- `DatabaseHeader(bytes)` = `parseDbHeader` -/
theorem database_header_eq (b : Buf) :
    PyHeader.DatabaseHeader.init b = castDbR (parseDbHeader b) := by
  exact Proofs.GenHeader.db_header_eq b

/-- `WriteAheadLogHeader(bytes)` = `parseWalHeader` -/
theorem wal_header_eq (b : Buf) :
    PyHeader.WriteAheadLogHeader.init b = castWalR b (parseWalHeader b) := by
  exact Proofs.GenHeader.wal_header_eq b

/-- `WriteAheadLogFrameHeader(bytes)` = `parseFrameHeader` -/
theorem wal_frame_header_eq (b : Buf) :
    PyHeader.WriteAheadLogFrameHeader.init b = castFrameR b (parseFrameHeader b) := by
  exact Proofs.GenHeader.frame_header_eq b

/-- `RollbackJournalHeader(bytes)` = `parseJournalHeader` -/
theorem journal_header_eq (b : Buf) :
    PyHeader.RollbackJournalHeader.init b = castJournalR b (parseJournalHeader b) := by
  exact Proofs.GenHeader.journal_header_eq b

/-! ### non-vacuity: the generated constructors accept and reject -/

example : PyHeader.WriteAheadLogFrameHeader.init (Buf.ofList (List.replicate 23 0)) = .error .valueError := by rfl
example : (PyHeader.WriteAheadLogFrameHeader.init
    (Buf.ofList [0, 0, 0, 5, 0, 0, 0, 9, 0, 0, 0, 1, 0, 0, 0, 2, 0, 0, 0, 3, 0, 0, 0, 4])).map (·.page_number) =
      .ok 5 := by rfl
example : PyHeader.WriteAheadLogHeader.init (Buf.ofList (List.replicate 32 0)) = .error .parseError := by rfl
example : (PyHeader.RollbackJournalHeader.init (Buf.ofList (List.replicate 8 0 ++ [255, 255, 255, 255] ++
    List.replicate 16 0))).map (·.page_count) = .ok (-1) := by rfl
example : PyHeader.DatabaseHeader.init (Buf.ofList (List.replicate 100 0)) = .error .parseError := by rfl
example : PyHeader.DatabaseHeader.init (Buf.ofList (List.replicate 99 0)) = .error .valueError := by rfl
example : (PyHeader.DatabaseHeader.init (Buf.ofList (Generated.MAGIC_HEADER_STRING ++ [0x10, 0, 1, 1, 0, 64, 32, 32] ++
    List.replicate 76 0))).map (·.page_size) = .ok 4096 := by rfl
example : PyHeader.DatabaseHeader.init (Buf.ofList (Generated.MAGIC_HEADER_STRING ++ [0x10, 1, 1, 1, 0, 64, 32, 32] ++
    List.replicate 76 0)) = .error .parseError := by rfl

end SqliteDissect.Properties.GenHeader
