/-
C08 — carving completes; each carved record is backed by bytes at its reported offset.

Property theorems only (helper lemmas and proofs live in Proofs/Carve.lean).
`Model.Carve` mirrors sqlite_dissect/carving/carver.py (`carveUnallocated`, `carveFreeblocks`),
carved_cell.py (`carvedRecord`, `tryCarve`), rollback_journal_carver.py (`carveJournal`) and the
carving part of version_history.py (`carveStep`, `carveHistory`) and interface.carve_table
(`carveTable`).  A result `.error e` is a Python exception of class `e` that escapes the carver;
`tryCarve` is the `try … except (CellCarvingError, ValueError)` around one candidate.
-/
import SqliteDissect.Proofs.Carve

namespace SqliteDissect.Properties.C08
open SqliteDissect SqliteDissect.Model SqliteDissect.Model.Carve
open SqliteDissect.Proofs.Carve

/-! ### completes

Full statement: for every signature the carver can build its two patterns from and every byte
string, carving the string as an unallocated region and as the content of a freeblock returns.
It is false of the code: five different exceptions escape. -/

def FullStatement : Prop := CompletesFull

theorem completes_counterexample : ¬ FullStatement := by
  exact Proofs.Carve.completes_counterexample

/-- `int >= None`: a full match at offset 0 followed by another full match -/
theorem escapes_int_ge_none :
    carveUnallocated sig11 1024 2 1024 100 dataNone false = .error .typeError := by
  exact Proofs.Carve.witness_none_compare

/-- `"" += bytes`: a reconstructed first column whose body is cut by the end of the region -/
theorem escapes_str_plus_bytes :
    carveFreeblocks sig41 1024 [⟨2, 0, 200, 6, Buf.ofList [1, 5], false, 1024⟩] = .error .typeError := by
  exact Proofs.Carve.witness_str_plus_bytes

/-- `bytearray.encode`: an empty region (a `bytearray()`) and a single-column table -/
theorem escapes_bytearray_encode :
    carveUnallocated sig0 1024 2 1024 100 Buf.empty true = .error .attributeError := by
  exact Proofs.Carve.witness_bytearray

/-- unpacking the exception object `decode_varint_in_reverse` returns -/
theorem escapes_error_object :
    carveFreeblocks sigB0 4096 [⟨2, 0, 12, 13, Buf.ofList [255, 255, 255, 255, 255, 255, 255, 5, 0], false, 4096⟩]
      = .error .typeError := by
  exact Proofs.Carve.witness_error_object

/-- `ord(b'')`: `decode_varint` runs off the end of a freeblock of a single-column table -/
theorem escapes_ord_empty :
    carveFreeblocks sig0 65536 [⟨2, 0, 8, 6, Buf.ofList [2, 0xc0], false, 65536⟩] = .error .typeError := by
  exact Proofs.Carve.witness_ord_empty

/-- The exact condition of the `int >= None` defect: with no full match, exactly one, or a first
match that does not start at offset 0, every not-yet-carved interval has a lower bound … -/
theorem intervals_bounded (len : Nat) (ms : List (Nat × Nat))
    (h : ms.length ≤ 1 ∨ ∃ s e rest, ms = (s, e) :: rest ∧ s ≠ 0) :
    ∀ iv ∈ uncarved len ms, iv.1.isSome = true := by
  exact Proofs.Carve.uncarved_bounded len ms h

example : ∀ iv ∈ uncarved 9 [(2, 4), (6, 8)], iv.1.isSome = true :=
  intervals_bounded 9 _ (Or.inr ⟨2, 4, [(6, 8)], rfl, by decide⟩)

/-- … and with at least two matches of which the first starts at offset 0, one has none. -/
theorem intervals_unbounded (len : Nat) (e s2 e2 : Nat) (rest : List (Nat × Nat)) :
    ∃ iv ∈ uncarved len ((0, e) :: (s2, e2) :: rest), iv.1 = none := by
  exact Proofs.Carve.uncarved_unbounded len e s2 e2 rest

/-- What the per-candidate handler lets through is never a `ValueError` (nor a `CellCarvingError`,
which has no class of its own outside `tryCarve`). -/
theorem candidate_absorbs (fo pn ix : Nat) (i : RecIn) (e : PyErr) (h : tryCarve fo pn ix i = .error e) :
    e ≠ .valueError := by
  exact Proofs.Carve.tryCarve_absorbs fo pn ix i e h

/-- PARTIAL: carving an unallocated region completes when (1) the candidate constructor absorbs
its exceptions on every full match and every partial match of the region — the hypothesis that the
four constructor defects above do not strike — and (2) the full matches leave no unbounded interval
(the `int >= None` defect does not strike). -/
theorem completes_partial (sig : CarveSig) (fc : List Int) (simplified : List (List Int)) (pf pp : Regex.Pat)
    (hc : chosenSignature sig = .ok (fc, simplified))
    (hpf : Regex.genSignature simplified false = .ok pf) (hpp : Regex.genSignature simplified true = .ok pp)
    (ps pn po rs : Nat) (data : Buf) (ba : Bool)
    (hfull : NoEscapeOn (mkFull sig ps pn po rs data ba) (Regex.finditer pf data.toList))
    (hpart : NoEscapeOn (mkPartial sig fc ps pn po rs data ba) (Regex.finditer pp data.toList))
    (hms : (Regex.finditer pf data.toList).length ≤ 1 ∨
      ∃ s e rest, Regex.finditer pf data.toList = (s, e) :: rest ∧ s ≠ 0) :
    ∃ cells, carveUnallocated sig ps pn po rs data ba = .ok cells := by
  exact Proofs.Carve.completes_partial_on sig fc simplified pf pp hc hpf hpp ps pn po rs data ba hfull hpart hms

/-- non-vacuity of `completes_partial` -/
theorem completes_partial_nonvacuous :
    ∃ (fc : List Int) (simplified : List (List Int)) (pf pp : Regex.Pat),
      chosenSignature sig11 = .ok (fc, simplified) ∧ Regex.genSignature simplified false = .ok pf ∧
      Regex.genSignature simplified true = .ok pp ∧
      NoEscapeOn (mkFull sig11 1024 2 1024 100 (Buf.ofList [0, 1, 1, 5, 6]) false) (Regex.finditer pf [0, 1, 1, 5, 6]) ∧
      NoEscapeOn (mkPartial sig11 fc 1024 2 1024 100 (Buf.ofList [0, 1, 1, 5, 6]) false) (Regex.finditer pp [0, 1, 1, 5, 6]) ∧
      (Regex.finditer pf [0, 1, 1, 5, 6]).length ≤ 1 := by
  exact Proofs.Carve.completes_partial_on_nonvacuous

/-! ### backed -/

/-- Unallocated regions (also freelist pages and journal page images): the reported file offset is
page offset + region start + match start, the cell says where it came from. -/
theorem backed_offset (sig : CarveSig) (ps pn po rs : Nat) (data : Buf) (ba : Bool)
    (cells : List CarvedCell) (h : carveUnallocated sig ps pn po rs data ba = .ok cells) :
    ∀ c ∈ cells, c.fileOffset = po + rs + c.matchStart ∧ c.loc = .unallocated ∧ c.pageNumber = pn := by
  exact Proofs.Carve.unallocated_offsets sig ps pn po rs data ba cells h

/-- The matched bytes `[matchStart, matchEnd)` of the region are the serial-type varints of the
reported columns (all, or all but a reconstructed first one), and every column not flagged
truncated holds the value `get_record_content` decodes from exactly its body bytes, the bodies
following the matched bytes back to back. -/
theorem backed_bytes (sig : CarveSig) (ps pn po rs : Nat) (data : Buf) (ba : Bool)
    (cells : List CarvedCell) (h : carveUnallocated sig ps pn po rs data ba = .ok cells) :
    ∀ c ∈ cells, c.matchStart ≤ c.matchEnd ∧
      (∃ k, k ≤ 1 ∧ HeaderAt data c.matchEnd c.matchStart (c.rec_.cols.drop k)) ∧
      BodiesAt data c.matchEnd c.rec_.cols := by
  exact Proofs.Carve.unallocated_backed sig ps pn po rs data ba cells h

/-- The same for one constructed record, whatever the location. -/
theorem backed_record (i : RecIn) (r : CarvedRec) (h : carvedRecord i = .ok r) (hse : i.s ≤ i.e) :
    (∃ k, k ≤ 1 ∧ HeaderAt i.data i.e i.s (r.cols.drop k) ∧ (i.firstCol = none → k = 0)) ∧
    r.bodyStart = i.e ∧ BodiesAt i.data i.e r.cols ∧ r.cols.length = i.nCols := by
  exact Proofs.Carve.record_backed i r h hse

/-- Freeblocks: full statement — the reported offset is where the matched bytes are in the file
(page offset + content start + match start).  False: the code adds the freeblock's START although
match offsets are relative to its CONTENT, four bytes further. -/
def FreeblockFullStatement : Prop := FreeblockOffsetFull

theorem freeblock_offset_counterexample : ¬ FreeblockFullStatement := by
  exact Proofs.Carve.freeblock_offset_counterexample

/-- what holds instead -/
theorem freeblock_offset_partial (sig : CarveSig) (ps : Nat) (fb : FbIn) (cells : List CarvedCell)
    (h : carveFreeblocks sig ps [fb] = .ok cells) :
    ∀ c ∈ cells, c.fileOffset = fb.pageOffset + fb.start + c.matchStart ∧ c.loc = .freeblock := by
  exact Proofs.Carve.freeblock_offsets sig ps fb cells h

/-! ### no re-report (at the level of the digest the code de-duplicates by; `_partial` of the
statement refuted at the end of this file) -/

/-- One step of the iterator reports only digests it has not reported before, and remembers them. -/
theorem no_rereport_step (frames : Nat) (sig : CarveSig) (fl first : Bool) (st : CarveState) (ver : Version)
    (v : VersionIf) (root : Nat) (prev : Option Nat) (c : Commit) (cc : CarveCommit) (st' : CarveState)
    (h : carveStep frames sig fl first st ver v root prev = .ok (c, cc, st')) (hs : st.seen.Nodup) :
    (keys cc.carved).Nodup ∧ (∀ k ∈ keys cc.carved, k ∉ st.seen) ∧
    st'.seen = st.seen ++ keys cc.carved ∧ st'.seen.Nodup := by
  exact Proofs.Carve.carveStep_fresh frames sig fl first st ver v root prev c cc st' h hs

/-- Over a whole history the reported digests are pairwise distinct. -/
theorem no_rereport (frames : Nat) (sig : CarveSig) (fl : Bool) (vs : List (Version × VersionIf))
    (id : EntryIdent) (commits : List CarveCommit) (h : carveHistory frames sig fl vs id = .ok commits) :
    (commits.flatMap fun cc => keys cc.carved).Nodup := by
  exact Proofs.Carve.no_rereport frames sig fl vs id commits h

/-! ### … but the digest is not the record

Full statement of "a record carved in one version is not reported again": the digest identifies the
record, i.e. the same values carved from the same place of a page — once out of a freeblock, once,
after the page was rewritten, out of the unallocated area — get the same digest.  False: the digest
is `md5(data[cell_start:cell_end])` over region-relative, guessed offsets. -/

def RereportFullStatement : Prop := DigestIdentifiesRecord

theorem rereport_counterexample : ¬ RereportFullStatement := by
  exact Proofs.Carve.rereport_counterexample

end SqliteDissect.Properties.C08
