/-
C08 — carving completes; each carved record is backed by bytes at its reported offset.

Property theorems only (helper lemmas and proofs live in Proofs/Carve.lean and
Proofs/CarveCompletes.lean).  `Model.Carve` mirrors sqlite_dissect/carving/carver.py
(`carveUnallocated`, `carveFreeblocks`), carved_cell.py (`carvedRecord`, `tryCarve`),
rollback_journal_carver.py (`carveJournal`), the carving part of version_history.py (`carveStep`,
`carveHistory`) and interface.carve_table (`carveTable`), after the `fix:` commits 6eca1fa, 0b2b453,
1323ad4, 4d9b308, 1c3b10a, 0d6a473, 56bb962, a784e20.  A result `.error e` is a Python exception of class
`e` that escapes the carver; `tryCarve` is the `try … except (CellCarvingError, ValueError)` around
one candidate.  `.error .outsideModel` is not a Python exception: a content size (a float in the
code) left the range in which the model follows it exactly (2^53).
-/
import SqliteDissect.Proofs.Carve
import SqliteDissect.Proofs.CarveCompletes

namespace SqliteDissect.Properties.C08
open SqliteDissect SqliteDissect.Model SqliteDissect.Model.Carve
open SqliteDissect.Proofs.Carve

/-! ### completes -/

/-- Carving an unallocated region — a page's unallocated area, a freelist page, a journal page
image — returns, for every signature the carver can build its patterns from and every byte string. -/
theorem completes_unallocated (sig : CarveSig) (h : Proofs.CarveCompletes.SigOk sig) (ps pn po rs : Nat) (data : Buf)
    (hwf : data.WF) (hsize : data.size < 2 ^ 53) :
    (∃ cells, carveUnallocated sig ps pn po rs data = .ok cells) ∨
      carveUnallocated sig ps pn po rs data = .error .outsideModel := by
  exact Proofs.CarveCompletes.completes_unallocated sig h ps pn po rs data hwf hsize

/-- Carving the freeblocks of a page returns, single-column tables included (since a784e20). -/
theorem completes_freeblocks (sig : CarveSig) (h : Proofs.CarveCompletes.SigOk sig)
    (ps : Nat) (fbs : List FbIn) (hwf : ∀ fb ∈ fbs, fb.content.WF) (hsize : ∀ fb ∈ fbs, fb.content.size < 2 ^ 53) :
    (∃ cells, carveFreeblocks sig ps fbs = .ok cells) ∨ carveFreeblocks sig ps fbs = .error .outsideModel := by
  exact Proofs.CarveCompletes.completes_freeblocks sig h ps fbs hwf hsize

/-- FULL STATEMENT (a theorem since a784e20): for every signature the carver can build its two
patterns from and every byte string, carving the string as an unallocated region and as the content
of a freeblock returns — no Python exception escapes.  The only non-result is the model's own
`outsideModel`: a content size (a float in the code) beyond 2^53, where the model stops following. -/
theorem completes (sig : CarveSig) (h : Proofs.CarveCompletes.SigOk sig) (ps pn po rs : Nat) (data : Buf)
    (hwf : data.WF) (hsize : data.size < 2 ^ 53) :
    ((∃ cells, carveUnallocated sig ps pn po rs data = .ok cells) ∨
       carveUnallocated sig ps pn po rs data = .error .outsideModel) ∧
    (∀ (fbStart byteSize : Nat),
      (∃ cells, carveFreeblocks sig ps [⟨pn, 0, fbStart, fbStart + 4, byteSize, data, po⟩] = .ok cells) ∨
       carveFreeblocks sig ps [⟨pn, 0, fbStart, fbStart + 4, byteSize, data, po⟩] = .error .outsideModel) := by
  exact Proofs.CarveCompletes.completes sig h ps pn po rs data hwf hsize

/-- non-vacuity: a signature satisfying `SigOk`; it is the single-column input (freeblock content
`81`) that escaped with `ord()`'s TypeError before a784e20 and now carves. -/
theorem sigOk_nonvacuous :
    Proofs.CarveCompletes.SigOk Proofs.CarveRecall.sig12 ∧
      ∃ cells, carveFreeblocks Proofs.CarveRecall.sig12 1024 [⟨2, 0, 200, 204, 5, Buf.ofList [0x81], 1024⟩] = .ok cells ∧
        cells.length = 1 := by
  exact Proofs.CarveCompletes.fixed_single_column_witness

/-- The minimal input of the last repaired escape (C08-07, `ord(b'')` in `decode_varint`; single
NULL column, freeblock content `02 c0`) now carves (a784e20). -/
theorem fixed_ord_empty :
    ∃ cells, carveFreeblocks sig0 65536 [⟨2, 0, 8, 12, 6, Buf.ofList [2, 0xc0], 65536⟩] = .ok cells ∧ cells.length = 2 := by
  exact Proofs.Carve.fixed_ord_empty

/-- So do the minimal inputs of the four escapes repaired earlier: a full match at offset 0 followed by
another (`int >= None`, 6eca1fa) … -/
theorem fixed_int_ge_none :
    ∃ cells, carveUnallocated sig11 1024 2 1024 100 dataNone = .ok cells ∧ cells.length = 2 := by
  exact Proofs.Carve.fixed_none_compare

/-- … a reconstructed first column cut by the end of the region (`"" += bytes`, 0b2b453) … -/
theorem fixed_str_plus_bytes :
    ∃ cells, carveFreeblocks sig41 1024 [⟨2, 0, 200, 204, 6, Buf.ofList [1, 5], 1024⟩] = .ok cells ∧ cells.length = 1 := by
  exact Proofs.Carve.fixed_str_plus_bytes

/-- … an empty region (`bytearray.encode`, 4d9b308) … -/
theorem fixed_bytearray_encode :
    ∃ cells, carveUnallocated sig0 1024 2 1024 100 Buf.empty = .ok cells ∧ cells.length = 1 := by
  exact Proofs.Carve.fixed_bytearray

/-- … six high-bit bytes in front of a partial match (returned exception object, 1c3b10a). -/
theorem fixed_error_object :
    ∃ cells, carveFreeblocks sigB0 4096 [⟨2, 0, 12, 16, 13, Buf.ofList [255, 255, 255, 255, 255, 255, 255, 5, 0], 4096⟩]
      = .ok cells ∧ cells.length = 1 := by
  exact Proofs.Carve.fixed_error_object

/-- The not-yet-carved intervals always have a lower bound (`last_offset` is assigned before use). -/
theorem intervals_bounded (len : Nat) (ms : List (Nat × Nat)) :
    ∀ iv ∈ uncarved len ms, iv.1.isSome = true := by
  exact Proofs.Carve.uncarved_bounded len ms

/-- What the per-candidate handler lets through is never a `ValueError`. -/
theorem candidate_absorbs (fo pn ix : Nat) (i : RecIn) (e : PyErr) (h : tryCarve fo pn ix i = .error e) :
    e ≠ .valueError := by
  exact Proofs.Carve.tryCarve_absorbs fo pn ix i e h

/-- The journal carver never reads past the end of the journal, whatever its size (0d6a473) … -/
theorem journal_never_eof (sig : CarveSig) (ps : Nat) (fh : FileH) (e : PyErr)
    (h : carveJournal sig ps fh = .error e) : e ≠ .eofError := by
  exact Proofs.Carve.journal_never_eof sig ps fh e h

/-- … and a journal without a whole page record yields nothing. -/
theorem journal_header_only (sig : CarveSig) (ps : Nat) (fh : FileH) (h : fh.size < 512 + (4 + ps + 4)) :
    carveJournal sig ps fh = .ok [] := by
  exact Proofs.Carve.journal_header_only sig ps fh h

/-! ### backed -/

/-- Unallocated regions: the reported file offset is page offset + region start + match start. -/
theorem backed_offset (sig : CarveSig) (ps pn po rs : Nat) (data : Buf)
    (cells : List CarvedCell) (h : carveUnallocated sig ps pn po rs data = .ok cells) :
    ∀ c ∈ cells, c.fileOffset = po + rs + c.matchStart ∧ c.loc = .unallocated ∧ c.pageNumber = pn := by
  exact Proofs.Carve.unallocated_offsets sig ps pn po rs data cells h

/-- Freeblocks (full statement, true since 1323ad4): the reported offset is where the matched bytes
are in the file — page offset + freeblock start + 4 + match start. -/
theorem backed_offset_freeblock (sig : CarveSig) (ps : Nat) (fb : FbIn) (cells : List CarvedCell)
    (hcs : fb.contentStart = fb.start + 4) (h : carveFreeblocks sig ps [fb] = .ok cells) :
    ∀ c ∈ cells, c.fileOffset = fb.pageOffset + (fb.start + 4) + c.matchStart := by
  exact Proofs.Carve.freeblock_offset_full sig ps fb cells hcs h

/-- The matched bytes `[matchStart, matchEnd)` of the region are the serial-type varints of the
reported columns (all, or all but a reconstructed first one), and every column not flagged
truncated holds the value `get_record_content` decodes from exactly its body bytes, the bodies
following the matched bytes back to back. -/
theorem backed_bytes (sig : CarveSig) (ps pn po rs : Nat) (data : Buf)
    (cells : List CarvedCell) (h : carveUnallocated sig ps pn po rs data = .ok cells) :
    ∀ c ∈ cells, c.matchStart ≤ c.matchEnd ∧
      (∃ k, k ≤ 1 ∧ HeaderAt data c.matchEnd c.matchStart (c.rec_.cols.drop k)) ∧
      BodiesAt data c.matchEnd c.rec_.cols := by
  exact Proofs.Carve.unallocated_backed sig ps pn po rs data cells h

theorem backed_bytes_freeblock (sig : CarveSig) (ps : Nat) (fb : FbIn) (cells : List CarvedCell)
    (h : carveFreeblocks sig ps [fb] = .ok cells) :
    ∀ c ∈ cells, c.matchStart ≤ c.matchEnd ∧
      (∃ k, k ≤ 1 ∧ HeaderAt fb.content c.matchEnd c.matchStart (c.rec_.cols.drop k)) ∧
      BodiesAt fb.content c.matchEnd c.rec_.cols := by
  exact Proofs.Carve.freeblock_backed sig ps fb cells h

/-- The same for one constructed record, whatever the location. -/
theorem backed_record (i : RecIn) (r : CarvedRec) (h : carvedRecord i = .ok r) (hse : i.s ≤ i.e) :
    (∃ k, k ≤ 1 ∧ HeaderAt i.data i.e i.s (r.cols.drop k) ∧ (i.firstCol = none → k = 0)) ∧
    r.bodyStart = i.e ∧ BodiesAt i.data i.e r.cols ∧ r.cols.length = i.nCols := by
  exact Proofs.Carve.record_backed i r h hse

/-! ### no re-report -/

/-- One step of the iterator reports only digests it has not reported before, and remembers them. -/
theorem no_rereport_step (frames : Nat) (sig : CarveSig) (fl first : Bool) (st : CarveState) (ver : Version)
    (v : VersionIf) (root : Nat) (prev : Option Nat) (c : Commit) (cc : CarveCommit) (st' : CarveState)
    (h : carveStep frames sig fl first st ver v root prev = .ok (c, cc, st')) (hs : st.seen.Nodup) :
    (keys cc.carved).Nodup ∧ (∀ k ∈ keys cc.carved, k ∉ st.seen) ∧
    st'.seen = st.seen ++ keys cc.carved ∧ st'.seen.Nodup := by
  exact Proofs.Carve.carveStep_fresh frames sig fl first st ver v root prev c cc st' h hs

/-- Over a whole history the reported digests are pairwise distinct. -/
theorem no_rereport (frames : Nat) (sig : CarveSig) (fl : Bool) (vs : List (Version × VersionIf))
    (id : EntryIdent) (commits : List CarveCommit) (h : carveHistory frames sig fl vs id = .ok commits) :
    (commits.flatMap fun cc => keys cc.carved).Nodup := by
  exact Proofs.Carve.no_rereport frames sig fl vs id commits h

/-- What a digest identifies (since 56bb962): exactly the bytes of the region from the first matched
serial type to the end of the bodies, as far as the region reaches — the residue itself, not its
surroundings and not the offsets of the region it was found in.  So the same residue gets the same
digest in whatever region (freeblock, later unallocated area, another page copy) it is seen, and
`no_rereport` means: no residue is reported twice.  (Two residues with identical bytes at different
places are, by the same token, one digest: see C09.) -/
theorem digest_is_record_bytes (sig : CarveSig) (ps pn po rs : Nat) (data : Buf) (cells : List CarvedCell)
    (h : carveUnallocated sig ps pn po rs data = .ok cells) :
    ∀ c ∈ cells, c.digest = (data.slice c.matchStart c.rec_.cellEnd).toList := by
  exact Proofs.Carve.unallocated_digest sig ps pn po rs data cells h

theorem digest_is_record_bytes_freeblock (sig : CarveSig) (ps : Nat) (fb : FbIn) (cells : List CarvedCell)
    (h : carveFreeblocks sig ps [fb] = .ok cells) :
    ∀ c ∈ cells, c.digest = (fb.content.slice c.matchStart c.rec_.cellEnd).toList := by
  exact Proofs.Carve.freeblock_digest sig ps fb cells h

/-- The witness of the former re-report defect: the same residue seen once as a freeblock and once,
in a later version, inside the unallocated area gets one digest (and one file offset). -/
theorem rereport_witness_fixed :
    ∃ a b, carveFreeblocks sig41 1024 [fbWitness] = .ok [a] ∧
      carveUnallocated sig41 1024 2 1024 200 regionLater = .ok [b] ∧
      a.fileOffset = b.fileOffset ∧ a.digest = b.digest ∧ a.digest = [1, 0, 0, 0, 7, 9] := by
  exact Proofs.Carve.rereport_witness_fixed

end SqliteDissect.Properties.C08
