/-
C18 (WAL-index part) — `WriteAheadLogIndex.__init__` on an arbitrary (damaged) `-shm` file always
ends, after a number of `FileHandle.read_data` calls that is linear in the file size — also when
the file has no zero word for the first loop to stop at — and with a result or one of four
exception classes.  The model's scan carries the read counter in its result, on success and on
error (`walIndexScanCounted`); `walIndexScan` is its second component.
-/
import SqliteDissect.Proofs.WalIndex
import SqliteDissect.Proofs.Codec

namespace SqliteDissect.Properties.C18Scan
open SqliteDissect SqliteDissect.Model

/-- the number of reads the scan performs is at most `(size - 136) / 4 + size / 2 + 2`
(truncated subtraction) for every file, including ones without a zero word -/
theorem walindex_scan_bounded (file : Buf) :
    (walIndexScanCounted file).1 ≤ (file.size - 136) / 4 + file.size / 2 + 2 := by
  exact Proofs.WalIndex.walindex_scan_bounded file

/-- a sharper bound, attained (example below) -/
theorem walindex_scan_bounded_tight (file : Buf) :
    (walIndexScanCounted file).1 ≤ (file.size - 136) / 2 + 2 := by
  exact Proofs.WalIndex.walindex_scan_bounded_tight file

/-- the result is `.ok` or the error class is `ValueError` / `HeaderParsingError` /
`NotImplementedError` (all three from the header, before any read) or `EOFError`; never
`struct.error`, and never `outsideModel`: the fuel `file.size / 4 + 1`, `file.size / 2 + 1` the
model gives its two loops is not exhausted -/
theorem walindex_scan_total (file : Buf) :
    (∃ r, walIndexScan file = .ok r) ∨
    walIndexScan file = .error .valueError ∨ walIndexScan file = .error .parseError ∨
    walIndexScan file = .error .notImplemented ∨ walIndexScan file = .error .eofError := by
  exact Proofs.WalIndex.walindex_scan_total file

/-- what a successful scan computed: the header of the first 136 bytes; the entries are the
non-zero little-endian words from offset 136 up to the first zero word (which lies inside the
file); the size is even; `found` is every non-zero little-endian u16 from the zero word to the
end with its offset; and the exact number of reads -/
theorem walindex_scan_ok_spec (file : Buf) (reads : Nat) (r : ScanResult)
    (h : walIndexScanCounted file = (reads, .ok r)) :
    parseWalIndexHeader (file.slice 0 136) = .ok r.header ∧
    r.zeroOffset = 136 + 4 * r.entries.length ∧ r.zeroOffset + 4 ≤ file.size ∧
    file.leN r.zeroOffset 4 = 0 ∧
    (∀ (i : Nat) (hi : i < r.entries.length),
      r.entries[i] = file.leN (136 + 4 * i) 4 ∧ r.entries[i] ≠ 0) ∧
    file.size % 2 = 0 ∧
    r.found = Spec.nonZeroSlots (fun o => file.leN o 2) r.zeroOffset ((file.size - r.zeroOffset) / 2) ∧
    reads = r.entries.length + 1 + (file.size - r.zeroOffset) / 2 := by
  exact Proofs.WalIndex.walindex_scan_ok_spec file reads r h

/-- what a failing scan means: the header's error with no read at all; or `EOFError` because no
word on the u32 grid after the header is zero (one read per word plus the failing one); or
`EOFError` at the last byte of an odd-sized file -/
theorem walindex_scan_err_spec (file : Buf) (reads : Nat) (e : PyErr)
    (h : walIndexScanCounted file = (reads, .error e)) :
    (parseWalIndexHeader (file.slice 0 136) = .error e ∧ reads = 0) ∨
    ((∃ hdr, parseWalIndexHeader (file.slice 0 136) = .ok hdr) ∧ e = .eofError ∧
      (((∀ k, 136 + 4 * k + 4 ≤ file.size → file.leN (136 + 4 * k) 4 ≠ 0) ∧
          reads = (file.size - 136) / 4 + 1) ∨
       (∃ n, (∀ i, i < n → file.leN (136 + 4 * i) 4 ≠ 0) ∧ 136 + 4 * n + 4 ≤ file.size ∧
          file.leN (136 + 4 * n) 4 = 0 ∧ file.size % 2 = 1 ∧
          reads = n + 1 + (file.size - (136 + 4 * n)) / 2 + 1))) := by
  exact Proofs.WalIndex.walindex_scan_err_spec file reads e h

/-- `Buf.leN` on a byte list is `Spec.le` (so the statements above read as statements about the
bytes of the file) -/
theorem leN_is_le (bs : List Nat) (n off : Nat) : (Buf.ofList bs).leN off n = Spec.le bs off n := by
  exact Proofs.WalIndex.leN_ofList bs n off

/-! non-vacuity.  `hdr`: the header of a `-shm` SQLite 3.40.1 wrote -/
private def hdr : List Nat :=
  [24, 226, 45, 0, 0, 0, 0, 0, 3, 0, 0, 0, 1, 0, 0, 2, 10, 0, 0, 0, 6, 0, 0, 0, 241, 95, 12, 139, 219, 224, 87,
   214, 157, 19, 85, 234, 248, 85, 93, 97, 253, 187, 221, 236, 0, 223, 98, 189,
   24, 226, 45, 0, 0, 0, 0, 0, 3, 0, 0, 0, 1, 0, 0, 2, 10, 0, 0, 0, 6, 0, 0, 0, 241, 95, 12, 139, 219, 224, 87,
   214, 157, 19, 85, 234, 248, 85, 93, 97, 253, 187, 221, 236, 0, 223, 98, 189,
   0, 0, 0, 0, 0, 0, 0, 0, 4, 0, 0, 0, 255, 255, 255, 255, 255, 255, 255, 255, 255, 255, 255, 255,
   0, 0, 0, 0, 0, 0, 0, 0, 0, 0, 0, 0, 0, 0, 0, 0]

private def view (q : Nat × Py ScanResult) : Nat × Py (List Nat × Nat × List (Nat × Nat)) :=
  (q.1, q.2.map fun r => (r.entries, r.zeroOffset, r.found))

/-- pages 5, 7, then the zero word, then slots 3, 0, 265: 8 reads (bound: 83, tight bound: 11) -/
example : view (walIndexScanCounted (Buf.ofList
    (hdr ++ [5, 0, 0, 0, 7, 0, 0, 0] ++ [0, 0, 0, 0] ++ [3, 0, 0, 0, 9, 1]))) =
    (8, .ok ([5, 7], 144, [(148, 3), (152, 265)])) := by decide +kernel
/-- zero bytes that straddle two words do not stop the first loop -/
example : view (walIndexScanCounted (Buf.ofList
    (hdr ++ [1, 1, 0, 0, 0, 0, 1, 1] ++ [0, 0, 0, 0]))) =
    (5, .ok ([257, 16842752], 144, [])) := by decide +kernel
/-- no zero word: `EOFError` after one read per word plus the failing one -/
example : view (walIndexScanCounted (Buf.ofList (hdr ++ [1, 0, 0, 0, 2, 0, 0, 0]))) =
    (3, .error .eofError) := by decide +kernel
/-- … also when only part of a word is left -/
example : view (walIndexScanCounted (Buf.ofList (hdr ++ [1, 0, 0, 0, 0, 0, 0]))) =
    (2, .error .eofError) := by decide +kernel
/-- header only: the very first read fails -/
example : view (walIndexScanCounted (Buf.ofList hdr)) = (1, .error .eofError) := by decide +kernel
/-- odd size: `EOFError` at the last byte; 141 bytes, 4 reads = (141 - 136) / 2 + 2: the tight bound is attained -/
example : view (walIndexScanCounted (Buf.ofList (hdr ++ [0, 0, 0, 0, 7]))) =
    (4, .error .eofError) := by decide +kernel
/-- header errors come before any read -/
example : view (walIndexScanCounted (Buf.ofList (hdr.take 100))) = (0, .error .valueError) := by decide +kernel
example : view (walIndexScanCounted (Buf.ofList ([0, 0, 0, 0] ++ hdr.drop 4 ++ [0, 0, 0, 0]))) =
    (0, .error .parseError) := by decide +kernel
example : view (walIndexScanCounted (Buf.ofList ([0, 45, 226, 24] ++ hdr.drop 4 ++ [0, 0, 0, 0]))) =
    (0, .error .notImplemented) := by decide +kernel
/-- the header the scan reports is the header of the first 136 bytes -/
example : (walIndexScan (Buf.ofList (hdr ++ [0, 0, 0, 0]))).map (·.header.pageSize) = .ok 512 := by
  decide +kernel

end SqliteDissect.Properties.C18Scan
