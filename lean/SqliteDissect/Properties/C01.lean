/-
C01 — live table rows are reported exactly as SQLite stores them (record level; the codec level
is C15, the payload split / overflow chain level is C16, page acceptance is C06).
-/
import SqliteDissect.Proofs.Record

namespace SqliteDissect.Properties.C01
open SqliteDissect SqliteDissect.Model

/-- the column the model reports for a stored column -/
def expectedCol (c : Spec.Col) : RecordCol :=
  ⟨c.st, Spec.varintLen (Spec.toU64 c.st), c.content.length, (Spec.serialGet c.st c.content).getD .null⟩

/-- `Record.__init__` inverts SQLite's record encoding, wherever the record sits in the page
(`pre`/`post` arbitrary), however its bytes are split between the page (`b` local bytes) and the
overflow chain: same number of columns, same serial types, same values, the whole payload as
digest input.  (`(typeBytes cols).length + 3 < 2^21` keeps the header-size varint within
three bytes — far beyond any page.) -/
theorem record_roundtrip (cols : List Spec.Col) (hv : ∀ c ∈ cols, Spec.ValidCol c)
    (hn : (Spec.typeBytes cols).length + 3 < 2 ^ 21)
    (pre post : List Nat) (b : Nat)
    (hb1 : Spec.varintLen (Spec.hdrSize (Spec.typeBytes cols).length) ≤ b)
    (hb2 : b ≤ (Spec.encodeRecord cols).length) :
    parseRecord (Buf.ofList (pre ++ (Spec.encodeRecord cols).take b ++ post)) (pre.length : Int)
        ((Spec.encodeRecord cols).length : Int) (b : Int) (Buf.ofList ((Spec.encodeRecord cols).drop b))
      = .ok ⟨(Spec.hdrSize (Spec.typeBytes cols).length : Int),
             Spec.varintLen (Spec.hdrSize (Spec.typeBytes cols).length),
             cols.map expectedCol, Spec.encodeRecord cols⟩ := by
  exact Proofs.Record.record_roundtrip cols hv hn pre post b hb1 hb2

/-- every stored column decodes (no value is ever defaulted) -/
theorem expectedCol_defined (c : Spec.Col) (hv : Spec.ValidCol c) :
    ∃ v, Spec.serialGet c.st c.content = some v ∧ (expectedCol c).value = v := by
  exact Proofs.Record.expectedCol_defined c hv

/-- the header size SQLite writes is self-describing -/
theorem hdrSize_spec (n : Nat) (hn : n + 3 < 2 ^ 21) :
    Spec.hdrSize n = n + Spec.varintLen (Spec.hdrSize n) := by
  exact Proofs.Record.hdrSize_spec n hn

/-- the signature string used by signatures and carving is the per-column class string -/
theorem record_signature (cols : List Spec.Col) (r : Record) (h : r.cols = cols.map expectedCol) :
    r.signature = String.join (cols.map fun c => toString (serialTypeSignature c.st)) := by
  exact Proofs.Record.record_signature cols r h

/-! non-vacuity: (NULL, 7, 'hi') -/
example : Spec.encodeRecord [⟨0, []⟩, ⟨1, [7]⟩, ⟨17, [104, 105]⟩] = [4, 0, 1, 17, 7, 104, 105] := by decide

end SqliteDissect.Properties.C01
