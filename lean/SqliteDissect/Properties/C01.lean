import SqliteDissect.Model.Wal
namespace SqliteDissect.Properties.C01
end SqliteDissect.Properties.C01
