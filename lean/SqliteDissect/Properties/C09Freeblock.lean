/-
C09 (continued) — recall through the freeblock / partial pattern.

Property theorems only (helper lemmas and proofs live in Proofs/CarveFreeblock.lean).  `Model.Carve`
mirrors `SignatureCarver.carve_freeblocks` (carver.py) and `CarvedRecord.__init__` (carved_cell.py);
the writers are the specification's (`Spec.writeTableLeafCell` over `Spec.encodeRecord`).

Reading guide.
* `FreedCell fb u rowid c0 rest`: the freeblock `fb` is exactly the freed table-leaf cell of the row
  (`rowid`, columns `c0 :: rest`):
    - every column is storable (`Spec.ValidCol`), there are at least two (`rest ≠ []`),
    - every serial type is a one-byte varint (`c.st < 128`), so is the header size (`rest.length + 2 < 128`),
    - the record is local to the page (`(encodeRecord cols).length ≤ maxLeaf u`, `u ≤ 65536`),
    - `fb.content.toList = (writeTableLeafCell u rowid (encodeRecord cols) 0).drop 4` (the first four
      bytes of the cell hold the freeblock's next pointer and size now) and `fb.byteSize` is the cell's length.
* `matchStart rowid cols` = (payload-size varint length) + (rowid varint length) − 2: where the serial
  types after the first start in the freeblock content.  0 ⇔ both varints are one byte (the first serial
  type byte is the fourth byte of the cell: overwritten); 1 ⇔ together they take three bytes (e.g. a
  two-byte rowid): the first serial type is content byte 0; ≥ 2: it is the byte in front of the match
  and the header-size byte precedes it.
* `FirstColumnRecoverable fc c0 s0` (fc = first column of the signature):
    s0 = 0 → `SizeDetermines fc c0` (fc lists only serial types 0..9, among them the stored one, without
             repetition, and no other listed type has the stored content size);
    s0 ≥ 1 → `serialTypeSignature c0.st ∈ fc`;
    s0 ≥ 2 → moreover −1 ∉ fc and −2 ∉ fc.
* `markFirst tf cols`: `cols` with `truncatedFirst := tf` on the first; `expectedCCols 0 e cols`
  (Proofs/CarveRecall) the carved columns with exactly the stored serial types and `Spec.serialGet` values.
-/
import SqliteDissect.Proofs.CarveFreeblock

namespace SqliteDissect.Properties.C09Freeblock
open SqliteDissect SqliteDissect.Model SqliteDissect.Model.Carve
open SqliteDissect.Proofs.CarveRecall SqliteDissect.Proofs.CarveFreeblock

/-! ### the freed cell in the freeblock content -/

/-- What survives of a freed cell: from `matchStart` on, the content of the freeblock holds the serial
types after the first, then the contents of all columns (the first included), and nothing else. -/
theorem freed_cell_tail_intact (fb : FbIn) (u : Nat) (rowid : Int) (c0 : Spec.Col) (rest : List Spec.Col)
    (h : FreedCell fb u rowid c0 rest) :
    fb.content.WF ∧ fb.content.size < 2 ^ 53 ∧
    TailIntactAt fb.content (matchStart rowid (c0 :: rest)) (matchStart rowid (c0 :: rest) + rest.length) c0 rest := by
  exact ⟨h.wf, h.size, h.tail⟩

/-- Which cells give match offset 0 (first serial type byte lost): payload size and rowid below 128. -/
theorem match_offset_zero_iff (rowid : Int) (cols : List Spec.Col) :
    matchStart rowid cols = 0 ↔ (Spec.encodeRecord cols).length < 128 ∧ Spec.toU64 rowid < 128 := by
  exact Proofs.CarveFreeblock.matchStart_zero_iff rowid cols

/-- In general: offset k ⇔ the two leading varints take k + 2 bytes together. -/
theorem match_offset_eq (rowid : Int) (cols : List Spec.Col) (k : Nat) :
    matchStart rowid cols = k ↔
      Spec.varintLen (Spec.encodeRecord cols).length + Spec.varintLen (Spec.toU64 rowid) = k + 2 := by
  exact Proofs.CarveFreeblock.matchStart_eq rowid cols k

/-! ### recall -/

/-- Candidate level: the constructor call that `carve_freeblocks` makes for the match over the rest of the
header of a freed cell (whatever the cutoff) returns the stored columns; the first column is flagged
`truncated_first_serial_type` exactly when its serial type byte was lost (offset 0). -/
theorem recall_freeblock_candidate (fb : FbIn) (u : Nat) (rowid : Int) (c0 : Spec.Col) (rest : List Spec.Col)
    (h : FreedCell fb u rowid c0 rest) (sig : CarveSig) (fc : List Int) (ps co : Nat)
    (hn : rest.length + 1 = sig.numberOfColumns)
    (hfirst : FirstColumnRecoverable fc c0 (matchStart rowid (c0 :: rest))) :
    ∃ r, carvedRecord (fbCandidate sig fc ps fb (matchStart rowid (c0 :: rest))
        (matchStart rowid (c0 :: rest) + rest.length) co) = .ok r ∧
      r.cols = markFirst (decide (matchStart rowid (c0 :: rest) = 0))
        (expectedCCols 0 (matchStart rowid (c0 :: rest) + rest.length) (c0 :: rest)) ∧
      r.truncatedBeginning = decide (matchStart rowid (c0 :: rest) = 0) ∧ r.truncatedEnding = false := by
  exact Proofs.CarveFreeblock.candidate h sig fc ps co hn hfirst

/-- Region level (the gap the manifest named): `carve_freeblocks` over any list of freeblocks that
contains the freed cell reports it — if the scan of its content with the partial pattern reports the
rest of its header and carving completes (it does: C08 `completes_freeblocks`), the result contains a
cell at that match, at the file offset of the matched bytes, with the stored serial types and values
in every column, the first included. -/
theorem recall_freeblock_record (sig : CarveSig) (fc : List Int) (simplified : List (List Int)) (pp : Regex.Pat)
    (hc : chosenSignature sig = .ok (fc, simplified)) (hpp : Regex.genSignature simplified true = .ok pp)
    (ps : Nat) (fbs : List FbIn) (fb : FbIn) (hfb : fb ∈ fbs)
    (u : Nat) (rowid : Int) (c0 : Spec.Col) (rest : List Spec.Col)
    (hcell : FreedCell fb u rowid c0 rest) (hn : rest.length + 1 = sig.numberOfColumns)
    (hfirst : FirstColumnRecoverable fc c0 (matchStart rowid (c0 :: rest)))
    (hm : (matchStart rowid (c0 :: rest), matchStart rowid (c0 :: rest) + rest.length) ∈
      Regex.finditer pp fb.content.toList)
    (cells : List CarvedCell) (h : carveFreeblocks sig ps fbs = .ok cells) :
    ∃ c ∈ cells, c.matchStart = matchStart rowid (c0 :: rest) ∧
      c.matchEnd = matchStart rowid (c0 :: rest) + rest.length ∧
      c.fileOffset = fb.pageOffset + fb.contentStart + matchStart rowid (c0 :: rest) ∧ c.loc = .freeblock ∧
      c.rec_.cols = markFirst (decide (matchStart rowid (c0 :: rest) = 0))
        (expectedCCols 0 (matchStart rowid (c0 :: rest) + rest.length) (c0 :: rest)) ∧
      c.rec_.truncatedEnding = false := by
  exact Proofs.CarveFreeblock.recall_freeblock_record sig fc simplified pp hc hpp ps fbs fb hfb u rowid c0 rest
    hcell hn hfirst hm cells h

/-- The same without assuming completion: carving the freeblocks either leaves the range in which the
model follows the code's floats, or returns cells among which is the freed row. -/
theorem recall_freeblock_total (sig : CarveSig) (fc : List Int) (simplified : List (List Int)) (pf pp : Regex.Pat)
    (hc : chosenSignature sig = .ok (fc, simplified)) (hpf : Regex.genSignature simplified false = .ok pf)
    (hpp : Regex.genSignature simplified true = .ok pp) (hnc : sig.numberOfColumns = simplified.length)
    (ps : Nat) (fbs : List FbIn) (hwf : ∀ fb ∈ fbs, fb.content.WF) (hsize : ∀ fb ∈ fbs, fb.content.size < 2 ^ 53)
    (fb : FbIn) (hfb : fb ∈ fbs)
    (u : Nat) (rowid : Int) (c0 : Spec.Col) (rest : List Spec.Col)
    (hcell : FreedCell fb u rowid c0 rest) (hn : rest.length + 1 = sig.numberOfColumns)
    (hfirst : FirstColumnRecoverable fc c0 (matchStart rowid (c0 :: rest)))
    (hm : (matchStart rowid (c0 :: rest), matchStart rowid (c0 :: rest) + rest.length) ∈
      Regex.finditer pp fb.content.toList) :
    carveFreeblocks sig ps fbs = .error .outsideModel ∨
    ∃ cells, carveFreeblocks sig ps fbs = .ok cells ∧
      ∃ c ∈ cells, c.matchStart = matchStart rowid (c0 :: rest) ∧
        c.matchEnd = matchStart rowid (c0 :: rest) + rest.length ∧
        c.fileOffset = fb.pageOffset + fb.contentStart + matchStart rowid (c0 :: rest) ∧ c.loc = .freeblock ∧
        c.rec_.cols = markFirst (decide (matchStart rowid (c0 :: rest) = 0))
          (expectedCCols 0 (matchStart rowid (c0 :: rest) + rest.length) (c0 :: rest)) ∧
        c.rec_.truncatedEnding = false := by
  exact Proofs.CarveFreeblock.recall_freeblock_total sig fc simplified pf pp hc hpf hpp hnc ps fbs hwf hsize fb hfb
    u rowid c0 rest hcell hn hfirst hm

/-- The scan hypothesis `hm`, from the signature: the partial pattern's scan reports exactly the rest of
the header when the pattern matches there at all (the signature lists the classes of the serial types
after the first) and matches nowhere before it ("no earlier overlapping match") — the match then ends
exactly at the end of the header (C09 `match_is_exactly_the_header`) and `finditer` reports the first
match (C09 `scan_reports_first_match`). -/
theorem scan_reports_freeblock_header (simplified : List (List Int)) (pp : Regex.Pat)
    (hpp : Regex.genSignature simplified true = .ok pp)
    (fb : FbIn) (u : Nat) (rowid : Int) (c0 : Spec.Col) (rest : List Spec.Col)
    (hcell : FreedCell fb u rowid c0 rest) (hlen : simplified.length = rest.length + 1)
    (hnone : ∀ j, j < matchStart rowid (c0 :: rest) → Regex.matchAt pp (fb.content.toList.drop j) = none)
    (hadm : (Regex.matchAt pp (fb.content.toList.drop (matchStart rowid (c0 :: rest)))).isSome = true) :
    (matchStart rowid (c0 :: rest), matchStart rowid (c0 :: rest) + rest.length) ∈
      Regex.finditer pp fb.content.toList := by
  exact Proofs.CarveFreeblock.scan_reports_freeblock_header simplified pp hpp fb u rowid c0 rest hcell hlen hnone hadm

/-! ### the columns after the first, when the first is not recovered -/

/-- The columns after the first are reported with their stored serial types and values whenever the
first column the constructor settles on (`SettlesOn`: reconstructed by the branch for the match offset,
or — when that leaves nothing — the fall-back's most probable serial type) is a one-byte serial type with
the content size of the stored first column; the first column is then that type's reading of the
stored bytes.  (Not otherwise: `ambiguous_first_misaligns`.) -/
theorem recall_freeblock_rest (sig : CarveSig) (fc : List Int) (simplified : List (List Int)) (pp : Regex.Pat)
    (hc : chosenSignature sig = .ok (fc, simplified)) (hpp : Regex.genSignature simplified true = .ok pp)
    (ps : Nat) (fbs : List FbIn) (fb : FbIn) (hfb : fb ∈ fbs)
    (u : Nat) (rowid : Int) (c0 : Spec.Col) (rest : List Spec.Col)
    (hcell : FreedCell fb u rowid c0 rest) (hn : rest.length + 1 = sig.numberOfColumns) (pc : PreCol)
    (hset : ∀ co, SettlesOn (fbCandidate sig fc ps fb (matchStart rowid (c0 :: rest))
      (matchStart rowid (c0 :: rest) + rest.length) co) rest.length (rest.flatMap (·.content)).length pc)
    (h0 : 0 ≤ pc.serialType) (h128 : pc.serialType < 128) (hvl : pc.varintLen = 1)
    (hlen : Spec.serialTypeLen pc.serialType = some c0.content.length)
    (hsz : pc.contentSize = c0.content.length)
    (hm : (matchStart rowid (c0 :: rest), matchStart rowid (c0 :: rest) + rest.length) ∈
      Regex.finditer pp fb.content.toList)
    (cells : List CarvedCell) (h : carveFreeblocks sig ps fbs = .ok cells) :
    ∃ c ∈ cells, c.matchStart = matchStart rowid (c0 :: rest) ∧
      c.matchEnd = matchStart rowid (c0 :: rest) + rest.length ∧
      c.rec_.cols.drop 1 = (expectedCCols 0 (matchStart rowid (c0 :: rest) + rest.length) (c0 :: rest)).drop 1 ∧
      c.rec_.cols.head? = some (firstCCol pc (matchStart rowid (c0 :: rest) + rest.length) ⟨pc.serialType, c0.content⟩) := by
  exact Proofs.CarveFreeblock.recall_freeblock_rest sig fc simplified pp hc hpp ps fbs fb hfb u rowid c0 rest hcell hn
    pc hset h0 h128 hvl hlen hsz hm cells h

/-- Offset 0, fixed-width first column, the freeblock size does not single out one listed serial type
(none or several have the size it leaves over): the constructor settles on the fall-back's choice. -/
theorem settles_on_fallback_when_ambiguous (fb : FbIn) (u : Nat) (rowid : Int) (c0 : Spec.Col) (rest : List Spec.Col)
    (h : FreedCell fb u rowid c0 rest) (sig : CarveSig) (fc : List Int) (ps co : Nat)
    (hz : matchStart rowid (c0 :: rest) = 0) (hfc : ∀ t ∈ fc, 0 ≤ t ∧ t ≤ 9) (hne : fc ≠ [])
    (hamb : (fc.filter fun t => decide (getContentSize t = .ok c0.content.length)).length ≠ 1)
    (pc : PreCol) (hprob : probabilisticFirst sig fc = .ok pc) :
    SettlesOn (fbCandidate sig fc ps fb (matchStart rowid (c0 :: rest)) (matchStart rowid (c0 :: rest) + rest.length) co)
      rest.length (rest.flatMap (·.content)).length pc := by
  exact Proofs.CarveFreeblock.settles_offset0_ambiguous h sig fc ps co hz hfc hne hamb pc hprob

/-! ### the negative side -/

/-- FULL STATEMENT (false): `recall_freeblock_record` with "the first column of the signature lists the
class of the stored first serial type" in place of `FirstColumnRecoverable`, asking only that the row
be reported at its place with the stored columns after the first. -/
def RecallFreeblock_Full : Prop := RecallFreeblockFull

/-- Known finding C09-02, the model on bytes SQLite wrote (CREATE TABLE t(a TEXT, b INTEGER); ('xy',5), ('ab',7),
('cd',9); secure_delete off; DELETE rowid 2 — freeblock of 8 bytes at 1008 of page 2, content `01 61 62 07`,
signature [[-2], [1]]): the only candidate raises `ValueError` (`get_content_size(-2)`) … -/
theorem text_first_candidate_raises :
    carvedRecord (fbCandidate sigText [-2] 1024 fbText 0 1 4) = .error (.py .valueError) := by
  exact Proofs.CarveFreeblock.text_candidate_valueError

/-- … is absorbed, and nothing is reported for the freed row. -/
theorem text_first_skipped :
    FreedCell fbText 1024 2 colAb [colSeven] ∧ carveFreeblocks sigText 1024 [fbText] = .ok [] := by
  exact ⟨Proofs.CarveFreeblock.freed_text, Proofs.CarveFreeblock.text_first_skipped⟩

theorem recall_freeblock_full_false : ¬ RecallFreeblock_Full := by
  exact Proofs.CarveFreeblock.recall_freeblock_full_false

/-- A fixed-width first column is not enough either (bytes SQLite wrote: CREATE TABLE t(a INTEGER, b INTEGER);
(5,55), (0,77), (5,99), (0,44), (1,33); DELETE rowid 2; signature [[1, 8, 9], [1]], content `01 4d`): the size says
"0 bytes", two listed types (8, 9) have 0 bytes, the fall-back takes the most frequent type 1 — one byte wide —
and the row (0, 77) is reported as (77, cut off). -/
theorem ambiguous_first_misaligns :
    FreedCell fbAmb 1024 2 colZero [col77] ∧
    ∃ a, carveFreeblocks sigAmb 1024 [fbAmb] = .ok [a] ∧ a.matchStart = 0 ∧ a.matchEnd = 1 ∧
      a.rec_.cols.map (fun c => (c.serialType, c.value, c.truncatedValue, c.probabilisticFirst)) =
        [(1, .dec (.int 77), false, true), (1, .unset, true, false)] := by
  exact ⟨Proofs.CarveFreeblock.freed_amb, Proofs.CarveFreeblock.ambiguous_first_misaligns⟩

/-- … so the full statement fails on it too: no reported cell carries the stored second column. -/
theorem recall_freeblock_full_false_fixed_width :
    ∃ (cells : List CarvedCell), carveFreeblocks sigAmb 1024 [fbAmb] = .ok cells ∧
      FreedCell fbAmb 1024 2 colZero [col77] ∧ serialTypeSignature colZero.st ∈ ([1, 8, 9] : List Int) ∧
      (matchStart 2 [colZero, col77], matchStart 2 [colZero, col77] + 1) ∈
        Regex.finditer (.seq [.lit 1]) fbAmb.content.toList ∧
      ¬ ∃ c ∈ cells, c.rec_.cols.drop 1 = (expectedCCols 0 (matchStart 2 [colZero, col77] + 1) [colZero, col77]).drop 1 := by
  exact Proofs.CarveFreeblock.recall_freeblock_full_false_fixed_width

/-- Why offset ≥ 2 needs "no −1 / −2 in the first column" although the serial type byte survived (bytes SQLite
wrote: the C09-02 table with rowids 20000..20002, DELETE rowid 20001; content `03 11 01 61 62 07`): the byte `11`
in front of the match is never read, the fall-back reports an empty blob (serial type 12) and the second
column becomes 97 (`61`) instead of 7. -/
theorem survived_text_first_not_read :
    FreedCell fbOff2Text 1024 20001 colAb [colSeven] ∧ matchStart 20001 [colAb, colSeven] = 2 ∧
    ∃ a, carveFreeblocks sigText 1024 [fbOff2Text] = .ok [a] ∧ a.matchStart = 2 ∧ a.matchEnd = 3 ∧
      a.rec_.cols.map (fun c => (c.serialType, c.value, c.probabilisticFirst)) =
        [(12, .dec (.blob []), true), (1, .dec (.int 97), false)] := by
  exact ⟨Proofs.CarveFreeblock.freed_off2_text, Proofs.CarveFreeblock.survived_text_first_not_read⟩

/-! ### non-vacuity: one freed cell per match offset (bytes SQLite 3.40.1 wrote; page size 1024, page 2) -/

/-- the hypotheses of `recall_freeblock_record` are satisfiable at offset 0, 1 and 2 … -/
example : FreedCell fbOff0 1024 2 col8 [col301] ∧ FirstColumnRecoverable [1, 2] col8 0 :=
  ⟨freed_off0, recoverable_off0⟩
example : FreedCell fbOff1 1024 201 colAb [colSeven] ∧ FirstColumnRecoverable [-2] colAb 1 :=
  ⟨freed_off1, recoverable_off1⟩
example : FreedCell fbOff2 1024 20001 col8 [col301] ∧ FirstColumnRecoverable [1] col8 2 :=
  ⟨freed_off2, recoverable_off2⟩

/-- … and its conclusion (scan hypothesis through `scan_reports_freeblock_header`) gives the rows SQLite deleted:
offset 0 — (8, 301), first column reconstructed from the freeblock size among the listed types 1 and 2 … -/
theorem example_offset0 :
    matchStart 2 [col8, col301] = 0 ∧
    ∃ cells, carveFreeblocks sigInt12 1024 [fbOff0] = .ok cells ∧ ∃ c ∈ cells, c.fileOffset = 2036 ∧
      c.rec_.cols.map (fun c => (c.serialType, c.value, c.truncatedFirst)) =
        [(1, .dec (.int 8), true), (2, .dec (.int 301), false)] := by
  exact Proofs.CarveFreeblock.example_offset0

/-- … offset 1 — ('ab', 7), a TEXT first column whose serial type byte survived behind a two-byte rowid … -/
theorem example_offset1 :
    matchStart 201 [colAb, colSeven] = 1 ∧
    ∃ cells, carveFreeblocks sigText 1024 [fbOff1] = .ok cells ∧ ∃ c ∈ cells, c.fileOffset = 2035 ∧
      c.rec_.cols.map (fun c => (c.serialType, c.value, c.truncatedFirst)) =
        [(17, .dec (.text [0x61, 0x62]), false), (1, .dec (.int 7), false)] := by
  exact Proofs.CarveFreeblock.example_offset1

/-- … offset 2 — (8, 301) behind a three-byte rowid. -/
theorem example_offset2 :
    matchStart 20001 [col8, col301] = 2 ∧
    ∃ cells, carveFreeblocks sigInt1 1024 [fbOff2] = .ok cells ∧ ∃ c ∈ cells, c.fileOffset = 2034 ∧
      c.rec_.cols.map (fun c => (c.serialType, c.value, c.truncatedFirst)) =
        [(1, .dec (.int 8), false), (2, .dec (.int 301), false)] := by
  exact Proofs.CarveFreeblock.example_offset2

/-- non-vacuity of `recall_freeblock_rest` (first types 8 and 9, both empty: the row (0, 99) is reported as
(1, 99) — the first column guessed, the second as stored) -/
theorem example_rest :
    ∃ cells, carveFreeblocks sigBool 1024 [fbBool] = .ok cells ∧ ∃ c ∈ cells,
      (c.rec_.cols.drop 1).map (fun c => (c.serialType, c.value)) = [(1, .dec (.int 99))] ∧
      c.rec_.cols.head?.map (fun c => (c.serialType, c.value, c.probabilisticFirst)) = some (9, .dec (.int 1), true) := by
  exact Proofs.CarveFreeblock.example_rest

end SqliteDissect.Properties.C09Freeblock
