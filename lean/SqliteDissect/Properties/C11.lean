/-
C11 — every export format preserves the reported rows and their values.

Property theorems only (helper lemmas live in Proofs/Export.lean).  `Model.Export.*` mirrors the
per-value rendering and per-row assembly of the four exporters (our side of the interface to
csv / openpyxl / sqlite3, which are trusted); `Spec.Export.*` is the vocabulary of the
statements.  A value is quantified over as `Val` (null | int | real | text bytes | blob bytes);
`Column.ofVal` is what the library reports for it (serial type + Python object, text and blobs
as `bytes`).

The model mirrors the code after the repairs 6594c96 (`value.startswith("=")`), ba119b3 (`if value
is not None` in the text output), 75f3ce7 (`bytes` treated like `bytearray` in the SQLite export)
and 6735748 (quoted identifiers).  The statements those repairs made true are stated in full
(`csv_never_fails`, `xlsx_never_fails`, `sqlite_reads_back`, `sqlite_distinguishes_five`,
`text_distinguishes_five`).  What is still FALSE of the code is kept as a `def … : Prop`, refuted
by a concrete witness (`…_counterexample`) and accompanied by the closest true statement
(`…_partial`): the XML-illegal character scrub (C11-D), NULL vs '' in CSV / XLSX (C11-E), the
unquoted join of the text format (C11-F).  C11-G (what openpyxl does to numbers and carriage
returns) lies behind the interface and has no Lean statement; it is decided by the read-back run.
-/
import SqliteDissect.Proofs.Export

namespace SqliteDissect.Properties.C11
open SqliteDissect SqliteDissect.Model SqliteDissect.Model.Export SqliteDissect.Spec.Export

/-! ### Text decoding (`bytes.decode(enc, "replace")`, all three encodings) -/

/-- decoding never produces a surrogate code point, so the `encode(UTF_8)` that follows in every
exporter cannot raise -/
theorem decode_no_surrogate (enc : Enc) (b : List Nat) : ∀ c ∈ decodeReplace enc b, isSurrogate c = false := by
  exact Proofs.Export.decode_noSurr enc b

/-- only the empty byte string decodes to the empty string -/
theorem decode_empty_iff (enc : Enc) (b : List Nat) : decodeReplace enc b = [] ↔ b = [] := by
  exact Proofs.Export.decode_nil_iff enc b

/-- ASCII text in a utf-8 database is its own decoding -/
theorem decode_utf8_ascii (b : List Nat) (h : ∀ x ∈ b, x < 128) : decodeReplace .utf8 b = b := by
  exact Proofs.Export.decode_utf8_ascii b h

/-! ### CSV: per-value rendering -/

/-- no stored value makes the CSV export fail (the empty string included: `value.startswith("=")`) -/
theorem csv_never_fails (enc : Enc) (v : Val) (hv : ValOK v) : ∃ o, renderCsv enc (Column.ofVal v) = .ok o := by
  exact Proofs.Export.csv_never_fails enc v hv

theorem csv_empty_text (enc : Enc) : renderCsv enc (Column.ofVal (.text [])) = .ok (.str []) := by
  exact Proofs.Export.csv_text_nil enc

/-- NULL and numbers are handed to the writer as they are -/
theorem csv_null (enc : Enc) : renderCsv enc (Column.ofVal .null) = .ok .none := by
  exact Proofs.Export.csv_null enc

theorem csv_int (enc : Enc) (i : Int) : renderCsv enc (Column.ofVal (.int i)) = .ok (.int i) := by
  exact Proofs.Export.csv_int enc i

theorem csv_real (enc : Enc) (r : Nat) : renderCsv enc (Column.ofVal (.real r)) = .ok (.float r) := by
  exact Proofs.Export.csv_real enc r

/-- a blob is written as Python's `repr` of its bytes (never touched by the `=` guard or the scrub) … -/
theorem csv_blob (enc : Enc) (b : List Nat) (hb : BytesOK b) :
    renderCsv enc (Column.ofVal (.blob b)) = .ok (.str (bytesRepr b)) := by
  exact Proofs.Export.csv_blob enc b hb

/-- … which determines the bytes: blobs keep their bytes in CSV, XLSX and text -/
theorem blob_repr_injective (b1 b2 : List Nat) (h1 : BytesOK b1) (h2 : BytesOK b2)
    (h : bytesRepr b1 = bytesRepr b2) : b1 = b2 := by
  exact Proofs.Export.bytesRepr_injective b1 b2 h1 h2 h

/-- FULL (C11-D): text is written as its characters decoded in the database encoding, the only
alteration being the documented leading space in front of a leading `=`. -/
def CsvTextOnlyEqGuard : Prop :=
  ∀ (enc : Enc) (b : List Nat), BytesOK b →
    renderCsv enc (Column.ofVal (.text b)) = .ok (.str (eqGuard (decodeReplace enc b)))

/-- FALSE: U+0001 is replaced by a space (the XML-illegal character scrub, in the CSV export too). -/
theorem csv_text_only_eq_guard_counterexample : ¬ CsvTextOnlyEqGuard := by
  exact Proofs.Export.csv_text_only_eq_guard_counterexample

/-- what the code does with text, for every byte string: decode, guard, scrub -/
theorem csv_text (enc : Enc) (b : List Nat) :
    renderCsv enc (Column.ofVal (.text b)) = .ok (.str (scrub (eqGuard (decodeReplace enc b)))) := by
  exact Proofs.Export.csv_text enc b

/-- PARTIAL: for text free of XML-illegal characters the full statement holds. -/
theorem csv_text_only_eq_guard_partial (enc : Enc) (b : List Nat)
    (hlegal : ∀ c ∈ decodeReplace enc b, illegalXml c = false) :
    renderCsv enc (Column.ofVal (.text b)) = .ok (.str (eqGuard (decodeReplace enc b))) := by
  exact Proofs.Export.csv_text_only_eq_guard_partial enc b hlegal

/-- the guard adds nothing or exactly one space in front of a leading `=` … -/
theorem eq_guard_cases (s : List Nat) : eqGuard s = s ∨ (eqGuard s = 32 :: s ∧ s.head? = some 61) := by
  exact Proofs.Export.eqGuard_cases s

/-- … and is itself not invertible: `=x` and ` =x` are written identically (documented, permitted) -/
theorem eq_guard_collision : eqGuard [61, 120] = eqGuard [32, 61, 120] := by
  exact Proofs.Export.eq_guard_collision

/-- FULL (C11-E): NULL, 0, 0.0, '' and x'' are all written, and pairwise differently. -/
def CsvDistinguishesFive : Prop :=
  ∀ (fs : Nat → List Nat) (enc : Enc), FsZero fs → ∀ v1 ∈ five, ∀ v2 ∈ five, v1 ≠ v2 →
    ∃ o1 o2, renderCsv enc (Column.ofVal v1) = .ok o1 ∧ renderCsv enc (Column.ofVal v2) = .ok o2 ∧
      csvWritten fs o1 ≠ csvWritten fs o2

/-- FALSE: NULL and '' are both written as the empty field (`""` under QUOTE_ALL). -/
theorem csv_distinguishes_five_counterexample : ¬ CsvDistinguishesFive := by
  exact Proofs.Export.csv_distinguishes_five_counterexample

theorem csv_null_vs_empty_text (fs : Nat → List Nat) (enc : Enc) :
    ∃ o1 o2, renderCsv enc (Column.ofVal .null) = .ok o1 ∧
      renderCsv enc (Column.ofVal (.text [])) = .ok o2 ∧ csvWritten fs o1 = csvWritten fs o2 := by
  exact Proofs.Export.csv_null_vs_empty_text fs enc

/-- PARTIAL: every other pair of the five is written differently (`""`, `"0"`, `"0.0"`, `"b''"`). -/
theorem csv_distinguishes_five_partial (fs : Nat → List Nat) (enc : Enc) (hfs : FsZero fs)
    (v1 : Val) (h1 : v1 ∈ five) (v2 : Val) (h2 : v2 ∈ five) (hne : v1 ≠ v2)
    (hpair : ¬ (v1 = .null ∧ v2 = .text []) ∧ ¬ (v1 = .text [] ∧ v2 = .null)) :
    ∃ o1 o2, renderCsv enc (Column.ofVal v1) = .ok o1 ∧ renderCsv enc (Column.ofVal v2) = .ok o2 ∧
      csvWritten fs o1 ≠ csvWritten fs o2 := by
  exact Proofs.Export.csv_distinguishes_five_partial fs enc hfs v1 h1 v2 h2 hne hpair

/-! ### XLSX -/

/-- for everything the library reports (text and blobs are `bytes`, never `bytearray`) the XLSX
rendering is the CSV rendering, so every CSV statement above is an XLSX statement -/
theorem xlsx_eq_csv (enc : Enc) (v : Val) : renderXlsx enc (Column.ofVal v) = renderCsv enc (Column.ofVal v) := by
  exact Proofs.Export.xlsx_eq_csv enc v

theorem xlsx_never_fails (enc : Enc) (v : Val) (hv : ValOK v) : ∃ o, renderXlsx enc (Column.ofVal v) = .ok o := by
  exact Proofs.Export.xlsx_never_fails enc v hv

/-- C11-E in XLSX: NULL and '' end up as the same empty cell (`xlsxStored` is the trusted
statement of what openpyxl does with `None` and with the empty `str`) -/
theorem xlsx_null_vs_empty_text (enc : Enc) :
    ∃ o1 o2, renderXlsx enc (Column.ofVal .null) = .ok o1 ∧
      renderXlsx enc (Column.ofVal (.text [])) = .ok o2 ∧ xlsxStored o1 = xlsxStored o2 := by
  exact Proofs.Export.xlsx_null_vs_empty_text enc

/-! ### SQLite -/

/-- binding never fails because of a stored value -/
theorem sqlite_never_fails (enc : Enc) (v : Val) : ∃ o, bindSqlite enc (Column.ofVal v) = .ok o := by
  exact Proofs.Export.sqlite_never_fails enc v

/-- what is bound makes SQLite store the value back: NULL, integers, reals and blobs unchanged,
text as text (the characters decoded in the database encoding) -/
theorem sqlite_reads_back (enc : Enc) (v : Val) :
    ∃ o, bindSqlite enc (Column.ofVal v) = .ok o ∧ sqliteStored o = expectedStored enc v := by
  exact Proofs.Export.sqlite_reads_back enc v

theorem sqlite_text_is_text (enc : Enc) (b : List Nat) :
    ∃ o, bindSqlite enc (Column.ofVal (.text b)) = .ok o ∧ sqliteStored o = .text (utf8Encode (decodeReplace enc b)) := by
  exact Proofs.Export.sqlite_text_is_text enc b

/-- NULL, 0, 0.0, '' and x'' are stored as five different values -/
theorem sqlite_distinguishes_five (enc : Enc) (v1 : Val) (h1 : v1 ∈ five) (v2 : Val) (h2 : v2 ∈ five) (hne : v1 ≠ v2) :
    ∃ o1 o2, bindSqlite enc (Column.ofVal v1) = .ok o1 ∧ bindSqlite enc (Column.ofVal v2) = .ok o2 ∧
      sqliteStored o1 ≠ sqliteStored o2 := by
  exact Proofs.Export.sqlite_distinguishes_five enc v1 h1 v2 h2 hne

/-- `_quote_identifier` never maps two names to the same identifier -/
theorem quote_identifier_injective (a b : List Nat) (h : quoteIdentifier a = quoteIdentifier b) : a = b := by
  exact Proofs.Export.quoteIdentifier_injective a b h

/-- short rows are padded with None up to the column count; a longer row is an ExportError -/
theorem pad_row_shape (n : Nat) (row r : List PyObj) (h : padRow n row = .ok r) :
    r.length = n ∧ r.take row.length = row ∧ ∀ x ∈ r.drop row.length, x = .none := by
  exact Proofs.Export.padRow_shape n row r h

theorem pad_row_ok (n : Nat) (row : List PyObj) (h : row.length ≤ n) :
    padRow n row = .ok (row ++ List.replicate (n - row.length) .none) := by
  exact Proofs.Export.padRow_ok n row h

theorem pad_row_too_long (n : Nat) (row : List PyObj) (h : n < row.length) : padRow n row = .error .parseError := by
  exact Proofs.Export.padRow_err n row h

/-- table pages: the nine bookkeeping columns get `sd_…` names that do not collide with the
table's own column names (the `while` loop terminates: its fuel is never exhausted) -/
theorem sqlite_headers_table (defs : List (List Nat)) :
    ∃ hs, sqliteHeaders .tableLeaf defs 0 = .ok (hs ++ defs) ∧ hs.length = 9 ∧ ∀ h ∈ hs, h ∉ defs := by
  exact Proofs.Export.sqliteHeaders_table defs

theorem sd_prefix_fuel (defs : List (List Nat)) (name : List Nat) :
    ∃ r, sdPrefixLoop defs (defs.length + 1) name = .ok r := by
  exact Proofs.Export.sdPrefix_fuel defs name

/-! ### Text -/

theorem text_never_fails (fs : Nat → List Nat) (enc : Enc) (v : Val) : ∃ s, textPiece fs enc (Column.ofVal v) = .ok s := by
  exact Proofs.Export.text_never_fails fs enc v

/-- exactly what is printed, per storage class: `NULL` only for NULL -/
theorem text_null (fs : Nat → List Nat) (enc : Enc) : textPiece fs enc (Column.ofVal .null) = .ok (cps "NULL") := by
  exact Proofs.Export.text_null fs enc

theorem text_int (fs : Nat → List Nat) (enc : Enc) (i : Int) :
    textPiece fs enc (Column.ofVal (.int i)) = .ok (intStr i) := by
  exact Proofs.Export.text_int fs enc i

theorem text_real (fs : Nat → List Nat) (enc : Enc) (r : Nat) :
    textPiece fs enc (Column.ofVal (.real r)) = .ok (fs r) := by
  exact Proofs.Export.text_real fs enc r

theorem text_blob (fs : Nat → List Nat) (enc : Enc) (b : List Nat) :
    textPiece fs enc (Column.ofVal (.blob b)) = .ok (bytesRepr b) := by
  exact Proofs.Export.text_blob fs enc b

theorem text_text (fs : Nat → List Nat) (enc : Enc) (b : List Nat) :
    textPiece fs enc (Column.ofVal (.text b)) = .ok (decodeReplace enc b) := by
  exact Proofs.Export.text_text fs enc b

/-- NULL, 0, 0.0, '' and x'' are printed differently (`NULL`, `0`, `0.0`, nothing, `b''`) -/
theorem text_distinguishes_five (fs : Nat → List Nat) (enc : Enc) (hfs : FsZero fs)
    (v1 : Val) (h1 : v1 ∈ five) (v2 : Val) (h2 : v2 ∈ five) (hne : v1 ≠ v2) :
    ∃ s1 s2, textPiece fs enc (Column.ofVal v1) = .ok s1 ∧
      textPiece fs enc (Column.ofVal v2) = .ok s2 ∧ s1 ≠ s2 := by
  exact Proofs.Export.text_distinguishes_five fs enc hfs v1 h1 v2 h2 hne

/-- FULL (C11-F): a record of the text export determines the values of the row. -/
def TextRecordInjective : Prop :=
  ∀ (fs : Nat → List Nat) (enc : Enc) (rowId : PyObj) (r1 r2 : List Val) (s : List Nat),
    (∀ v ∈ r1, ValOK v) → (∀ v ∈ r2, ValOK v) →
    stringifyCellRecord fs enc .tableLeaf rowId (r1.map Column.ofVal) = .ok s →
    stringifyCellRecord fs enc .tableLeaf rowId (r2.map Column.ofVal) = .ok s → r1 = r2

/-- FALSE (structural): `#1: (a, b)` is the record of the row ('a, b') and of the row ('a', 'b'). -/
theorem text_record_injective_counterexample : ¬ TextRecordInjective := by
  exact Proofs.Export.text_record_injective_counterexample

theorem text_null_vs_text_NULL (fs : Nat → List Nat) :
    textPiece fs .utf8 (Column.ofVal .null) = textPiece fs .utf8 (Column.ofVal (.text [78, 85, 76, 76])) := by
  exact Proofs.Export.text_null_vs_text_NULL fs

/-! ### Rows and records -/

/-- the bookkeeping columns and their order: file type, version, page version, source, page,
location, operation, file offset, then the row id (table leaf pages only), then the values -/
theorem row_table (ft op : PyObj) (c : Cell) (vals : List PyObj) :
    rowOf .tableLeaf ft op c vals =
      [ft, c.versionNumber, c.pageVersionNumber, c.source, c.pageNumber, c.location, op, c.fileOffset, c.rowId] ++ vals := by
  exact Proofs.Export.rowOf_table ft op c vals

theorem row_not_table (pt : PageType) (hpt : pt ≠ .tableLeaf) (ft op : PyObj) (c : Cell) (vals : List PyObj) :
    rowOf pt ft op c vals =
      [ft, c.versionNumber, c.pageVersionNumber, c.source, c.pageNumber, c.location, op, c.fileOffset] ++ vals := by
  exact Proofs.Export.rowOf_not_table pt hpt ft op c vals

theorem csv_row_shape (enc : Enc) (pt : PageType) (ft op : PyObj) (c : Cell) (r : List PyObj)
    (h : csvRow enc pt ft op c = .ok r) :
    ∃ vals, mapPy (renderCsv enc) c.columns = .ok vals ∧ r = rowOf pt ft op c vals ∧ vals.length = c.columns.length := by
  exact Proofs.Export.csvRow_shape enc pt ft op c r h

theorem xlsx_row_shape (enc : Enc) (pt : PageType) (ft op : PyObj) (c : Cell) (r : List PyObj)
    (h : xlsxRow enc pt ft op c = .ok r) :
    ∃ vals, mapPy (renderXlsx enc) c.columns = .ok vals ∧ r = rowOf pt ft op c vals ∧ vals.length = c.columns.length := by
  exact Proofs.Export.xlsxRow_shape enc pt ft op c r h

theorem sqlite_row_shape (enc : Enc) (pt : PageType) (n : Nat) (ft op : PyObj) (c : Cell) (r : List PyObj)
    (h : sqliteRow enc pt n ft op c = .ok r) :
    ∃ vals, mapPy (bindSqlite enc) c.columns = .ok vals ∧ vals.length = c.columns.length ∧
      r = rowOf pt ft op c vals ++ List.replicate (n - (rowOf pt ft op c vals).length) .none ∧ r.length = n := by
  exact Proofs.Export.sqliteRow_shape enc pt n ft op c r h

/-- the cells a commit is exported as: exactly its added, updated, deleted and carved cells,
each with its operation label (a permutation: nothing lost, nothing invented, nothing twice) -/
theorem commit_cells_perm (table : Bool) (c : Commit) (l : List (PyObj × Cell)) (h : commitCells table c = .ok l) :
    l.Perm (Proofs.Export.labelled c) := by
  exact Proofs.Export.commitCells_perm table c l h

/-- table pages: each group is ordered by row id -/
theorem sort_by_row_id_sorted (l s : List Cell) (h : sortByRowId l = .ok s) :
    s.Pairwise (fun a b => ∃ ka kb, a.rowId = .int ka ∧ b.rowId = .int kb ∧ ka ≤ kb) := by
  exact Proofs.Export.sortByRowId_sorted l s h

theorem sort_by_row_id_perm (l s : List Cell) (h : sortByRowId l = .ok s) : s.Perm l := by
  exact Proofs.Export.sortByRowId_perm l s h

/-- one record per reported cell, in each format (CSV: after its header row(s)) -/
theorem sqlite_one_record_per_cell (n : Nat) (c : Commit) (rows : List (List PyObj))
    (hu : c.updated = true) (h : sqliteCommit n c = .ok rows) :
    rows.length = c.added.length + c.updatedCells.length + c.deleted.length + c.carved.length := by
  exact Proofs.Export.sqliteCommit_one_record_per_cell n c rows hu h

theorem text_one_record_per_cell (fs : Nat → List Nat) (c : Commit) (lines : List (List Nat))
    (hu : c.updated = true) (h : textCommit fs c = .ok lines) :
    lines.length = c.added.length + c.updatedCells.length + c.deleted.length + c.carved.length := by
  exact Proofs.Export.textCommit_one_record_per_cell fs c lines hu h

theorem csv_one_record_per_cell (wh : Bool) (names : List (List Nat)) (c : Commit) (rows : List (List PyObj))
    (hu : c.updated = true) (h : csvCommit wh names c = .ok rows) :
    rows.length = (if c.pageType = .indexLeaf then 1 else if wh then 1 else 0) +
      (c.added.length + c.updatedCells.length + c.deleted.length + c.carved.length) := by
  exact Proofs.Export.csvCommit_one_record_per_cell wh names c rows hu h

/-! ### Non-vacuity: concrete objects meeting the hypotheses -/

/-- `csv_never_fails`, `csv_text_only_eq_guard_partial`: the text `=é` in a utf-8 database -/
example : ValOK (.text [61, 195, 169]) ∧
    (∀ c ∈ decodeReplace .utf8 [61, 195, 169], illegalXml c = false) ∧
    renderCsv .utf8 (Column.ofVal (.text [61, 195, 169])) = .ok (.str [32, 61, 233]) := by
  refine ⟨by intro x hx; simp at hx; omega, by decide, by decide⟩

/-- the same characters in a utf-16-le database, and a non-BMP character -/
example : renderCsv .utf16le (Column.ofVal (.text [61, 0, 233, 0, 61, 216, 0, 222])) = .ok (.str [32, 61, 233, 0x1F600]) := by
  decide

/-- the former failing input: the empty string is written as the empty string -/
example : renderCsv .utf16be (Column.ofVal (.text [])) = .ok (.str []) := by decide

/-- `csv_blob`, `blob_repr_injective`: x'0027ff' -/
example : BytesOK [0, 39, 255] ∧ renderCsv .utf8 (Column.ofVal (.blob [0, 39, 255])) = .ok (.str (cps "b\"\\x00'\\xff\"")) := by
  refine ⟨by intro x hx; simp at hx; omega, by decide⟩

/-- `csv_distinguishes_five_partial`, `text_distinguishes_five`: a float repr with `repr(0.0) = "0.0"`, NULL against x'' -/
example : FsZero (fun _ => [48, 46, 48]) ∧ (Val.null ∈ five) ∧ (Val.blob [] ∈ five) ∧ Val.null ≠ .blob [] ∧
    ¬ (Val.null = .null ∧ Val.blob [] = .text []) ∧ ¬ (Val.null = .text [] ∧ Val.blob [] = .null) := by
  refine ⟨rfl, by simp [five], by simp [five], by simp, by simp, by simp⟩

/-- `sqlite_reads_back`: utf-16-le text is stored as utf-8 text, a blob as itself -/
example : (bindSqlite .utf16le (Column.ofVal (.text [233, 0]))).toOption.map sqliteStored = some (.text [195, 169]) := by decide
example : (bindSqlite .utf16le (Column.ofVal (.blob [233, 0]))).toOption.map sqliteStored = some (.blob [233, 0]) := by decide

/-- `quote_identifier_injective`: a name with a space and a double quote -/
example : quoteIdentifier (cps "my \"t") = cps "\"my \"\"t\"" := by decide

/-- `pad_row_shape` / `pad_row_ok` / `pad_row_too_long` -/
example : padRow 4 [.int 1, .none] = .ok [.int 1, .none, .none, .none] := by decide
example : padRow 1 [.int 1, .none] = .error .parseError := by decide

/-- `csv_row_shape`, `sqlite_row_shape`, `commit_cells_perm`, `…_one_record_per_cell`: a commit with an
added and a deleted row whose export succeeds in every format -/
def demoCell (rid : Int) (v : Val) : Cell :=
  ⟨.int 1, .int 1, .str (cps "B-Tree"), .int 2, .str (cps "Allocated Space"), .int 4000, .int rid, [Column.ofVal v]⟩

def demoCommit : Commit :=
  ⟨true, .tableLeaf, .str (cps "WAL"), .utf8, [demoCell 7 (.text [97]), demoCell 3 (.int 5)], [], [demoCell 4 .null], []⟩

example : (csvCommit true [[118]] demoCommit).toOption.map List.length = some 4 := by decide
example : (xlsxCommit true [[118]] demoCommit).toOption.map List.length = some 4 := by decide
example : (sqliteCommit 10 demoCommit).toOption.map List.length = some 3 := by decide
example : (commitCells true demoCommit).toOption.map (fun l => l.map (fun x => x.2.rowId)) = some [.int 3, .int 7, .int 4] := by decide
example : (textCommit (fun _ => []) demoCommit).toOption.map List.length = some 3 := by decide

/-- `sort_by_row_id_sorted`: carved cells (row id "Unknown") are outside the sorted fragment -/
example : sortByRowId [demoCell 2 .null, { demoCell 1 .null with rowId := .str (cps "Unknown") }] = .error .outsideModel := by decide

/-- `sqlite_headers_table`: a table that already has a column called sd_version -/
example : (sqliteHeaders .tableLeaf [cps "sd_version", cps "a"] 0).toOption.map (fun hs => hs[1]?) = some (some (cps "sd_sd_version")) := by decide

/-- the character class the CSV/XLSX exporters scrub is the one these theorems and known finding
C11-D were written against (regenerated from constants.py on every run: a changed class breaks
this obligation before any value is exported) -/
theorem illegal_xml_ranges_as_assumed :
    Generated.illegalXmlRanges =
      [(0, 8), (11, 12), (14, 31), (127, 132), (134, 159), (55296, 57343), (64976, 64991), (65534, 65535),
       (131070, 131071), (196606, 196607), (262142, 262143), (327678, 327679), (393214, 393215),
       (458750, 458751), (524286, 524287), (589822, 589823), (655358, 655359), (720894, 720895),
       (786430, 786431), (851966, 851967), (917502, 917503), (983038, 983039), (1048574, 1048575),
       (1114110, 1114111)] := by decide


end SqliteDissect.Properties.C11
