/-
C07, the schema rows that are not ordinary tables: index, view, trigger and virtual-table rows are
accepted and reported with SQLite's type / name / tbl_name / rootpage / sql (partial).

Property theorems only; helper lemmas live in Proofs/C07Rows.lean.  `Model.SchemaRows` mirrors
`MasterSchemaRow.__init__`, `TableRow.__init__`, `VirtualTableRow.__init__`, `IndexRow.__init__`,
`ViewRow.__init__`, `TriggerRow.__init__` and the part of `MasterSchema.__init__` that chooses the class
of each row, links an index to its table and refuses duplicate names (sqlite_dissect/file/schema/master.py).

What is proved.
(1) `ViewRow` / `TriggerRow`: for EVERY sql text (NULL too) and every non-empty name and table name the
constructor succeeds and reports the five columns unchanged.  The statement for every name is false
(the empty name, open finding C07-19): `ViewRowsFull`, `TriggerRowsFull` with their witnesses.
(2) `IndexRow`: a row whose SQL is `CREATE [UNIQUE] INDEX ` name gap ON gap table gap `(`…, with the two
names in any of the four quoting styles or plain, ON in any capitalisation, gaps of whitespace (runs, tabs,
newlines) AND COMMENTS (block and line comments, any number: repair of C07-20), and a parenthesised column list
the closing-parenthesis scanner gets through followed by a gap and then nothing, WHERE and anything, or a comment
that only the end of the statement closes (repair of C07-21), is accepted, flagged unique / not internal, and
reported unchanged - provided the names are non-empty (C07-19) and have no run of blanks inside.  `IndexRowsFull`
(names with blank runs too) is still false: open finding C07-13, with its witness; so is a "/" in an indexed
expression (C07-09).  The former witnesses of C07-20 and C07-21 are now theorems of acceptance.
(3) internal schema objects: every `sqlite_autoindex_…` row without SQL is accepted and flagged; every other
`sqlite_…` index name is refused.
(4) `VirtualTableRow`: `CREATE VIRTUAL TABLE ` name gap USING gap module gap, then `(`…`)` or nothing (repair of
C07-22: `USING dbstat`), gaps with comments, is accepted and the module name is the one written, in any spelling.
`VirtualRowsFull` (names with blank runs) is still false (C07-13).
(5) whenever a constructor succeeds, and whenever `MasterSchema.__init__` succeeds, the entries are the rows:
tables, indexes, views, triggers, in that order, the five columns unchanged; rows of another type vanish.
-/
import SqliteDissect.Proofs.C07Rows

namespace SqliteDissect.Properties.C07Rows
open SqliteDissect SqliteDissect.Model.Schema SqliteDissect.Model.SchemaRows SqliteDissect.Spec.Ddl
open SqliteDissect.Proofs.C07Rows
open SqliteDissect.Proofs.Schema (errorOf)

/-! ### View and trigger rows -/

/-- `ViewRow.__init__` on a view row with non-empty name columns: accepted and reported unchanged, whatever
the SQL text is (any text, or NULL; an empty text is reported as no text, as for every row class). -/
theorem view_rows_partial (name tbl : Str) (root : Option Int) (sql : Option Str) (hn : name ≠ []) (ht : tbl ≠ []) :
    viewRow ⟨kView, name, tbl, root, sql⟩ =
      .ok ⟨⟨kView, name, tbl, root, normSql sql⟩, sqlHasComments (normSql sql), .view⟩ := by
  exact Proofs.C07Rows.viewRow_ok name tbl root sql hn ht

/-- The statement for every name SQLite accepts -/
def ViewRowsFull : Prop :=
  ∀ (name tbl : Str) (root : Option Int) (sql : Option Str), tbl = name →
    ∃ e, viewRow ⟨kView, name, tbl, root, sql⟩ = .ok e ∧ e.row = ⟨kView, name, tbl, root, normSql sql⟩

/-- witness (open finding C07-19 on a view): `CREATE VIEW "" AS SELECT 1` - AttributeError -/
theorem view_rows_full_false : ¬ ViewRowsFull := by
  intro h
  obtain ⟨e, he, _⟩ := h [] [] (some 0) (some sqlEmptyView) rfl
  rw [Proofs.C07Rows.viewRow_empty_name] at he
  cases he

/-- `TriggerRow.__init__`, likewise: every trigger body (statements separated by ";", CASE … END, comments,
strings that contain ";" or END) is just text to it. -/
theorem trigger_rows_partial (name tbl : Str) (root : Option Int) (sql : Option Str) (hn : name ≠ []) (ht : tbl ≠ []) :
    triggerRow ⟨kTrigger, name, tbl, root, sql⟩ =
      .ok ⟨⟨kTrigger, name, tbl, root, normSql sql⟩, sqlHasComments (normSql sql), .trigger⟩ := by
  exact Proofs.C07Rows.triggerRow_ok name tbl root sql hn ht

def TriggerRowsFull : Prop :=
  ∀ (name tbl : Str) (root : Option Int) (sql : Option Str), tbl ≠ [] →
    ∃ e, triggerRow ⟨kTrigger, name, tbl, root, sql⟩ = .ok e ∧ e.row = ⟨kTrigger, name, tbl, root, normSql sql⟩

/-- witness (C07-19 on a trigger): `CREATE TRIGGER "" AFTER INSERT ON t BEGIN SELECT 1; END` -/
theorem trigger_rows_full_false : ¬ TriggerRowsFull := by
  intro h
  obtain ⟨e, he, _⟩ := h [] ['t'] (some 0) (some sqlEmptyTrigger) (by decide)
  rw [Proofs.C07Rows.triggerRow_empty_name] at he
  cases he

/-- non-vacuity: a view with a comment, a "/" and a ";" in its text; a trigger with CASE … END and two statements -/
example : (viewRow ⟨kView, ['v', ' ', '2'], ['v', ' ', '2'], some 0, some sqlExView⟩).toOption =
    some ⟨⟨kView, ['v', ' ', '2'], ['v', ' ', '2'], some 0, some sqlExView⟩, true, .view⟩ := by decide +kernel

example : (triggerRow ⟨kTrigger, ['t', 'r'], ['t'], none, some sqlExTrigger⟩).toOption =
    some ⟨⟨kTrigger, ['t', 'r'], ['t'], none, some sqlExTrigger⟩, true, .trigger⟩ := by decide +kernel

/-! ### Index rows -/

/-- `IndexRow.__init__` on a CREATE INDEX row.  The SQL is `CREATE INDEX ` or `CREATE UNIQUE INDEX ` (as SQLite
normalises the beginning), the index name `Wi`, a gap, ON in any capitalisation, a gap, the table name `Wt`, a
gap, and `R`, the text from the opening parenthesis of the indexed columns on.
* `Written name Wi`: any spelling of the row's name - in `"…"`, `'…'` or back-ticks with the quote character
  doubled, in `[…]`, or plain (no whitespace, none of `( - / . [` and quote characters);
* `Gap`: whitespace of any kind (`str.isspace`, runs too) and any number of whole comments, `/*…*/` and
  `--…<NL>`, in any order (SQLite stores the statement from the name token on, comments included; before the
  repair of C07-20 a comment before or after ON rejected the database); an empty gap is fine except after a
  plain index name;
* `IndexColsOk (collapse isBlank R)`: on the column list as it stands after the whitespace collapse the
  closing-parenthesis scanner returns, and what follows is a gap and then nothing, WHERE (any capitalisation)
  and anything, or a `--` / `/*` comment that nothing but the end of the statement closes (repair of C07-21)
  (`index_cols_balanced`, and C07's `closing_paren_balanced` / `closing_paren_comments`, give such lists);
* the names are non-empty (C07-19), have no run of blanks inside (C07-13) and none of the 19 code points whose
  case mapping is not modelled; the index name does not begin with "sqlite_"; the table is an ordinary table
  of the dictionary (`wr`: WITHOUT ROWID or not - only a warning).
Then the row is accepted: the five columns unchanged, not internal, unique exactly for CREATE UNIQUE INDEX. -/
theorem index_rows_partial (u : Bool) (name tbl Wi Wt G1 G2 G3 R : Str) (o n : Char) (root : Option Int)
    (tables : Tables) (wr : Bool) (hname : name ≠ []) (htbl : tbl ≠ [])
    (hWi : Written name Wi) (hWt : Written tbl Wt) (hnb1 : noBlankRun name = true) (hnb2 : noBlankRun tbl = true)
    (hG1 : Gap G1) (hG1ne : Wi = name → G1 ≠ []) (ho : upperC o = 'O') (hn : upperC n = 'N') (hG2 : Gap G2) (hG3 : Gap G3)
    (hR : R.head? = some '(') (hcols : IndexColsOk (collapse isBlank R))
    (hm1 : InModel name) (hm2 : InModel tbl) (hm3 : InModel (indexSql u Wi G1 o n G2 Wt G3 R))
    (hint : sqlitePrefix.isPrefixOf name = false) (htab : tables.find tbl = some (some wr)) :
    ∃ p cs, indexRow ⟨kIndex, name, tbl, root, some (indexSql u Wi G1 o n G2 Wt G3 R)⟩ tables =
      .ok ⟨⟨kIndex, name, tbl, root, some (indexSql u Wi G1 o n G2 Wt G3 R)⟩,
           sqlHasComments (some (indexSql u Wi G1 o n G2 Wt G3 R)), .index false u p cs⟩ := by
  exact Proofs.C07Rows.indexRow_shape u name tbl Wi Wt G1 G2 G3 R o n root tables wr hname htbl hWi hWt hnb1 hnb2
    hG1 hG1ne ho hn hG2 hG3 hR hcols hm1 hm2 hm3 hint htab

/-- The exact form underneath: on the command as it stands after the whitespace collapse (`sql_command`)
nothing is asked of the names - any name, with blank runs, with "/" or "--" inside, even empty. -/
theorem index_command_exact (u : Bool) (name tbl Wi Wt G1 G2 G3 R : Str) (o n : Char)
    (hWi : Written name Wi) (hWt : Written tbl Wt) (hG1 : Gap G1) (hG1ne : Wi = name → G1 ≠ [])
    (ho : upperC o = 'O') (hn : upperC n = 'N') (hG2 : Gap G2) (hG3 : Gap G3) (hR : IndexColsOk R) :
    ∃ p cs, indexCmd name tbl (indexSql u Wi G1 o n G2 Wt G3 R) = .ok (u, p, cs) := by
  exact Proofs.C07Rows.indexCmd_shape u name tbl Wi Wt G1 G2 G3 R o n hWi hWt hG1 hG1ne ho hn hG2 hG3 hR

/-- The whitespace collapse turns a gap into a gap (a comment stays one comment: no `*/` and no newline
appears inside it), so the gaps may be given as they stand in the stored text. -/
theorem collapse_of_gap (g : Str) (hg : Gap g) : Gap (collapse isBlank g) := by
  exact Proofs.C07Rows.collapse_gap g hg

/-- A column list without quotes and comments (parentheses nest; none of `- / ' " [` and back-tick) and
without blank runs, followed by an `IndexTailOk` (a gap, then nothing / WHERE… / an unclosed comment), satisfies `IndexColsOk`. -/
theorem index_cols_balanced (body tail : Str) (hb : balance 0 body = some 0)
    (hnb : noBlankRun ('(' :: body ++ ')' :: tail) = true) (ht : IndexTailOk tail) :
    IndexColsOk (collapse isBlank ('(' :: body ++ ')' :: tail)) := by
  exact Proofs.C07Rows.indexColsOk_balanced body tail hb hnb ht

/-- the whitespace collapse changes nothing in a text without blank runs -/
theorem collapse_no_blank_run (s : Str) (h : noBlankRun s = true) : collapse isBlank s = s := by
  exact Proofs.C07Rows.collapse_noBlankRun s h

def exName : Str := ['i', ' ', '"', '8']
def exTbl : Str := ['u', ' ', 'v']
def exG1 : Str := [' ', '\n', ' ', ' ']
def exR : Str :=
  ['(','"','d',' ','e','"',' ','C','O','L','L','A','T','E',' ','N','O','C','A','S','E',' ','D','E','S','C',',',' ','l','o','w','e','r','(','b',')',')',
   '\n','w','h','e','r','e',' ','b',' ','>',' ','\'',')','\'']

/-- non-vacuity: `CREATE UNIQUE INDEX "i ""8" <NL>  On [u v]<TAB>("d e" COLLATE NOCASE DESC, lower(b))<NL>where b > ')'`
meets every hypothesis (a doubled quote in the name, a gap with a newline and a blank run, `On`, a bracket
name, a quoted column, a function call, a ")" inside a string after `where`), and the constructor's answer -/
example :
    sqlExIndex = indexSql true (quoteName '"' exName) exG1 'O' 'n' [' '] ('[' :: exTbl ++ [']']) ['\t'] exR ∧
    noBlankRun exName = true ∧ noBlankRun exTbl = true ∧ exR.head? = some '(' ∧
    (closingParen (collapse isBlank exR)).toOption = some 36 ∧
    upper ((lstrip ((collapse isBlank exR).drop 37)).take 5) = kWHERE ∧
    (indexRow ⟨kIndex, exName, exTbl, some 5, some sqlExIndex⟩ [(exTbl, some false)]).toOption =
      some ⟨⟨kIndex, exName, exTbl, some 5, some sqlExIndex⟩, true, .index false true true []⟩ := by
  refine ⟨by decide +kernel, by decide, by decide, rfl, by decide +kernel, by decide +kernel, by decide +kernel⟩

example : Written exName (quoteName '"' exName) ∧ Written exTbl ('[' :: exTbl ++ [']']) ∧ Gap exG1 ∧ Gap ['\t'] ∧
    upperC 'n' = 'N' ∧ InModel sqlExIndex :=
  ⟨.quoted '"' rfl, .bracket (by decide), .ws _ (by unfold Ws; decide), .ws _ (by unfold Ws; decide), by decide,
   by unfold InModel; decide +kernel⟩

/-- non-vacuity with comments in every gap: `CREATE INDEX i/* a  b */<NL>-- c<NL> ON/**/t -- d<NL> (a) /* e */ -- f`
(a blank run inside a comment, a line comment, an empty comment, a trailing `--` comment without newline);
the gap before ON as a `Gap`, and the constructor's answer with the six comments (the first one collapsed) -/
example :
    Gap ['/', '*', ' ', 'a', ' ', ' ', 'b', ' ', '*', '/', '\n', '-', '-', ' ', 'c', '\n', ' '] ∧
    (indexRow ⟨kIndex, ['i'], ['t'], some 3, some sqlExGaps⟩ tablesT).toOption =
      some ⟨⟨kIndex, ['i'], ['t'], some 3, some sqlExGaps⟩, true,
        .index false false false [['/', '*', ' ', 'a', ' ', 'b', ' ', '*', '/'], ['-', '-', ' ', 'c'], ['/', '*', '*', '/'],
          ['-', '-', ' ', 'd'], ['/', '*', ' ', 'e', ' ', '*', '/'], ['-', '-', ' ', 'f']]⟩ := by
  refine ⟨?_, by decide +kernel⟩
  exact .block [] [' ', 'a', ' ', ' ', 'b', ' '] _ (by intro c hc; cases hc) (by decide +kernel)
    (.line ['\n'] [' ', 'c'] _ (by unfold Ws; decide) (by decide) (.ws _ (by unfold Ws; decide)))

example : balance 0 ['a', ',', ' ', 'l', 'o', 'w', 'e', 'r', '(', 'b', ')'] = some 0 ∧
    IndexTailOk ([' '] ++ ['W', 'h', 'e', 'r', 'e', ' ', 'a']) ∧ IndexTailOk ([' '] ++ ['-', '-', ' ', 'c']) :=
  ⟨by decide +kernel, ⟨[' '], _, .ws _ (by unfold Ws; decide), .whereClause _ (by decide +kernel), rfl⟩,
   ⟨[' '], _, .ws _ (by unfold Ws; decide), .openLine _ (by decide), rfl⟩⟩

/-- The statement for every non-empty name (SQLite accepts any text inside quotes) -/
def IndexRowsFull : Prop :=
  ∀ (u : Bool) (name tbl Wi Wt G1 G2 G3 R : Str) (o n : Char) (root : Option Int) (tables : Tables) (wr : Bool),
    name ≠ [] → tbl ≠ [] →
    Written name Wi → Written tbl Wt → Gap G1 → (Wi = name → G1 ≠ []) → upperC o = 'O' → upperC n = 'N' → Gap G2 → Gap G3 →
    R.head? = some '(' → IndexColsOk (collapse isBlank R) →
    InModel name → InModel tbl → InModel (indexSql u Wi G1 o n G2 Wt G3 R) →
    sqlitePrefix.isPrefixOf name = false → tables.find tbl = some (some wr) →
    ∃ p cs, indexRow ⟨kIndex, name, tbl, root, some (indexSql u Wi G1 o n G2 Wt G3 R)⟩ tables =
      .ok ⟨⟨kIndex, name, tbl, root, some (indexSql u Wi G1 o n G2 Wt G3 R)⟩,
           sqlHasComments (some (indexSql u Wi G1 o n G2 Wt G3 R)), .index false u p cs⟩

/-- witness (open finding C07-13 on an index): `CREATE INDEX "i  x" ON t (a)` - the whitespace collapse rewrites
the quoted name, which then differs from the name column -/
theorem index_rows_full_false : ¬ IndexRowsFull := by
  exact Proofs.C07Rows.indexRowsFull_false

/-- The former witnesses of C07-20 and C07-21, each a text SQLite 3.40.1 stores in sqlite_schema (replayed on the
real code by the harness on every run), are accepted now, the comment kept in `comments`:
`CREATE INDEX i /* c */ ON t (a)`, -/
theorem index_comment_before_on_accepted :
    (indexRow ⟨kIndex, ['i'], ['t'], some 3, some sqlCommentBeforeOn⟩ tablesT).toOption =
      some ⟨⟨kIndex, ['i'], ['t'], some 3, some sqlCommentBeforeOn⟩, true, .index false false false [['/', '*', ' ', 'c', ' ', '*', '/']]⟩ := by
  exact Proofs.C07Rows.witness_comment_before_on

/-- `CREATE INDEX i ON /* c */ t (a)`, -/
theorem index_comment_after_on_accepted :
    (indexRow ⟨kIndex, ['i'], ['t'], some 3, some sqlCommentAfterOn⟩ tablesT).toOption =
      some ⟨⟨kIndex, ['i'], ['t'], some 3, some sqlCommentAfterOn⟩, true, .index false false false [['/', '*', ' ', 'c', ' ', '*', '/']]⟩ := by
  exact Proofs.C07Rows.witness_comment_after_on

/-- `CREATE INDEX i ON t (a) -- c` (no newline), -/
theorem index_trailing_line_comment_accepted :
    (indexRow ⟨kIndex, ['i'], ['t'], some 3, some sqlTrailingLineComment⟩ tablesT).toOption =
      some ⟨⟨kIndex, ['i'], ['t'], some 3, some sqlTrailingLineComment⟩, true, .index false false false [['-', '-', ' ', 'c']]⟩ := by
  exact Proofs.C07Rows.witness_trailing_line_comment

/-- `CREATE INDEX i ON t (a) /* c` (never closed). -/
theorem index_trailing_block_comment_accepted :
    (indexRow ⟨kIndex, ['i'], ['t'], some 3, some sqlTrailingBlockComment⟩ tablesT).toOption =
      some ⟨⟨kIndex, ['i'], ['t'], some 3, some sqlTrailingBlockComment⟩, true, .index false false false [['/', '*', ' ', 'c']]⟩ := by
  exact Proofs.C07Rows.witness_trailing_block_comment

/-- What is still refused, each a text SQLite stores: a "/" in an indexed expression, `CREATE INDEX i ON t (a/2)` (C07-09), -/
theorem index_slash_expression_rejected :
    errorOf (indexRow ⟨kIndex, ['i'], ['t'], some 3, some sqlSlashExpr⟩ tablesT) = some .parseError := by
  exact Proofs.C07Rows.witness_slash_expression

/-- a run of blanks in the index name: `CREATE INDEX "i  x" ON t (a)` (C07-13: why `noBlankRun`), -/
theorem index_blank_run_name_rejected :
    errorOf (indexRow ⟨kIndex, ['i', ' ', ' ', 'x'], ['t'], some 3, some sqlBlankRunName⟩ tablesT) = some .parseError := by
  exact Proofs.C07Rows.witness_blank_run_name

/-- the empty index name: `CREATE INDEX "" ON t (a)` (C07-19: why `name ≠ []`). -/
theorem index_empty_name_rejected :
    errorOf (indexRow ⟨kIndex, [], ['t'], some 3, some sqlEmptyIndexName⟩ tablesT) = some .attributeError := by
  exact Proofs.C07Rows.witness_empty_index_name

/-! ### Internal schema objects -/

/-- Every index row named `sqlite_autoindex_…` that has no SQL and belongs to an ordinary table of the
dictionary is accepted, reported unchanged and flagged `internal_schema_object` - whatever follows the prefix. -/
theorem index_internal_flagged (name tbl : Str) (root : Option Int) (tables : Tables) (wr : Bool)
    (hpre : autoindexPrefix.isPrefixOf name = true) (htbl : tbl ≠ []) (hm1 : InModel name) (hm2 : InModel tbl)
    (htab : tables.find tbl = some (some wr)) :
    indexRow ⟨kIndex, name, tbl, root, none⟩ tables =
      .ok ⟨⟨kIndex, name, tbl, root, none⟩, false, .index true false false []⟩ := by
  exact Proofs.C07Rows.indexRow_internal name tbl root tables wr hpre htbl hm1 hm2 htab

/-- and an index name that begins with "sqlite_" but not with "sqlite_autoindex_" is refused, with or without
SQL (SQLite reserves the prefix: no such row exists in a file it wrote). -/
theorem index_reserved_name_rejected (name tbl : Str) (root : Option Int) (sql : Option Str) (tables : Tables)
    (h1 : sqlitePrefix.isPrefixOf name = true) (h2 : autoindexPrefix.isPrefixOf name = false) (htbl : tbl ≠ [])
    (hm1 : InModel name) (hm2 : InModel tbl) (hm3 : InModel (sql.getD [])) :
    indexRow ⟨kIndex, name, tbl, root, sql⟩ tables = .error .parseError := by
  exact Proofs.C07Rows.indexRow_reserved_name name tbl root sql tables h1 h2 htbl hm1 hm2 hm3

def exAuto : Str := autoindexPrefix ++ ['u', ' ', 'v', '_', '1']

example : autoindexPrefix.isPrefixOf exAuto = true ∧ InModel exAuto ∧
    (indexRow ⟨kIndex, exAuto, exTbl, some 4, none⟩ [(exTbl, some true)]).toOption =
      some ⟨⟨kIndex, exAuto, exTbl, some 4, none⟩, false, .index true false false []⟩ :=
  ⟨by decide, by unfold InModel; decide, by decide +kernel⟩

example : sqlitePrefix.isPrefixOf (sqlitePrefix ++ ['x']) = true ∧ autoindexPrefix.isPrefixOf (sqlitePrefix ++ ['x']) = false := by
  decide

/-! ### Virtual table rows -/

/-- `VirtualTableRow.__init__` on `CREATE VIRTUAL TABLE ` name gap USING gap module gap `R`: the table name and the
module name in any spelling (`Written`), USING in any capitalisation, gaps of whitespace and comments, `R` either
nothing at all (the argument list is optional in SQLite: `USING dbstat`; repair of C07-22) or the parenthesised
module arguments - quotes, commas, nested parentheses, comments inside, as long as the closing-parenthesis
scanner gets through them after the whitespace collapse and only whitespace follows.
Accepted, the five columns unchanged, and `module_name` is the module. -/
theorem virtual_rows_partial (name m Wn Wm G1 U G2 G3 R : Str) (root : Option Int) (hname : name ≠ [])
    (hWn : Written name Wn) (hWm : Written m Wm) (hnb1 : noBlankRun name = true) (hnb2 : noBlankRun m = true)
    (hG1 : Gap G1) (hG1ne : Wn = name → G1 ≠ []) (hU : upper U = kUSING) (hG2 : Gap G2) (hG3 : Gap G3)
    (hR : R = [] ∨ (R.head? = some '(' ∧ ModuleArgsOk (collapse isBlank R)))
    (hm1 : InModel name) (hm3 : InModel (virtualSql Wn G1 U G2 Wm G3 R))
    (hint : sqlitePrefix.isPrefixOf name = false) :
    ∃ cs, virtualRow ⟨kTable, name, name, root, some (virtualSql Wn G1 U G2 Wm G3 R)⟩ =
      .ok ⟨⟨kTable, name, name, root, some (virtualSql Wn G1 U G2 Wm G3 R)⟩,
           sqlHasComments (some (virtualSql Wn G1 U G2 Wm G3 R)), .virtualTable m cs⟩ := by
  exact Proofs.C07Rows.virtualRow_shape name m Wn Wm G1 U G2 G3 R root hname hWn hWm hnb1 hnb2 hG1 hG1ne hU hG2 hG3
    hR hm1 hm3 hint

/-- The statement for every non-empty table and module name -/
def VirtualRowsFull : Prop :=
  ∀ (name m Wn Wm G1 U G2 G3 R : Str) (root : Option Int), name ≠ [] →
    Written name Wn → Written m Wm →
    Gap G1 → (Wn = name → G1 ≠ []) → upper U = kUSING → Gap G2 → Gap G3 →
    (R = [] ∨ (R.head? = some '(' ∧ ModuleArgsOk (collapse isBlank R))) →
    InModel name → InModel (virtualSql Wn G1 U G2 Wm G3 R) → sqlitePrefix.isPrefixOf name = false →
    ∃ cs, virtualRow ⟨kTable, name, name, root, some (virtualSql Wn G1 U G2 Wm G3 R)⟩ =
      .ok ⟨⟨kTable, name, name, root, some (virtualSql Wn G1 U G2 Wm G3 R)⟩,
           sqlHasComments (some (virtualSql Wn G1 U G2 Wm G3 R)), .virtualTable m cs⟩

/-- witness (open finding C07-13 on a virtual table): `CREATE VIRTUAL TABLE "v  w" USING fts5(x)` -/
theorem virtual_rows_full_false : ¬ VirtualRowsFull := by
  exact Proofs.C07Rows.virtualRowsFull_false

/-- The former witness of C07-22, `CREATE VIRTUAL TABLE v USING dbstat`, is accepted and the module found. -/
theorem virtual_no_arguments_accepted :
    (virtualRow ⟨kTable, ['v'], ['v'], some 0, some sqlNoArgs⟩).toOption =
      some ⟨⟨kTable, ['v'], ['v'], some 0, some sqlNoArgs⟩, true, .virtualTable ['d', 'b', 's', 't', 'a', 't'] []⟩ := by
  exact Proofs.C07Rows.witness_no_module_arguments

def exVName : Str := ['v', ' ', 'w']
def exArgs : Str :=
  ['(','x',',',' ','t','o','k','e','n','i','z','e',' ','=',' ','\'','p','o','r','t','e','r',' ','a','s','c','i','i','\'',',',' ',
   'p','r','e','f','i','x','=','\'','2',',','3','\'',')']

/-- non-vacuity: `CREATE VIRTUAL TABLE 'v w'  using<NL>"fts5" (x, tokenize = 'porter ascii', prefix='2,3')` -/
example :
    sqlExVirtual = virtualSql (quoteName '\'' exVName) [' ', ' '] ['u', 's', 'i', 'n', 'g'] ['\n']
      (quoteName '"' ['f', 't', 's', '5']) [' '] exArgs ∧
    upper ['u', 's', 'i', 'n', 'g'] = kUSING ∧ exArgs.head? = some '(' ∧
    (closingParen (collapse isBlank exArgs)).toOption = some 43 ∧ lstrip ((collapse isBlank exArgs).drop 44) = [] ∧
    (virtualRow ⟨kTable, exVName, exVName, some 0, some sqlExVirtual⟩).toOption =
      some ⟨⟨kTable, exVName, exVName, some 0, some sqlExVirtual⟩, true, .virtualTable ['f', 't', 's', '5'] []⟩ := by
  refine ⟨by decide +kernel, by decide, rfl, by decide +kernel, by decide +kernel, by decide +kernel⟩

/-! ### What is reported -/

/-- Whenever one of the four constructors succeeds, the entry carries the row's five columns unchanged
(an empty SQL text as no text): no constructor derives a reported column from its parse. -/
theorem constructors_report_row (r : Row) (e : Entry) (tables : Tables) :
    (indexRow r tables = .ok e → e.row = normRow r) ∧ (virtualRow r = .ok e → e.row = normRow r) ∧
    (viewRow r = .ok e → e.row = normRow r ∧ e.detail = .view) ∧
    (triggerRow r = .ok e → e.row = normRow r ∧ e.detail = .trigger) := by
  exact ⟨Proofs.C07Rows.indexRow_reports r tables e, Proofs.C07Rows.virtualRow_reports r e,
    Proofs.C07Rows.viewRow_reports r e, Proofs.C07Rows.triggerRow_reports r e⟩

/-- Whenever `MasterSchema.__init__` accepts the rows of the page-1 tree, `master_schema_entries` is exactly
those rows whose type is table, index, view or trigger - in that order of types, each group in the order
of the rows - with type, name, tbl_name, rootpage and sql unchanged. -/
theorem schema_entries_are_rows (rows : List Row) (es : List Entry) (h : buildEntries rows = .ok es) :
    es.map (·.row) =
      (rowsOfType kTable rows ++ rowsOfType kIndex rows ++ rowsOfType kView rows ++ rowsOfType kTrigger rows).map normRow := by
  exact Proofs.C07Rows.buildEntries_rows rows es h

def exRows : List Row :=
  [⟨kTrigger, ['t', 'r'], ['t'], some 0, some sqlExTrigger⟩,
   ⟨kIndex, ['i'], ['t'], some 3, some ['C','R','E','A','T','E',' ','I','N','D','E','X',' ','i',' ','O','N',' ','t','(','a',')']⟩,
   ⟨kTable, ['t'], ['t'], some 2, some ['C','R','E','A','T','E',' ','T','A','B','L','E',' ','t','(','a',' ','P','R','I','M','A','R','Y',' ','K','E','Y',',',' ','b',')']⟩,
   ⟨kIndex, autoindexPrefix ++ ['t', '_', '1'], ['t'], some 4, none⟩,
   ⟨kView, ['v', ' ', '2'], ['v', ' ', '2'], some 0, some sqlExView⟩]

/-- non-vacuity: a schema with a table, its automatic index, an index, a view and a trigger, rows in another
order than the entries -/
example : ((buildEntries exRows).toOption.map fun es => es.map fun e => (e.row.rowType, e.row.name)) =
    some [(kTable, ['t']), (kIndex, ['i']), (kIndex, autoindexPrefix ++ ['t', '_', '1']), (kView, ['v', ' ', '2']),
          (kTrigger, ['t', 'r'])] := by
  decide +kernel

/-- The fuel of the comment loops (`takeComments`: the text's length plus one) is never what ends them. -/
theorem take_comments_fuel (f1 f2 : Nat) (s : Str) (acc : List Str) (h1 : s.length < f1) (h2 : s.length < f2) :
    takeComments f1 s acc = takeComments f2 s acc := by
  exact Proofs.C07Rows.takeComments_fuel f1 f2 s acc h1 h2

end SqliteDissect.Properties.C07Rows
