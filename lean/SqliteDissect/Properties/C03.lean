import SqliteDissect.Model.History
namespace SqliteDissect.Properties.C03
end SqliteDissect.Properties.C03
