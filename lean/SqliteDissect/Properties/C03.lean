/-
C03 — per-commit added / updated / deleted rows are complete and replay to SQLite's states
(the dictionary algebra of VersionParserIterator.next).
-/
import SqliteDissect.Proofs.HistoryDefs
import SqliteDissect.Proofs.History

namespace SqliteDissect.Properties.C03
open SqliteDissect SqliteDissect.Model

-- `DictOK`, `stateOf`, `applyCommit` live in Proofs/HistoryDefs.lean (same names, this namespace)

/-- Replaying the report of one commit on the previous table state gives exactly the new table
state, for every rowid — provided equal digests mean equal cells between the two versions (the
digest covers every stored byte of the cell, overflow included). -/
theorem replay_step (cur cells : List (List Nat × Cell)) (hc : DictOK cur) (hn : DictOK cells)
    (hd : ∀ e1 ∈ cur, ∀ e2 ∈ cells, e1.1 = e2.1 → e1.2.rowid = e2.2.rowid) (r : Int) :
    applyCommit (stateOf cur) (diffCells true cur cells).1 (diffCells true cur cells).2.1
        (diffCells true cur cells).2.2 r
      = (match stateOf cells r with
         | some c => if cur.any (fun e => e.1 = c.digest) then stateOf cur r else some c
         | none => none) := by
  exact Proofs.History.replay_step cur cells hc hn hd r

/-- every cell whose stored bytes are new in this commit is reported exactly once (as added or
as updated), nothing else is, and nothing already current is reported again -/
theorem reported_exactly_new (cur cells : List (List Nat × Cell)) (hn : DictOK cells) (c : Cell) :
    (c ∈ (diffCells true cur cells).1 ∨ c ∈ (diffCells true cur cells).2.1) ↔
      (∃ e ∈ cells, e.2 = c ∧ ¬ cur.any (fun x => x.1 = e.1)) := by
  exact Proofs.History.reported_exactly_new cur cells hn c

theorem added_updated_disjoint (cur cells : List (List Nat × Cell)) (hn : DictOK cells) (c : Cell) :
    ¬ (c ∈ (diffCells true cur cells).1 ∧ c ∈ (diffCells true cur cells).2.1) := by
  exact Proofs.History.added_updated_disjoint cur cells hn c

/-- new rowids are reported only as added, removed rowids only as deleted: a reported-added cell's
rowid is carried by no vanished cell, a reported-deleted cell's rowid by no new cell, and an
updated cell's rowid by both -/
theorem classification (cur cells : List (List Nat × Cell)) :
    let gone := cur.filter fun e => ¬ cells.any (·.1 = e.1)
    let new := cells.filter fun e => ¬ cur.any (·.1 = e.1)
    (∀ a ∈ (diffCells true cur cells).1, ¬ gone.any (fun g => g.2.rowid = a.rowid)) ∧
    (∀ d ∈ (diffCells true cur cells).2.2, ¬ new.any (fun n => n.2.rowid = d.rowid)) ∧
    (∀ u ∈ (diffCells true cur cells).2.1, gone.any (fun g => g.2.rowid = u.rowid) ∧ new.any (fun n => n.2 = u)) := by
  exact Proofs.History.classification cur cells

/-- reported-deleted cells are exactly the vanished cells whose rowid did not come back -/
theorem deleted_spec (cur cells : List (List Nat × Cell)) (d : Cell) :
    d ∈ (diffCells true cur cells).2.2 ↔
      ∃ e ∈ cur, e.2 = d ∧ ¬ cells.any (fun x => x.1 = e.1) ∧
        ¬ (cells.filter fun x => ¬ cur.any (·.1 = x.1)).any (fun n => n.2.rowid = d.rowid) := by
  exact Proofs.History.deleted_spec cur cells d

/-- an unchanged dictionary reports nothing -/
theorem unchanged_reports_nothing (cells : List (List Nat × Cell)) (isTable : Bool) :
    diffCells isTable cells cells = ([], [], []) := by
  exact Proofs.History.unchanged_reports_nothing cells isTable

/-- index b-trees: plain set difference by digest, no updates -/
theorem index_diff (cur cells : List (List Nat × Cell)) :
    diffCells false cur cells =
      ((cells.filter fun e => ¬ cur.any (·.1 = e.1)).map (·.2), [],
       (cur.filter fun e => ¬ cells.any (·.1 = e.1)).map (·.2)) := by
  exact Proofs.History.index_diff cur cells

end SqliteDissect.Properties.C03
