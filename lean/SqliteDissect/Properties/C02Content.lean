/-
C02 (content) — "For every transaction committed into a WAL file, sqlite-dissect reports one
version, and each version equals SQLite's database state right after that commit: every page of
version k has the content of the latest frame for that page at or before commit k (else the
database file's page), frames of an older generation never contribute, and a page written twice in
one transaction shows its last image."

`Properties/C02.lean` and `C02b.lean` give the index half (one version per commit, page→frame and
page→version indices as SQLite defines them, where a commit record reads from).  This file composes
them into statements about the *bytes* a version serves, against `Spec.snapshotPage`
(Spec/WalSnapshot.lean): the image carried by the latest frame for the page among the first `k`
transactions of the valid frames, else the database file's page.

Throughout, `(groupFrames w.frames [] []).1` are the transactions of the log (`C02.group_spec`),
`vs[k]` is version `k` (`vs[0]` the database file, `C02b.history_indices`), and `dbv` is the version
interface of the database file.
-/
import SqliteDissect.Proofs.WalContent
import SqliteDissect.Proofs.Codec

namespace SqliteDissect.Properties.C02Content
open SqliteDissect SqliteDissect.Model

/-- **Version `k` is SQLite's snapshot after commit `k`, page by page.**  For every version of an
accepted history and every page `p` inside the version's size, what the version serves as page `p`
is the image carried by the latest frame for `p` among the first `k` transactions, read at the
place the file format puts it, and the database file's page when no such frame exists (`k = 0`: the
database file itself).

Hypotheses beyond the task statement, both necessary:
* `0 < w.hdr.pageSize` — `openWal` accepts a header whose page-size field is 0; the version
  interface then refuses every log page (`ValueError`) while a 0-byte read may succeed;
* `hcov` — the page exists in the database file or some frame so far carries it.  A commit frame may
  declare a size beyond the database file without the log carrying the new pages (SQLite never
  writes such a log); for those pages see `version_page_uncovered`. -/
theorem version_serves_snapshot (cfg : Config) (db : Database) (dbv : VersionIf) (w : Wal)
    (vs : List (Version × VersionIf)) (h : versionHistory cfg db dbv (some w) = .ok vs)
    (hps : 0 < w.hdr.pageSize)
    (k : Nat) (ver : Version) (v : VersionIf) (hk : vs[k]? = some (ver, v))
    (p : Nat) (hp : 1 ≤ p ∧ p ≤ ver.dbSize)
    (hcov : p ≤ db.dbSize.floor ∨
      Spec.latestFrame (((groupFrames w.frames [] []).1.take k).flatten) p ≠ none) :
    v.getData p 0 none =
      Spec.snapshotPage (fun q => dbv.getData q 0 none) w.fh w.hdr.pageSize
        (groupFrames w.frames [] []).1 k p := by
  exact Proofs.WalContent.version_serves_snapshot cfg db dbv w vs h hps k ver v hk p hp hcov

/-- the case excluded by `hcov` above: a page beyond the database file that no frame up to commit
`k+1` carries is refused with `KeyError` for every kind of read — never served from elsewhere.
(`Spec.snapshotPage` would consult the database file there, which for `dbVersionIf` answers
`ValueError`: the two differ only in the exception class.) -/
theorem version_page_uncovered (cfg : Config) (db : Database) (dbv : VersionIf) (w : Wal)
    (vs : List (Version × VersionIf)) (h : versionHistory cfg db dbv (some w) = .ok vs)
    (k : Nat) (ver : Version) (v : VersionIf) (hk : vs[k + 1]? = some (ver, v))
    (p : Nat) (hdb : db.dbSize.floor < p)
    (hnone : Spec.latestFrame (((groupFrames w.frames [] []).1.take (k + 1)).flatten) p = none)
    (off : Nat) (n : Option Nat) :
    v.getData p off n = .error .keyError := by
  exact Proofs.WalContent.version_page_uncovered cfg db dbv w vs h k ver v hk p hdb hnone off n

/-- reads of `len > 0` bytes at offset `off` inside a page go to the same place as the whole page:
the same frame's image (shifted by `off`), else the database file's reader -/
theorem partial_reads_agree (cfg : Config) (db : Database) (dbv : VersionIf) (w : Wal)
    (vs : List (Version × VersionIf)) (h : versionHistory cfg db dbv (some w) = .ok vs)
    (k : Nat) (ver : Version) (v : VersionIf) (hk : vs[k]? = some (ver, v))
    (p : Nat) (hp : 1 ≤ p ∧ p ≤ ver.dbSize)
    (hcov : p ≤ db.dbSize.floor ∨
      Spec.latestFrame (((groupFrames w.frames [] []).1.take k).flatten) p ≠ none)
    (off len : Nat) (hlen : 0 < len) (hoff : off + len ≤ w.hdr.pageSize) :
    v.getData p off (some len) =
      Spec.snapshotBytes (fun q o l => dbv.getData q o (some l)) w.fh w.hdr.pageSize
        (groupFrames w.frames [] []).1 k p off len := by
  exact Proofs.WalContent.partial_reads_agree cfg db dbv w vs h k ver v hk p hp hcov off len hlen hoff

/-- … and for a page taken from the log that is the corresponding slice of the snapshot page -/
theorem partial_read_is_slice (cfg : Config) (db : Database) (dbv : VersionIf) (w : Wal)
    (vs : List (Version × VersionIf)) (h : versionHistory cfg db dbv (some w) = .ok vs)
    (k : Nat) (ver : Version) (v : VersionIf) (hk : vs[k]? = some (ver, v))
    (p : Nat) (hp : 1 ≤ p ∧ p ≤ ver.dbSize)
    (hwal : Spec.latestFrame (((groupFrames w.frames [] []).1.take k).flatten) p ≠ none)
    (page : Buf)
    (hpage : Spec.snapshotPage (fun q => dbv.getData q 0 none) w.fh w.hdr.pageSize
        (groupFrames w.frames [] []).1 k p = .ok page)
    (off len : Nat) (hlen : 0 < len) (hoff : off + len ≤ w.hdr.pageSize) :
    v.getData p off (some len) = .ok (page.slice off (off + len)) := by
  exact Proofs.WalContent.partial_read_is_slice cfg db dbv w vs h k ver v hk p hp hwal page hpage off len hlen hoff

/-! ### a page written twice in one transaction -/

/-- on the specification alone: when a transaction `a ++ f2 :: c` carries page `p` in frame `f2` and
in no later frame, the latest frame for `p` up to and including that transaction is `f2`, whatever
`a` (earlier frames of the transaction, possibly for `p` too) and `pre` (earlier transactions) hold -/
theorem latestFrame_last_wins (pre a c : List Frame) (f2 : Frame) (p : Nat)
    (h2 : f2.hdr.pageNumber = p) (hc : ∀ f ∈ c, f.hdr.pageNumber ≠ p) :
    Spec.latestFrame (pre ++ (a ++ f2 :: c)) p = some f2.number := by
  exact Proofs.WalContent.latestFrame_last_wins pre a c f2 p h2 hc

/-- **A page written twice in one transaction shows its last image.**  Transaction `k+1` carries
page `p` in frame `f1`, later again in `f2`, and not after `f2`: version `k+1` serves the image of
`f2` -/
theorem double_write_last_wins (cfg : Config) (db : Database) (dbv : VersionIf) (w : Wal)
    (vs : List (Version × VersionIf)) (h : versionHistory cfg db dbv (some w) = .ok vs)
    (hps : 0 < w.hdr.pageSize)
    (k : Nat) (ver : Version) (v : VersionIf) (hk : vs[k + 1]? = some (ver, v))
    (a b c : List Frame) (f1 f2 : Frame)
    (hg : (groupFrames w.frames [] []).1[k]? = some (a ++ f1 :: b ++ f2 :: c))
    (p : Nat) (h1 : f1.hdr.pageNumber = p) (h2 : f2.hdr.pageNumber = p)
    (hc : ∀ f ∈ c, f.hdr.pageNumber ≠ p) (hp : 1 ≤ p ∧ p ≤ ver.dbSize) :
    v.getData p 0 none = w.fh.read (Spec.frameImageOffset w.hdr.pageSize f2.number) w.hdr.pageSize := by
  exact Proofs.WalContent.double_write_last_wins cfg db dbv w vs h hps k ver v hk a b c f1 f2 hg p h1 h2 hc hp

/-! ### frames of an older generation never contribute -/

/-- (restated from `C02.stale_never_served`, on which the two theorems below build) frames whose
salt-1 differs from the header's are never among the valid frames, valid frames carry the header's
salts, and their indices are 0,1,2,… -/
theorem stale_never_served (gs : Option Nat) (file : Buf) (w : Wal) (h : openWal gs file = .ok w) :
    (∀ f ∈ w.frames, f.hdr.salt1 = w.hdr.salt1 ∧ f.hdr.salt2 = w.hdr.salt2) ∧
    (∀ f ∈ w.invalid, f.hdr.salt1 ≠ w.hdr.salt1) ∧
    (w.frames.map Frame.index = List.range w.frames.length) := by
  exact Proofs.Wal.stale_never_served gs file w h

/-- the frames of older generations all lie after the valid run -/
theorem invalid_after_valid (gs : Option Nat) (file : Buf) (w : Wal) (h : openWal gs file = .ok w) :
    ∀ f ∈ w.invalid, w.frames.length ≤ f.index := by
  exact Proofs.WalContent.invalid_after_valid gs file w h

/-- **content level**: whenever the snapshot (hence, by `version_serves_snapshot`, a version) takes
page `p` from the log, the frame is one of the valid frames — it carries the header's salts — and
its page image ends inside the valid run `32 + w.frames.length * (24 + page size)` of the file, i.e.
before every frame of an older generation (`invalid_after_valid`) and before any trailing bytes -/
theorem stale_frames_never_contribute (gs : Option Nat) (file : Buf) (w : Wal) (h : openWal gs file = .ok w)
    (k p f : Nat)
    (hl : Spec.latestFrame (((groupFrames w.frames [] []).1.take k).flatten) p = some f) :
    ∃ fr ∈ w.frames, fr.hdr.pageNumber = p ∧ f = fr.index + 1 ∧
      fr.hdr.salt1 = w.hdr.salt1 ∧ fr.hdr.salt2 = w.hdr.salt2 ∧
      Spec.frameImageOffset w.hdr.pageSize f + w.hdr.pageSize ≤
        32 + w.frames.length * (24 + w.hdr.pageSize) := by
  exact Proofs.WalContent.snapshot_reads_valid_run gs file w h k p f hl

/-- the version history (result or error) does not consult what the reader recorded about the
frames after the valid run -/
theorem history_ignores_invalid (cfg : Config) (db : Database) (dbv : VersionIf) (w : Wal)
    (inv : List Frame) (idx : List (Nat × Nat × Nat)) (n lc : Int) :
    versionHistory cfg db dbv
        (some { w with invalid := inv, invalidIndices := idx, nFrames := n, lastCommitIndex := lc }) =
      versionHistory cfg db dbv (some w) := by
  exact Proofs.WalContent.history_ignores_invalid cfg db dbv w inv idx n lc

/-! ### a literal log (the model does not verify frame checksums)

8-byte pages, header salts (1, 2), 32-byte frames.  Transaction 1: page 2 (image `A1…`), page 2
again (`A2…`), page 3 (`B1…`, commit, size 3).  Transaction 2: page 2 (`A3…`, commit, size 3).
Then a frame of an older generation (salt-1 = 9) for page 2 (`EE…`).  The database file has three
pages `D1…`, `D2…`, `D3…` and a header/schema that the log never touches. -/

private def hdrBytes : List Nat :=
  [0x37, 0x7f, 0x06, 0x82, 0x00, 0x2d, 0xe2, 0x18, 0, 0, 0, 8, 0, 0, 0, 0, 0, 0, 0, 1, 0, 0, 0, 2, 0, 0, 0, 0, 0, 0, 0, 0]
/-- frame of generation `s1` for page `p`, size-after-commit field `c`, page image eight times `x` -/
private def frameBytes (s1 p c x : Nat) : List Nat :=
  [0, 0, 0, p, 0, 0, 0, c, 0, 0, 0, s1, 0, 0, 0, 2, 0, 0, 0, 0, 0, 0, 0, 0] ++ List.replicate 8 x

private def walB : Buf :=
  Buf.ofList (hdrBytes ++ frameBytes 1 2 0 0xA1 ++ frameBytes 1 2 0 0xA2 ++ frameBytes 1 3 3 0xB1
    ++ frameBytes 1 2 3 0xA3 ++ frameBytes 9 2 3 0xEE)

private def dbB : Database :=
  { hdr := default, pageSize := 8, dbSize := ⟨3, 1⟩, encoding := 1, freelist := [], freelistPageNumbers := [],
    ptrmap := [], rootTree := [], schema := ⟨[], [], []⟩, updatedBTreePages := [] }

private def dbvB : VersionIf :=
  dbVersionIf {} 8 ⟨3, 1⟩ ⟨24, Buf.ofList (List.replicate 8 0xD1 ++ List.replicate 8 0xD2 ++ List.replicate 8 0xD3)⟩

/-- page `p` as version `k` of the history of (`dbB`, `wal`) serves it -/
private def servedOf (wal : Buf) (k p : Nat) : Py (List Nat) := do
  let w ← openWal none wal
  let vs ← versionHistory {} dbB dbvB (some w)
  match vs[k]? with
  | some (_, v) => (v.getData p 0 none).map Buf.toList
  | none => .error .indexError

/-- page `p` of SQLite's snapshot after transaction `k` -/
private def snapshotOf (wal : Buf) (k p : Nat) : Py (List Nat) := do
  let w ← openWal none wal
  (Spec.snapshotPage (fun q => dbvB.getData q 0 none) w.fh w.hdr.pageSize (groupFrames w.frames [] []).1 k p).map Buf.toList

private abbrev served := servedOf walB
private abbrev snapshot := snapshotOf walB

/-- accepted: three versions, four valid frames, one frame of an older generation -/
example : (do
    let w ← openWal none walB
    let vs ← versionHistory {} dbB dbvB (some w)
    pure (vs.length, w.frames.length, w.invalid.length)) = .ok (3, 4, 1) := by decide +kernel

/-- page 2, version by version: database file; the *second* image of transaction 1; transaction 2's
image — never the stale `EE…` that follows in the file -/
example : served 0 2 = .ok (List.replicate 8 0xD2) ∧ served 1 2 = .ok (List.replicate 8 0xA2) ∧
    served 2 2 = .ok (List.replicate 8 0xA3) := by decide +kernel
/-- page 3 is carried over from transaction 1 into version 2; page 1 stays the database file's -/
example : served 1 3 = .ok (List.replicate 8 0xB1) ∧ served 2 3 = .ok (List.replicate 8 0xB1) ∧
    served 2 1 = .ok (List.replicate 8 0xD1) := by decide +kernel
/-- and the specification computes the same -/
example : ∀ k ∈ [0, 1, 2], ∀ p ∈ [1, 2, 3], served k p = snapshot k p := by decide +kernel

/-- why `hcov` is needed (`version_page_uncovered` at work): one commit frame for page 2 that
declares a size of 4 pages over the 3-page database file.  The pair is accepted; version 1 refuses
page 4 with `KeyError`, where the snapshot asks the database file (`ValueError` from its reader). -/
private def walC : Buf := Buf.ofList (hdrBytes ++ frameBytes 1 2 4 0xA1)

example : servedOf walC 1 2 = .ok (List.replicate 8 0xA1) ∧ servedOf walC 1 3 = .ok (List.replicate 8 0xD3) ∧
    servedOf walC 1 4 = .error .keyError ∧ snapshotOf walC 1 4 = .error .valueError := by decide +kernel

/-- why `0 < w.hdr.pageSize` is needed: a header whose page-size field is 0 (24-byte frames) is
accepted; version 1 refuses the log page with `ValueError`, a 0-byte read of the file succeeds -/
private def walZ : Buf :=
  Buf.ofList ([0x37, 0x7f, 0x06, 0x82, 0x00, 0x2d, 0xe2, 0x18, 0, 0, 0, 0, 0, 0, 0, 0, 0, 0, 0, 1, 0, 0, 0, 2, 0, 0, 0, 0, 0, 0, 0, 0]
    ++ [0, 0, 0, 2, 0, 0, 0, 3, 0, 0, 0, 1, 0, 0, 0, 2, 0, 0, 0, 0, 0, 0, 0, 0]
    ++ [0, 0, 0, 3, 0, 0, 0, 3, 0, 0, 0, 1, 0, 0, 0, 2, 0, 0, 0, 0, 0, 0, 0, 0])

example : servedOf walZ 1 2 = .error .valueError ∧ snapshotOf walZ 1 2 = .ok [] := by decide +kernel

private def hypothesesHold : Bool :=
  match openWal none walB with
  | .ok w =>
    match versionHistory {} dbB dbvB (some w) with
    | .ok vs =>
      match vs[1]? with
      | some (ver, _) =>
        decide (0 < w.hdr.pageSize ∧ (1 ≤ 2 ∧ 2 ≤ ver.dbSize) ∧
          Spec.latestFrame (((groupFrames w.frames [] []).1.take 1).flatten) 2 ≠ none)
      | none => false
    | .error _ => false
  | .error _ => false

/-- the hypotheses of `version_serves_snapshot` (and of `stale_frames_never_contribute`) are jointly
satisfiable with a page that comes from the log -/
example : ∃ (w : Wal) (vs : List (Version × VersionIf)) (ver : Version) (v : VersionIf),
    openWal none walB = .ok w ∧ versionHistory {} dbB dbvB (some w) = .ok vs ∧ 0 < w.hdr.pageSize ∧
    vs[1]? = some (ver, v) ∧ (1 ≤ 2 ∧ 2 ≤ ver.dbSize) ∧
    Spec.latestFrame (((groupFrames w.frames [] []).1.take 1).flatten) 2 ≠ none := by
  have hc : hypothesesHold = true := by decide +kernel
  unfold hypothesesHold at hc
  split at hc
  · rename_i w hw
    split at hc
    · rename_i vs hvs
      split at hc
      · rename_i ver v hk
        rw [decide_eq_true_eq] at hc
        exact ⟨w, vs, ver, v, hw, hvs, hc.1, hk, hc.2.1, hc.2.2⟩
      · exact nomatch hc
    · exact nomatch hc
  · exact nomatch hc

end SqliteDissect.Properties.C02Content
