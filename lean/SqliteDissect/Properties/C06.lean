/-
C06 — inside every b-tree page the header, cell-pointer array, unallocated gap, cells,
freeblocks and fragments tile the page without overlap or gap; free space adds up.
(The page census half of C06 is in Properties/C06Census.lean.)
-/
import SqliteDissect.Proofs.Layout

namespace SqliteDissect.Properties.C06
open SqliteDissect SqliteDissect.Model

/-- Python's `sorted(cells + freeblocks, key=start_offset)`: a stable sort — the result is a
permutation of the input, ordered by start offset -/
theorem sort_spec (rs : List Region) :
    (sortRegions rs).Perm rs ∧ (sortRegions rs).Pairwise (fun a b => a.1 ≤ b.1) := by
  exact Proofs.Layout.sort_spec rs

/-- The accounting identity behind the "accounted for space == page size" check, for *any*
region list (overlapping or not): fragments are signed gaps, so cells + freeblocks + fragments
telescope to `last − cs`, where `last` is the end of the region with the greatest start. -/
theorem telescoping (size : Int) (sorted : List Region) (cs : Int) (frags : List Fragment) (last : Int)
    (h : findFragments size sorted cs 0 [] = .ok (frags, last)) :
    ((frags.map Fragment.byteSize).foldl (· + ·) 0) + Spec.sumSizes sorted = last - cs := by
  exact Proofs.Layout.telescoping size sorted cs frags last h

/-- every layout SQLite produces passes both strict checks, with the fragment total equal to the
header's count and the accounted space equal to the page size (this is where the fragment
after the last cell, and a content offset of 65536, are needed) -/
theorem accepts_wellformed (strict : Bool) (size preface cs fragHdr : Nat) (regions : List Region)
    (cellTotal fbTotal : Int)
    (hw : Spec.WellFormedLayout size cs fragHdr regions)
    (hpre : preface ≤ cs) (htot : cellTotal + fbTotal = Spec.sumSizes regions) :
    ∃ L, layoutCheck strict size preface cs fragHdr regions cellTotal fbTotal = .ok L ∧
      L.fragTotal = fragHdr ∧ L.accounted = size := by
  exact Proofs.Layout.accepts_wellformed strict size preface cs fragHdr regions cellTotal fbTotal hw hpre htot

/-- on such a page the regions and the reported fragments, in address order, form a chain from
the content offset to the end of the page in which every piece has positive length: they tile
`[cs, size)` without overlap or gap, and the pieces are exactly the cells, the freeblocks and
the fragments reported -/
theorem tiles (strict : Bool) (size preface cs fragHdr : Nat) (regions : List Region)
    (cellTotal fbTotal : Int) (L : LayoutResult)
    (hw : Spec.WellFormedLayout size cs fragHdr regions)
    (h : layoutCheck strict size preface cs fragHdr regions cellTotal fbTotal = .ok L) :
    let t := Spec.tiling size (sortRegions regions) cs
    Spec.Chain cs t size ∧ (∀ g ∈ t, g.1 < g.2) ∧
      t.Perm (sortRegions regions ++ L.fragments.map fun f => (f.start, f.end_)) := by
  exact Proofs.Layout.tiles strict size preface cs fragHdr regions cellTotal fbTotal L hw h

/-- in strict mode an accepted page always has: fragment total = header count ≤ 60, and
header ‖ pointer array ‖ unallocated ‖ cells ‖ freeblocks ‖ fragments = page size -/
theorem strict_checks (size preface cs fragHdr : Nat) (regions : List Region) (cellTotal fbTotal : Int)
    (L : LayoutResult)
    (h : layoutCheck true size preface cs fragHdr regions cellTotal fbTotal = .ok L) :
    L.fragTotal = fragHdr ∧ fragHdr ≤ 60 ∧
      (preface : Int) + ((cs : Int) - preface) + (cellTotal + fbTotal + L.fragTotal) = size := by
  exact Proofs.Layout.strict_checks size preface cs fragHdr regions cellTotal fbTotal L h

/-- relaxed checking never changes an accepted result (C13: strict only downgrades errors) -/
theorem strict_irrelevant (size preface cs fragHdr : Nat) (regions : List Region) (cellTotal fbTotal : Int)
    (L : LayoutResult)
    (h : layoutCheck true size preface cs fragHdr regions cellTotal fbTotal = .ok L) :
    layoutCheck false size preface cs fragHdr regions cellTotal fbTotal = .ok L := by
  exact Proofs.Layout.strict_irrelevant size preface cs fragHdr regions cellTotal fbTotal L h

/-- the freeblock walk (with the ascending-offset check) ends within the fuel it is given: the
`RecursionError` placeholder of the model is unreachable, the walk visits strictly ascending
offsets, and so takes at most 65536 steps whatever the page contains -/
theorem freeblock_walk_bounded (page : Buf) (hb : page.WF) (first : Nat) :
    freeblockWalk page 65537 0 first [] ≠ .error .recursionError := by
  exact Proofs.Layout.freeblock_walk_bounded page hb first

theorem freeblock_walk_ascending (page : Buf) (hb : page.WF) (first : Nat) (fbs : List Freeblock)
    (h : freeblockWalk page 65537 0 first [] = .ok fbs) :
    fbs.Pairwise (fun a b => a.start < b.start) ∧ fbs.length ≤ 65536 ∧
      (∀ f ∈ fbs, f.start < 65536 ∨ f.start = first) := by
  exact Proofs.Layout.freeblock_walk_ascending page hb first fbs h

/-! non-vacuity: a page area [100, 200) with two cells, one freeblock and a 3-byte end fragment -/
example : Spec.WellFormedLayout 200 100 5 [(100, 130), (132, 150), (150, 197)] :=
  Proofs.Layout.example_wellformed

example : layoutCheck true 200 20 100 5 [(132, 150), (100, 130), (150, 197)] 48 47 =
    .ok ⟨[⟨0, 130, 132⟩, ⟨1, 197, 200⟩], 5, 200⟩ := by rfl

end SqliteDissect.Properties.C06
