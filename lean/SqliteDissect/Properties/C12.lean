/-
C12 — the CLI reports what the library computes; options only restrict or add.

Statements about `Model.Cli` (the ordered checks and the export plan of entrypoint.main), parametric in the
library: an `Entry` is a master-schema entry of the base version with the facts the CLI branches on, an
`Item` is one `VersionHistoryParser` iteration handed to one exporter.  That the rows the library yields for
an item are what ends up in the exported file is the runtime half (harness/props/c12.py: exported files
versus API iteration in the same tree).  The option table the model assumes is the generated one
(`option_table_as_modelled`).
-/
import SqliteDissect.Proofs.FsTable
import SqliteDissect.Proofs.Cli

namespace SqliteDissect.Properties.C12
open SqliteDissect.Generated SqliteDissect.Model.Cli

/-- the generated option table (parse_args) has the flags, defaults, choices and mutually exclusive groups
the model assumes -/
theorem option_table_as_modelled :
    cliMutexGroups = [["no_journal", "rollback_journal", "wal"], ["exempted_tables", "tables"], ["log_level"]]
    ∧ (Proofs.FsTable.optByDest "export").map (fun o => (o.nargs, o.choices, o.default)) =
        some ("*", ["text", "csv", "sqlite", "xlsx", "case"], "list:text")
    ∧ (Proofs.FsTable.optByDest "file_prefix").map (·.default) = some "str:"
    ∧ (Proofs.FsTable.optByDest "directory").map (·.default) = some "none"
    ∧ (Proofs.FsTable.optByDest "log_file").map (·.default) = some "none"
    ∧ (Proofs.FsTable.optByDest "log_level").map (·.default) = some "str:off"
    ∧ (Proofs.FsTable.optByDest "carve").map (fun o => (o.action, o.default)) = some ("store_true", "bool:false")
    ∧ (Proofs.FsTable.optByDest "carve_freelists").map (fun o => (o.action, o.default)) = some ("store_true", "bool:false")
    ∧ (Proofs.FsTable.optByDest "no_journal").map (fun o => (o.action, o.default)) = some ("store_true", "bool:false")
    ∧ (Proofs.FsTable.optByDest "signatures").map (fun o => (o.action, o.default)) = some ("store_true", "bool:false")
    ∧ (Proofs.FsTable.optByDest "wal").map (·.default) = some "none"
    ∧ (Proofs.FsTable.optByDest "rollback_journal").map (·.default) = some "none"
    ∧ (Proofs.FsTable.optByDest "tables").map (·.default) = some "none"
    ∧ (Proofs.FsTable.optByDest "exempted_tables").map (·.default) = some "none"
    ∧ (Proofs.FsTable.optByDest "sqlite_path").map (fun o => (o.positional, o.required)) = some (true, true)
    ∧ (cliOptions.filter (·.isConfigFile)).map (·.dest) = ["config"]
    ∧ cliOptions.length = 21 := by
  exact Proofs.FsTable.option_table_as_modelled

/-- naming tables restricts every exporter's work to exactly the named entries, and changes nothing else
about them (same file, same signature decision) -/
theorem tables_restrict (o : Opts) (r : Ready) (es : List Entry) (S : List Str) (hS : S ≠ []) :
    plan { o with tables := S } r es
      = (plan { o with tables := [] } r es).filter (fun it => S.contains it.entry) := by
  exact Proofs.Cli.tables_restrict o r es S hS

example : plan { tables := [['t']], exports := [.csv], directory := ['o'] }
    { outDir := ['o'], filePrefix := ['p'], exportTypes := [.csv], walName := [], rjName := [],
      walOpened := false, rjOpened := false, exempted := false }
    [{ name := ['t'], tableOrIndex := true, sigEligible := true },
     { name := ['u'], tableOrIndex := true, sigEligible := true }]
    = [{ fmt := .csv, file := ['o', '/', 'p', '-', 't', '.', 'c', 's', 'v'], entry := ['t'], carve := false,
         freelists := false, writes := true }] := by decide

/-- `--no-journal`: the journal selection is empty whatever lies next to the database … -/
theorem no_journal_selects_nothing (o : Opts) (i : Input) (w : World) (r : Ready) (eff : List Effect)
    (h : validate { o with noJournal := true } i w = .ready r eff) :
    r.walName = [] ∧ r.rjName = [] ∧ r.walOpened = false ∧ r.rjOpened = false := by
  exact Proofs.Cli.no_journal_ready o i w r eff h

/-- … and the whole outcome is the one obtained for the database alone (no journal file beside it, none
named) -/
theorem no_journal_is_db_only (o : Opts) (i : Input) (w : World) (h : Proofs.Cli.DbOnly i.sqlitePath w) :
    validate { o with noJournal := true } i w
      = validate { o with noJournal := false, wal := [], rollbackJournal := [] } i w := by
  exact Proofs.Cli.no_journal_is_db_only o i w h

/-- enabling `--carve` (without `--carve-freelists`) changes nothing about validation … -/
theorem carve_does_not_change_validation (o : Opts) (i : Input) (w : World) (hf : o.carveFreelists = false) :
    validate { o with carve := true } i w = validate { o with carve := false } i w := by
  exact Proofs.Cli.carve_validate o i w hf

/-- … and nothing about the plan except that signatures are supplied: the same entries go to the same
exporters and files, so carving can only add carved rows … -/
theorem carve_only_adds (o : Opts) (r : Ready) (es : List Entry) (hc : o.carve = false) :
    (plan { o with carve := true } r es).map Item.dropCarve = plan o r es := by
  exact Proofs.Cli.carve_only_adds o r es hc

/-- … the rollback-journal CSV files are the only additional output, and they need `--carve` -/
theorem journal_carving_needs_carve (o : Opts) (r : Ready) (ex : List Str) (es : List Entry)
    (hc : o.carve = false) : journalPlan o r ex es = [] := by
  exact Proofs.Cli.journal_plan_needs_carve o r ex es hc

example : (plan { carve := true, exports := [.csv], directory := ['o'] }
    { outDir := ['o'], filePrefix := ['p'], exportTypes := [.csv], walName := [], rjName := [],
      walOpened := false, rjOpened := false, exempted := false }
    [{ name := ['t'], tableOrIndex := true, sigEligible := true }]).map (·.carve) = [true] := by decide

/-- what one format exports does not depend on which other formats were requested -/
theorem formats_independent (o : Opts) (r : Ready) (es : List Entry) (f : Fmt) (hf : f ∈ rowFormats) :
    (plan o r es).filter (fun it => it.fmt = f)
      = if r.exportTypes.contains f then planFmt f o r es else [] := by
  exact Proofs.Cli.formats_independent o r es f hf

theorem format_plan_ignores_export_list (f : Fmt) (o : Opts) (r : Ready) (es : List Entry) (x : List Fmt) :
    planFmt f { o with exports := x } r es = planFmt f o r es := by
  exact Proofs.Cli.planFmt_ignores_exports f o r es x

/-- the prefix defaults to the base name of the database file -/
theorem prefix_default (o : Opts) (i : Input) (w : World) (r : Ready) (eff : List Effect)
    (hp : o.filePrefix = []) (h : validate o i w = .ready r eff) : r.filePrefix = baseName i.sqlitePath := by
  exact Proofs.Cli.prefix_default o i w r eff hp h

/-- a refused run — invalid option combination, missing input or journal, `--exempted-tables` without a
rollback journal, zero-length database beside a journal with content, both journals present, or an output
directory that cannot be created — has created nothing except possibly the log file.  The single refusal that
is not covered is the operating system failing to create the per-file *sub*-directory (several inputs) after
the output directory itself was made; that is not a refusal of the options or the input.
(Before 237449d this was false: the directory was created before the input and journal checks; the former
witness `-d out --exempted-tables t --no-journal` stays in corpus/C12.) -/
theorem refused_before_write (o : Opts) (i : Input) (w : World) (r : Refusal) (eff : List Effect)
    (h : validate o i w = .refuse r eff) (hr : r ≠ .cannotCreateSubDirectory) :
    ∀ e ∈ eff, e = .logFile o.logFile := by
  exact Proofs.Cli.refusal_effects o i w r eff h hr

/-- the same for the exit(0) outcomes ("nothing to parse") -/
theorem exit0_before_write (o : Opts) (i : Input) (w : World) (x : Exit0) (eff : List Effect)
    (h : validate o i w = .exit0 x eff) : ∀ e ∈ eff, e = .logFile o.logFile := by
  exact Proofs.Cli.exit0_effects o i w x eff h

/-- the excluded refusal really happens after a write (so the hypothesis of `refused_before_write` cannot be
dropped): the output directory has been created by then -/
theorem subdirectory_failure_is_after_mkdir (o : Opts) (i : Input) (w : World) (eff : List Effect)
    (h : validate o i w = .refuse .cannotCreateSubDirectory eff) (hd : w.pathExists o.directory = false) :
    Effect.mkdir o.directory ∈ eff := by
  exact Proofs.Cli.subdirectory_failure_after_mkdir o i w eff h hd

/-- every effect of every outcome of the validation phase is the log file, the output directory or the
per-file sub-directory — never an export file -/
theorem validation_creates_at_most_directories (o : Opts) (i : Input) (w : World) :
    ∀ e ∈ (validate o i w).effects,
      e = .logFile o.logFile ∨ (e = .mkdir o.directory ∧ w.pathExists o.directory = false)
        ∨ (e = .mkdir (Proofs.Cli.subDir o i) ∧ i.multi = true) := by
  exact Proofs.Cli.validation_effects_bounded o i w

-- non-vacuity: the former witness is refused with nothing created; an option-level refusal with a log file;
-- the sub-directory failure exists
example : validate { directory := ['o'], exemptedTables := ['t'], noJournal := true } { sqlitePath := ['d'] }
    { pathExists := fun p => p == ['d'], size := fun _ => 100, mkdirOk := fun _ => true }
    = .refuse .exemptedNeedsJournal [] := by decide

example : validate { carveFreelists := true, logFile := ['l'] } { sqlitePath := ['d'] }
    { pathExists := fun _ => true, size := fun _ => 1, mkdirOk := fun _ => true }
    = .refuse .carveFreelistsWithoutCarve [.logFile ['l']] := by decide

example : validate { directory := ['o'] } { sqlitePath := ['d'], multi := true, uuid := ['u'] }
    { pathExists := fun p => p == ['d'], size := fun _ => 100, mkdirOk := fun p => p == ['o'] }
    = .refuse .cannotCreateSubDirectory [.mkdir ['o']] := by decide

example : validate { directory := ['o'] } { sqlitePath := ['d'] }
    { pathExists := fun p => p == ['d'], size := fun _ => 0, mkdirOk := fun _ => true }
    = .exit0 .emptyDb [] := by decide

end SqliteDissect.Properties.C12
