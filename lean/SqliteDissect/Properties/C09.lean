/-
C09 — intact deleted records are recovered with their original values.

Property theorems only (helper lemmas and proofs live in Proofs/CarveRecall.lean).
`Model.Carve` mirrors sqlite_dissect/carving/carver.py, carved_cell.py and the carving part of
version_history.py; `Model.Regex` mirrors the generated signature pattern and Python `re` on it.

Reading guide.  `IntactAt data s e cols`: the region `data` holds, from offset `s`, the serial-type
varints of the stored columns `cols` (ending at `e`) immediately followed by all their contents — the
header (minus its size byte) and body of a record exactly as SQLite wrote it (`Spec.typeBytes`,
`Spec.Col.content`).  `expectedCCols 0 e cols`: the carved columns that carry exactly the stored serial
types and the values the file-format specification assigns to the stored bytes (`Spec.serialGet`),
nothing flagged truncated.
-/
import SqliteDissect.Proofs.CarveRecall
import SqliteDissect.Proofs.CarveCompletes

namespace SqliteDissect.Properties.C09
open SqliteDissect SqliteDissect.Model SqliteDissect.Model.Carve
open SqliteDissect.Proofs.CarveRecall

/-! ### recall for a record whose header the full signature matches -/

/-- Record level: the constructor turns a full-signature match over an intact record in an
unallocated region (a page's unallocated area, a freelist page, a journal page image) into a carved
record with exactly the stored serial types and values. -/
theorem recall_record (i : RecIn) (cols : List Spec.Col)
    (hv : ∀ c ∈ cols, Spec.ValidCol c) (hne : cols ≠ []) (hn : cols.length = i.nCols)
    (hwf : i.data.WF) (hsize : i.data.size < 2 ^ 53)
    (hin : IntactAt i.data i.s i.e cols)
    (hloc : i.loc = .unallocated) (hfc : i.firstCol = none) :
    ∃ r, carvedRecord i = .ok r ∧ r.cols = expectedCCols 0 i.e cols ∧
      r.truncatedBeginning = false ∧ r.truncatedEnding = false := by
  exact Proofs.CarveRecall.recall_record i cols hv hne hn hwf hsize hin hloc hfc

/-- Region level: if the scan of the region with the full pattern reports the record's header
`[s, e)`, the record is intact and carving completes (it does: C08 `completes`), the result
contains a cell at `s`, with the file offset of the header, carrying the stored values. -/
theorem recall_region (sig : CarveSig) (fc : List Int) (simplified : List (List Int)) (pf : Regex.Pat)
    (hc : chosenSignature sig = .ok (fc, simplified)) (hpf : Regex.genSignature simplified false = .ok pf)
    (ps pn po rs : Nat) (data : Buf) (cols : List Spec.Col) (s e : Nat)
    (hv : ∀ c ∈ cols, Spec.ValidCol c) (hne : cols ≠ []) (hn : cols.length = sig.numberOfColumns)
    (hwf : data.WF) (hsize : data.size < 2 ^ 53) (hin : IntactAt data s e cols)
    (hm : (s, e) ∈ Regex.finditer pf data.toList)
    (cells : List CarvedCell) (h : carveUnallocated sig ps pn po rs data = .ok cells) :
    ∃ c ∈ cells, c.matchStart = s ∧ c.matchEnd = e ∧ c.fileOffset = po + rs + s ∧
      c.rec_.cols = expectedCCols 0 e cols := by
  exact Proofs.CarveRecall.recall_region sig fc simplified pf hc hpf ps pn po rs data cols s e hv hne hn hwf
    hsize hin hm cells h

/-- The same without assuming that carving completes (it does, C08 `completes`, since a784e20): carving
the region either leaves the range in which the model follows the code's floats (`outsideModel`) or
returns cells among which is the intact record, at its place, with its stored values. -/
theorem recall_region_total (sig : CarveSig) (fc : List Int) (simplified : List (List Int)) (pf pp : Regex.Pat)
    (hc : chosenSignature sig = .ok (fc, simplified)) (hpf : Regex.genSignature simplified false = .ok pf)
    (hpp : Regex.genSignature simplified true = .ok pp) (hnc : sig.numberOfColumns = simplified.length)
    (ps pn po rs : Nat) (data : Buf) (cols : List Spec.Col) (s e : Nat)
    (hv : ∀ c ∈ cols, Spec.ValidCol c) (hne : cols ≠ []) (hn : cols.length = sig.numberOfColumns)
    (hwf : data.WF) (hsize : data.size < 2 ^ 53) (hin : IntactAt data s e cols)
    (hm : (s, e) ∈ Regex.finditer pf data.toList) :
    carveUnallocated sig ps pn po rs data = .error .outsideModel ∨
    ∃ cells, carveUnallocated sig ps pn po rs data = .ok cells ∧
      ∃ c ∈ cells, c.matchStart = s ∧ c.matchEnd = e ∧ c.fileOffset = po + rs + s ∧
        c.rec_.cols = expectedCCols 0 e cols := by
  exact Proofs.CarveCompletes.recall_region_total sig fc simplified pf pp hc hpf hpp hnc ps pn po rs data cols s e
    hv hne hn hwf hsize hin hm

/-- non-vacuity of `recall_record` / `recall_region`: a record (NULL, one-byte 7) preceded and
followed by other bytes is intact at offset 2 -/
example : IntactAt (Buf.ofList [9, 9, 0, 1, 7, 5]) 2 4 [⟨0, []⟩, ⟨1, [7]⟩] :=
  ⟨[9, 9], [5], by decide, rfl, rfl⟩

/-! ### the scan: when the header is reported -/

/-- `finditer` reports the first place at which the pattern matches (no other match before the
record's header hides it) -/
theorem scan_reports_first_match (p : Regex.Pat) (l : List Nat) (s : Nat) (r : List Nat) (hs : s ≤ l.length)
    (hnone : ∀ j, j < s → Regex.matchAt p (l.drop j) = none)
    (hm : Regex.matchAt p (l.drop s) = some r) (hlen : r.length < (l.drop s).length) :
    (s, l.length - r.length) ∈ Regex.finditer p l := by
  exact Proofs.CarveRecall.finditer_first p l s r hs hnone hm hlen

/-- every reported match is a range of the region -/
theorem scan_ranges (p : Regex.Pat) (l : List Nat) :
    ∀ se ∈ Regex.finditer p l, se.1 ≤ se.2 ∧ se.2 ≤ l.length := by
  exact Proofs.CarveRecall.finditer_range p l

/-- varints are self-delimiting: a subject has at most one varint-shaped token as a prefix -/
theorem token_unique (t1 t2 r1 r2 : List Nat) (h1 : Token t1) (h2 : Token t2) (h : t1 ++ r1 = t2 ++ r2) :
    t1 = t2 ∧ r1 = r2 := by
  exact Proofs.CarveRecall.token_unique t1 t2 r1 r2 h1 h2 h

/-- "the match at `s` is exactly the n serial types": wherever a generated signature pattern matches
the start of (the serial-type header of `n` types below 2^56) ++ rest, the match ends exactly at the
end of the header, whatever follows -/
theorem match_is_exactly_the_header (sig : List (List Int)) (p : Regex.Pat)
    (hp : Regex.genSignature sig false = .ok p)
    (types : List Int) (hlen : types.length = sig.length) (h0 : ∀ t ∈ types, 0 ≤ t ∧ t < 2 ^ 56)
    (rest out : List Nat) (hb : ∀ x ∈ rest, x < 256)
    (h : Regex.matchAt p (Proofs.Regex.header types ++ rest) = some out) :
    out = rest := by
  exact Proofs.CarveRecall.matchAt_header_exact sig p hp types hlen h0 rest out hb h

/-! ### freeblocks: the first four bytes are lost -/

/-- The lost first column is reconstructed from the freeblock size when the column lists only
fixed-width serial types and exactly one of them has the content size the freeblock size leaves
over (`fbSize` = 2 + header size + body size of a cell whose three leading varints are one byte). -/
theorem first_column_from_freeblock_size (fc : List Int) (st : Int) (fbSize sdSize sdcs sz : Nat)
    (hfc : ∀ t ∈ fc, 0 ≤ t ∧ t ≤ 9) (hst : st ∈ fc) (hnd : fc.Nodup)
    (hsz : getContentSize st = .ok sz)
    (hsize : fbSize = 2 + (1 + sdSize + 1) + sdcs + sz)
    (huniq : ∀ t ∈ fc, t ≠ st → getContentSize t ≠ .ok sz) :
    fromFreeblockSize fc fbSize sdSize sdcs =
      .ok (some { serialType := st, varintLen := 1, contentSize := sz, truncatedFirst := true }) := by
  exact Proofs.CarveRecall.first_column_from_size fc st fbSize sdSize sdcs sz hfc hst hnd hsz hsize huniq

/-- non-vacuity: first column lists one-, two- and eight-byte integers, the freeblock leaves two bytes -/
example : fromFreeblockSize [1, 2, 6] (2 + (1 + 1 + 1) + 3 + 2) 1 3 =
    .ok (some { serialType := 2, varintLen := 1, contentSize := 2, truncatedFirst := true }) :=
  first_column_from_freeblock_size [1, 2, 6] 2 _ 1 3 2 (by decide) (by decide) (by decide) (by decide) rfl (by decide)

/-- When every row stores the same fixed-width first serial type, the fall-back used where
nothing can be reconstructed (unallocated space) picks that serial type. -/
theorem first_column_same_for_every_row (sig : CarveSig) (st : Int) (sz : Nat) (h0 : 0 ≤ st ∧ st ≤ 9)
    (htot : sig.totalRecords ≠ 0) (hsz : getContentSize st = .ok sz) (hsmall : sz < 2 ^ 53) :
    probabilisticFirst sig [st] =
      .ok { serialType := st, varintLen := 1, contentSize := sz, truncatedFirst := true,
            probabilisticFirst := true } := by
  exact Proofs.CarveRecall.first_column_single sig st sz h0 htot hsz hsmall

/-! ### through the version-history iterator (de-duplication by digest)

After fix 56bb962 the digest of a carved cell is the md5 of the record's own bytes (matched serial
types + bodies as far as the region holds them, C08 `digest_is_record_bytes`).

Full statement: the iterator reports every record the carver produced for a first version (records
that differ in their columns or in their place are different records).  Still false, by design of a
content digest: rows with identical bytes at different places share it.  What holds: cells with
pairwise distinct digests are all kept. -/

def FullStatement : Prop := DedupKeepsAll

theorem recall_through_iterator_counterexample : ¬ FullStatement := by
  exact Proofs.CarveRecall.dedup_counterexample

theorem recall_through_iterator_partial (cells : List CarvedCell) (h : (cells.map (·.digest)).Nodup) :
    (dedup [] cells).length = cells.length ∧ (dedup [] cells).map (·.2.digest) = cells.map (·.digest) := by
  exact Proofs.CarveRecall.dedup_keeps_distinct cells h

/-- the witness of the former collision defect (digest = last four content bytes): a table (one-byte
integer, four-byte integer), two freeblocks that are exactly the freed cells of the rows
(7, 0x01020305) and (9, 0x01020305).  Both rows are carved with their values, now get different
digests, and both survive the de-duplication (non-vacuity of `recall_through_iterator_partial`). -/
theorem digest_separates_rows :
    ∃ a b, carveFreeblocks sig14 1024 [fbA5, fbB5] = .ok [a, b] ∧
      a.rec_.cols.map (·.value) = [.dec (.int 7), .dec (.int 16909061)] ∧
      b.rec_.cols.map (·.value) = [.dec (.int 9), .dec (.int 16909061)] ∧
      a.digest ≠ b.digest ∧ (dedup [] [a, b]).length = 2 := by
  exact Proofs.CarveRecall.digest_separates_rows

/-- What is still lost (open finding C09-05, single-column tables): the empty partial pattern also
matches at the start of the full match, the fall-back guesses a two-byte integer, the bogus
candidate covers exactly the real record's bytes `01 09` and shares its digest; the
de-duplication keeps one cell for the two (and the dictionary keeps the later, bogus one). -/
theorem single_column_bogus_collision :
    ∃ a x y b, carveUnallocated sig12 1024 2 1024 100 (Buf.ofList [1, 9]) = .ok [a, x, y, b] ∧
      a.matchStart = 0 ∧ a.matchEnd = 1 ∧ a.rec_.cols.map (·.value) = [.dec (.int 9)] ∧
      b.matchStart = 0 ∧ b.matchEnd = 0 ∧ b.rec_.cols.map (·.value) = [.dec (.int 265)] ∧
      a.digest = b.digest ∧ (dedup [] [a, x, y, b]).length = 3 := by
  exact Proofs.CarveRecall.single_column_bogus_collision

end SqliteDissect.Properties.C09
