import SqliteDissect.Model.Wal
namespace SqliteDissect.Properties.C13
end SqliteDissect.Properties.C13
