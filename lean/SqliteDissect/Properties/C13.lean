/-
C13 — results do not depend on how the parser is configured or invoked (strict vs relaxed
checking on accepted input, store-in-memory vs on demand), at the level of the model.
-/
import SqliteDissect.Proofs.Config

namespace SqliteDissect.Properties.C13
open SqliteDissect SqliteDissect.Model

/-- relaxed format checking never changes what strict checking accepted: a b-tree that parses
under strict checking parses to the same pages under relaxed checking -/
theorem tree_strict_irrelevant (v : VersionIf) (fuel number : Nat) (cls : PageType) (t : List BPage)
    (h : parseBTree { v with strict := true } fuel number cls = .ok t) :
    parseBTree { v with strict := false } fuel number cls = .ok t := by
  exact Proofs.Config.tree_strict_irrelevant v fuel number cls t h

/-- the same for the walk of the repaired code, which refuses a page reached twice (`seen`: the
pages already constructed in the walk) -/
theorem walk_strict_irrelevant (v : VersionIf) (fuel number : Nat) (cls : PageType) (seen : List Nat)
    (t : List BPage) (h : parseBTreeW { v with strict := true } fuel number cls seen = .ok t) :
    parseBTreeW { v with strict := false } fuel number cls seen = .ok t := by
  exact Proofs.Config.treeW_strict_irrelevant v fuel number cls seen t h

/-- the same for a whole database file -/
theorem database_strict_irrelevant (cfg : Config) (file : Buf) (db : Database) (v : VersionIf)
    (h : openDatabase { cfg with strict := true } file = .ok (db, v)) :
    ∃ v', openDatabase { cfg with strict := false } file = .ok (db, v') := by
  exact Proofs.Config.database_strict_irrelevant cfg file db v h

/-- keeping parsed pages in memory only adds an (idempotent) census at construction time: whatever
the in-memory configuration returns, the on-demand configuration returns too -/
theorem database_store_in_memory_irrelevant (cfg : Config) (file : Buf) (db : Database) (v : VersionIf)
    (h : openDatabase { cfg with storeInMemory := true } file = .ok (db, v)) :
    openDatabase { cfg with storeInMemory := false } file = .ok (db, v) := by
  exact Proofs.Config.database_store_in_memory_irrelevant cfg file db v h

/-- supplying the true file size is the same as not supplying it -/
theorem database_given_size_irrelevant (cfg : Config) (file : Buf) (hs : 0 < file.size) :
    openDatabase { cfg with givenSize := some file.size } file = openDatabase { cfg with givenSize := none } file := by
  exact Proofs.Config.database_given_size_irrelevant cfg file hs

/-- the leaf-only listing helpers return a sub-list of all cells of the tree (C14's last clause) -/
theorem leaf_cells_sublist (t : List BPage) :
    (leafCells t).Sublist (t.flatMap (·.cells)) := by
  exact Proofs.Config.leaf_cells_sublist t

end SqliteDissect.Properties.C13
