/-
C02 — every WAL commit is reconstructed as a faithful snapshot (page-lookup half; the row-level
half composes with C01 through the version interface), and
C05 — a torn WAL yields only committed states (frame-level half).
-/
import SqliteDissect.Proofs.Wal

namespace SqliteDissect.Properties.C02
open SqliteDissect SqliteDissect.Model

/-- grouping of the valid frames into commit records: nothing is lost or reordered, every record
ends in its only commit frame, and what is left over contains no commit frame -/
theorem group_spec (fs : List Frame) (gs : List (List Frame)) (rest : List Frame)
    (h : groupFrames fs [] [] = (gs, rest)) :
    gs.flatten ++ rest = fs ∧
    (∀ g ∈ gs, ∃ init last, g = init ++ [last] ∧ last.isCommit = true ∧ ∀ f ∈ init, f.isCommit = false) ∧
    (∀ f ∈ rest, f.isCommit = false) := by
  exact Proofs.Wal.group_spec fs gs rest h

/-- the number of versions is one plus the number of commit frames among the valid frames -/
theorem version_count (fs : List Frame) :
    (groupFrames fs [] []).1.length = (fs.filter Frame.isCommit).length := by
  exact Proofs.Wal.version_count fs

/-- the page→frame index handed from record to record answers every lookup with the *latest*
frame for that page among all frames up to and including that record (also when a page occurs
several times inside one transaction) -/
theorem page_frame_index_latest (gs : List (List Frame)) (p : Nat)
    (hok : ∀ g ∈ gs, ∃ r, recordFrames g = .ok r) :
    dictGet? (gs.foldl (fun pfi g =>
        match recordFrames g with
        | .ok (fd, _, _) => nextPfi pfi fd
        | .error _ => pfi) []) p
      = Spec.latestFrame gs.flatten p := by
  exact Proofs.Wal.page_frame_index_latest gs p hok

/-- the page→version index: a page untouched by the log stays at version 0 (database file), a
page written by the log belongs to the last record that wrote it -/
theorem page_version_index_latest (gs : List (List Frame)) (base : List (Nat × Nat)) (p : Nat)
    (hok : ∀ g ∈ gs, ∃ r, recordFrames g = .ok r) :
    dictGet? ((gs.zipIdx 1).foldl (fun pvi (gk : List Frame × Nat) =>
        match recordFrames gk.1 with
        | .ok (fd, _, _) => nextPvi pvi gk.2 (fd.map (·.1))
        | .error _ => pvi) base) p
      = match Spec.latestTxn gs p with
        | some k => some k
        | none => dictGet? base p := by
  exact Proofs.Wal.page_version_index_latest gs base p hok

/-- a record succeeds on every transaction SQLite writes: exactly one commit frame, at the end -/
theorem record_accepts (init : List Frame) (last : Frame)
    (hi : ∀ f ∈ init, f.isCommit = false) (hl : last.isCommit = true) :
    ∃ fd, recordFrames (init ++ [last]) = .ok (fd, true, last.hdr.sizeAfterCommit) ∧
      ∀ p, (dictGet? fd p).map Frame.number = Spec.latestFrame (init ++ [last]) p := by
  exact Proofs.Wal.record_accepts init last hi hl

/-- where the code reads a WAL page image is where the file format puts it -/
theorem frame_offset (ps f : Nat) (hf : 1 ≤ f) :
    Generated.WAL_HEADER_LENGTH + Generated.WAL_FRAME_HEADER_LENGTH * f + ps * (f - 1) = Spec.frameImageOffset ps f := by
  exact Proofs.Wal.frame_offset ps f hf

/-- frames of an older generation (salt-1 differs from the header's) are never among the valid
frames, valid frames carry the header's salts, and their indices are 0,1,2,… -/
theorem stale_never_served (gs : Option Nat) (file : Buf) (w : Wal) (h : openWal gs file = .ok w) :
    (∀ f ∈ w.frames, f.hdr.salt1 = w.hdr.salt1 ∧ f.hdr.salt2 = w.hdr.salt2) ∧
    (∀ f ∈ w.invalid, f.hdr.salt1 ≠ w.hdr.salt1) ∧
    (w.frames.map Frame.index = List.range w.frames.length) := by
  exact Proofs.Wal.stale_never_served gs file w h

/-- an accepted WAL ends (as far as its valid frames go) in a commit frame: no frame of an
unfinished transaction is ever handed to the version history -/
theorem accepted_ends_in_commit (gs : Option Nat) (file : Buf) (w : Wal) (h : openWal gs file = .ok w) :
    ∃ init last, w.frames = init ++ [last] ∧ last.isCommit = true ∧ (groupFrames w.frames [] []).2 = [] := by
  exact Proofs.Wal.accepted_ends_in_commit gs file w h

/-! ### C05: truncation -/

/-- the frame count of a file cut at `n ≥ 32` bytes is the number of whole frames: a partial
trailing frame is ignored, and the count is monotone in `n` -/
theorem frames_of_truncated (file : Buf) (n : Nat) (hn : 32 ≤ n) (hle : n ≤ file.size) (w : Wal)
    (h : openWal none (file.slice 0 n) = .ok w) :
    w.nFrames = Spec.wholeFrames w.hdr.pageSize n ∧ w.frames.length + w.invalid.length = Spec.wholeFrames w.hdr.pageSize n := by
  exact Proofs.Wal.frames_of_truncated file n hn hle w h

/-- cutting the file only shortens the frame sequence: every frame the truncated parse sees is,
field for field, the frame at that index of the full file -/
theorem truncated_frames_prefix (file : Buf) (n : Nat) (hn : 32 ≤ n) (hle : n ≤ file.size) (w w' : Wal)
    (hfull : openWal none file = .ok w) (hcut : openWal none (file.slice 0 n) = .ok w') :
    w'.frames.map (fun f => (f.index, f.hdr)) <+: w.frames.map (fun f => (f.index, f.hdr)) := by
  exact Proofs.Wal.truncated_frames_prefix file n hn hle w w' hfull hcut

/-- grouping commutes with cutting at a commit frame: the records of a prefix that ends in a commit
frame are a prefix of the records -/
theorem group_prefix (fs1 fs2 : List Frame) (init : List Frame) (last : Frame)
    (h1 : fs1 = init ++ [last]) (hl : last.isCommit = true) :
    (groupFrames fs1 [] []).1 <+: (groupFrames (fs1 ++ fs2) [] []).1 ∧ (groupFrames fs1 [] []).2 = [] := by
  exact Proofs.Wal.group_prefix fs1 fs2 init last h1 hl

end SqliteDissect.Properties.C02
