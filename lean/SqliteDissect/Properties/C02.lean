import SqliteDissect.Model.Wal
namespace SqliteDissect.Properties.C02
end SqliteDissect.Properties.C02
