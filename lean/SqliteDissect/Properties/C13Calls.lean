/-
C13 — "opening … through the convenience constructors … all yield identical versions": the argument
forwarding of every call of a parser constructor in the library, decided over the table regenerated
from the source on every run (harness/translate/callsites.py → Generated/CallSites.lean).

The rule: an argument that is a plain variable carrying the name of one of the callee's parameters
is bound to that parameter.  It is what `interface.create_database` violated in the pinned tree
(finding F10: `Database(file_identifier, store_in_memory, strict_format_checking)` bound
`strict_format_checking` to the parameter `file_size`), and it is checked here for all callers at
once, before any input is generated.
-/
import SqliteDissect.Generated.CallSites

namespace SqliteDissect.Properties.C13Calls
open SqliteDissect.Generated

/-- every plain-variable argument named like a parameter of the callee is bound to that parameter -/
def forwardsByName (c : CtorCall) : Bool :=
  c.binds.all fun b => b.argVar = "" || !(c.params.contains b.argVar) || b.argVar == b.param

/-- every bound parameter is a parameter of the callee, and none is bound twice -/
def wellFormed (c : CtorCall) : Bool :=
  c.binds.all (fun b => c.params.contains b.param) && decide ((c.binds.map (·.param)).Nodup)

theorem forwarding_by_name : ctorCalls.all forwardsByName = true := by decide +kernel

theorem bindings_well_formed : ctorCalls.all wellFormed = true := by decide +kernel

/-- the convenience constructors of `interface.py` forward each of their parameters to the parameter
of the same name — none is dropped, none is moved -/
theorem interface_helpers_forward :
    (ctorCalls.filter fun c => c.file = "sqlite_dissect/interface.py" ∧
        (c.function = "create_database" ∨ c.function = "create_write_ahead_log" ∨ c.function = "create_version_history")).map
      (fun c => (c.function, c.callee, c.binds.map fun b => (b.param, b.argVar))) =
    [("create_database", "Database",
        [("file_identifier", "file_identifier"), ("store_in_memory", "store_in_memory"),
         ("strict_format_checking", "strict_format_checking")]),
     ("create_write_ahead_log", "WriteAheadLog", [("file_identifier", "file_identifier")]),
     ("create_version_history", "VersionHistory", [("database", "database"), ("write_ahead_log", "write_ahead_log")])] := by
  decide +kernel

/-- every file-type class hands its own identifier and size on to `FileHandle` -/
theorem file_handles_get_identifier_and_size :
    (ctorCalls.filter fun c => c.callee = "FileHandle").all (fun c =>
      (c.binds.map (·.param)) = ["file_type", "file_identifier", "file_size"] &&
      (c.binds.map (·.argVar)).drop 2 = ["file_size"]) = true := by
  decide +kernel

/-! non-vacuity and sharpness: the rule rejects the call of the pinned tree (F10) -/
private def f10 : CtorCall :=
  { file := "sqlite_dissect/interface.py", function := "create_database", callee := "Database",
    params := ["file_identifier", "store_in_memory", "file_size", "strict_format_checking"],
    binds := [⟨"file_identifier", "file_identifier", "file_identifier"⟩, ⟨"store_in_memory", "store_in_memory", "store_in_memory"⟩,
              ⟨"file_size", "strict_format_checking", "strict_format_checking"⟩] }

example : forwardsByName f10 = false := by decide +kernel
example : ctorCalls.length ≥ 30 := by decide +kernel

end SqliteDissect.Properties.C13Calls
