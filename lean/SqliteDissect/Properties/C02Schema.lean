/-
C02, schema level — what a version of a WAL history reports as its schema.  A commit record that
did not modify the schema re-parses page 1 under itself (`C01Schema.observed_schema_unmodified`);
one that did parses page 1's tree and the master schema in its constructor (with the configured
number of frames) and stores the result.  Here: the stored result *is* the parse of the version's
own page-1 tree, and — joined with `C01Schema.schema_rows` and `C02Rows.version_tree_eq_snapshot_tree`
— the entries version `k` reports are the schema rows stored in SQLite's snapshot after commit `k`.
-/
import SqliteDissect.Proofs.CommitSchema
import SqliteDissect.Proofs.CommitSchemaDemo
import SqliteDissect.Properties.C01Schema

namespace SqliteDissect.Properties.C02Schema
open SqliteDissect SqliteDissect.Model
open SqliteDissect.Spec (CellSpec Elementwise TTree TreeLaidOut NodeReported SchemaEntry StoredSchemaRows
  schemaOrder schemaRoots snapshotIf)

/-- what `WriteAheadLogCommitRecord.__init__` stores as root page and master schema: the parse of
page 1 under the record's own interface when it found the schema modified, the previous ones
otherwise -/
theorem commit_record_schema (cfg : Config) (dbv : VersionIf) (wal : Wal) (number : Nat) (frames : List Frame)
    (prev : Version) (lastHdr : DbHeader) (lastSchema : MasterSchema) (lastRoot : List BPage) (enc : Nat)
    (ver : Version) (v : VersionIf)
    (h : makeCommitRecord cfg dbv wal number frames prev lastHdr lastSchema lastRoot enc = .ok (ver, v)) :
    (ver.schemaModified = true →
      getBTreeRoot v cfg.frames 1 = .ok ver.rootTree ∧
      parseMasterSchema v ver.encoding ver.rootTree = .ok ver.schema) ∧
    (ver.schemaModified = false → ver.rootTree = lastRoot ∧ ver.schema = lastSchema) := by
  exact Proofs.CommitSchema.commit_record_schema cfg dbv wal number frames prev lastHdr lastSchema lastRoot enc ver v h

/-- **observed_schema_modified.**  For every version `(ver, v)` of an accepted history whose
schema-modified flag is set, what the version reports as its schema is the parse of its own page-1
tree: `get_b_tree_root_page(1)` under `v` with the configured frames gives the stored root tree,
`MasterSchema.__init__` on it with the version's encoding gives the stored schema, and that pair is
what `observedSchema` returns.  (`hdb0`: version 0 is the database file, whose flag is always set;
its root tree and schema are whatever `db` holds — they are the parse of page 1 when `db` comes from
`openDatabase` with the same configuration: `database_schema_is_parse`.) -/
theorem observed_schema_modified (cfg : Config) (db : Database) (dbv : VersionIf) (w : Wal)
    (vs : List (Version × VersionIf)) (h : versionHistory cfg db dbv (some w) = .ok vs)
    (k : Nat) (ver : Version) (v : VersionIf) (hk : vs[k]? = some (ver, v))
    (hm : ver.schemaModified = true)
    (hdb0 : k = 0 → getBTreeRoot dbv cfg.frames 1 = .ok db.rootTree ∧
      parseMasterSchema dbv db.encoding db.rootTree = .ok db.schema) :
    getBTreeRoot v cfg.frames 1 = .ok ver.rootTree ∧
    parseMasterSchema v ver.encoding ver.rootTree = .ok ver.schema ∧
    observedSchema ver v cfg.frames = .ok (ver.rootTree, ver.schema) := by
  exact Proofs.CommitSchema.observed_schema_modified cfg db dbv w vs h k ver v hk hm hdb0

/-- the `hdb0` of `observed_schema_modified` holds of what `openDatabase` returns -/
theorem database_schema_is_parse (cfg : Config) (file : Buf) (db : Database) (dbv : VersionIf)
    (h : openDatabase cfg file = .ok (db, dbv)) :
    getBTreeRoot dbv cfg.frames 1 = .ok db.rootTree ∧
    parseMasterSchema dbv db.encoding db.rootTree = .ok db.schema := by
  exact Proofs.CommitSchema.openDatabase_schema cfg file db dbv h

/-- **C02 + C01, schema level.**  The schema version `k` of an accepted history reports
(`observedSchema`: stored for the database file and for a schema-modifying commit record, re-parsed
otherwise) consists of the schema rows stored in SQLite's snapshot after commit `k`: a table b-tree
rooted at page 1 laid out in the snapshot whose leaf cells are the rows `es` is reported as the
entries `schemaOrder es` field by field, with the root page numbers `schemaRoots es` and the pages of
the tree.  Hypotheses as in `C01Schema.schema_rows` (for the version's text encoding) and
`C02Rows.version_rows`; `hf`: the configured frames suffice for the schema b-tree. -/
theorem version_schema_rows (cfg : Config) (db : Database) (dbv : VersionIf) (w : Wal)
    (vs : List (Version × VersionIf)) (h : versionHistory cfg db dbv (some w) = .ok vs)
    (k : Nat) (ver : Version) (v : VersionIf) (hk : vs[k]? = some (ver, v))
    (hdb0 : k = 0 → ∃ f, dbv = dbVersionIf cfg w.hdr.pageSize db.dbSize f)
    (hdb0s : k = 0 → getBTreeRoot dbv cfg.frames 1 = .ok db.rootTree ∧
      parseMasterSchema dbv db.encoding db.rootTree = .ok db.schema)
    (hu : 512 ≤ w.hdr.pageSize) (hu2 : w.hdr.pageSize ≤ 65536)
    (henc : ver.encoding = 1 ∨ ver.encoding = 2 ∨ ver.encoding = 3)
    (Ts : TTree) (hp1 : Ts.page = 1)
    (hT : TreeLaidOut (snapshotIf cfg.strict dbv db.dbSize.floor w.fh w.hdr.pageSize
      (groupFrames w.frames [] []).1 k) true Ts)
    (hf : Ts.frames ≤ cfg.frames) (hpd : Ts.PagesDistinct)
    (hleaf : ∀ nd ∈ Ts.nodes true, nd.2.1.isInterior = false → nd.2.2 = [] → nd.1 = 1)
    (es : List SchemaEntry) (hes : StoredSchemaRows ver.encoding Ts.leafCells es) (hne : es ≠ [])
    (hwf : ∀ e ∈ es, e.WellFormed) (hsup : ∀ e ∈ es, e.Supported) :
    ∃ t ms, observedSchema ver v cfg.frames = .ok (t, ms) ∧
      Elementwise (NodeReported w.hdr.pageSize) (Ts.nodes true) t ∧
      Elementwise SchemaEntry.ReportedAs (schemaOrder es) ms.entries ∧
      ms.rootNumbers = schemaRoots es ∧ ms.pages = treePageNumbers t ∧
      (ver.schemaModified = true → t = ver.rootTree ∧ ms = ver.schema) := by
  exact Proofs.CommitSchema.version_schema_rows cfg db dbv w vs h k ver v hk hdb0 hdb0s hu hu2 henc Ts hp1 hT hf
    hpd hleaf es hes hne hwf hsup

/-! ### non-vacuity: the pair of Proofs/CommitSchemaDemo.lean, whose commit rewrites page 1 -/

open Proofs.CommitSchemaDemo in
/-- the hypotheses of `observed_schema_modified` are jointly satisfiable for a commit record
(`k = 1`) that modified the schema, and its conclusion names the new schema: table `t` and the
trigger `t` (version 0 reported table `x`) -/
example : ∃ db dbv w vs ver v, openDatabase {} dbFile = .ok (db, dbv) ∧ openWal none walFile = .ok w ∧
    versionHistory {} db dbv (some w) = .ok vs ∧ vs[1]? = some (ver, v) ∧ ver.schemaModified = true ∧
    getBTreeRoot v ({} : Config).frames 1 = .ok ver.rootTree ∧
    parseMasterSchema v ver.encoding ver.rootTree = .ok ver.schema ∧
    ver.schema.entries.map SchemaRow.name = [[116], [116]] := by
  obtain ⟨db, dbv, w, a, ver, v, h1, h2, h3, hm, hn⟩ := demo_history {} observe_default
  obtain ⟨c1, c2, -⟩ := observed_schema_modified {} db dbv w _ h3 1 ver v rfl hm (fun h => nomatch h)
  exact ⟨db, dbv, w, _, ver, v, h1, h2, h3, rfl, hm, c1, c2, hn⟩

open Proofs.CommitSchemaDemo Proofs.SchemaRows.Demo in
/-- the hypotheses of `version_schema_rows` are jointly satisfiable for that commit record: the
schema tree (one leaf, page 1, the rows of table `t` and of the trigger) is laid out in the
snapshot after commit 1, and the version's stored schema consists of exactly these rows -/
example : ∃ db dbv w vs ver v, openDatabase {} dbFile = .ok (db, dbv) ∧ openWal none walFile = .ok w ∧
    versionHistory {} db dbv (some w) = .ok vs ∧ vs[1]? = some (ver, v) ∧ ver.schemaModified = true ∧
    TreeLaidOut (snapshotIf true dbv db.dbSize.floor w.fh w.hdr.pageSize (groupFrames w.frames [] []).1 1)
      true schemaTreeC ∧
    observedSchema ver v ({} : Config).frames = .ok (ver.rootTree, ver.schema) ∧
    Elementwise SchemaEntry.ReportedAs (schemaOrder [entryT, entryTrig]) ver.schema.entries ∧
    ver.schema.rootNumbers = schemaRoots [entryT, entryTrig] :=
  Proofs.CommitSchemaDemo.demo_version_schema_rows

end SqliteDissect.Properties.C02Schema
