/-
C03, first sentence, over the whole iteration: "Iterating a table's version history reports for
each commit the rows added, updated and deleted such that replaying those reports in order from an
empty table reproduces exactly SQLite's contents of the table after every commit."

Vocabulary (Proofs/HistoryReplay.lean).  `indexOf vs id` is the root index `iterateEntry` folds
over; `resolve vs kr` the (version, interface, root page) the fold looks up for an entry — a
`Step`; `cellsAt frames s` the digest-keyed dictionary `aggregate_leaf_cells` yields on the parse
of the step's root under the step's version ("the true rows of that version"); `replay cs` folds
`applyCommit` over reports from the empty table.  `ChainOK` asks `SkipOK` of every two
consecutive steps: *if* both have the same root and no page of the earlier tree is in the later
version's `updatedBTree`, the later parse equals the earlier tree.  `skipOK_wal` /
`skipOK_wal_first` reduce that, for commit records of the WAL model, to: the later re-read succeeds
and its pages avoid page 1, the schema pages, the freelist and the pointer-map pages of the later
version.
-/
import SqliteDissect.Proofs.HistoryReplay

namespace SqliteDissect.Properties.C03Replay
open SqliteDissect SqliteDissect.Model SqliteDissect.Properties.C03
open SqliteDissect.Proofs.TreeFrame (Agree Coherent)
open SqliteDissect.Proofs.HistoryReplay

/-- After processing position `j` of the root index the iterator holds exactly the true state of
that version: the cells and the page numbers of the parse of its root under its interface — also
when the step skipped the re-read. -/
theorem iterate_invariant (frames : Nat) (isTable : Bool) (vs : List (Version × VersionIf)) (id : EntryIdent)
    (commits : List Commit) (h : iterateEntry frames isTable vs id = .ok commits)
    (hc : ChainOK frames none (stepsOf vs (indexOf vs id))) :
    commits.length = (indexOf vs id).length ∧
    ∀ j (hj : j < (indexOf vs id).length), ∃ s cs st pr t,
      resolve vs (indexOf vs id)[j] = some s ∧
      iterFold frames isTable vs ((indexOf vs id).take (j + 1)) = .ok (cs, st, pr) ∧
      cs = commits.take (j + 1) ∧
      getBTreeRoot s.2.1 frames s.2.2 = .ok t ∧
      st.currentCells = (aggregateLeafCells t []).2.1 ∧
      st.currentPages = treeAllPageNumbers t ∧ pr = some s.2.2 := by
  exact Proofs.HistoryReplay.iterate_invariant frames isTable vs id commits h hc

/-- `iterateEntry` is the fold `iterFold` over `indexOf` -/
theorem iterateEntry_is_fold (frames : Nat) (isTable : Bool) (vs : List (Version × VersionIf)) (id : EntryIdent) :
    iterateEntry frames isTable vs id = (do
      let r ← iterFold frames isTable vs (indexOf vs id)
      pure r.1) := by
  exact Proofs.HistoryReplay.iterateEntry_eq frames isTable vs id

/-- Every commit's report is the `diffCells` of the true dictionaries of two consecutive versions
(of the empty dictionary and the first version at position 0), skipped steps included. -/
theorem commit_is_diff (frames : Nat) (isTable : Bool) (vs : List (Version × VersionIf)) (id : EntryIdent)
    (commits : List Commit) (h : iterateEntry frames isTable vs id = .ok commits)
    (hc : ChainOK frames none (stepsOf vs (indexOf vs id))) :
    ∀ j (hj : j < (indexOf vs id).length), ∃ s c,
      resolve vs (indexOf vs id)[j] = some s ∧ commits[j]? = some c ∧
      c.added = (diffCells isTable (curBefore frames vs (indexOf vs id) j) (cellsAt frames s)).1 ∧
      c.updated = (diffCells isTable (curBefore frames vs (indexOf vs id) j) (cellsAt frames s)).2.1 ∧
      c.deleted = (diffCells isTable (curBefore frames vs (indexOf vs id) j) (cellsAt frames s)).2.2 ∧
      (c.bTreeUpdated = false → cellsAt frames s = curBefore frames vs (indexOf vs id) j) := by
  exact Proofs.HistoryReplay.commit_is_diff frames isTable vs id commits h hc

theorem curBefore_zero (frames : Nat) (vs : List (Version × VersionIf)) (idx : List (Nat × Val)) :
    curBefore frames vs idx 0 = [] := by
  exact Proofs.HistoryReplay.curBefore_zero frames vs idx

theorem curBefore_succ (frames : Nat) (vs : List (Version × VersionIf)) (idx : List (Nat × Val)) (j : Nat)
    (hj : j < idx.length) (a : Step) (ha : resolve vs idx[j] = some a) :
    curBefore frames vs idx (j + 1) = cellsAt frames a := by
  exact Proofs.HistoryReplay.curBefore_succ frames vs idx j hj a ha

/-- One commit, clean form: when equal digests mean equal cells, replaying the report on the
previous table gives exactly the new table. -/
theorem replay_step_clean (cur cells : List (List Nat × Cell)) (hc : DictOK cur) (hn : DictOK cells)
    (heq : ∀ e1 ∈ cur, ∀ e2 ∈ cells, e1.1 = e2.1 → e1.2 = e2.2) (r : Int) :
    applyCommit (stateOf cur) (diffCells true cur cells).1 (diffCells true cur cells).2.1
        (diffCells true cur cells).2.2 r = stateOf cells r := by
  exact Proofs.HistoryReplay.replay_step_clean cur cells hc hn heq r

/-- One commit, without that hypothesis (only: equal digests carry equal rowids): the new table up
to the cells' stored bytes.  (A `Cell` also records where it lies — page index, offsets — and an
unchanged row whose cell moved keeps its old `Cell` in the replayed table.) -/
theorem replay_step_digest (cur cells : List (List Nat × Cell)) (hc : DictOK cur) (hn : DictOK cells)
    (hd : ∀ e1 ∈ cur, ∀ e2 ∈ cells, e1.1 = e2.1 → e1.2.rowid = e2.2.rowid) (r : Int) :
    (applyCommit (stateOf cur) (diffCells true cur cells).1 (diffCells true cur cells).2.1
        (diffCells true cur cells).2.2 r).map Cell.digest = (stateOf cells r).map Cell.digest := by
  exact Proofs.HistoryReplay.replay_step_digest cur cells hc hn hd r

/-- Replaying the first `j + 1` reports from the empty table gives, for every rowid, the stored
bytes of that row in version `j` — for every `j`. -/
theorem history_replay (frames : Nat) (vs : List (Version × VersionIf))
    (id : EntryIdent) (commits : List Commit) (h : iterateEntry frames true vs id = .ok commits)
    (hc : ChainOK frames none (stepsOf vs (indexOf vs id)))
    (hdict : ∀ s ∈ stepsOf vs (indexOf vs id), DictOK (cellsAt frames s))
    (hrow : ∀ a ∈ stepsOf vs (indexOf vs id), ∀ b ∈ stepsOf vs (indexOf vs id),
      ∀ e1 ∈ cellsAt frames a, ∀ e2 ∈ cellsAt frames b, e1.1 = e2.1 → e1.2.rowid = e2.2.rowid) :
    ∀ j (hj : j < (indexOf vs id).length), ∃ s, resolve vs (indexOf vs id)[j] = some s ∧
      ∀ r, (replay (commits.take (j + 1)) r).map Cell.digest =
        (stateOf (cellsAt frames s) r).map Cell.digest := by
  exact Proofs.HistoryReplay.history_replay frames vs id commits h hc hdict hrow

/-- the same through any projection of cells that equal digests determine -/
theorem history_replay_proj {α : Type} (f : Cell → α) (frames : Nat) (vs : List (Version × VersionIf))
    (id : EntryIdent) (commits : List Commit) (h : iterateEntry frames true vs id = .ok commits)
    (hc : ChainOK frames none (stepsOf vs (indexOf vs id)))
    (hdict : ∀ s ∈ stepsOf vs (indexOf vs id), DictOK (cellsAt frames s))
    (hcomp : ∀ a ∈ stepsOf vs (indexOf vs id), ∀ b ∈ stepsOf vs (indexOf vs id),
      Compat f (cellsAt frames a) (cellsAt frames b)) :
    ∀ j (hj : j < (indexOf vs id).length), ∃ s, resolve vs (indexOf vs id)[j] = some s ∧
      ∀ r, (replay (commits.take (j + 1)) r).map f = (stateOf (cellsAt frames s) r).map f := by
  exact Proofs.HistoryReplay.history_replay_proj f frames vs id commits h hc hdict hcomp

/-- exactly, when equal digests mean equal cells -/
theorem history_replay_exact (frames : Nat) (vs : List (Version × VersionIf))
    (id : EntryIdent) (commits : List Commit) (h : iterateEntry frames true vs id = .ok commits)
    (hc : ChainOK frames none (stepsOf vs (indexOf vs id)))
    (hdict : ∀ s ∈ stepsOf vs (indexOf vs id), DictOK (cellsAt frames s))
    (heq : ∀ a ∈ stepsOf vs (indexOf vs id), ∀ b ∈ stepsOf vs (indexOf vs id),
      ∀ e1 ∈ cellsAt frames a, ∀ e2 ∈ cellsAt frames b, e1.1 = e2.1 → e1.2 = e2.2) :
    ∀ j (hj : j < (indexOf vs id).length), ∃ s, resolve vs (indexOf vs id)[j] = some s ∧
      ∀ r, replay (commits.take (j + 1)) r = stateOf (cellsAt frames s) r := by
  exact Proofs.HistoryReplay.history_replay_exact frames vs id commits h hc hdict heq

/-- A row whose stored bytes (digest) are in the dictionaries of both consecutive versions is in
none of added / updated / deleted of that commit. -/
theorem unchanged_not_reported (frames : Nat) (vs : List (Version × VersionIf)) (id : EntryIdent)
    (commits : List Commit) (h : iterateEntry frames true vs id = .ok commits)
    (hc : ChainOK frames none (stepsOf vs (indexOf vs id)))
    (j : Nat) (hj : j < (indexOf vs id).length) (s : Step) (c : Commit)
    (hs : resolve vs (indexOf vs id)[j] = some s) (hcj : commits[j]? = some c)
    (hk : ∀ e ∈ curBefore frames vs (indexOf vs id) j, e.1 = e.2.digest)
    (hn : DictOK (cellsAt frames s))
    (e1 : List Nat × Cell) (he1 : e1 ∈ curBefore frames vs (indexOf vs id) j)
    (e2 : List Nat × Cell) (he2 : e2 ∈ cellsAt frames s) (hkey : e1.1 = e2.1) :
    ∀ x ∈ c.added ++ c.updated ++ c.deleted, x.digest ≠ e1.1 := by
  exact Proofs.HistoryReplay.unchanged_not_reported frames vs id commits h hc j hj s c hs hcj hk hn e1 he1 e2 he2 hkey

/-- consecutive entries of the root index carry consecutive version numbers, so consecutive
steps are consecutive versions of the history -/
theorem index_consecutive (vs : List (Version × VersionIf)) (id : EntryIdent) :
    ∀ i a b, (indexOf vs id)[i]? = some a → (indexOf vs id)[i + 1]? = some b → a.1 + 1 = b.1 := by
  exact Proofs.HistoryReplay.indexOf_consec vs id

/-! ### where `SkipOK` comes from -/

theorem skipOK_of_lockstep (frames : Nat) (a b : Step)
    (hps : a.2.1.pageSize = b.2.1.pageSize) (hst : a.2.1.strict = b.2.1.strict)
    (hca : Coherent a.2.1) (hcb : Coherent b.2.1) (W NonB : List Nat)
    (hW : ∀ p, p ∈ W → p ∉ NonB → p ∈ b.1.updatedBTree)
    (t' : List BPage) (hnext : getBTreeRoot b.2.1 frames b.2.2 = .ok t')
    (hnew : ∀ p ∈ treeAllPageNumbers t', p ∉ NonB)
    (hag : ∀ t, getBTreeRoot a.2.1 frames a.2.2 = .ok t → ∀ p ∈ treeAllPageNumbers t,
      p ∈ treeAllPageNumbers t' → p ∉ W → Agree a.2.1 b.2.1 p) :
    SkipOK frames a b := by
  exact Proofs.HistoryReplay.skipOK_of_lockstep frames a b hps hst hca hcb W NonB hW t' hnext hnew hag

theorem skipOK_wal (cfg : Config) (dbv : VersionIf) (wal : Wal) (number : Nat)
    (frames0 frames1 : List Frame) (pprev prev ver : Version) (v v' : VersionIf)
    (lh0 lh1 : DbHeader) (ls0 ls1 : MasterSchema) (lr0 lr1 : List BPage) (enc0 enc1 : Nat)
    (hmk0 : makeCommitRecord cfg dbv wal number frames0 pprev lh0 ls0 lr0 enc0 = .ok (prev, v))
    (hmk1 : makeCommitRecord cfg dbv wal (number + 1) frames1 prev lh1 ls1 lr1 enc1 = .ok (ver, v'))
    (hdb : Coherent dbv) (fr root root' : Nat)
    (hre : root = root' → ∃ t', getBTreeRoot v' fr root' = .ok t' ∧
      ∀ p ∈ treeAllPageNumbers t', p ≠ 1 ∧ (∀ pn ∈ ver.schema.pages, pn.1 ≠ p) ∧
        p ∉ ver.freelistNumbers ∧ p ∉ ver.ptrmap.map (·.number)) :
    SkipOK fr (prev, v, root) (ver, v', root') := by
  exact Proofs.HistoryReplay.skipOK_wal cfg dbv wal number frames0 frames1 pprev prev ver v v' lh0 lh1 ls0 ls1
    lr0 lr1 enc0 enc1 hmk0 hmk1 hdb fr root root' hre

theorem skipOK_wal_first (cfg : Config) (ps : Nat) (dsize : DbSize) (f : FileH) (wal : Wal)
    (hwps : wal.hdr.pageSize = ps)
    (frames1 : List Frame) (prev ver : Version) (v' : VersionIf)
    (lh1 : DbHeader) (ls1 : MasterSchema) (lr1 : List BPage) (enc1 : Nat)
    (hbase : prev.pvi = (List.range dsize.floor).map fun i => (i + 1, 0))
    (hmk1 : makeCommitRecord cfg (dbVersionIf cfg ps dsize f) wal 1 frames1 prev lh1 ls1 lr1 enc1 = .ok (ver, v'))
    (fr root root' : Nat)
    (hre : root = root' → ∃ t', getBTreeRoot v' fr root' = .ok t' ∧
      ∀ p ∈ treeAllPageNumbers t', p ≠ 1 ∧ (∀ pn ∈ ver.schema.pages, pn.1 ≠ p) ∧
        p ∉ ver.freelistNumbers ∧ p ∉ ver.ptrmap.map (·.number)) :
    SkipOK fr (prev, dbVersionIf cfg ps dsize f, root) (ver, v', root') := by
  exact Proofs.HistoryReplay.skipOK_wal_first cfg ps dsize f wal hwps frames1 prev ver v' lh1 ls1 lr1 enc1
    hbase hmk1 fr root root' hre

/-! ### non-vacuity: three versions of a one-row table (page 2).  Version 0 holds rowid 1 ↦ 7,
version 1 rewrote page 2 (rowid 1 ↦ 8), version 2 wrote only page 3 (not a b-tree page): the
third step skips.  Reports: added [1 ↦ 7]; updated [1 ↦ 8]; nothing. -/

/-- a 64-byte table leaf page with one row: rowid 1, one INTEGER column holding `val` -/
def rowPage (val : Nat) : Buf :=
  Buf.ofList ([13, 0, 0, 0, 1, 0, 59, 0, 0, 59] ++ List.replicate 49 0 ++ [3, 1, 2, 1, val])

def rIf (val : Nat) (alsoThree : Bool) : VersionIf :=
  { pageSize := 64, versionNumber := 0, strict := true,
    getData := fun p off n =>
      if p = 2 ∨ (alsoThree ∧ p = 3) then
        match n with
        | none => .ok (rowPage val)
        | some k => .ok ((rowPage val).slice off (off + k))
      else .error .keyError,
    pageVersion := fun p => if p = 2 ∨ (alsoThree ∧ p = 3) then .ok 0 else .error .keyError,
    pageOffset := fun p => if p = 2 ∨ (alsoThree ∧ p = 3) then .ok 64 else .error .keyError }

def exId : EntryIdent := ⟨1, "table", [116], [116], none⟩

def exSchema : MasterSchema :=
  { entries := [{ rowid := 1, rowType := "table", name := [116], tableName := [116], rootPage := .int 2,
                  sql := none, leafPage := 1, digest := [] }],
    pages := [(1, "B_TREE_TABLE_LEAF")], rootNumbers := [2] }

def exVersion (n : Nat) (ubt : List Nat) : Version :=
  { number := n, pageSize := 64, dbSize := 3, sizeExact := true, updated := [], pvi := [], pfi := [],
    hdr := default, schema := exSchema, rootTree := [], encoding := 1, hdrModified := false,
    rootModified := false, schemaModified := false, freelistModified := false, ptrmapModified := false,
    freelist := [], freelistNumbers := [], ptrmap := [], updatedBTree := ubt, committed := true, flags := {} }

def exVs : List (Version × VersionIf) :=
  [(exVersion 0 [2], rIf 7 false), (exVersion 1 [2], rIf 8 false), (exVersion 2 [], rIf 8 true)]

theorem exIdx : indexOf exVs exId = [(0, .int 2), (1, .int 2), (2, .int 2)] := by decide +kernel

theorem exSteps : stepsOf exVs (indexOf exVs exId) =
    [(exVersion 0 [2], rIf 7 false, 2), (exVersion 1 [2], rIf 8 false, 2), (exVersion 2 [], rIf 8 true, 2)] := by
  rw [exIdx]; rfl

theorem exOk : (iterateEntry 5 true exVs exId).isOk = true := by decide +kernel


def exCommits : List Commit :=
  match iterateEntry 5 true exVs exId with
  | .ok cs => cs
  | .error _ => []

theorem exRun : iterateEntry 5 true exVs exId = .ok exCommits := by
  have h := exOk
  unfold exCommits
  cases hr : iterateEntry 5 true exVs exId with
  | ok t => rfl
  | error e => rw [hr] at h; exact nomatch h

theorem exReports :
    exCommits.map (fun c => (c.added.map Cell.digest, c.updated.map Cell.digest, c.deleted.map Cell.digest,
      c.bTreeUpdated)) =
    [([[3, 1, 2, 1, 7]], [], [], true), ([], [[3, 1, 2, 1, 8]], [], true), ([], [], [], false)] := by
  decide +kernel

def exTree (val : Nat) : List BPage :=
  match getBTreeRoot (rIf val false) 5 2 with
  | .ok t => t
  | .error _ => []

theorem exTreeOk (val : Nat) (hv : val = 7 ∨ val = 8) : getBTreeRoot (rIf val false) 5 2 = .ok (exTree val) := by
  have h : (getBTreeRoot (rIf val false) 5 2).isOk = true := by
    rcases hv with rfl | rfl <;> decide +kernel
  unfold exTree
  cases hr : getBTreeRoot (rIf val false) 5 2 with
  | ok t => rfl
  | error e => rw [hr] at h; exact nomatch h

theorem exChain : ChainOK 5 none (stepsOf exVs (indexOf exVs exId)) := by
  rw [exSteps]
  refine ⟨?_, ?_, trivial⟩
  · -- version 1 rewrote page 2: the premise of `SkipOK` fails
    intro _ t ht hnone
    have ht' : getBTreeRoot (rIf 7 false) 5 2 = .ok t := ht
    rw [exTreeOk 7 (Or.inl rfl)] at ht'
    have e : exTree 7 = t := Except.ok.inj ht'
    subst e
    have : (treeAllPageNumbers (exTree 7)).any (exVersion 1 [2]).updatedBTree.contains = true := by
      decide +kernel
    rw [this] at hnone
    exact nomatch hnone
  · -- version 2 serves page 2 as version 1 does
    intro _ t ht _
    have ht' : getBTreeRoot (rIf 8 false) 5 2 = .ok t := ht
    have ht8 := ht'
    rw [exTreeOk 8 (Or.inr rfl)] at ht'
    have e : exTree 8 = t := Except.ok.inj ht'
    subst e
    refine Proofs.TreeFrame.getBTreeRoot_frame (rIf 8 false) (rIf 8 true) rfl rfl 5 2 _ ht8 ?_
    have hv : Proofs.TreeFrame.visitedPages (exTree 8) = [2] := by decide +kernel
    intro p hp
    rw [hv] at hp
    simp only [List.mem_singleton] at hp
    subst hp
    exact ⟨rfl, rfl, rfl⟩

theorem exDict : ∀ s ∈ stepsOf exVs (indexOf exVs exId),
    DictOK (cellsAt 5 s) ∧ ∀ e ∈ cellsAt 5 s, e.2.rowid = some 1 := by
  intro s hs
  rw [exSteps] at hs
  simp only [List.mem_cons, List.mem_nil_iff, or_false] at hs
  rcases hs with rfl | rfl | rfl <;>
    exact ⟨⟨by decide +kernel, by decide +kernel, by decide +kernel, by decide +kernel⟩, by decide +kernel⟩

/-- all hypotheses of `history_replay` hold for the example -/
example : ∀ j (hj : j < (indexOf exVs exId).length), ∃ s, resolve exVs (indexOf exVs exId)[j] = some s ∧
    ∀ r, (replay (exCommits.take (j + 1)) r).map Cell.digest = (stateOf (cellsAt 5 s) r).map Cell.digest :=
  history_replay 5 exVs exId exCommits exRun exChain (fun s hs => (exDict s hs).1)
    (fun a ha b hb e1 h1 e2 h2 _ => by rw [(exDict a ha).2 e1 h1, (exDict b hb).2 e2 h2])

/-- and the replayed tables are the expected ones -/
example : (replay (exCommits.take 1) 1).map Cell.digest = some [3, 1, 2, 1, 7] ∧
    (replay (exCommits.take 2) 1).map Cell.digest = some [3, 1, 2, 1, 8] ∧
    (replay (exCommits.take 3) 1).map Cell.digest = some [3, 1, 2, 1, 8] ∧
    (replay exCommits 2).map Cell.digest = none := by
  decide +kernel

end SqliteDissect.Properties.C03Replay
