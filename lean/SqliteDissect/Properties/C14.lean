/-
C14 — index and WITHOUT ROWID b-trees decode to exactly SQLite's entries.

The page- and tree-level machinery is shared with C01 (`Properties/C01Tree`); this file states the
three clauses of the property for an index b-tree: all entries (leaf *and* interior cells) are
recovered with their values, in the order in which `get_pages_from_b_tree_page` lists the pages;
the leaf-only listing is a sub-list of them with the same values; the leaf-only listing of a tree
with interior pages is a *proper* part of the entries (so "the listing helpers return a subset"
cannot be strengthened to equality).
-/
import SqliteDissect.Proofs.TreeParse
import SqliteDissect.Proofs.Config
import SqliteDissect.Proofs.TreeDemo

namespace SqliteDissect.Properties.C14
open SqliteDissect SqliteDissect.Model SqliteDissect.Spec

/-- **all entries.**  Every entry of an index / WITHOUT ROWID b-tree laid out as SQLite lays it out
(any depth, overflowing keys included — `CellSpec.Valid` carries the chains — page numbers pairwise
distinct) is found in the pages `get_b_tree_root_page` constructs: the cells of all pages, interior
pages included, carry exactly the stored column values, page by page in construction order. -/
theorem index_entries (v : VersionIf) (hu : 512 ≤ v.pageSize) (hu2 : v.pageSize ≤ 65536)
    (T : TTree) (hT : TreeLaidOut v false T) (fuel : Nat) (hf : T.frames ≤ fuel) (hpd : T.PagesDistinct) :
    ∃ t, getBTreeRoot v fuel T.page = .ok t ∧
      Elementwise (fun s c => CellSpec.ReportedAs v.pageSize s c) T.allCells (t.flatMap (·.cells)) ∧
      (t.flatMap (·.cells)).map Spec.cellRow = T.allCells.map CellSpec.row := by
  obtain ⟨t, h1, h2, h3, _, _⟩ := Proofs.TreeParse.index_tree_entries v hu hu2 T hT fuel hf hpd
  exact ⟨t, h1, h2, h3⟩

/-- **the leaf-only listing** (`aggregate_leaf_cells`, behind `select_all_from_index`): it visits
exactly the entries stored on leaf pages, with the stored values, and these form a sub-list of all
entries of the tree -/
theorem leaf_listing (v : VersionIf) (hu : 512 ≤ v.pageSize) (hu2 : v.pageSize ≤ 65536)
    (T : TTree) (hT : TreeLaidOut v false T) (fuel : Nat) (hf : T.frames ≤ fuel) (hpd : T.PagesDistinct) :
    ∃ t, getBTreeRoot v fuel T.page = .ok t ∧
      (leafCells t).map Spec.cellRow = T.leafCells.map CellSpec.row ∧
      (aggregateLeafCells t []).1 = T.leafCells.length ∧
      (leafCells t).Sublist (t.flatMap (·.cells)) ∧
      ((leafCells t).map Spec.cellRow).Sublist (T.allCells.map CellSpec.row) := by
  obtain ⟨t, h1, _, h3, h4, h5⟩ := Proofs.TreeParse.index_tree_entries v hu hu2 T hT fuel hf hpd
  have hsub := Proofs.Config.leaf_cells_sublist t
  refine ⟨t, h1, ?_, h5, hsub, ?_⟩
  · exact (Proofs.TreeParse.elementwise_map_eq _ CellSpec.row Spec.cellRow
      (fun s c h => (Proofs.TreeParse.reported_row v.pageSize s c h).symm) _ _ h4).symm
  · rw [← h3]
    exact hsub.map _

/-- the listing of an already parsed tree is a sub-list of its cells whatever the tree is -/
theorem leaf_listing_subset (t : List BPage) : (leafCells t).Sublist (t.flatMap (·.cells)) := by
  exact Proofs.Config.leaf_cells_sublist t

/-- the abstract counterpart: the leaf entries are among all entries, and an interior node adds its
own cells' entries to them (index interior cells carry entries), so a tree with a non-empty interior
node has strictly more entries than its leaf listing shows -/
theorem interior_entries_not_listed (p : Nat) (ch : List (TTree × Key)) (rm : TTree) (hne : ch ≠ []) :
    (TTree.interior p ch rm).leafCells.length < (TTree.interior p ch rm).allCells.length := by
  have hl := (Proofs.TreeParse.leafCells_nodes false (TTree.interior p ch rm))
  have ha := (Proofs.TreeParse.allCells_nodes false (TTree.interior p ch rm))
  rw [hl, ha, TTree.nodes]
  have hroot : ((TTree.interior p ch rm).kind false).isInterior = true := by
    simp [TTree.kind, PageType.isInterior]
  have hcells : 0 < ((TTree.interior p ch rm).rootCells).length := by
    simp only [TTree.rootCells, List.length_map]
    exact List.length_pos_iff.mpr hne
  have hle : ∀ l : List (Nat × PageType × List CellSpec),
      (l.flatMap (fun nd => if nd.2.1.isInterior then [] else nd.2.2)).length ≤ (l.flatMap (fun nd => nd.2.2)).length := by
    intro l
    induction l with
    | nil => simp
    | cons a l ih =>
      rw [List.flatMap_cons, List.flatMap_cons, List.length_append, List.length_append]
      by_cases h : a.2.1.isInterior = true
      · rw [if_pos h, List.length_nil]; omega
      · rw [if_neg h]; omega
  have := hle (rm.nodes false ++ (ch.map fun c => c.1.nodes false).flatten)
  rw [List.cons_append, List.flatMap_cons, List.flatMap_cons, List.length_append, List.length_append]
  simp only [hroot, if_true, List.length_nil]
  omega

/-! ### non-vacuity: the index leaf page of `Proofs/TreeDemo` -/

open Proofs.TreeDemo in
example : ∃ pg, parseBTree demoV3 1 7 .indexLeaf = .ok [pg] ∧ (leafCells [pg]).Sublist ([pg].flatMap (·.cells)) := by
  obtain ⟨pg, h, _⟩ := Proofs.TreeDemo.demo_short_cells
  exact ⟨pg, h, leaf_listing_subset [pg]⟩

/-- an interior node with one cell over two one-entry leaves: three entries, two of them listed -/
example : (TTree.interior 2 [(TTree.leaf 3 [.indexLeaf [] []], .entry [] [])] (TTree.leaf 4 [.indexLeaf [] []])).leafCells.length <
    (TTree.interior 2 [(TTree.leaf 3 [.indexLeaf [] []], .entry [] [])] (TTree.leaf 4 [.indexLeaf [] []])).allCells.length :=
  interior_entries_not_listed _ _ _ (by simp)

end SqliteDissect.Properties.C14
