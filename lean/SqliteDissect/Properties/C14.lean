import SqliteDissect.Model.Wal
namespace SqliteDissect.Properties.C14
end SqliteDissect.Properties.C14
