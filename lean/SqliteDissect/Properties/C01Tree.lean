/-
C01 / C14, page and tree level — a b-tree laid out in the file as SQLite lays it out is
constructed by sqlite-dissect into exactly its pages and cells: every live row of a table (every
entry of an index) is recovered with the same rowid and column values, for every page size,
multi-level trees and overflow chains.

Composition: cell level (Properties/C01Cell: varint codec C15 + payload split / overflow chain C16
+ record C01) → page level (`Spec.PageLaidOut`, this file, with the layout check of C06) → tree
level (`Spec.TreeLaidOut`, this file).

Specification used (trusted, validated against files written by SQLite through the executable
checker `Spec.pageLaidOutB`): Spec/PageWrite.lean (`CellSpec`, `PageLayout`, `PageLaidOut`),
Spec/TreeWrite.lean (`TTree`, `TreeLaidOut`, traversal order `TTree.nodes`, frame count
`TTree.frames`).
-/
import SqliteDissect.Proofs.TreeParse
import SqliteDissect.Proofs.PageCheck
import SqliteDissect.Proofs.TreeDemo

namespace SqliteDissect.Properties.C01Tree
open SqliteDissect SqliteDissect.Model
open SqliteDissect.Spec (CellSpec PageLayout PageLaidOut Elementwise TTree TreeLaidOut PageServed
  NodeReported)

/-! ### Stage 1: pages -/

/-- Every cell SQLite can write (any of the four kinds, with or without an overflow chain), stored
at offset `start` of a page, is parsed to what `CellSpec.ReportedAs` says: kind, extent, child
pointer, rowid / key, payload size, overflow pages, record columns and values, digest input. -/
theorem cell_reported (v : VersionIf) (hu : 512 ≤ v.pageSize) (s : CellSpec) (hv : s.Valid v)
    (page : Buf) (bytes : List Nat) (hb : page.toList = bytes) (index start : Nat)
    (hst : Spec.StoredAt bytes start (s.bytes v.pageSize)) :
    ∃ c, parseCellLocal v s.kind page index start = .ok c ∧ c.index = index ∧ c.start = start ∧
      s.ReportedAs v.pageSize c := by
  obtain ⟨c, h1, h2, h3, h4, _⟩ := Proofs.PageParse.cell_reported v hu s hv page bytes hb index start hst
  exact ⟨c, h1, h2, h3, h4⟩

/-- A leaf page (table or index; page 1 with the database header included) whose bytes are laid
out as SQLite lays them out, served by the version `v`, with valid cells whose overflow chains are
laid out in `v`, is constructed — whatever the frames left, as long as there is one — as a single
page holding exactly its cells in pointer-array order, each reported as `CellSpec.ReportedAs`
says, at the offsets of the pointer array, together with its freeblocks.  (Cells shorter than 4
bytes included: `PageLaidOut` gives each cell its 4-byte allocation, see the last example.)
`hn`: only page 1 carries the 100-byte database header. -/
theorem leaf_page_roundtrip (v : VersionIf) (hu : 512 ≤ v.pageSize) (hu2 : v.pageSize ≤ 65536)
    (n : Nat) (bytes : List Nat) (L : PageLayout) (fuel : Nat)
    (hs : Spec.Serves v n bytes) (hl : PageLaidOut v.pageSize bytes L) (hn : L.hoff = 100 → n = 1)
    (hv : ∀ c ∈ L.cells, c.Valid v) (hleaf : L.kind.isInterior = false) :
    ∃ pg, parseBTree v (fuel + 1) n L.kind = .ok [pg] ∧ L.ReportedAs v.pageSize n pg := by
  exact Proofs.PageParse.leaf_page_roundtrip v hu hu2 n bytes L fuel hs hl hn hv hleaf

/-- the table-leaf instance, with the rows spelled out: the (rowid, column values) reported are
the (rowid, column values) stored, in order -/
theorem table_leaf_page_rows (v : VersionIf) (hu : 512 ≤ v.pageSize) (hu2 : v.pageSize ≤ 65536)
    (n : Nat) (bytes : List Nat) (L : PageLayout) (fuel : Nat)
    (hs : Spec.Serves v n bytes) (hl : PageLaidOut v.pageSize bytes L) (hn : L.hoff = 100 → n = 1)
    (hv : ∀ c ∈ L.cells, c.Valid v) (hk : L.kind = .tableLeaf) :
    ∃ pg, parseBTree v (fuel + 1) n .tableLeaf = .ok [pg] ∧ L.ReportedAs v.pageSize n pg ∧
      pg.cells.map Spec.cellRow = L.cells.map CellSpec.row := by
  exact Proofs.TreeParse.table_leaf_page_rows v hu hu2 n bytes L fuel hs hl hn hv hk

/-- the index-leaf instance (index entries, WITHOUT ROWID rows) -/
theorem index_leaf_page_entries (v : VersionIf) (hu : 512 ≤ v.pageSize) (hu2 : v.pageSize ≤ 65536)
    (n : Nat) (bytes : List Nat) (L : PageLayout) (fuel : Nat)
    (hs : Spec.Serves v n bytes) (hl : PageLaidOut v.pageSize bytes L) (hn : L.hoff = 100 → n = 1)
    (hv : ∀ c ∈ L.cells, c.Valid v) (hk : L.kind = .indexLeaf) :
    ∃ pg, parseBTree v (fuel + 1) n .indexLeaf = .ok [pg] ∧ L.ReportedAs v.pageSize n pg ∧
      pg.cells.map Spec.cellRow = L.cells.map CellSpec.row := by
  exact Proofs.TreeParse.index_leaf_page_entries v hu hu2 n bytes L fuel hs hl hn hv hk

/-- Any page, interior pages included: given what the constructions of the children return
(`Descends`: the caller reads the child's first byte, picks the class, has `cost ≤ fuel` frames
left and the child constructor returns `sub`), the page constructor returns the page, the
right-most subtree, then the left subtrees of the cells in cell order. -/
theorem page_roundtrip (v : VersionIf) (hu : 512 ≤ v.pageSize) (hu2 : v.pageSize ≤ 65536)
    (n : Nat) (bytes : List Nat) (L : PageLayout) (fuel : Nat)
    (hs : Spec.Serves v n bytes) (hl : PageLaidOut v.pageSize bytes L) (hn : L.hoff = 100 → n = 1)
    (hv : ∀ c ∈ L.cells, c.Valid v)
    (subs : List (List BPage)) (hsl : subs.length = L.cells.length)
    (hsub : ∀ i (h : i < L.cells.length),
      match L.cells[i].leftChild with
      | some lc => Proofs.PageParse.Descends v fuel cellDescentFrames L.kind.isTable lc (subs[i]'(by omega))
      | none => subs[i]'(by omega) = [])
    (rsub : List BPage)
    (hr : L.kind.isInterior = true →
      Proofs.PageParse.Descends v fuel rightMostDescentFrames L.kind.isTable L.rightMost rsub) :
    ∃ me, parseBTree v (fuel + 1) n L.kind
        = .ok (if L.kind.isInterior then me :: rsub ++ subs.flatten else [me]) ∧
      L.ReportedAs v.pageSize n me := by
  exact Proofs.PageParse.page_parse v hu hu2 n bytes L fuel hs hl hn hv subs hsl hsub rsub hr

/-- the executable checker the harness runs on pages written by SQLite decides `PageLaidOut` -/
theorem pageLaidOutB_iff (u : Nat) (bytes : List Nat) (L : PageLayout) :
    Spec.pageLaidOutB u bytes L = true ↔ PageLaidOut u bytes L := by
  exact Proofs.PageCheck.pageLaidOutB_iff u bytes L

/-! ### Stage 2: trees -/

/-- **Tree round trip.**  A b-tree (table: `table = true`, index: `false`) every node of which is
laid out on its page, given at least `T.frames` stack frames — 1 for a leaf; for an interior node
1 + max (1 + frames of the right-most subtree, 3 + frames of each cell's left subtree):
`rightMostDescentFrames`, `cellDescentFrames` — is constructed into the list of its pages in the
order `T.nodes`: the page, its right-most subtree, then each cell's left subtree in cell order;
every page has its number and type and holds exactly its cells, each reported as its
specification says. -/
theorem tree_roundtrip (v : VersionIf) (hu : 512 ≤ v.pageSize) (hu2 : v.pageSize ≤ 65536) (table : Bool)
    (fuel : Nat) (T : TTree) (hT : TreeLaidOut v table T) (hf : T.frames ≤ fuel) :
    ∃ t, parseBTree v fuel T.page (T.kind table) = .ok t ∧
      Elementwise (NodeReported v.pageSize) (T.nodes table) t := by
  exact Proofs.TreeParse.tree_nodes v hu hu2 table fuel T hT hf

/-- the same for the repaired code, which refuses a page reached twice (`parseBTreeW … []`: the
walk starts with an empty set): a laid-out tree *whose page numbers are pairwise distinct*
(`TTree.PagesDistinct`, true of every b-tree SQLite writes) is constructed into the same list -/
theorem tree_roundtrip_walk (v : VersionIf) (hu : 512 ≤ v.pageSize) (hu2 : v.pageSize ≤ 65536) (table : Bool)
    (fuel : Nat) (T : TTree) (hT : TreeLaidOut v table T) (hf : T.frames ≤ fuel) (hpd : T.PagesDistinct) :
    ∃ t, parseBTreeW v fuel T.page (T.kind table) [] = .ok t ∧
      Elementwise (NodeReported v.pageSize) (T.nodes table) t := by
  exact Proofs.TreeParse.tree_nodes_walk v hu hu2 table fuel T hT hf hpd

/-- `TTree.PagesDistinct` does not depend on the b-tree family it is stated with -/
theorem pagesDistinct_iff (table : Bool) (T : TTree) :
    T.PagesDistinct ↔ ((T.nodes table).map (·.1)).Nodup := by
  exact Proofs.TreeParse.pagesDistinct_iff table T

/-- `Version.get_b_tree_root_page` constructs the root with the class its type byte names (on
page 1: the byte after the database header), starting the walk with an empty set of pages -/
theorem root_dispatch (v : VersionIf) (n : Nat) (L : PageLayout) (hps : PageServed v n L) (fuel : Nat) :
    getBTreeRoot v fuel n = parseBTreeW v fuel n L.kind [] := by
  exact Proofs.TreeParse.root_dispatch v n L hps fuel

/-- the same for the code before the repair -/
theorem root_dispatch_pure (v : VersionIf) (n : Nat) (L : PageLayout) (hps : PageServed v n L) (fuel : Nat) :
    getBTreeRootPure v fuel n = parseBTree v fuel n L.kind := by
  exact Proofs.TreeParse.root_dispatch_pure v n L hps fuel

/-- the leaf cells / all cells of the abstract tree are those of its nodes, in node order: the
order in which `leafCells` (hence `aggregate_leaf_cells`) visits them -/
theorem leafCells_order (table : Bool) (T : TTree) :
    T.leafCells = (T.nodes table).flatMap (fun nd => if nd.2.1.isInterior then [] else nd.2.2) ∧
    T.allCells = (T.nodes table).flatMap (fun nd => nd.2.2) := by
  exact ⟨Proofs.TreeParse.leafCells_nodes table T, Proofs.TreeParse.allCells_nodes table T⟩

/-- `aggregate_leaf_cells` counts every leaf cell, and when the cell digests are pairwise
distinct its dictionary holds every leaf cell, in traversal order (cells with equal digests are
merged: that is the function's purpose) -/
theorem aggregate_spec (pages : List BPage) :
    (aggregateLeafCells pages []).1 = (leafCells pages).length ∧
      (((leafCells pages).map (·.digest)).Nodup →
        (aggregateLeafCells pages []).2.1 = (leafCells pages).map (fun c => (c.digest, c))) := by
  exact Proofs.TreeParse.aggregate_spec pages

/-- **C01.**  Every live row of a table b-tree laid out as SQLite lays it out (rowids pairwise
distinct, as in every table; page numbers pairwise distinct, as in every b-tree — `hpd`: the
repaired code refuses a page reached twice) is recovered by `get_b_tree_root_page` + `aggregate_leaf_cells` with
the same rowid and the same column values: the list of (rowid, columns) reported — by the leaf
pages and by the digest dictionary — is the list stored, in traversal order; none is lost, none is
invented, none is merged. -/
theorem table_tree_rows (v : VersionIf) (hu : 512 ≤ v.pageSize) (hu2 : v.pageSize ≤ 65536)
    (T : TTree) (hT : TreeLaidOut v true T) (fuel : Nat) (hf : T.frames ≤ fuel)
    (hpd : T.PagesDistinct) (hnd : (T.leafCells.map (·.rowid)).Nodup) :
    ∃ t, getBTreeRoot v fuel T.page = .ok t ∧
      Elementwise (fun s c => CellSpec.ReportedAs v.pageSize s c) T.leafCells (leafCells t) ∧
      (leafCells t).map Spec.cellRow = T.leafCells.map CellSpec.row ∧
      (aggregateLeafCells t []).1 = T.leafCells.length ∧
      (aggregateLeafCells t []).2.1.map (fun e => Spec.cellRow e.2) = T.leafCells.map CellSpec.row := by
  exact Proofs.TreeParse.table_tree_rows v hu hu2 T hT fuel hf hpd hnd

/-- **C14.**  Every entry of an index b-tree laid out as SQLite lays it out — the cells of all
pages, interior pages included, since index interior cells carry entries — is recovered with the
same column values; the leaf entries are what `aggregate_leaf_cells` counts. -/
theorem index_tree_entries (v : VersionIf) (hu : 512 ≤ v.pageSize) (hu2 : v.pageSize ≤ 65536)
    (T : TTree) (hT : TreeLaidOut v false T) (fuel : Nat) (hf : T.frames ≤ fuel) (hpd : T.PagesDistinct) :
    ∃ t, getBTreeRoot v fuel T.page = .ok t ∧
      Elementwise (fun s c => CellSpec.ReportedAs v.pageSize s c) T.allCells (t.flatMap (·.cells)) ∧
      (t.flatMap (·.cells)).map Spec.cellRow = T.allCells.map CellSpec.row ∧
      Elementwise (fun s c => CellSpec.ReportedAs v.pageSize s c) T.leafCells (leafCells t) ∧
      (aggregateLeafCells t []).1 = T.leafCells.length := by
  exact Proofs.TreeParse.index_tree_entries v hu hu2 T hT fuel hf hpd

/-! ### non-vacuity

A concrete version interface serving three 512-byte pages: page 2 = table interior page with one
cell (left child 3, key 1) and right-most child 4; page 3 = leaf with the row (1; 7, 'hi');
page 4 = leaf with the rows (2; NULL, '') and (3; 1). -/

open Proofs.TreeDemo in
/-- the leaf page 3 satisfies `PageLaidOut` (decided by the executable checker) -/
example : PageLaidOut 512 (packBytes 512 L3) L3 := Proofs.TreeDemo.demo_page3

open Proofs.TreeDemo in
example : Spec.pageLaidOutB 512 (packBytes 512 L4) L4 = true := by decide +kernel

open Proofs.TreeDemo in
/-- the interior page 2 does too -/
example : PageLaidOut 512 (packBytes 512 L2) L2 := Proofs.TreeDemo.demo_page2

open Proofs.TreeDemo in
/-- the whole tree satisfies `TreeLaidOut`, needs 5 frames, and its page numbers are distinct -/
example : TreeLaidOut demoV true demoTree ∧ demoTree.frames = 5 ∧ demoTree.PagesDistinct :=
  ⟨Proofs.TreeDemo.demo_laid_out, Proofs.TreeDemo.demo_frames, Proofs.TreeDemo.demo_distinct⟩

open Proofs.TreeDemo in
/-- what `tree_roundtrip_walk` yields for it: the pages 2, 4, 3 -/
example : ∃ t, parseBTreeW demoV 5 2 .tableInterior [] = .ok t ∧ t.map (·.number) = [2, 4, 3] := by
  obtain ⟨t, ht, hn⟩ := tree_roundtrip_walk demoV (by decide) (by decide) true 5 demoTree
    Proofs.TreeDemo.demo_laid_out (by rw [Proofs.TreeDemo.demo_frames]; exact Nat.le_refl 5)
    Proofs.TreeDemo.demo_distinct
  refine ⟨t, ht, ?_⟩
  rw [Proofs.TreeParse.reported_numbers _ _ _ hn]
  simp [demoTree, TTree.nodes]

open Proofs.TreeDemo in
/-- what `table_tree_rows` yields for it: the three rows, right-most subtree first -/
example : ∃ t, getBTreeRoot demoV 5 2 = .ok t ∧
    (leafCells t).map Spec.cellRow =
      [(some 2, some [⟨0, 1, 0, .null⟩, ⟨13, 1, 0, .text []⟩]),
       (some 3, some [⟨9, 1, 0, .int 1⟩]),
       (some 1, some [⟨1, 1, 1, .int 7⟩, ⟨17, 1, 2, .text [104, 105]⟩])] ∧
    (aggregateLeafCells t []).1 = 3 := Proofs.TreeDemo.demo_rows

open Proofs.TreeDemo in
/-- the frame count is tight on it: with 4 frames the construction ends in `RecursionError`
(evaluated by the kernel, independently of the theorems) -/
example : (match getBTreeRoot demoV 4 2 with | .error .recursionError => true | _ => false) = true ∧
    (getBTreeRoot demoV 5 2).isOk = true := by decide +kernel

open Proofs.TreeDemo in
/-- overflow: a second version serves leaf page 6 holding row 4 = (600-byte blob), 95 payload bytes
on the page and 508 on overflow page 5; `table_leaf_page_rows` yields the row whole -/
example : ∃ pg, parseBTree demoV2 1 6 .tableLeaf = .ok [pg] ∧
    pg.cells.map Spec.cellRow = [(some 4, some [⟨1212, 2, 600, .blob (List.replicate 600 0xAB)⟩])] ∧
    pg.cells.map (fun c => c.overflowPages.map (·.number)) = [[5]] := Proofs.TreeDemo.demo_overflow_row

open Proofs.TreeDemo in
/-- 3-byte cells: a third version serves the index leaf page 7 (512 bytes, content start 500,
no fragments) holding the cells `[2,2,8]`, `[2,2,9]`, `[2,2,13]` at 508, 504, 500, each followed by
a pad byte 0x17 of its 4-byte allocation (SQLite `cellSizePtr`).  The page satisfies `PageLaidOut`
(by the checker) and `index_leaf_page_entries` recovers the three entries, each cell 3 bytes long. -/
example : L7.cells.map (·.bytes 512) = [[2, 2, 8], [2, 2, 9], [2, 2, 13]] ∧
    page7.drop 500 = [2, 2, 13, 0x17, 2, 2, 9, 0x17, 2, 2, 8, 0x17] ∧
    PageLaidOut 512 page7 L7 ∧
    ∃ pg, parseBTree demoV3 1 7 .indexLeaf = .ok [pg] ∧
      pg.cells.map Spec.cellRow =
        [(none, some [⟨8, 1, 0, .int 0⟩]), (none, some [⟨9, 1, 0, .int 1⟩]),
         (none, some [⟨13, 1, 0, .text []⟩])] ∧
      pg.cells.map (fun c => ((c.start : Int), c.end_)) = [(508, 511), (504, 507), (500, 503)] :=
  ⟨Proofs.TreeDemo.demo_cells7, by decide +kernel, Proofs.TreeDemo.demo_page7,
    Proofs.TreeDemo.demo_short_cells⟩

end SqliteDissect.Properties.C01Tree
