/-
C10 — a table's generated signature admits every live row of that table.

Property theorems only (helper lemmas live in Proofs/Signature.lean and Proofs/Regex.lean).
`Model.Signature.build` mirrors `Signature.__init__` (sqlite_dissect/carving/signature.py),
`Model.Regex.genSignature` / `fullMatch` mirror `generate_signature_regex`
(sqlite_dissect/carving/utilities.py) and Python `re` on the emitted fragment.

Reading guide.  `inp.versions = some vs`: `vs` are the cells of every version the signature was
built from (the versions the code re-parses), each cell = (digest, serial types); `vs.flatten`
are all rows examined.  `DigestFaithful`: equal digests stand for equal cells (md5 is not
modelled).  `inp.kind ≠ .virtualTable`: virtual tables get no signature at all.
-/
import SqliteDissect.Proofs.Signature

namespace SqliteDissect.Properties.C10
open SqliteDissect SqliteDissect.Model SqliteDissect.Model.Signature
open SqliteDissect.Proofs.Signature (DigestFaithful NoLoneEmptyBlob RegexAdmitsFull)

/-- Every serial type of every examined row is in the focused signature of its column. -/
theorem focused_sound (inp : Input) (vs : List (List Rec)) (sig : Sig) (hv : inp.versions = some vs)
    (hk : inp.kind ≠ .virtualTable) (hb : build inp = .ok sig) (hd : DigestFaithful vs.flatten) :
    ∀ r ∈ vs.flatten, ∀ (i : Nat) (t : Int), r.types[i]? = some t →
      ∃ col, sig.focused[i]? = some col ∧ t ∈ col := by
  exact Proofs.Signature.focused_sound inp vs sig hv hk hb hd

/-- … and its class (-2 text, -1 blob, else the type itself) is in the simplified signature. -/
theorem simplified_sound (inp : Input) (vs : List (List Rec)) (sig : Sig) (hv : inp.versions = some vs)
    (hk : inp.kind ≠ .virtualTable) (hb : build inp = .ok sig) (hd : DigestFaithful vs.flatten) :
    ∀ r ∈ vs.flatten, ∀ (i : Nat) (t : Int), r.types[i]? = some t →
      ∃ col, sig.simplified[i]? = some col ∧ serialTypeSignature t ∈ col := by
  exact Proofs.Signature.simplified_sound inp vs sig hv hk hb hd

/-- `unique_records` is the number of distinct digests among the examined cells and
`total_records` the number of examined cells. -/
theorem counts (inp : Input) (vs : List (List Rec)) (sig : Sig) (hv : inp.versions = some vs)
    (hk : inp.kind ≠ .virtualTable) (hb : build inp = .ok sig) :
    sig.unique = (vs.flatten.map (·.digest)).dedup.length ∧ sig.total = vs.flatten.length := by
  exact Proofs.Signature.counts inp vs sig hv hk hb

/-- Per column, both probabilistic signatures are fractions over one non-zero denominator whose
numerators add up to it: the probabilities sum to one exactly. -/
theorem probabilities_sum_one (inp : Input) (vs : List (List Rec)) (sig : Sig) (hv : inp.versions = some vs)
    (hk : inp.kind ≠ .virtualTable) (hb : build inp = .ok sig) :
    ∀ tc ∈ sig.tableCols, tc.count ≠ 0 ∧
      (tc.simplifiedProb.map (·.2.1)).sum = tc.count ∧ (∀ e ∈ tc.simplifiedProb, e.2.2 = tc.count) ∧
      (tc.focusedProb.map (·.2.1)).sum = tc.count ∧ (∀ e ∈ tc.focusedProb, e.2.2 = tc.count) := by
  exact Proofs.Signature.probabilities_sum_one inp vs sig hv hk hb

/-! ### The regular expression

Full statement: for every examined row carrying all the table's columns the pattern generated
from the simplified signature full-matches the row's serial-type header as SQLite writes it
(`Spec.putVarint` of each serial type; serial types below 2^56, the code's documented limit of
eight-byte varints).  It is false of the code: the blob and text alternatives of
`generate_regex_for_simplified_serial_type` are swapped, so a column that lists blobs but no
texts does not admit the empty blob (serial type 12). -/

def FullStatement : Prop := RegexAdmitsFull

theorem regex_admits_counterexample : ¬ FullStatement := by
  exact Proofs.Signature.regex_admits_counterexample

/-- True with the extra hypothesis `NoLoneEmptyBlob`: wherever the row holds serial type 12 the
column's simplified signature also lists -2. -/
theorem regex_admits_partial (inp : Input) (vs : List (List Rec)) (sig : Sig) (hv : inp.versions = some vs)
    (hk : inp.kind ≠ .virtualTable) (hb : build inp = .ok sig) (hd : DigestFaithful vs.flatten)
    (r : Rec) (hr : r ∈ vs.flatten) (hfull : r.types.length = sig.numberOfColumns)
    (h56 : ∀ t ∈ r.types, t < 2 ^ 56) (hlone : NoLoneEmptyBlob sig.simplified r.types) :
    ∃ p, Regex.genSignature sig.simplified false = .ok p ∧
      Regex.fullMatch p (Proofs.Regex.header r.types) = true := by
  exact Proofs.Signature.regex_admits_partial inp vs sig hv hk hb hd r hr hfull h56 hlone

/-- The header the matcher is run on consists of bytes and has SQLite's length. -/
theorem header_bytes (types : List Int) :
    (∀ x ∈ Proofs.Regex.header types, x < 256) ∧
    (Proofs.Regex.header types).length = (types.map fun t => Spec.varintLen t.toNat).sum := by
  exact Proofs.Signature.header_bytes types

/-! ### Tables without rows -/

/-- An ordinary rowid table none of whose parsed versions holds a row gets no table column
signature; carving falls back to the recommended schema signature, one entry per declared
column, each the `recommended_signature` of that column's affinity. -/
theorem schema_fallback (inp : Input) (vs : List (List Rec)) (sig : Sig) (hv : inp.versions = some vs)
    (hk : inp.kind = .ordinary) (hb : build inp = .ok sig) (hempty : vs.flatten = []) :
    sig.tableCols = [] ∧ sig.carvingSignature = sig.recommendedSchema ∧
    sig.numberOfColumns = inp.colAffs.length ∧
    List.Forall₂ (fun a rec => recommended a = .ok rec) inp.colAffs sig.recommendedSchema := by
  exact Proofs.Signature.schema_fallback inp vs sig hv hk hb hempty

/-- … and that recommended signature is consistent with the affinity (datatype3 §3): every
alternative is a class a column of that affinity can hold on disk, the class the affinity
converts to is listed, and the list is not empty. -/
theorem schema_signature_consistent (a : Affinity) (r : List Int) (h : recommended a = .ok r) :
    (∀ t ∈ r, Spec.affinityStores a t = true) ∧ (∀ t ∈ Spec.affinityPrefers a, t ∈ r) ∧ r ≠ [] := by
  exact Proofs.Signature.schema_signature_consistent a r h

/-- `complete_signature` lists exactly the classes the affinity can hold. -/
theorem complete_eq_spec (a : Affinity) (c : List Int) (h : complete a = .ok c) (t : Int) :
    t ∈ c ↔ Spec.affinityStores a t = true := by
  exact Proofs.Signature.complete_eq_spec a c h t

/-! ### Non-vacuity: concrete objects satisfying the hypotheses -/

/-- two versions, a duplicate across versions, text and blob in one column, a two-byte varint -/
def exInput : Input :=
  ⟨.ordinary, [.integer, .text],
   some [[⟨1, [1, 13]⟩, ⟨2, [2, 15]⟩], [⟨1, [1, 13]⟩, ⟨3, [0, 200]⟩]]⟩

example : ∃ sig, build exInput = .ok sig ∧ sig.focused = [[0, 1, 2], [13, 15, 200]] ∧
    sig.simplified = [[0, 1, 2], [-2, -1]] ∧ sig.unique = 3 ∧ sig.total = 4 ∧ sig.numberOfColumns = 2 :=
  ⟨_, rfl, rfl, rfl, rfl, rfl, rfl⟩

example : DigestFaithful ([[⟨1, [1, 13]⟩, ⟨2, [2, 15]⟩], [⟨1, [1, 13]⟩, ⟨3, [0, 200]⟩]] : List (List Rec)).flatten := by
  unfold DigestFaithful
  decide

example : exInput.kind ≠ .virtualTable := by decide

/-- the hypotheses of `regex_admits_partial` hold for the row (0, 200) of the example -/
example : NoLoneEmptyBlob [[0, 1, 2], [-2, -1]] [0, 200] ∧ (∀ t ∈ ([0, 200] : List Int), t < 2 ^ 56) := by
  refine ⟨?_, by decide⟩
  intro i col h
  rcases i with _ | _ | i <;> simp at h

/-- … and the conclusion can be observed on it: header 00 81 48 -/
example : ∃ p, Regex.genSignature [[0, 1, 2], [-2, -1]] false = .ok p ∧
    Regex.fullMatch p (Proofs.Regex.header [0, 200]) = true ∧ Proofs.Regex.header [0, 200] = [0, 0x81, 0x48] :=
  ⟨_, rfl, rfl, rfl⟩

/-- `schema_fallback`: a table whose only parsed version is empty -/
example : ∃ sig, build ⟨.ordinary, [.integer, .text, .blob], some [[]]⟩ = .ok sig ∧
    sig.carvingSignature = [[1, 2, 3, 4, 5, 6, 8, 9], [-2], [-1]] ∧ sig.numberOfColumns = 3 :=
  ⟨_, rfl, rfl, rfl⟩

example : recommended .real = .ok [1, 2, 3, 4, 5, 6, 7, 8, 9] := rfl

/-- the ADD COLUMN shape the code rejects: three declared columns, every row two wide -/
example : build ⟨.ordinary, [.integer, .text, .blob], some [[⟨1, [1, 13]⟩]]⟩ = .error .parseError := rfl

end SqliteDissect.Properties.C10
