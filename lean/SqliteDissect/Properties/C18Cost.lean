/-
C18 (remaining walks) — explicit step bounds, for arbitrary (damaged) input, of the loops of the
pipeline not covered by C06 (freeblock walk), C18 (overflow walk, expected-overflow closed form,
b-tree page constructions) and C18Scan (WAL-index scan): the freelist trunk chain, the pointer-map
pages, the WAL frame loop and the grouping into commit records, the rollback-journal carve loop,
and the b-tree walk as a whole.

Every bound is about an instrumented twin of the model function — defined next to it in the Model
file — whose counter or log survives exceptions ("steps started", the failing step included);
erasing the counter gives the original function (`…_erase`).

What is *not* proportional to the file size, and is not claimed: see `btree_walk_cost`.
-/
import SqliteDissect.Proofs.Cost
import SqliteDissect.Proofs.CostDemo

namespace SqliteDissect.Properties.C18Cost
open SqliteDissect SqliteDissect.Model

/-! ### the counted fold -/

/-- erasing the counter of `foldlMCounted` gives `List.foldlM`; at most one step per element is
started, and all of them when the fold succeeds -/
theorem counted_fold {σ ι : Type} (f : σ → ι → Py σ) (l : List ι) (s : σ) :
    (foldlMCounted f s l).2 = l.foldlM f s ∧ (foldlMCounted f s l).1 ≤ l.length ∧
    ∀ r, (foldlMCounted f s l).2 = .ok r → (foldlMCounted f s l).1 = l.length := by
  exact ⟨Proofs.Cost.foldlMCounted_snd f l s, Proofs.Cost.foldlMCounted_le f l s,
    Proofs.Cost.foldlMCounted_ok f l s⟩

/-! ### 1. the freelist trunk chain (`FreelistTrunkPage.__init__`, recursive over the chain) -/

theorem freelist_erase (v : VersionIf) (fuel n : Nat) :
    (parseFreelistLog v fuel n).2 = parseFreelist v fuel n := by
  exact Proofs.Cost.parseFreelistLog_snd v fuel n

/-- **Freelist.**  With `fuel` stack frames at most `fuel` trunk pages are constructed; on each at
most `pageSize / 4 + 1` leaf-pointer steps are started, whatever leaf count the trunk claims; so at
most `fuel * (pageSize / 4 + 2)` pages are constructed in all — on success and on failure.

This is the one walk of the pipeline whose only bound is the recursion limit: the constructor does
not check that a trunk page was not seen before, so a cyclic chain is followed until the frames run
out (`freelist_cycle` below) — `fuel` page constructions, not "number of pages of the file" many.
With Python's default limit (1000 frames) that is a constant bound, linear in the page size. -/
theorem freelist_cost (v : VersionIf) (fuel n : Nat) :
    (parseFreelistLog v fuel n).1.length ≤ fuel ∧
    (∀ e ∈ (parseFreelistLog v fuel n).1, e.2 ≤ v.pageSize / 4 + 1) ∧
    ((parseFreelistLog v fuel n).1.map fun e => e.2 + 1).sum ≤ fuel * (v.pageSize / 4 + 2) := by
  exact Proofs.Cost.freelist_cost v fuel n

/-- on success the log is the result: one entry per trunk, with the number of its leaves -/
theorem freelist_ok_log (v : VersionIf) (fuel n : Nat) (ts : List FreelistTrunk)
    (h : parseFreelist v fuel n = .ok ts) :
    (parseFreelistLog v fuel n).1 = ts.map fun t => (t.number, t.leaves.length) := by
  exact Proofs.Cost.freelist_ok_log v fuel n ts h

open Proofs.CostDemo in
/-- non-vacuity: trunk 2 (one leaf: page 7) → trunk 3 (no leaf) → end -/
example : parseFreelistLog (stub16 flPages) 10 2 =
    ([(2, 1), (3, 0)], .ok [⟨2, 3, [7], 0⟩, ⟨3, 0, [], 0⟩]) := Proofs.CostDemo.freelist_demo

open Proofs.CostDemo in
/-- **a cyclic trunk chain** (every page is a trunk whose next pointer names page 2) is followed
for as many trunks as there are frames, then `RecursionError` -/
theorem freelist_cycle :
    parseFreelistLog (stub16 flCycle) 5 2 =
      ([(2, 0), (2, 0), (2, 0), (2, 0), (2, 0)], .error .recursionError) ∧
    parseFreelist (stub16 flCycle) 5 2 = .error .recursionError := by
  exact Proofs.CostDemo.freelist_cycle_demo

open Proofs.CostDemo in
/-- a trunk that claims 2^32 - 1 leaves on a 16-byte page: the loop ends at the third pointer -/
example : parseFreelistLog (stub16 flForged) 10 2 = ([(2, 3)], .error .structError) :=
  Proofs.CostDemo.freelist_forged_demo

/-! ### 2. pointer-map pages (`create_pointer_map_pages`) -/

theorem ptrmap_erase (v : VersionIf) (D : Nat) :
    (createPtrmapPagesLog v D).2 = createPtrmapPages v D ∧
    ∀ number k, (parsePtrmapPageCounted v number k).2 = parsePtrmapPage v number k := by
  exact ⟨Proofs.Cost.createPtrmapPagesLog_snd v D, Proofs.Cost.parsePtrmapPageCounted_snd v⟩

/-- **Pointer map.**  For a database of `D` pages and `E = pageSize / 5` entries per page the loop
constructs at most `D / (E + 1) + 1` pointer-map pages, starts at most `E` entry steps on each, and
page constructions and entry steps together are at most `D - 1` (hence at most
`D + D / (E + 1) + 1`) — on success and on failure -/
theorem ptrmap_cost (v : VersionIf) (D : Nat) :
    (createPtrmapPagesLog v D).1.length ≤ D / (v.pageSize / Generated.POINTER_MAP_ENTRY_LENGTH + 1) + 1 ∧
    (∀ e ∈ (createPtrmapPagesLog v D).1, e.2 ≤ v.pageSize / Generated.POINTER_MAP_ENTRY_LENGTH) ∧
    ((createPtrmapPagesLog v D).1.map fun e => e.2 + 1).sum ≤ D - 1 := by
  exact Proofs.Cost.ptrmap_cost v D

/-- the fuel `D + 1` the model gives the loop is never exhausted: `RecursionError` comes out of
`createPtrmapPages` only if the version interface itself produced one -/
theorem ptrmap_fuel_adequate (v : VersionIf) (D : Nat)
    (hv : ∀ p, v.pageVersion p ≠ .error .recursionError)
    (ho : ∀ p, v.pageOffset p ≠ .error .recursionError)
    (hd : ∀ p o n, v.getData p o n ≠ .error .recursionError) :
    createPtrmapPages v D ≠ .error .recursionError := by
  exact Proofs.Cost.createPtrmapPages_ne_rec v D hv ho hd

/-- the same for the plan without page reads -/
theorem ptrmap_plan_fuel_adequate (D ps : Nat) : ptrmapPlan D ps ≠ .error .recursionError := by
  exact Proofs.Cost.ptrmapPlan_ne_rec D ps

open Proofs.CostDemo in
/-- non-vacuity: 9 pages, 2 entries per page: pointer-map pages 2, 5, 8 with 2, 2, 1 entries —
8 = D - 1 steps: the bound is attained; and a damaged entry (type 0 on page 5) stops the loop there -/
example :
    (createPtrmapPagesLog (stub10 pmPages) 9).1 = [(2, 2), (5, 2), (8, 1)] ∧
    (createPtrmapPagesLog (stub10 pmPages) 9).2.map (·.map fun p => (p.number, p.nEntries))
      = .ok [(2, 2), (5, 2), (8, 1)] ∧
    createPtrmapPagesLog (stub10 pmBad) 9 = ([(2, 2), (5, 2)], .error .parseError) :=
  Proofs.CostDemo.ptrmap_demo

/-! ### 3. WAL frames (`WriteAheadLog.__init__`) and their grouping (`VersionHistory.__init__`) -/

theorem wal_erase (gs : Option Nat) (file : Buf) : (openWalCounted gs file).2 = openWal gs file := by
  exact Proofs.Cost.openWalCounted_snd gs file

/-- **WAL frames.**  The number of frames whose construction is started is at most
`(size - 32) / (24 + pageSize)` — `int((size - 32) / (24 + pageSize))` of the code; the model
divides exactly, Python in floating point: the same below 2^53 — hence at most `size / 24`,
whatever page size the header claims (0 included: no hypothesis on it is needed, the frame size is
at least 24); no frame is read when the header is refused.  `size` is the size the file handle was
given, or the file's. -/
theorem wal_frames_read_le (gs : Option Nat) (file : Buf) :
    (openWalCounted gs file).1 ≤ Proofs.Wal.givenSz gs file / 24 ∧
    (∀ hdr, parseWalHeader (file.slice 0 Generated.WAL_HEADER_LENGTH) = .ok hdr →
      (openWalCounted gs file).1 ≤ (Proofs.Wal.givenSz gs file - 32) / (24 + hdr.pageSize)) ∧
    (∀ e, parseWalHeader (file.slice 0 Generated.WAL_HEADER_LENGTH) = .error e →
      (openWalCounted gs file).1 = 0) := by
  exact Proofs.Cost.wal_frames_read_le gs file

/-- an accepted log: exactly `(size - 32) / (24 + pageSize)` frames were read, and each is one of
the valid or of the invalid (older salt) frames of the result -/
theorem wal_frames_read_ok (gs : Option Nat) (file : Buf) (w : Wal) (h : openWal gs file = .ok w) :
    (openWalCounted gs file).1 = (Proofs.Wal.givenSz gs file - 32) / (24 + w.hdr.pageSize) ∧
    w.nFrames.toNat = (Proofs.Wal.givenSz gs file - 32) / (24 + w.hdr.pageSize) ∧
    w.frames.length + w.invalid.length = (Proofs.Wal.givenSz gs file - 32) / (24 + w.hdr.pageSize) := by
  exact Proofs.Cost.wal_frames_read_ok gs file w h

/-- `VersionHistory.__init__` splits the valid frames into commit records in one pass: the groups
(and the uncommitted rest) concatenate to the frames, so their lengths add up to the number of
valid frames, and there are at most as many groups as frames -/
theorem wal_groups_one_pass (fs : List Frame) :
    (groupFrames fs [] []).1.flatten ++ (groupFrames fs [] []).2 = fs ∧
    ((groupFrames fs [] []).1.map List.length).sum + (groupFrames fs [] []).2.length = fs.length ∧
    (groupFrames fs [] []).1.length ≤ fs.length := by
  exact Proofs.Cost.wal_groups_one_pass fs

open Proofs.CostDemo in
/-- non-vacuity (8-byte pages): two frames, both read, accepted; a wrong salt in the second of
three frames: the third is never read; claimed page size 0: 3 frames of 24 bytes are read from 72
bytes; claimed page size 2^32 - 1: no frame is read -/
example :
    (openWalCounted none walGood).1 = 2 ∧ (openWalCounted none walGood).2.isOk = true ∧
    (openWalCounted none walBad).1 = 2 ∧ (openWal none walBad).isOk = false ∧
    (openWalCounted none walZero).1 = 3 ∧ (openWal none walZero).isOk = false ∧
    (openWalCounted none walHuge).1 = 0 ∧ (openWal none walHuge).isOk = false :=
  Proofs.CostDemo.wal_demo

/-! ### 4. the rollback-journal carve loop (`RollBackJournalCarver.carve`) -/

open SqliteDissect.Model.Carve in
theorem journal_erase (sig : CarveSig) (ps : Nat) (fh : FileH) :
    (carveJournalCounted sig ps fh).2 = carveJournal sig ps fh := by
  exact Proofs.Cost.carveJournalCounted_snd sig ps fh

open SqliteDissect.Model.Carve in
/-- **Journal.**  The number of page records visited (record headers whose read is started: one
per iteration of `while has_data`, one more for a trailing partial record) is at most
`(size - 512) / (pageSize + 8) + 1`, on success and on failure.  (The bound is on the loop; what
the signature carver does inside one page image is C08's subject.) -/
theorem journal_records_le (sig : CarveSig) (ps : Nat) (fh : FileH) :
    (carveJournalCounted sig ps fh).1 ≤ (fh.size - 512) / (ps + 8) + 1 := by
  exact Proofs.Cost.journal_records_le sig ps fh

open SqliteDissect.Model.Carve in
/-- the fuel `size / (pageSize + 8) + 2` the model gives the loop is never exhausted: any larger
fuel gives the same result (the model's `outsideModel` placeholder does not come from the bound) -/
theorem journal_fuel_adequate (sig : CarveSig) (ps : Nat) (fh : FileH) (fuel : Nat)
    (h : fh.size / (ps + 8) + 2 ≤ fuel) :
    journalLoop sig ps fh fuel 512 = journalLoop sig ps fh (fh.size / (ps + 8) + 2) 512 := by
  exact Proofs.Cost.journal_fuel_adequate sig ps fh fuel h

open Proofs.CostDemo in
/-- non-vacuity: 565 zero bytes, 8-byte pages: three whole page records and a partial one are
visited — 4 = (565 - 512) / 16 + 1: the bound is attained -/
example :
    (Carve.carveJournalCounted default 8 journalZero).1 = 4 ∧
    (Carve.carveJournalCounted default 8 journalZero).2.isOk = true ∧
    (565 - 512) / (8 + 8) + 1 = 4 :=
  Proofs.CostDemo.journal_demo

/-! ### 5. the b-tree walk as a whole -/

/-- **B-tree walk.**  For a version that looks up the offsets of the pages `1 … D` only and serves
whole pages no larger than its page size:

* at most `D` page constructions are started, on success and on failure (`btree_walk_constructions_le`);
* when the walk succeeds the result has at most `D` pages, and every page of it has at most
  `(pageSize - 8) / 2` cells (the cell pointer array must lie inside the page: a pointer read off
  the page is `struct.error`), at most `pageSize` freeblocks (the walk reads four bytes inside the
  page at a strictly larger offset each time; C06 `freeblock_walk_ascending`), and every cell has at
  most `D` overflow pages (`overflow_walk_no_repeat`: an accepted chain has no repeated page).

**What this does not say.**  The bounds multiply: cells × overflow pages is a quadratic worst
case — `(pageSize - 8) / 2` cells of one page may each name a chain of up to `D` overflow pages,
and nothing stops several cells (of one page or of different pages) from naming the *same* chain
(`overflow_chain_shared` below): the set of the walk holds b-tree pages only.  So the number of
overflow pages one walk visits is bounded only by the product `D * ((pageSize - 8) / 2) * D` (and
each is read twice: by the chain walk and when the payload is assembled), which is **not**
proportional to the file size; no better bound is proved here.  On the failure path the
per-page loops are the same functions (the cell loop runs over `range(nCells)` and stops at the
first exception, C06 bounds the freeblock walk for every page, the overflow walk stops at the first
repeated page), but their step counts on that path are not instrumented and not claimed. -/
theorem btree_walk_cost (v : VersionIf) (D : Nat)
    (hD : ∀ p, (v.pageOffset p).isOk = true → 1 ≤ p ∧ p ≤ D)
    (hsz : ∀ p page, v.getData p 0 none = .ok page → page.size ≤ v.pageSize)
    (fuel n : Nat) (cls : PageType) :
    (parseBTreeLog v fuel n cls []).1.length ≤ D ∧
    ∀ ps, parseBTreeW v fuel n cls [] = .ok ps →
      ps.length ≤ D ∧
      ∀ p ∈ ps, p.cells.length ≤ (v.pageSize - 8) / 2 ∧ p.freeblocks.length ≤ v.pageSize ∧
        ∀ c ∈ p.cells, c.overflowPages.length ≤ D := by
  exact Proofs.Cost.btree_walk_cost v D hD hsz fuel n cls

/-- the hypotheses hold of the version interface of every database file (non-vacuity of
`btree_walk_cost`, and the form in which it applies to the code) -/
theorem btree_walk_cost_db (cfg : Config) (ps : Nat) (dsize : DbSize) (f : FileH)
    (fuel n : Nat) (cls : PageType) :
    (parseBTreeLog (dbVersionIf cfg ps dsize f) fuel n cls []).1.length ≤ dsize.floor ∧
    ∀ pages, parseBTreeW (dbVersionIf cfg ps dsize f) fuel n cls [] = .ok pages →
      pages.length ≤ dsize.floor ∧
      ∀ p ∈ pages, p.cells.length ≤ (ps - 8) / 2 ∧ p.freeblocks.length ≤ ps ∧
        ∀ c ∈ p.cells, c.overflowPages.length ≤ dsize.floor := by
  exact Proofs.Cost.btree_walk_cost (dbVersionIf cfg ps dsize f) dsize.floor
    (Proofs.TreeWalk.dbVersionIf_offset_range cfg ps dsize f)
    (Proofs.Cost.dbVersionIf_page_size cfg ps dsize f) fuel n cls

/-- the per-page parts for the construction without the set (`parseBTree`), as used above -/
theorem btree_page_costs (v : VersionIf) (D : Nat)
    (hD : ∀ p, (v.pageOffset p).isOk = true → 1 ≤ p ∧ p ≤ D)
    (hsz : ∀ p page, v.getData p 0 none = .ok page → page.size ≤ v.pageSize)
    (fuel n : Nat) (cls : PageType) (t : List BPage) (h : parseBTree v fuel n cls = .ok t) :
    ∀ p ∈ t, p.cells.length ≤ (v.pageSize - 8) / 2 ∧ p.freeblocks.length ≤ v.pageSize ∧
      ∀ c ∈ p.cells, c.overflowPages.length ≤ D := by
  exact Proofs.Cost.parseBTree_page_costs v D hD hsz fuel n cls t h

/-- the freeblock walk accepts at most `page.size - 3 - off` freeblocks from offset `off`, for
every page buffer (no well-formedness assumption) -/
theorem freeblock_walk_count (page : Buf) (fuel idx off : Nat) (acc fbs : List Freeblock)
    (h : freeblockWalk page fuel idx off acc = .ok fbs) :
    fbs.length + off + 3 ≤ acc.length + page.size := by
  exact Proofs.Cost.freeblockWalk_count page fuel idx off acc fbs h

open Proofs.CostDemo in
/-- the walk does *not* keep freeblocks four bytes apart (it only requires the next offset to be
larger): on this 16-byte page it accepts five freeblocks, at offsets 4, 6, 8, 10, 12 — more than
`pageSize / 4`.  The bound that holds is `freeblock_walk_count` (linear in the page size as well). -/
theorem freeblock_quarter_counterexample :
    (freeblockWalk fbPage 65537 0 4 []).map (·.map (·.start)) = .ok [4, 6, 8, 10, 12] ∧
    ¬ (5 ≤ fbPage.size / 4) := by
  exact ⟨Proofs.CostDemo.freeblock_dense_demo, by decide⟩

/-- a parsed cell has at most `D` overflow pages -/
theorem cell_overflow_le (v : VersionIf) (D : Nat)
    (hD : ∀ p, (v.pageOffset p).isOk = true → 1 ≤ p ∧ p ≤ D)
    (kind : CellKind) (page : Buf) (index start : Nat) (c : Cell)
    (h : parseCellLocal v kind page index start = .ok c) : c.overflowPages.length ≤ D := by
  exact Proofs.Cost.cell_overflow_le v D hD kind page index start c h

open Proofs.CostDemo in
/-- **overflow chains may be shared**: leaf page 6 of `sharedV` holds two cells (rowids 4 and 5)
that both name overflow page 5; the walk accepts the page and reports the chain [5] for each of
them — the chain is read once per cell that names it -/
theorem overflow_chain_shared : ∃ pg, getBTreeRoot sharedV 1 6 = .ok [pg] ∧
    pg.cells.map (fun c => c.overflowPages.map (·.number)) = [[5], [5]] := by
  exact Proofs.CostDemo.shared_overflow_demo

end SqliteDissect.Properties.C18Cost
