/-
C17 (WAL-index part) — the fields `WriteAheadLogIndexHeader` reports for a `-shm` header are the
little-endian values at the wal.c offsets; a header is accepted exactly when it satisfies the
rules the code checks (136 bytes, `iVersion = 3007000` little-endian in both copies); the error
class of every rejected header is determined (wrong length: ValueError; big-endian file:
NotImplementedError; anything else: HeaderParsingError).
-/
import SqliteDissect.Proofs.WalIndex
import SqliteDissect.Proofs.Codec

namespace SqliteDissect.Properties.C17WalIndex
open SqliteDissect SqliteDissect.Model

/-- `Spec.le … 4` is `struct.unpack("<I", …)`: byte 0 is the least significant -/
theorem le_four_bytes (bs : List Nat) (off : Nat) :
    Spec.le bs off 4 = bs.getD off 0 + 256 * bs.getD (off + 1) 0 + 65536 * bs.getD (off + 2) 0
      + 16777216 * bs.getD (off + 3) 0 := by
  exact Proofs.WalIndex.le4 bs off

theorem le_two_bytes (bs : List Nat) (off : Nat) :
    Spec.le bs off 2 = bs.getD off 0 + 256 * bs.getD (off + 1) 0 := by
  exact Proofs.WalIndex.le2 bs off

/-- every reported field is the little-endian value at its offset: both 48-byte copies field by
field (`WalIndexSubHeader.fields` / `Spec.walIndexSubFields` list them in file order), the page
size and endianness taken from copy 0, the checkpoint info at 96, the lock bytes at 120, the
md5 input -/
theorem walindex_fields_at_offsets (bs : List Nat) (h : WalIndexHeader)
    (hp : parseWalIndexHeader (Buf.ofList bs) = .ok h) :
    bs.length = 136 ∧
    ∃ s0 s1, h.subHeaders = [s0, s1] ∧
      s0.index = 0 ∧ s0.bigEndian = false ∧ s0.fields = Spec.walIndexSubFields bs 0 ∧
      s1.index = 1 ∧ s1.bigEndian = false ∧ s1.fields = Spec.walIndexSubFields bs 48 ∧
      h.pageSize = Spec.le bs 14 2 ∧ h.bigEndian = false ∧
      h.checkpoint.bigEndian = false ∧ h.checkpoint.backfilled = Spec.le bs 96 4 ∧
      h.checkpoint.readerMarks =
        [Spec.le bs 100 4, Spec.le bs 104 4, Spec.le bs 108 4, Spec.le bs 112 4, Spec.le bs 116 4] ∧
      h.lockReserved = (bs.drop 120).take 16 ∧ h.raw = bs := by
  exact Proofs.WalIndex.walindex_fields_at_offsets bs h hp

/-- accepted ⇔ the format rules the code checks hold -/
theorem walindex_accepts_iff_valid (bs : List Nat) :
    (∃ h, parseWalIndexHeader (Buf.ofList bs) = .ok h) ↔ Spec.validWalIndexHeader bs = true := by
  exact Proofs.WalIndex.walindex_accepts_iff_valid bs

/-- which error, and why: wrong length → `ValueError`; otherwise the first copy (in file order)
whose little-endian version is wrong decides: big-endian 3007000 → `NotImplementedError`,
anything else → `HeaderParsingError` -/
theorem walindex_error_class (bs : List Nat) (e : PyErr)
    (hp : parseWalIndexHeader (Buf.ofList bs) = .error e) :
    (bs.length ≠ 136 ∧ e = .valueError) ∨
    (bs.length = 136 ∧ ∃ base, Spec.firstBadCopy bs = some base ∧
      ((Spec.be bs base 4 = 3007000 ∧ e = .notImplemented) ∨
       (Spec.be bs base 4 ≠ 3007000 ∧ e = .parseError))) := by
  exact Proofs.WalIndex.walindex_error_class bs e hp

/-- the only error classes, for any buffer -/
theorem walindex_error_kinds (b : Buf) (e : PyErr) (hp : parseWalIndexHeader b = .error e) :
    e = .valueError ∨ e = .parseError ∨ e = .notImplemented := by
  exact Proofs.WalIndex.walindex_error_kinds b e hp

/-! non-vacuity: the header of a `-shm` SQLite 3.40.1 wrote (page size 512, mxFrame 10, nPage 6) -/
private def sample : List Nat :=
  [24, 226, 45, 0, 0, 0, 0, 0, 3, 0, 0, 0, 1, 0, 0, 2, 10, 0, 0, 0, 6, 0, 0, 0, 241, 95, 12, 139, 219, 224, 87,
   214, 157, 19, 85, 234, 248, 85, 93, 97, 253, 187, 221, 236, 0, 223, 98, 189,
   24, 226, 45, 0, 0, 0, 0, 0, 3, 0, 0, 0, 1, 0, 0, 2, 10, 0, 0, 0, 6, 0, 0, 0, 241, 95, 12, 139, 219, 224, 87,
   214, 157, 19, 85, 234, 248, 85, 93, 97, 253, 187, 221, 236, 0, 223, 98, 189,
   0, 0, 0, 0, 0, 0, 0, 0, 4, 0, 0, 0, 255, 255, 255, 255, 255, 255, 255, 255, 255, 255, 255, 255,
   0, 0, 0, 0, 0, 0, 0, 0, 0, 0, 0, 0, 0, 0, 0, 0]

/-- accepted, with the values `struct.unpack("<…")` gives -/
example : (parseWalIndexHeader (Buf.ofList sample)).map (fun h => h.subHeaders.map (·.fields)) = .ok
    [[3007000, 0, 3, 1, 0, 512, 10, 6, 2332844017, 3596083419, 3931444125, 1633506808, 3973954557, 3177373440],
     [3007000, 0, 3, 1, 0, 512, 10, 6, 2332844017, 3596083419, 3931444125, 1633506808, 3973954557, 3177373440]] := by
  decide +kernel
example : (parseWalIndexHeader (Buf.ofList sample)).map
    (fun h => (h.pageSize, h.bigEndian, h.checkpoint.backfilled, h.checkpoint.readerMarks)) =
    .ok (512, false, 0, [0, 4, 4294967295, 4294967295, 4294967295]) := by decide +kernel
example : (parseWalIndexHeader (Buf.ofList sample)).map (fun h => (h.lockReserved, h.raw.length)) =
    .ok (List.replicate 16 0, 136) := by decide +kernel
example : Spec.validWalIndexHeader sample = true := by decide +kernel
/-- iVersion of copy 0 stored big-endian (00 2D E2 18): refused as not implemented -/
example : parseWalIndexHeader (Buf.ofList ([0, 45, 226, 24] ++ sample.drop 4)) = .error .notImplemented := by
  decide +kernel
/-- … of copy 1 only: the same class, found second -/
example : parseWalIndexHeader (Buf.ofList (sample.take 48 ++ [0, 45, 226, 24] ++ sample.drop 52)) =
    .error .notImplemented := by decide +kernel
example : Spec.firstBadCopy (sample.take 48 ++ [0, 45, 226, 24] ++ sample.drop 52) = some 48 := by decide +kernel
/-- one wrong byte in the version: HeaderParsingError -/
example : parseWalIndexHeader (Buf.ofList (25 :: sample.drop 1)) = .error .parseError := by decide +kernel
/-- copy 0 garbage, copy 1 big-endian: copy 0 decides -/
example : parseWalIndexHeader (Buf.ofList ([1, 2, 3, 4] ++ (sample.take 48).drop 4 ++ [0, 45, 226, 24] ++ sample.drop 52)) =
    .error .parseError := by decide +kernel
/-- 135 and 137 bytes: ValueError -/
example : parseWalIndexHeader (Buf.ofList (sample.take 135)) = .error .valueError := by decide +kernel
example : parseWalIndexHeader (Buf.ofList (sample ++ [0])) = .error .valueError := by decide +kernel

end SqliteDissect.Properties.C17WalIndex
