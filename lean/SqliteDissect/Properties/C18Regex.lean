/-
C18 (signature regular expressions) — the cost of `re.finditer(generate_signature_regex(sig), region)`,
the call the carver makes on every unallocated region and freeblock
(sqlite_dissect/carving/carver.py; `generate_signature_regex` is sqlite_dissect/carving/utilities.py:228).

The planned statement — matching takes time proportional to the size of the pattern times the
size of the region — is **false** of the code: `regex_linear_full_false`.  For a table in which a
column holds both BLOB and TEXT values the column pattern is
`(?:(?:[\x0D-\x7F]|[\x80-\xFF]{1,7}[\x00-\x7F])|(?:[\x0C-\x7F]|[\x80-\xFF]{1,7}[\x00-\x7F]))`:
two alternatives that match the same one byte.  With `n` such columns and a subject of `n - 1`
bytes `a` and a line feed the backtracking matcher tries every combination of alternatives before
it fails: exactly `11 * 2 ^ n - 10` steps (`exponential_exact`).  Measured on CPython 3.12 `re`:
n = 18: 0.13 s, n = 20: 0.53 s, n = 22: 2.2 s for 88 bytes of subject — a factor 2 per column.

What holds (`regex_linear_partial`, `matchAt_cost`, `finditer_cost`): when no column of the
signature lists both -1 (blob) and -2 (text) — `NoBlobTextColumn` — every column pattern is
deterministic (no two alternatives can start with the same byte, the `{1,7}` repetition is given
back at most seven times and each time fails at once), one match attempt costs at most
`20 * columns + 1` steps whatever the subject, and the scan at most that times `length + 1`.

All of this is about the counted twin `Model.RegexCost.mC` of the matcher `Model.Regex.m` the
C08/C09/C10 theorems use: a step is a visit of `m` (a pattern node attempted at a subject
position); erasing the counter gives the original (`*_erase`).  Helper lemmas: Proofs/RegexCost.lean.
-/
import SqliteDissect.Proofs.RegexCost

namespace SqliteDissect.Properties.C18Regex
open SqliteDissect SqliteDissect.Model SqliteDissect.Model.Regex SqliteDissect.Model.RegexCost
open SqliteDissect.Proofs.RegexCost
  (btSig btCol btPat btSubject NoBlobTextColumn columns RegexLinear_Full FinditerLinear_Full)

/-! ### a. erasing the counter -/

/-- the counted matcher computes the match result of `Model.Regex.m`, for every pattern, subject
and continuation (the continuation of `m` is the counted one with its counter erased) -/
theorem m_erase {α : Type} (p : Pat) (s : List Nat) (k : List Nat → Res α) :
    (mC p s k).1 = m p s (fun r => (k r).1) := by
  exact Proofs.RegexCost.mC_fst p s k

theorem mseq_malt_erase {α : Type} (ps : List Pat) (s : List Nat) (k : List Nat → Res α) :
    (mseqC ps s k).1 = mseq ps s (fun r => (k r).1) ∧ (maltC ps s k).1 = malt ps s (fun r => (k r).1) := by
  exact ⟨Proofs.RegexCost.mseqC_fst ps s k, Proofs.RegexCost.maltC_fst ps s k⟩

theorem matchAt_erase (p : Pat) (s : List Nat) : (matchAtC p s).1 = matchAt p s := by
  exact Proofs.RegexCost.matchAtC_fst p s

theorem search_erase (p : Pat) (s : List Nat) (pos : Nat) :
    (searchFromC p s pos).1 = searchFrom p s pos ∧ (searchC p s).1 = search p s := by
  exact ⟨Proofs.RegexCost.searchFromC_fst p s pos, Proofs.RegexCost.searchFromC_fst p s 0⟩

theorem finditer_erase (p : Pat) (s : List Nat) : (finditerC p s).1 = finditer p s := by
  exact Proofs.RegexCost.finditerC_fst p s

/-! ### b. the exponential lower bound

`btSig n = List.replicate n [-1, -2]`, `btPat n = .seq (List.replicate n btCol)`,
`btSubject n = List.replicate (n - 1) 0x61 ++ [0x0A]`. -/

example : btSig 3 = [[-1, -2], [-1, -2], [-1, -2]] := rfl
example : btSubject 3 = [0x61, 0x61, 0x0A] := rfl
example : btCol = .alt [.alt [.cls 0x0D 0x7F, varTail], .alt [.cls 0x0C 0x7F, varTail]] := rfl

/-- the pattern `generate_signature_regex` returns for `n` blob-and-text columns -/
theorem exponential_pattern (n : Nat) : genSignature (btSig n) false = .ok (btPat n) := by
  exact Proofs.RegexCost.genSignature_bt n

/-- its text: `n` times the 55 bytes
`(?:(?:[\x0D-\x7F]|[\x80-\xFF]{1,7}[\x00-\x7F])|(?:[\x0C-\x7F]|[\x80-\xFF]{1,7}[\x00-\x7F]))` -/
theorem exponential_pattern_text (n : Nat) :
    (print (btPat n)).length = 55 * n ∧
    print btCol =
      [0x28, 0x3F, 0x3A,
        0x28, 0x3F, 0x3A, 0x5B, 0x0D, 0x2D, 0x7F, 0x5D, 0x7C,
          0x5B, 0x80, 0x2D, 0xFF, 0x5D, 0x7B, 0x31, 0x2C, 0x37, 0x7D, 0x5B, 0x00, 0x2D, 0x7F, 0x5D, 0x29,
        0x7C,
        0x28, 0x3F, 0x3A, 0x5B, 0x0C, 0x2D, 0x7F, 0x5D, 0x7C,
          0x5B, 0x80, 0x2D, 0xFF, 0x5D, 0x7B, 0x31, 0x2C, 0x37, 0x7D, 0x5B, 0x00, 0x2D, 0x7F, 0x5D, 0x29,
        0x29] := by
  exact ⟨Proofs.RegexCost.print_btPat_length n, Proofs.RegexCost.print_btCol⟩

/-- **the exact cost**: for every `n ≥ 1` the match attempt fails after `11 * 2 ^ n - 10` steps -/
theorem exponential_exact (n : Nat) (hn : 1 ≤ n) :
    matchAtC (btPat n) (btSubject n) = (none, 11 * 2 ^ n - 10) := by
  exact Proofs.RegexCost.bt_matchAt n hn

/-- **Exponential lower bound.**  For every `n ≥ 1`: `n` columns, `n` bytes of subject, no match,
at least `2 ^ n` steps — for one match attempt, hence for `re.search` and `re.finditer`
(whose first attempt it is) -/
theorem exponential_lower_bound (n : Nat) (hn : 1 ≤ n) :
    (btSubject n).length = n ∧
    (matchAtC (btPat n) (btSubject n)).1 = none ∧
    2 ^ n ≤ steps (matchAtC (btPat n) (btSubject n)) ∧
    2 ^ n ≤ steps (finditerC (btPat n) (btSubject n)) := by
  exact ⟨Proofs.RegexCost.btSubject_length n hn, (Proofs.RegexCost.bt_lower n hn).1,
    (Proofs.RegexCost.bt_lower n hn).2,
    Nat.le_trans (Proofs.RegexCost.bt_lower n hn).2 (Proofs.RegexCost.finditerC_ge _ _)⟩

/-- the first attempt of the scan is `matchAt` on the whole subject: a lower bound on one attempt
is a lower bound on `finditer` -/
theorem finditer_ge_matchAt (p : Pat) (s : List Nat) :
    steps (matchAtC p s) ≤ steps (finditerC p s) := by
  exact Proofs.RegexCost.finditerC_ge p s

/-- the actual counts for four columns and `aaa\n`: one attempt 166 = 11 * 2^4 - 10 steps; the scan
(attempts at offsets 0, 1, 2, 3 and at the end) 302 steps, no match -/
example : matchAtC (btPat 4) (btSubject 4) = (none, 166) := by decide
example : finditerC (btPat 4) (btSubject 4) = ([], 302) := by decide
example : searchC (btPat 3) (btSubject 3) = (none, 136) := by decide

/-- The planned bound: the steps of a match attempt are at most proportional to the length of the
pattern text times the length of the subject (`+ 1` each, so that the empty pattern and the empty
subject — one step — are not what refutes it).
`RegexLinear_Full := ∃ c, ∀ sig p s, genSignature sig false = .ok p →
   steps (matchAtC p s) ≤ c * ((print p).length + 1) * (s.length + 1)`;
`FinditerLinear_Full` is the same for `finditerC`. -/
def FullStatement : Prop := RegexLinear_Full

example : FullStatement = ∃ c, ∀ (sig : List (List Int)) (p : Pat) (s : List Nat),
    genSignature sig false = .ok p →
    steps (matchAtC p s) ≤ c * ((print p).length + 1) * (s.length + 1) := rfl

example : FinditerLinear_Full = ∃ c, ∀ (sig : List (List Int)) (p : Pat) (s : List Nat),
    genSignature sig false = .ok p →
    steps (finditerC p s) ≤ c * ((print p).length + 1) * (s.length + 1) := rfl

/-- **the planned linear bound is false**, for one attempt and for the scan -/
theorem regex_linear_full_false : ¬ RegexLinear_Full := by
  exact Proofs.RegexCost.regex_linear_full_false

theorem finditer_linear_full_false : ¬ FinditerLinear_Full := by
  exact Proofs.RegexCost.finditer_linear_full_false

/-! ### c. the linear upper bound when no column holds blobs and texts

`NoBlobTextColumn sig := ∀ col ∈ sig, ¬ (-1 ∈ col ∧ -2 ∈ col)`;
`columns sig skipFirst := if skipFirst then sig.drop 1 else sig` (the columns the pattern is
generated from).  Nothing else is assumed: that every column has between 1 and 12 entries, all
in -2..9, follows from `genSignature … = .ok p`. -/

example : NoBlobTextColumn = fun sig => ∀ col ∈ sig, ¬ ((-1 : Int) ∈ col ∧ (-2 : Int) ∈ col) := rfl
example (sig : List (List Int)) (b : Bool) : columns sig b = if b then sig.drop 1 else sig := rfl

/-- the hypothesis on the whole signature gives it for the columns used -/
theorem noBlobText_columns (sig : List (List Int)) (skipFirst : Bool) (h : NoBlobTextColumn sig) :
    NoBlobTextColumn (columns sig skipFirst) ∧ (columns sig skipFirst).length ≤ sig.length := by
  exact ⟨Proofs.RegexCost.noBlobText_columns sig skipFirst h,
    Proofs.RegexCost.columns_length_le sig skipFirst⟩

/-- one column: the pattern emitted for a column that does not list both -1 and -2 spends at
most 20 steps of its own and runs the rest of the match at most once — the result is a failure
after `n ≤ 20` steps, or the result of the continuation on some rest with `n ≤ 20` steps added
(if the continuation fails the column fails: it does not try another way to reach it) -/
theorem column_deterministic {α : Type} (c : List Int) (p : Pat) (h : genColumn c = .ok p)
    (hn : ¬ ((-1 : Int) ∈ c ∧ (-2 : Int) ∈ c)) (s : List Nat) (k : List Nat → Res α) :
    ∃ n, n ≤ 20 ∧ (mC p s k = (none, n) ∨ ∃ s', mC p s k = tick n (k s')) := by
  obtain ⟨P, hP⟩ := Proofs.RegexCost.genColumn_lin (α := α) c p h hn
  obtain ⟨n, hn, hr⟩ := hP s k
  exact ⟨n, hn, hr.imp id fun ⟨_, _, s', _, _, e⟩ => ⟨s', e⟩⟩

/-- **Linear upper bound, one attempt** (`_partial`): at most 20 steps per column and one for the
concatenation, for EVERY subject -/
theorem matchAt_cost (sig : List (List Int)) (skipFirst : Bool) (p : Pat)
    (hsig : NoBlobTextColumn (columns sig skipFirst)) (h : genSignature sig skipFirst = .ok p)
    (s : List Nat) :
    steps (matchAtC p s) ≤ 20 * (columns sig skipFirst).length + 1 := by
  exact Proofs.RegexCost.matchAtC_le sig skipFirst p hsig h s

/-- **Linear upper bound, the scan** (`_partial`): `finditer` makes at most `s.length + 1`
attempts (one per offset, the end included; after a match it continues behind it, after an empty
match one byte further — so zero-length matches need no care: the bound on one attempt holds at
every offset and there are never more attempts than offsets) -/
theorem finditer_cost (sig : List (List Int)) (skipFirst : Bool) (p : Pat)
    (hsig : NoBlobTextColumn (columns sig skipFirst)) (h : genSignature sig skipFirst = .ok p)
    (s : List Nat) :
    steps (finditerC p s) ≤ (s.length + 1) * (20 * (columns sig skipFirst).length + 1) := by
  exact Proofs.RegexCost.finditerC_le sig skipFirst p hsig h s

/-- every column contributes at least one byte of pattern text -/
theorem columns_le_pattern_length (sig : List (List Int)) (skipFirst : Bool) (p : Pat)
    (h : genSignature sig skipFirst = .ok p) : (columns sig skipFirst).length ≤ (print p).length := by
  exact Proofs.RegexCost.columns_le_print sig skipFirst p h

/-- **the planned bound with the hypothesis** (`_partial`): the inequality of `RegexLinear_Full` and
`FinditerLinear_Full` holds with `c = 21` -/
theorem regex_linear_partial (sig : List (List Int)) (skipFirst : Bool) (p : Pat)
    (hsig : NoBlobTextColumn (columns sig skipFirst)) (h : genSignature sig skipFirst = .ok p)
    (s : List Nat) :
    steps (matchAtC p s) ≤ 21 * ((print p).length + 1) * (s.length + 1) ∧
    steps (finditerC p s) ≤ 21 * ((print p).length + 1) * (s.length + 1) := by
  exact Proofs.RegexCost.regex_linear_partial sig skipFirst p hsig h s

/-! ### d. non-vacuity -/

/-- a signature satisfying the hypothesis: integers; integer or blob; text -/
def exSig : List (List Int) := [[1, 2], [3, -1], [-2]]

example : NoBlobTextColumn exSig := by decide
example : NoBlobTextColumn (columns exSig false) ∧ NoBlobTextColumn (columns exSig true) := by decide

example : genSignature exSig false =
    .ok (.seq [.set [1, 2], .alt [.set [3], .alt [.cls 0x0D 0x7F, varTail]], .alt [.cls 0x0C 0x7F, varTail]]) := by
  rfl

/-- … on the header 01 85 20 30 followed by a line feed: a match of four bytes after 13 steps
(bound: 61); the scan of eight bytes finds (0, 4) and (5, 8) in 23 steps (bound: 9 * 61) -/
example : ∃ p, genSignature exSig false = .ok p ∧
    matchAtC p [1, 0x85, 0x20, 0x30, 0x0A] = (some [0x0A], 13) ∧
    finditerC p [1, 0x85, 0x20, 0x30, 0x0A, 2, 3, 0x0C] = ([(0, 4), (5, 8)], 23) ∧
    20 * (columns exSig false).length + 1 = 61 :=
  ⟨_, rfl, by decide, by decide, rfl⟩

/-- … and with the first serial type skipped (freeblock carving) -/
example : ∃ p, genSignature exSig true = .ok p ∧
    finditerC p [1, 0x85, 0x20, 0x30, 0x0A, 2, 3, 0x0C] = ([(1, 4), (6, 8)], 49) ∧
    9 * (20 * (columns exSig true).length + 1) = 369 :=
  ⟨_, rfl, by decide, rfl⟩

/-- the constant 20 is attained: one column "integer 1 or blob", eight bytes 0x80 — the repetition
takes seven, fails at the eighth, and gives the seven back one at a time: 21 = 20 * 1 + 1 steps -/
example : ∃ p, genSignature [[1, -1]] false = .ok p ∧ NoBlobTextColumn [[1, -1]] ∧
    matchAtC p (List.replicate 8 0x80) = (none, 21) :=
  ⟨_, rfl, by decide, by decide⟩

/-- the hypothesis cannot be dropped: `btSig n` violates it and `exponential_lower_bound` applies;
n = 10: ten columns, ten bytes, 11254 steps where the bound would be 201 -/
example : ¬ NoBlobTextColumn (btSig 10) := by decide
example : 11 * 2 ^ 10 - 10 = 11254 ∧ 20 * (columns (btSig 10) false).length + 1 = 201 := by decide
example : matchAtC (btPat 10) (btSubject 10) = (none, 11254) :=
  Proofs.RegexCost.bt_matchAt 10 (by decide)

end SqliteDissect.Properties.C18Regex
