import SqliteDissect.Model.Codec
import SqliteDissect.Spec.Varint
namespace SqliteDissect.Properties.C15
theorem placeholder : True := trivial
end SqliteDissect.Properties.C15
