/-
C15 — varint and serial-type codecs are exact inverses of SQLite's encodings.

Property theorems only (helper lemmas live in Proofs/Codec.lean).  `Model.*` mirrors the Python
(sqlite_dissect/utilities.py, carving/utilities.py); `Spec.*` is SQLite's definition.
-/
import SqliteDissect.Proofs.Codec

namespace SqliteDissect.Properties.C15
open SqliteDissect SqliteDissect.Model

/-! ### Varints -/

/-- decode_varint refines SQLite's varint reader for every buffer and every offset: same
value (as a signed 64-bit integer), same number of bytes consumed, and it fails (TypeError
from `ord(b'')`) exactly when SQLite's reader runs out of bytes. -/
theorem decode_eq_spec (b : Buf) (hb : b.WF) (off : Nat) :
    decodeVarint b off =
      match Spec.getVarint (b.toList.drop off) with
      | some (u, n) => .ok (Spec.toI64 u, n)
      | none => .error .typeError := by
  exact Proofs.Codec.decode_eq_spec b hb off

/-- encode_varint produces SQLite's canonical encoding for every signed 64-bit integer … -/
theorem encode_eq_spec (i : Int) (hlo : -(2 ^ 63 : Int) ≤ i) (hhi : i < (2 ^ 63 : Int)) :
    encodeVarint i = .ok (Spec.putVarint (Spec.toU64 i)) := by
  exact Proofs.Codec.encode_eq_spec i hlo hhi

/-- … and rejects everything else. -/
theorem encode_rejects (i : Int) (h : i < -(2 ^ 63 : Int) ∨ (2 ^ 63 : Int) ≤ i) :
    encodeVarint i = .error .parseError := by
  exact Proofs.Codec.encode_rejects i h

/-- SQLite's reader inverts SQLite's writer (whatever follows the varint). -/
theorem spec_get_put (u : Nat) (hu : u < 2 ^ 64) (rest : List Nat) :
    Spec.getVarint (Spec.putVarint u ++ rest) = some (u, (Spec.putVarint u).length) := by
  exact Proofs.Codec.spec_get_put u hu rest

theorem spec_put_length (u : Nat) : (Spec.putVarint u).length = Spec.varintLen u := by
  exact Proofs.Codec.spec_put_length u

theorem spec_put_bytes (u : Nat) (hu : u < 2 ^ 64) : ∀ x ∈ Spec.putVarint u, x < 256 := by
  exact Proofs.Codec.spec_put_bytes u hu

/-- canonical = shortest: any byte string that reads as `u` is at least as long as `putVarint u` -/
theorem spec_shortest (bs : List Nat) (hbs : ∀ x ∈ bs, x < 256) (u n : Nat) (h : Spec.getVarint bs = some (u, n)) :
    (Spec.putVarint u).length ≤ n := by
  exact Proofs.Codec.spec_shortest bs hbs u n h

/-- Round trip through the *model of the code*: decoding what encode produced (followed by
arbitrary bytes) returns the same integer and the number of bytes consumed. -/
theorem decode_encode (i : Int) (hlo : -(2 ^ 63 : Int) ≤ i) (hhi : i < (2 ^ 63 : Int))
    (rest : List Nat) (hrest : ∀ x ∈ rest, x < 256) :
    ∃ bs, encodeVarint i = .ok bs ∧
      decodeVarint (Buf.ofList (bs ++ rest)) 0 = .ok (i, bs.length) := by
  exact Proofs.Codec.decode_encode i hlo hhi rest hrest

/-- The encoding is the shortest one that decodes to that integer. -/
theorem encode_shortest (b : Buf) (hb : b.WF) (off : Nat) (i : Int) (n : Nat)
    (h : decodeVarint b off = .ok (i, n)) :
    ∃ bs, encodeVarint i = .ok bs ∧ bs.length ≤ n := by
  exact Proofs.Codec.encode_shortest b hb off i n h

/-- A successful decode consumes between 1 and 9 bytes, all inside the buffer, and yields a
signed 64-bit integer. -/
theorem decode_consumes (b : Buf) (hb : b.WF) (off : Nat) (i : Int) (n : Nat)
    (h : decodeVarint b off = .ok (i, n)) :
    1 ≤ n ∧ n ≤ 9 ∧ off + n ≤ b.size ∧ -(2 ^ 63 : Int) ≤ i ∧ i < (2 ^ 63 : Int) := by
  exact Proofs.Codec.decode_consumes b hb off i n h

/-- The only failure is TypeError (reading past the end). -/
theorem decode_error_kind (b : Buf) (off : Nat) (e : PyErr) (h : decodeVarint b off = .error e) :
    e = .typeError := by
  exact Proofs.Codec.decode_error_kind b off e h

/-- Decoding backwards from the end of a varint of up to eight bytes (value below 2^56) returns
the value and the start position, provided the byte before it (if any) has its high bit clear. -/
theorem rev_decode (v : Nat) (hv : v < 2 ^ 56) (pre : List Nat)
    (hpre : ∀ x, pre.getLast? = some x → x < 128) :
    decodeVarintRev (Buf.ofList (pre ++ Spec.putVarint v)) (pre.length + (Spec.putVarint v).length) 9
      = .ok (v, pre.length) := by
  exact Proofs.Codec.rev_decode v hv pre hpre

/-! ### Serial types -/

/-- get_content_size agrees with SQLite's serial-type length for every serial type; the reserved
types 10 and 11 (and negative values) are rejected. -/
theorem content_size_eq_spec (st : Int) :
    getContentSize st =
      match Spec.serialTypeLen st with
      | some n => .ok n
      | none => .error .valueError := by
  exact Proofs.Codec.content_size_eq_spec st

/-- get_record_content agrees with SQLite's record format whenever the body holds the content. -/
theorem record_content_eq_spec (st : Int) (body : Buf) (hb : body.WF) (off n : Nat)
    (hn : Spec.serialTypeLen st = some n) (hfit : off + n ≤ body.size) :
    getRecordContent st body off =
      match Spec.serialGet st ((body.toList.drop off).take n) with
      | some v => .ok (n, v)
      | none => .error .valueError := by
  exact Proofs.Codec.record_content_eq_spec st body hb off n hn hfit

/-- Spec.serialGet is defined on every non-reserved serial type given exactly its content. -/
theorem spec_serialGet_defined (st : Int) (n : Nat) (c : List Nat)
    (hn : Spec.serialTypeLen st = some n) (hc : c.length = n) :
    ∃ v, Spec.serialGet st c = some v := by
  exact Proofs.Codec.spec_serialGet_defined st n c hn hc

theorem reserved_rejected (body : Buf) (off : Nat) :
    getRecordContent 10 body off = .error .valueError ∧
    getRecordContent 11 body off = .error .valueError ∧
    getContentSize 10 = .error .valueError ∧ getContentSize 11 = .error .valueError := by
  exact Proofs.Codec.reserved_rejected body off

/-- fixed-width types whose content is cut short are an error (struct.error), never a default -/
theorem short_body_rejected (st : Int) (hst : 1 ≤ st ∧ st ≤ 7) (body : Buf) (off n : Nat)
    (hn : Spec.serialTypeLen st = some n) (hshort : body.size < off + n) :
    getRecordContent st body off = .error .structError := by
  exact Proofs.Codec.short_body_rejected st hst body off n hn hshort

/-- Two's complement round trip of the specification for the widths SQLite uses
(this is where 24- and 48-bit sign extension lives). -/
theorem spec_twos_roundtrip (w : Nat) (hw : w = 1 ∨ w = 2 ∨ w = 3 ∨ w = 4 ∨ w = 6 ∨ w = 8) (i : Int)
    (hlo : -(2 ^ (8 * w - 1) : Int) ≤ i) (hhi : i < (2 ^ (8 * w - 1) : Int)) :
    Spec.twosVal (Spec.twosBytes w i) = i ∧ (Spec.twosBytes w i).length = w ∧
      ∀ x ∈ Spec.twosBytes w i, x < 256 := by
  exact Proofs.Codec.spec_twos_roundtrip w hw i hlo hhi

/-- the integer round trip through the model of the code, for every integer serial type -/
theorem int_roundtrip (st : Int) (w : Nat)
    (hst : (st = 1 ∧ w = 1) ∨ (st = 2 ∧ w = 2) ∨ (st = 3 ∧ w = 3) ∨ (st = 4 ∧ w = 4) ∨ (st = 5 ∧ w = 6) ∨ (st = 6 ∧ w = 8))
    (i : Int) (hlo : -(2 ^ (8 * w - 1) : Int) ≤ i) (hhi : i < (2 ^ (8 * w - 1) : Int)) :
    getRecordContent st (Buf.ofList (Spec.twosBytes w i)) 0 = .ok (w, .int i) := by
  exact Proofs.Codec.int_roundtrip st w hst i hlo hhi

/-- The body size computed from a header equals the sum of its column sizes. -/
theorem body_size_sum (sts : List Int)
    (hsts : ∀ st ∈ sts, 0 ≤ st ∧ st < (2 ^ 63 : Int) ∧ st ≠ 10 ∧ st ≠ 11) :
    calcBodyContentSize (Buf.ofList (sts.flatMap fun st => Spec.putVarint (Spec.toU64 st))) =
      .ok ((sts.map fun st => (Spec.serialTypeLen st).getD 0).sum) := by
  exact Proofs.Codec.body_size_sum sts hsts

/-- class mapping used by signatures: blob ↦ -1, text ↦ -2, everything else itself -/
theorem serial_signature_class (st : Int) (hst : 0 ≤ st) :
    serialTypeSignature st =
      if st < 12 then st else if st % 2 = 0 then -1 else -2 := by
  exact Proofs.Codec.serial_signature_class st hst

/-! ### Non-vacuity: concrete objects meeting the hypotheses -/

example : decodeVarint (Buf.ofList [0x81, 0x00]) 0 = .ok (128, 2) := by decide
example : encodeVarint (-1) = .ok [255, 255, 255, 255, 255, 255, 255, 255, 255] := by decide
example : encodeVarint 0 = .ok [0] := by decide
example : decodeVarintRev (Buf.ofList ([0x05] ++ Spec.putVarint 300)) 3 9 = .ok (300, 1) := by decide
example : getRecordContent 3 (Buf.ofList [0xFF, 0xFF, 0xFE]) 0 = .ok (3, .int (-2)) := by decide
example : calcBodyContentSize (Buf.ofList [1, 13, 0x81, 0x00]) = .ok (1 + 0 + 58) := by decide

end SqliteDissect.Properties.C15
