/-
S5 (continued) — the bytes of a b-tree page as SQLite writes it (fileformat2 §1.6 "B-tree Pages",
btree.c `zeroPage`, `insertCell`, `allocateSpace`, `freeSpace`):

  [ 100-byte database header, on page 1 only ]
  page header       type byte (0x02 index interior, 0x05 table interior, 0x0a index leaf,
                    0x0d table leaf) · u16 first freeblock (0 = none) · u16 number of cells ·
                    u16 start of the cell content area (0 means 65536) · u8 fragmented free bytes ·
                    u32 right-most child pointer (interior pages only)
  cell pointer array   one u16 per cell: the offset of the cell within the page
  unallocated space
  cell content area    the cells, at the offsets the pointer array names; the freeblock chain
                    (u16 offset of the next freeblock or 0, u16 size of this freeblock, ascending
                    offsets); at most 60 bytes of fragments.

The page is described by a `PageLayout` (what is stored and where) and `PageLaidOut u bytes L`
says that the `u` bytes of the page are exactly that.  `pageLaidOutB` is the executable version.
All integers are big-endian.

Scope notes (to be checked by the harness against real files):
* `u` is the usable page size and is taken to be the page size (no reserved bytes at the end of
  the page), as sqlite-dissect itself assumes.
* SQLite allocates at least 4 bytes of the page per cell (btree.c `cellSizePtr`:
  `if( nSize<4 ) nSize = 4`).  A 3-byte cell — e.g. the index-leaf cell `[2, 2, 8]` of the key 0 in
  `CREATE TABLE t(a PRIMARY KEY) WITHOUT ROWID` — is stored at the offset its pointer names and is
  followed by one pad byte of arbitrary content that belongs to the cell's allocation (it is
  neither a fragment nor part of the cell): `CellSpec.allocSize`, used by `cellRegions`.
-/
import SqliteDissect.Spec.CellWrite
import SqliteDissect.Spec.PageFmt

namespace SqliteDissect.Spec
open SqliteDissect.Model

/-- 2-byte big-endian -/
def be16 (n : Nat) : List Nat := [n / 256 % 256, n % 256]

/-- a b-tree cell as SQLite stores it.  `ovfl` are the numbers of the pages of the overflow chain
(empty when the payload fits on the page), `cols` the columns of the record. -/
inductive CellSpec where
  /-- table leaf: payload-size varint, rowid varint, payload -/
  | tableLeaf (rowid : Int) (cols : List Col) (ovfl : List Nat)
  /-- table interior: u32 left child, integer-key varint -/
  | tableInterior (leftChild : Nat) (key : Int)
  /-- index leaf: payload-size varint, payload -/
  | indexLeaf (cols : List Col) (ovfl : List Nat)
  /-- index interior: u32 left child, payload-size varint, payload -/
  | indexInterior (leftChild : Nat) (cols : List Col) (ovfl : List Nat)
  deriving Repr, DecidableEq

namespace CellSpec

def kind : CellSpec → CellKind
  | tableLeaf .. => .tableLeaf
  | tableInterior .. => .tableInterior
  | indexLeaf .. => .indexLeaf
  | indexInterior .. => .indexInterior

/-- the bytes of the cell on the b-tree page (usable page size `u`) -/
def bytes (u : Nat) : CellSpec → List Nat
  | tableLeaf rowid cols ovfl => writeTableLeafCell u rowid (encodeRecord cols) (ovfl.headD 0)
  | tableInterior lc key => be32 lc ++ putVarint (toU64 key)
  | indexLeaf cols ovfl => writeIndexLeafCell u (encodeRecord cols) (ovfl.headD 0)
  | indexInterior lc cols ovfl => be32 lc ++ writeIndexLeafCell u (encodeRecord cols) (ovfl.headD 0)

/-- the record columns (none for a table interior cell, which has no payload) -/
def cols : CellSpec → Option (List Col)
  | tableLeaf _ cols _ => some cols
  | tableInterior .. => none
  | indexLeaf cols _ => some cols
  | indexInterior _ cols _ => some cols

def ovfl : CellSpec → List Nat
  | tableLeaf _ _ ovfl => ovfl
  | tableInterior .. => []
  | indexLeaf _ ovfl => ovfl
  | indexInterior _ _ ovfl => ovfl

def leftChild : CellSpec → Option Nat
  | tableLeaf .. => none
  | tableInterior lc _ => some lc
  | indexLeaf .. => none
  | indexInterior lc _ _ => some lc

/-- rowid of a table leaf cell / integer key of a table interior cell -/
def rowid : CellSpec → Option Int
  | tableLeaf rowid _ _ => some rowid
  | tableInterior _ key => some key
  | indexLeaf .. => none
  | indexInterior .. => none

/-- the payload (the encoded record) -/
def payload (s : CellSpec) : List Nat :=
  match s.cols with
  | some cols => encodeRecord cols
  | none => []

/-- bytes of the page SQLite allocates to the cell (`cellSizePtr`): its encoded size, at least 4 -/
def allocSize (u : Nat) (s : CellSpec) : Nat := max (s.bytes u).length 4

/-- the largest payload kept entirely on the page -/
def maxLocal (u : Nat) : CellSpec → Nat
  | tableLeaf .. => maxLeaf u
  | _ => maxLocalIndex u

/-- the part of the payload that is stored in the overflow chain -/
def overflowBytes (u : Nat) (s : CellSpec) : List Nat :=
  s.payload.drop (localSize u (s.maxLocal u) s.payload.length)

/-- the cell holds values SQLite can store, and its overflow chain is laid out in the version -/
def Valid (v : VersionIf) (s : CellSpec) : Prop :=
  (∀ cols, s.cols = some cols →
    (∀ c ∈ cols, ValidCol c) ∧ (typeBytes cols).length + 3 < 2 ^ 21 ∧ (encodeRecord cols).length < 2 ^ 63) ∧
  (∀ r, s.rowid = some r → -(2 ^ 63 : Int) ≤ r ∧ r < (2 ^ 63 : Int)) ∧
  (∀ lc, s.leftChild = some lc → lc ≠ 0 ∧ lc < 2 ^ 32) ∧
  (∀ p ∈ s.ovfl, p < 2 ^ 32) ∧
  ChainLaidOut v s.ovfl (s.overflowBytes v.pageSize)

end CellSpec

/-- the column sqlite-dissect reports for a stored column: serial type, length of its varint,
content size and decoded value -/
def reportedCol (c : Col) : RecordCol :=
  ⟨c.st, varintLen (toU64 c.st), c.content.length, (serialGet c.st c.content).getD .null⟩

/-- the record sqlite-dissect reports for stored columns -/
def reportedRecord (cols : List Col) : Record :=
  ⟨(hdrSize (typeBytes cols).length : Int), varintLen (hdrSize (typeBytes cols).length),
    cols.map reportedCol, encodeRecord cols⟩

/-- what sqlite-dissect must report for a cell (`u` = page size): the kind, the extent
`[start, end)` of the cell on the page, child pointer, rowid/key, payload size and its on-page part, the overflow pages
in chain order, the record (columns with serial types and values, whole payload as content) and
the digest input (the on-page bytes followed by the overflow content) -/
structure CellSpec.ReportedAs (u : Nat) (s : CellSpec) (c : Cell) : Prop where
  kind : c.kind = s.kind
  end_ : c.end_ = ((c.start + (s.bytes u).length : Nat) : Int)
  leftChild : c.leftChild = s.leftChild
  rowid : c.rowid = s.rowid
  payloadSize : c.payloadSize = s.cols.map fun cols => ((encodeRecord cols).length : Int)
  /-- payload bytes kept on the b-tree page -/
  bytesOnFirst : c.bytesOnFirst = s.cols.map fun cols =>
    ((localSize u (s.maxLocal u) (encodeRecord cols).length : Nat) : Int)
  overflow : c.overflowPages.map (·.number) = s.ovfl
  record : c.record = s.cols.map reportedRecord
  digest : c.digest = s.bytes u ++ s.overflowBytes u

/-! ### the page -/

def typeByte : PageType → Nat
  | .indexInterior => 0x02
  | .tableInterior => 0x05
  | .indexLeaf => 0x0a
  | .tableLeaf => 0x0d

def pageHdrLen (k : PageType) : Nat := if k.isInterior then 12 else 8

/-- what a b-tree page stores and where -/
structure PageLayout where
  /-- offset of the page header: 100 on page 1 (after the database header), 0 elsewhere -/
  hoff : Nat
  kind : PageType
  /-- the cells, in cell-pointer-array (= key) order -/
  cells : List CellSpec
  /-- the cell pointer array: the offset of each cell -/
  ptrs : List Nat
  /-- start of the cell content area, `1 … 65536` (stored modulo 65536) -/
  contentStart : Nat
  /-- the freeblock chain, in chain order: (offset, size) -/
  freeblocks : List (Nat × Nat)
  /-- number of fragmented free bytes -/
  fragBytes : Nat
  /-- right-most child (interior pages; ignored on leaves) -/
  rightMost : Nat
  deriving Repr

/-- the 8 or 12 bytes of the page header -/
def pageHeaderBytes (L : PageLayout) : List Nat :=
  [typeByte L.kind] ++ be16 ((L.freeblocks.map (·.1)).headD 0) ++ be16 L.cells.length ++
    be16 (L.contentStart % 65536) ++ [L.fragBytes] ++ (if L.kind.isInterior then be32 L.rightMost else [])

/-- `x` is stored at offset `off` -/
def StoredAt (bytes : List Nat) (off : Nat) (x : List Nat) : Prop := (bytes.drop off).take x.length = x

instance (bytes : List Nat) (off : Nat) (x : List Nat) : Decidable (StoredAt bytes off x) := by
  unfold StoredAt; infer_instance

/-- the freeblock chain: every freeblock starts with the offset of the next one (0 on the last)
and its own size; offsets ascend -/
def FreeblocksAt (bytes : List Nat) : List (Nat × Nat) → Prop
  | [] => True
  | [f] => StoredAt bytes f.1 (be16 0 ++ be16 f.2)
  | f :: g :: rest => f.1 < g.1 ∧ StoredAt bytes f.1 (be16 g.1 ++ be16 f.2) ∧ FreeblocksAt bytes (g :: rest)

/-- extents of the allocations of the cells on the page (a cell shorter than 4 bytes is allocated
4 bytes) -/
def PageLayout.cellRegions (u : Nat) (L : PageLayout) : List Region :=
  List.zipWith (fun (p : Nat) (c : CellSpec) => ((p : Int), ((p + c.allocSize u : Nat) : Int))) L.ptrs L.cells

/-- extents of the freeblocks -/
def PageLayout.fbRegions (L : PageLayout) : List Region :=
  L.freeblocks.map fun (f : Nat × Nat) => ((f.1 : Int), ((f.1 + f.2 : Nat) : Int))

/-- the `u` bytes `bytes` are a b-tree page holding exactly `L` -/
structure PageLaidOut (u : Nat) (bytes : List Nat) (L : PageLayout) : Prop where
  size : bytes.length = u
  /-- page 1 starts with the database header ("SQLite format 3\0": first byte 0x53) and is a
  table b-tree page (the root of sqlite_schema) -/
  dbHeader : L.hoff = 0 ∨ (L.hoff = 100 ∧ bytes.head? = some 0x53 ∧ L.kind.isTable = true)
  header : StoredAt bytes L.hoff (pageHeaderBytes L)
  nptrs : L.ptrs.length = L.cells.length
  ptrArray : StoredAt bytes (L.hoff + pageHdrLen L.kind) (L.ptrs.flatMap be16)
  kinds : ∀ c ∈ L.cells, c.kind = cellKindOf L.kind
  cellsAt : ∀ pc ∈ L.ptrs.zip L.cells, StoredAt bytes pc.1 (pc.2.bytes u)
  freeAt : FreeblocksAt bytes L.freeblocks
  /-- interior pages: the right-most child pointer is a page number -/
  rightMostOk : L.kind.isInterior = true → L.rightMost ≠ 0 ∧ L.rightMost < 2 ^ 32
  /-- the pointer array ends before the cell content area -/
  gap : L.hoff + pageHdrLen L.kind + 2 * L.cells.length ≤ L.contentStart
  /-- cell allocations and freeblocks are disjoint, inside the content area, and the bytes of that area they
  do not cover are the fragment bytes of the header (≤ 60) -/
  layout : WellFormedLayout u L.contentStart L.fragBytes (L.cellRegions u ++ L.fbRegions)

/-- two lists of the same length whose elements are related position by position -/
def Elementwise {α β : Type} (R : α → β → Prop) : List α → List β → Prop
  | [], [] => True
  | a :: as, b :: bs => R a b ∧ Elementwise R as bs
  | _, _ => False

/-- what sqlite-dissect must report for the page: its number and type, one cell per stored cell,
in pointer-array order, each reported as its specification says, at the offset the pointer array
names; the freeblocks of the chain; the right-most pointer -/
structure PageLayout.ReportedAs (u : Nat) (L : PageLayout) (number : Nat) (pg : BPage) : Prop where
  number : pg.number = number
  ptype : pg.ptype = L.kind
  cells : Elementwise (fun s c => CellSpec.ReportedAs u s c) L.cells pg.cells
  starts : pg.cells.map (·.start) = L.ptrs
  indices : pg.cells.map (·.index) = List.range L.cells.length
  freeblocks : pg.freeblocks.map (fun f => (f.start, f.byteSize)) = L.freeblocks
  rightMost : pg.hdr.rightMost = if L.kind.isInterior then some L.rightMost else none

/-! ### executable checker -/

def freeblocksAtB (bytes : List Nat) : List (Nat × Nat) → Bool
  | [] => true
  | [f] => decide (StoredAt bytes f.1 (be16 0 ++ be16 f.2))
  | f :: g :: rest => decide (f.1 < g.1) && decide (StoredAt bytes f.1 (be16 g.1 ++ be16 f.2)) &&
      freeblocksAtB bytes (g :: rest)

/-- pairwise disjointness of regions -/
def disjointB : List Region → Bool
  | [] => true
  | a :: rest => rest.all (fun b => decide (a.2 ≤ b.1 ∨ b.2 ≤ a.1)) && disjointB rest

def wellFormedLayoutB (size cs fragHdr : Nat) (regions : List Region) : Bool :=
  decide (cs ≤ size) && regions.all (fun r => decide (r.1 < r.2)) &&
  regions.all (fun r => decide ((cs : Int) ≤ r.1 ∧ r.2 ≤ (size : Int))) &&
  disjointB regions && decide ((size : Int) - cs - sumSizes regions = fragHdr) &&
  decide (fragHdr ≤ 60) && decide (regions = [] → cs = size)

/-- executable `PageLaidOut` (run by the harness on pages SQLite wrote) -/
def pageLaidOutB (u : Nat) (bytes : List Nat) (L : PageLayout) : Bool :=
  decide (bytes.length = u) &&
  decide (L.hoff = 0 ∨ (L.hoff = 100 ∧ bytes.head? = some 0x53 ∧ L.kind.isTable = true)) &&
  decide (StoredAt bytes L.hoff (pageHeaderBytes L)) &&
  decide (L.ptrs.length = L.cells.length) &&
  decide (StoredAt bytes (L.hoff + pageHdrLen L.kind) (L.ptrs.flatMap be16)) &&
  L.cells.all (fun c => decide (c.kind = cellKindOf L.kind)) &&
  (L.ptrs.zip L.cells).all (fun pc => decide (StoredAt bytes pc.1 (pc.2.bytes u))) &&
  freeblocksAtB bytes L.freeblocks &&
  decide (L.kind.isInterior = true → L.rightMost ≠ 0 ∧ L.rightMost < 2 ^ 32) &&
  decide (L.hoff + pageHdrLen L.kind + 2 * L.cells.length ≤ L.contentStart) &&
  wellFormedLayoutB u L.contentStart L.fragBytes (L.cellRegions u ++ L.fbRegions)

end SqliteDissect.Spec
