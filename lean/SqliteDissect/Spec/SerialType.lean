/-
S2 — serial types (fileformat2 §2.1 "Record Format", vdbeaux.c sqlite3VdbeSerialTypeLen /
sqlite3VdbeSerialGet): content length and decoded value of each serial type.
-/
import SqliteDissect.Model.Codec

namespace SqliteDissect.Spec
open SqliteDissect.Model (Val)

/-- content length; `none` for the reserved types 10, 11 (and anything negative) -/
def serialTypeLen (st : Int) : Option Nat :=
  if st < 0 then none
  else match st.toNat with
    | 0 => some 0 | 1 => some 1 | 2 => some 2 | 3 => some 3 | 4 => some 4
    | 5 => some 6 | 6 => some 8 | 7 => some 8 | 8 => some 0 | 9 => some 0
    | 10 => none | 11 => none
    | n => some ((n - 12) / 2)

/-- big-endian value of a byte list -/
def beVal : List Nat → Nat
  | [] => 0
  | b :: rest => b * 256 ^ rest.length + beVal rest

/-- big-endian two's complement of `w` bytes -/
def twosVal (bs : List Nat) : Int :=
  let u := beVal bs
  if u < 2 ^ (8 * bs.length - 1) then (u : Int) else (u : Int) - (2 ^ (8 * bs.length) : Nat)

/-- decoded value of serial type `st` from exactly `serialTypeLen st` content bytes -/
def serialGet (st : Int) (content : List Nat) : Option Val :=
  match serialTypeLen st with
  | none => none
  | some n =>
    if content.length ≠ n then none
    else if st = 0 then some .null
    else if st = 8 then some (.int 0)
    else if st = 9 then some (.int 1)
    else if st = 7 then some (.real (beVal content))
    else if st ≤ 6 then some (.int (twosVal content))
    else if st % 2 = 0 then some (.blob content)
    else some (.text content)

/-- big-endian two's-complement bytes of `i` in `w` bytes -/
def twosBytes : Nat → Int → List Nat
  | 0, _ => []
  | w + 1, i => twosBytes w (i / 256) ++ [(i % 256).toNat]

end SqliteDissect.Spec
