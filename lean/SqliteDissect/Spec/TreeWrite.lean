/-
S5 (continued) — a b-tree as SQLite lays it out in the file (fileformat2 §1.6): leaf pages hold
the entries; an interior page holds K keys and K+1 child pointers — the left child of each of its
cells and the right-most pointer of its header.  In a table b-tree the interior keys are integer
keys only (all rows are in the leaves); in an index b-tree the interior cells carry entries too.
-/
import SqliteDissect.Spec.PageWrite
import SqliteDissect.Model.Tree

namespace SqliteDissect.Spec
open SqliteDissect.Model

/-- the key of an interior cell -/
inductive Key where
  /-- table b-tree: an integer key -/
  | rowid (k : Int)
  /-- index b-tree: an index entry (record columns, overflow chain pages) -/
  | entry (cols : List Col) (ovfl : List Nat)
  deriving Repr

/-- the interior cell with this key and the given left child -/
def Key.cell (leftChild : Nat) : Key → CellSpec
  | .rowid k => .tableInterior leftChild k
  | .entry cols ovfl => .indexInterior leftChild cols ovfl

/-- an abstract b-tree: page numbers and cell contents -/
inductive TTree where
  | leaf (page : Nat) (cells : List CellSpec)
  /-- `children`: the left subtree of every cell with the cell's key, in key order -/
  | interior (page : Nat) (children : List (TTree × Key)) (rightMost : TTree)

namespace TTree

/-- root page number -/
def page : TTree → Nat
  | leaf p _ => p
  | interior p _ _ => p

/-- the cells stored on the root page -/
def rootCells : TTree → List CellSpec
  | leaf _ cells => cells
  | interior _ ch _ => ch.map fun c => c.2.cell c.1.page

/-- the type of the root page in a table / index b-tree -/
def kind (table : Bool) : TTree → PageType
  | leaf .. => if table then .tableLeaf else .indexLeaf
  | interior .. => if table then .tableInterior else .indexInterior

theorem child_lt {c : TTree × Key} {ch : List (TTree × Key)} (h : c ∈ ch) : sizeOf c.1 < sizeOf ch := by
  have := List.sizeOf_lt_of_mem h
  cases c with
  | mk a b => simp only [Prod.mk.sizeOf_spec] at this ⊢; omega

/-- the pages of the tree with their cells, in the order sqlite-dissect constructs and lists them
(`get_pages_from_b_tree_page`): the page, then its right-most subtree, then the left subtree of
each cell in cell order -/
def nodes (table : Bool) : TTree → List (Nat × PageType × List CellSpec)
  | leaf p cells => [(p, (leaf p cells).kind table, cells)]
  | interior p ch rm =>
    (p, (interior p ch rm).kind table, (interior p ch rm).rootCells) :: rm.nodes table ++
      (ch.map fun c => c.1.nodes table).flatten
decreasing_by
  all_goals simp_wf
  · omega
  · have := child_lt ‹_ ∈ _›; omega

/-- the page numbers of the tree are pairwise distinct: every page has one place in the tree (true
of every b-tree SQLite writes; `nodes` lists the same page numbers for `table = true` and `false`,
Proofs/TreeParse.lean `nodes_numbers`).  The repaired `get_b_tree_root_page` refuses a tree in
which a page is reached twice, so the round-trip theorems about it assume this. -/
def PagesDistinct (T : TTree) : Prop := ((T.nodes true).map (·.1)).Nodup

/-- the cells of the leaf pages, in the same order -/
def leafCells : TTree → List CellSpec
  | leaf _ cells => cells
  | interior _ ch rm => rm.leafCells ++ (ch.map fun c => c.1.leafCells).flatten
decreasing_by
  all_goals simp_wf
  · omega
  · have := child_lt ‹_ ∈ _›; omega

/-- the cells of all pages, in the same order (index b-trees keep entries in interior cells too) -/
def allCells : TTree → List CellSpec
  | leaf _ cells => cells
  | interior p ch rm => (interior p ch rm).rootCells ++ rm.allCells ++ (ch.map fun c => c.1.allCells).flatten
decreasing_by
  all_goals simp_wf
  · omega
  · have := child_lt ‹_ ∈ _›; omega

/-- Python stack frames the construction of the tree needs: one for the page constructor itself;
reaching a child through the right-most pointer costs `rightMostDescentFrames` = 1 more frame,
through a cell `cellDescentFrames` = 3 more (page constructor → b-tree page constructor → cell
constructor → child page constructor) -/
def frames : TTree → Nat
  | leaf .. => 1
  | interior _ ch rm =>
    1 + max (rightMostDescentFrames + rm.frames) ((ch.map fun c => cellDescentFrames + c.1.frames).foldl max 0)
decreasing_by
  all_goals simp_wf
  · omega
  · have := child_lt ‹_ ∈ _›; omega

end TTree

/-- page `n` of the version is a b-tree page laid out as `L`, with valid cells whose overflow
chains are laid out in the version; the database header is on page 1 and only there -/
def PageServed (v : VersionIf) (n : Nat) (L : PageLayout) : Prop :=
  ∃ bytes, Serves v n bytes ∧ PageLaidOut v.pageSize bytes L ∧ L.hoff = (if n = 1 then 100 else 0) ∧
    ∀ c ∈ L.cells, c.Valid v

/-- every node of the tree is laid out on its page: the page's cells are the node's cells, the
child pointers are the children's page numbers (never page 1), all pages are of the same b-tree
family (`table`) -/
inductive TreeLaidOut (v : VersionIf) (table : Bool) : TTree → Prop
  | leaf (page : Nat) (cells : List CellSpec) (L : PageLayout) :
      L.kind = (TTree.leaf page cells).kind table → L.cells = cells → PageServed v page L →
      TreeLaidOut v table (.leaf page cells)
  | interior (page : Nat) (children : List (TTree × Key)) (rightMost : TTree) (L : PageLayout) :
      L.kind = (TTree.interior page children rightMost).kind table →
      L.cells = (TTree.interior page children rightMost).rootCells →
      L.rightMost = rightMost.page → PageServed v page L →
      (∀ c ∈ children, 2 ≤ c.1.page) → (∀ c ∈ children, TreeLaidOut v table c.1) →
      2 ≤ rightMost.page → TreeLaidOut v table rightMost →
      TreeLaidOut v table (.interior page children rightMost)

/-- what sqlite-dissect must report for a node: page number, page type, one cell per stored cell -/
def NodeReported (u : Nat) (nd : Nat × PageType × List CellSpec) (pg : BPage) : Prop :=
  pg.number = nd.1 ∧ pg.ptype = nd.2.1 ∧ Elementwise (fun s c => CellSpec.ReportedAs u s c) nd.2.2 pg.cells

/-- the (rowid, column values) of a table leaf cell, as stored / as reported -/
def CellSpec.row (s : CellSpec) : Option Int × Option (List RecordCol) :=
  (s.rowid, s.cols.map fun cols => cols.map reportedCol)

def cellRow (c : Cell) : Option Int × Option (List RecordCol) :=
  (c.rowid, c.record.map (·.cols))

end SqliteDissect.Spec
