/-
S9 (continued) — how the 100-byte database header may change from one committed transaction to the
next (pager.c `pager_write_changecounter`, btree.c `sqlite3BtreeUpdateMeta`, `newDatabase`,
`btreeBeginTrans`): the file change counter and the version-valid-for number move together, by one;
the size field, when it changes, is the commit frame's size; auto-vacuum is fixed once the first
table exists (largest-root-page stays zero or stays non-zero); the schema cookie never decreases and
changes exactly when the schema b-tree does; the schema format and the text encoding are set once,
together, by the transaction that turns the empty one-page file into a database; page size, format
versions, reserved bytes and payload fractions never change.
-/
import SqliteDissect.Model.Wal

namespace SqliteDissect.Spec
open SqliteDissect.Model

/-- a legal header transition across one commit (`committedSize`: size field of the commit frame,
`schemaModified`: the commit wrote a page of the schema b-tree whose content changed) -/
structure HeaderStep (prev next : DbHeader) (committedSize : Nat) (schemaModified : Bool) : Prop where
  counters : (prev.changeCounter = next.changeCounter ∧ prev.versionValidFor = next.versionValidFor) ∨
             (prev.changeCounter + 1 = next.changeCounter ∧ prev.versionValidFor + 1 = next.versionValidFor)
  size : prev.sizeInPages = next.sizeInPages ∨ committedSize = next.sizeInPages
  autoVacuum : (prev.largestRoot = 0 ↔ next.largestRoot = 0)
  cookieMonotone : prev.schemaCookie ≤ next.schemaCookie
  cookieIffSchema : (prev.schemaCookie ≠ next.schemaCookie ↔ schemaModified = true)
  formatEncoding : (prev.schemaFormat = next.schemaFormat ∧ prev.textEncoding = next.textEncoding) ∨
                   (prev.schemaFormat ≠ next.schemaFormat ∧ prev.textEncoding ≠ next.textEncoding ∧
                    prev.schemaFormat = 0 ∧ prev.textEncoding = 0 ∧ prev.sizeInPages = 1 ∧
                    prev.sizeInPages ≠ next.sizeInPages)
  fixed : prev.pageSize = next.pageSize ∧ prev.writeVersion = next.writeVersion ∧ prev.readVersion = next.readVersion ∧
          prev.reservedBytes = next.reservedBytes ∧ prev.maxFraction = next.maxFraction ∧
          prev.minFraction = next.minFraction ∧ prev.leafFraction = next.leafFraction

/-- executable form (run by the harness on the headers of consecutive versions of SQLite-written histories) -/
def headerStepB (prev next : DbHeader) (committedSize : Nat) (schemaModified : Bool) : Bool :=
  decide ((prev.changeCounter = next.changeCounter ∧ prev.versionValidFor = next.versionValidFor) ∨
          (prev.changeCounter + 1 = next.changeCounter ∧ prev.versionValidFor + 1 = next.versionValidFor)) &&
  decide (prev.sizeInPages = next.sizeInPages ∨ committedSize = next.sizeInPages) &&
  decide (prev.largestRoot = 0 ↔ next.largestRoot = 0) &&
  decide (prev.schemaCookie ≤ next.schemaCookie) &&
  decide (prev.schemaCookie ≠ next.schemaCookie ↔ schemaModified = true) &&
  decide ((prev.schemaFormat = next.schemaFormat ∧ prev.textEncoding = next.textEncoding) ∨
          (prev.schemaFormat ≠ next.schemaFormat ∧ prev.textEncoding ≠ next.textEncoding ∧
           prev.schemaFormat = 0 ∧ prev.textEncoding = 0 ∧ prev.sizeInPages = 1 ∧
           prev.sizeInPages ≠ next.sizeInPages)) &&
  decide (prev.pageSize = next.pageSize ∧ prev.writeVersion = next.writeVersion ∧ prev.readVersion = next.readVersion ∧
          prev.reservedBytes = next.reservedBytes ∧ prev.maxFraction = next.maxFraction ∧
          prev.minFraction = next.minFraction ∧ prev.leafFraction = next.leafFraction)

end SqliteDissect.Spec
