/-
S10/S11 — write-ahead log (wal.c, walformat): a frame belongs to the current generation iff its
salts equal the header's; a frame with a non-zero size field commits a transaction; the page
image of page p after a commit is that of the *latest* frame for p at or before the commit frame
(`walFindFrame`), else the database file's; a page may be written more than once in one transaction.
-/
import SqliteDissect.Model.Wal

namespace SqliteDissect.Spec
open SqliteDissect.Model

/-- 1-based number of the latest frame among `fs` that carries page `p` -/
def latestFrame (fs : List Frame) (p : Nat) : Option Nat :=
  ((fs.filter fun f => f.hdr.pageNumber = p).getLast?).map Frame.number

/-- number of the transaction (1-based position in `gs`) that last wrote page `p` -/
def latestTxn : List (List Frame) → Nat → Option Nat
  | [], _ => none
  | g :: rest, p =>
    match latestTxn rest p with
    | some k => some (k + 1)
    | none => if g.any (fun f => f.hdr.pageNumber = p) then some 1 else none

/-- byte offset in the WAL file of the page image carried by frame number `f ≥ 1` -/
def frameImageOffset (ps f : Nat) : Nat := 32 + (f - 1) * (24 + ps) + 24

/-- number of whole frames in a WAL file of `n ≥ 32` bytes -/
def wholeFrames (ps n : Nat) : Nat := (n - 32) / (24 + ps)

end SqliteDissect.Spec
