/-
S8 — rows of `sqlite_schema` (fileformat2 §2.6 "Storage Of The SQL Database Schema").

Page 1 is the root of a table b-tree whose rows have five columns

  type text ('table' | 'index' | 'view' | 'trigger') · name text · tbl_name text ·
  rootpage integer (page number of the root b-tree page; 0 or NULL for views, triggers and
  virtual tables) · sql text (NULL for automatically created indexes)

all text in the text encoding of the database header (1 UTF-8, 2 UTF-16le, 3 UTF-16be).

`schemaEntryOf enc s` recognises a stored cell `s` as such a row and returns the abstract entry it
denotes; everything here is executable.
-/
import SqliteDissect.Spec.PageWrite
import SqliteDissect.Model.History

namespace SqliteDissect.Spec
open SqliteDissect.Model

/-- the four kinds of schema rows, in the order sqlite-dissect lists them -/
def schemaKinds : List String := ["table", "index", "view", "trigger"]

/-- bytes of an ASCII string in the database text encoding -/
def encodeAscii (enc : Nat) (s : String) : List Nat :=
  if enc = 1 then s.toList.map (·.toNat)
  else if enc = 2 then s.toList.flatMap fun c => [c.toNat, 0]
  else s.toList.flatMap fun c => [0, c.toNat]

/-- the kind whose encoding the bytes are -/
def kindOfBytes (enc : Nat) (bytes : List Nat) : Option String :=
  schemaKinds.find? fun k => encodeAscii enc k = bytes

/-- an abstract row of sqlite_schema; `name`, `tblName`, `sql` are the stored bytes (text in the
database encoding), `rootpage = none` is SQL NULL -/
structure SchemaEntry where
  rowid : Int
  type : String
  name : List Nat
  tblName : List Nat
  rootpage : Option Int
  sql : Option (List Nat)
  deriving DecidableEq, Repr

/-- the text a stored column holds (`none` when the column is not text) -/
def textOf (c : Col) : Option (List Nat) :=
  match serialGet c.st c.content with
  | some (.text b) => some b
  | _ => none

/-- integer or NULL -/
def intOrNullOf (c : Col) : Option (Option Int) :=
  match serialGet c.st c.content with
  | some .null => some none
  | some (.int i) => some (some i)
  | _ => none

/-- text or NULL -/
def textOrNullOf (c : Col) : Option (Option (List Nat)) :=
  match serialGet c.st c.content with
  | some .null => some none
  | some (.text b) => some (some b)
  | _ => none

/-- a stored schema row: a table-leaf cell whose record has exactly the five columns, of the
storage classes the schema table declares, the type being one of the four kinds in the database
encoding; the abstract entry it denotes -/
def schemaEntryOf (enc : Nat) : CellSpec → Option SchemaEntry
  | .tableLeaf rowid [c0, c1, c2, c3, c4] _ => do
      let tb ← textOf c0
      let ty ← kindOfBytes enc tb
      let name ← textOf c1
      let tbl ← textOf c2
      let root ← intOrNullOf c3
      let sql ← textOrNullOf c4
      some ⟨rowid, ty, name, tbl, root, sql⟩
  | _ => none

/-- the leaf cells `cells` are stored schema rows denoting the entries `es`, in order -/
def StoredSchemaRows (enc : Nat) (cells : List CellSpec) (es : List SchemaEntry) : Prop :=
  cells.map (schemaEntryOf enc) = es.map some

instance (enc : Nat) (cells : List CellSpec) (es : List SchemaEntry) :
    Decidable (StoredSchemaRows enc cells es) := by
  unfold StoredSchemaRows; infer_instance

/-- what the file format guarantees about an entry beyond its shape: a root page number is not
negative -/
def SchemaEntry.WellFormed (e : SchemaEntry) : Prop := ∀ r, e.rootpage = some r → 0 ≤ r

instance (e : SchemaEntry) : Decidable e.WellFormed := by
  unfold SchemaEntry.WellFormed
  cases e.rootpage with
  | none => exact isTrue (fun r h => nomatch h)
  | some x =>
    exact if h : 0 ≤ x then isTrue (fun r hr => by cases hr; exact h)
      else isFalse (fun hh => h (hh x rfl))

/-- what sqlite-dissect additionally requires of a row (rows outside this are legal for SQLite
but refused or misreported by the tool, see Properties/C01Schema): non-empty name and table name
(`CREATE TABLE ""(a)` is legal), sql not the empty string -/
def SchemaEntry.Supported (e : SchemaEntry) : Prop := e.name ≠ [] ∧ e.tblName ≠ [] ∧ e.sql ≠ some []

instance (e : SchemaEntry) : Decidable e.Supported := by
  unfold SchemaEntry.Supported; infer_instance

/-- the root page number as the Python value sqlite-dissect holds (`None` or an `int`) -/
def SchemaEntry.rootVal (e : SchemaEntry) : Val :=
  match e.rootpage with
  | none => .null
  | some r => .int r

/-- order of `MasterSchema.master_schema_entries`: traversal order within each kind, the kinds in
the order tables, indexes, views, triggers -/
def schemaOrder (es : List SchemaEntry) : List SchemaEntry :=
  es.filter (·.type = "table") ++ es.filter (·.type = "index") ++ es.filter (·.type = "view") ++
    es.filter (·.type = "trigger")

/-- `master_schema_b_tree_root_page_numbers`: the non-NULL, non-zero root pages in that order -/
def schemaRoots (es : List SchemaEntry) : List Nat :=
  (schemaOrder es).filterMap fun e =>
    match e.rootpage with
    | some r => if r = 0 then none else some r.toNat
    | none => none

/-- what sqlite-dissect must report for an entry stored on leaf page `leafPage` in a cell whose
digest input is `digest` -/
structure SchemaEntry.ReportedAs (e : SchemaEntry) (r : SchemaRow) : Prop where
  rowid : r.rowid = e.rowid
  rowType : r.rowType = e.type
  name : r.name = e.name
  tableName : r.tableName = e.tblName
  rootPage : r.rootPage = e.rootVal
  sql : r.sql = e.sql

/-- the identity sqlite-dissect tracks an entry by across versions (`md5_hash_identifier` input:
everything but the root page) -/
def SchemaEntry.ident (e : SchemaEntry) : EntryIdent := ⟨e.rowid, e.type, e.name, e.tblName, e.sql⟩

end SqliteDissect.Spec
