/-
Column affinity and the storage classes it lets a column hold on disk (datatype3 §3 "Type
Affinity"), in the simplified serial-type vocabulary of the signatures: -2 text, -1 blob,
0 NULL, 1..6, 8, 9 integers, 7 real.

* "A column with TEXT affinity stores all data using storage classes NULL, TEXT or BLOB."
* NUMERIC / INTEGER / REAL / BLOB affinity: any of the five storage classes can occur (text that
  does not look like a number stays text; blobs and NULLs are never converted).  A REAL-affinity
  column holding a small whole number is written as an integer serial type ("as an internal
  optimization … written to disk as integers").
-/
import SqliteDissect.Model.Signature

namespace SqliteDissect.Spec
open SqliteDissect.Model.Signature

/-- can a column of affinity `a` hold simplified serial type `t` on disk? -/
def affinityStores : Affinity → Int → Bool
  | .text, t => decide (t = -2 ∨ t = -1 ∨ t = 0)
  | .other, _ => false
  | _, t => decide (-2 ≤ t ∧ t ≤ 9)

/-- the serial types of the storage class the affinity converts a value to when it can -/
def affinityPrefers : Affinity → List Int
  | .integer => [1, 2, 3, 4, 5, 6, 8, 9]
  | .real => [7]
  | .numeric => [1, 2, 3, 4, 5, 6, 7, 8, 9]
  | .text => [-2]
  | .blob => [-1]
  | .other => []

end SqliteDissect.Spec
