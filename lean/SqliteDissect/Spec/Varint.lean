/-
S1 — SQLite's variable-length integer (fileformat2 §"varint", util.c sqlite3PutVarint /
sqlite3GetVarint), stated over plain lists of bytes and unsigned 64-bit values.

"A varint consists of either zero or more bytes which have the high-order bit set followed by
a single byte with the high-order bit clear, or nine bytes, whichever is shorter.  The lower
seven bits of each of the first eight bytes and all 8 bits of the ninth byte are used to
reconstruct the 64-bit twos-complement integer.  Varints are big-endian."
-/
namespace SqliteDissect.Spec

/-- decode: `k` bytes consumed so far, `acc` the value so far. Returns (u64 value, length). -/
def getVarintAux : Nat → Nat → List Nat → Option (Nat × Nat)
  | _, _, [] => none
  | k, acc, b :: rest =>
    if k = 8 then some (acc * 256 + b, 9)
    else if b < 128 then some (acc * 128 + b, k + 1)
    else getVarintAux (k + 1) (acc * 128 + (b - 128)) rest

def getVarint (bs : List Nat) : Option (Nat × Nat) := getVarintAux 0 0 bs

/-- length of the canonical (shortest) encoding of an unsigned 64-bit value -/
def varintLen (u : Nat) : Nat :=
  if u < 2 ^ 7 then 1
  else if u < 2 ^ 14 then 2
  else if u < 2 ^ 21 then 3
  else if u < 2 ^ 28 then 4
  else if u < 2 ^ 35 then 5
  else if u < 2 ^ 42 then 6
  else if u < 2 ^ 49 then 7
  else if u < 2 ^ 56 then 8
  else 9

/-- `n` continuation bytes: the low `7n` bits of `v`, big-endian, each with the high bit set -/
def contBytes : Nat → Nat → List Nat
  | 0, _ => []
  | n + 1, v => contBytes n (v / 128) ++ [v % 128 + 128]

/-- SQLite's canonical encoding of `u < 2^64` -/
def putVarint (u : Nat) : List Nat :=
  if u < 2 ^ 56 then contBytes (varintLen u - 1) (u / 128) ++ [u % 128]
  else contBytes 8 (u / 256) ++ [u % 256]

/-- two's complement views -/
def toU64 (i : Int) : Nat := (i % (2 ^ 64 : Nat)).toNat
def toI64 (u : Nat) : Int := if u < 2 ^ 63 then (u : Int) else (u : Int) - (2 ^ 64 : Nat)

end SqliteDissect.Spec
