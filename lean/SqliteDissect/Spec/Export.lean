/-
Vocabulary of the C11 statements: which values are quantified over, what "reads back unchanged"
means per storage class, and the one documented alteration.  Trusted statement, kept small.
-/
import SqliteDissect.Model.Export

namespace SqliteDissect.Spec.Export
open SqliteDissect SqliteDissect.Model SqliteDissect.Model.Export

def BytesOK (b : List Nat) : Prop := ∀ x ∈ b, x < 256

/-- a stored value whose text / blob content is made of bytes -/
def ValOK : Val → Prop
  | .text b => BytesOK b
  | .blob b => BytesOK b
  | _ => True

/-- the five "empty / zero" values the property names: NULL, 0, 0.0, '' and x'' -/
def five : List Val := [.null, .int 0, .real 0, .text [], .blob []]

/-- the documented alteration in CSV / XLSX: one leading space in front of a leading `=` -/
def eqGuard (s : List Nat) : List Nat :=
  match s with
  | 61 :: _ => 32 :: s
  | _ => s

/-- the one fact about Python's `repr(float)` the statements need: `repr(0.0) == "0.0"` -/
def FsZero (fs : Nat → List Nat) : Prop := fs 0 = [48, 46, 48]

/-- what a SQLite export that "reads back unchanged" stores: the value itself, text as text
(the export database is utf-8, so the utf-8 encoding of the characters decoded in the
database encoding) -/
def expectedStored (enc : Enc) : Val → Val
  | .text b => .text (utf8Encode (decodeReplace enc b))
  | v => v

end SqliteDissect.Spec.Export
