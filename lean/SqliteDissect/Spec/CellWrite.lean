/-
S4 (continued) — how SQLite lays a table-leaf / index cell and its overflow chain out in the file
(btree.c `fillInCell`): payload-size varint, (table leaves) rowid varint, the local part of the
payload, and — when the payload does not fit — the 4-byte number of the first overflow page;
overflow page i holds the 4-byte number of the next page (0 on the last) followed by up to
`u-4` payload bytes.
-/
import SqliteDissect.Spec.CellFmt
import SqliteDissect.Spec.RecordFmt
import SqliteDissect.Model.Page

namespace SqliteDissect.Spec
open SqliteDissect.Model

/-- 4-byte big-endian -/
def be32 (n : Nat) : List Nat := [n / 16777216 % 256, n / 65536 % 256, n / 256 % 256, n % 256]

/-- bytes of a table-leaf cell -/
def writeTableLeafCell (u : Nat) (rowid : Int) (payload : List Nat) (firstOvfl : Nat) : List Nat :=
  let b := localSize u (maxLeaf u) payload.length
  putVarint payload.length ++ putVarint (toU64 rowid) ++ payload.take b ++
    (if b < payload.length then be32 firstOvfl else [])

/-- bytes of an index-leaf cell -/
def writeIndexLeafCell (u : Nat) (payload : List Nat) (firstOvfl : Nat) : List Nat :=
  let b := localSize u (maxLocalIndex u) payload.length
  putVarint payload.length ++ payload.take b ++ (if b < payload.length then be32 firstOvfl else [])

/-- the version serves page `n` with exactly the bytes `bytes` (whole-page and partial reads agree) -/
structure Serves (v : VersionIf) (n : Nat) (bytes : List Nat) : Prop where
  size : bytes.length = v.pageSize
  version : ∃ pv, v.pageVersion n = .ok pv
  offset : ∃ o, v.pageOffset n = .ok o
  whole : ∃ b, v.getData n 0 none = .ok b ∧ b.toList = bytes ∧ b.size = bytes.length
  part : ∀ off len, 0 < len → off + len ≤ v.pageSize →
    ∃ b, v.getData n off (some len) = .ok b ∧ b.toList = (bytes.drop off).take len ∧ b.size = len

/-- the overflow bytes `rest` are stored in the chain of pages `pgs` (in order), `u-4` bytes per page -/
def ChainLaidOut (v : VersionIf) : List Nat → List Nat → Prop
  | [], rest => rest = []
  | [p], rest => 0 < rest.length ∧ rest.length ≤ v.pageSize - 4 ∧ p ≠ 0 ∧
      ∃ pad, Serves v p (be32 0 ++ rest ++ pad)
  | p :: q :: more, rest => v.pageSize - 4 < rest.length ∧ p ≠ 0 ∧
      Serves v p (be32 q ++ rest.take (v.pageSize - 4)) ∧ ChainLaidOut v (q :: more) (rest.drop (v.pageSize - 4))

end SqliteDissect.Spec
