/-
S13 — column affinity from the declared type.

Source: SQLite build.c `sqlite3AffinityType` / datatype3.html §3.1.  The declared type is scanned
case-insensitively (ASCII only: `sqlite3UpperToLower`) for the substrings below; the five rules
are applied in order.  A column without a declared type has BLOB affinity (`sqlite3AddColumn`,
`sType.n==0`).

Validated on every run against SQLite 3.40.1 (typeof probing of '1' and 1.0 inserted into a
column with the declared type, and CREATE TABLE … AS SELECT which writes INT/NUM/REAL/TEXT/"" back
as the declared type), see harness/props/c07.py.
-/
namespace SqliteDissect.Spec

inductive Affinity where
  | text | numeric | integer | real | blob
  deriving DecidableEq, Repr, Inhabited

def Affinity.name : Affinity → String
  | .text => "TEXT" | .numeric => "NUMERIC" | .integer => "INTEGER" | .real => "REAL" | .blob => "BLOB"

/-- `sqlite3UpperToLower` read the other way round: ASCII letters only -/
def asciiUpper (c : Char) : Char :=
  if 97 ≤ c.toNat && c.toNat ≤ 122 then Char.ofNat (c.toNat - 32) else c

/-- does `s` contain `kw` as a contiguous substring? -/
def contains (kw : List Char) : List Char → Bool
  | [] => kw.isEmpty
  | c :: cs => kw.isPrefixOf (c :: cs) || contains kw cs

/-- the five ordered rules on an upper-cased declared type -/
def rules (t : List Char) : Affinity :=
  if contains ['I','N','T'] t then .integer
  else if contains ['C','H','A','R'] t || contains ['C','L','O','B'] t || contains ['T','E','X','T'] t then .text
  else if contains ['B','L','O','B'] t then .blob
  else if contains ['R','E','A','L'] t || contains ['F','L','O','A'] t || contains ['D','O','U','B'] t then .real
  else .numeric

/-- affinity of a non-empty declared type (case-insensitive) -/
def typeAffinity (declared : List Char) : Affinity := rules (declared.map asciiUpper)

/-- affinity of a column: no declared type → BLOB -/
def columnAffinity : Option (List Char) → Affinity
  | none => .blob
  | some t => if t.isEmpty then .blob else typeAffinity t

end SqliteDissect.Spec
