/-
A small grammar of column definitions with a renderer (specification side of C07).

`ColDef` is what SQLite's parser makes of one column definition as far as C07 is concerned: the
column name and the declared type (sqlite3AddColumn: name token, type token).  `renderCol` /
`renderBody` / `renderTable` write definitions in the plainest concrete syntax SQLite accepts and
stores verbatim in sqlite_schema: `name`, or `name type`, separated by `, `.

`Simple` delimits the fragment for which the property theorems are proved: names and type words of
ASCII letters, digits and underscore, a one-word type, the definition not beginning with a
table-constraint keyword and the type not beginning with a column-constraint keyword (SQLite's
grammar requires both: those are reserved words).  Everything the generator of harness/gen/ddl.py adds on top of this (quoting, other
whitespace, comments, arguments, constraints) is outside `Simple`; what the code does there is
measured by the correspondence and oracle runs and listed in known_findings.json.
-/
import SqliteDissect.Spec.Affinity

namespace SqliteDissect.Spec.Ddl

structure ColDef where
  name : List Char
  type : Option (List Char)
  deriving DecidableEq, Repr, Inhabited

/-- SQLite's view of a parsed column: name and assigned affinity -/
def ColDef.affinity (d : ColDef) : Affinity := columnAffinity d.type

def renderCol (d : ColDef) : List Char :=
  match d.type with
  | none => d.name
  | some t => d.name ++ ' ' :: t

/-- columns separated by ", " -/
def renderBody : List ColDef → List Char
  | [] => []
  | [d] => renderCol d
  | d :: ds => renderCol d ++ ',' :: ' ' :: renderBody ds

def renderTable (name : List Char) (ds : List ColDef) : List Char :=
  ['C','R','E','A','T','E',' ','T','A','B','L','E',' '] ++ name ++ ' ' :: '(' :: renderBody ds ++ [')']

def isIdentChar (c : Char) : Bool :=
  let n := c.toNat
  (48 ≤ n && n ≤ 57) || (65 ≤ n && n ≤ 90) || (97 ≤ n && n ≤ 122) || n == 95

def isIdent (s : List Char) : Bool := !s.isEmpty && s.all isIdentChar

/-- words that start a table constraint (SQLite grammar `tcons`) -/
def tableKeywords : List (List Char) :=
  [['C','O','N','S','T','R','A','I','N','T'], ['P','R','I','M','A','R','Y'], ['U','N','I','Q','U','E'],
   ['C','H','E','C','K'], ['F','O','R','E','I','G','N']]

/-- words that start a column constraint (SQLite grammar `ccons`, `generated`) -/
def columnKeywords : List (List Char) :=
  [['C','O','N','S','T','R','A','I','N','T'], ['P','R','I','M','A','R','Y'], ['N','O','T'],
   ['U','N','I','Q','U','E'], ['C','H','E','C','K'], ['D','E','F','A','U','L','T'],
   ['C','O','L','L','A','T','E'], ['R','E','F','E','R','E','N','C','E','S'],
   ['N','U','L','L'], ['G','E','N','E','R','A','T','E','D'], ['A','S']]

/-- does `s` begin with one of the keywords as a whole token (case-insensitive, not continued by an
identifier character)? -/
def beginsWithKeyword (kws : List (List Char)) (s : List Char) : Bool :=
  kws.any fun kw =>
    kw.isPrefixOf (s.map asciiUpper) &&
      !(match s.drop kw.length with
        | [] => false
        | c :: _ => isIdentChar c)

def notSpecified : List Char := ['N','O','T','_','S','P','E','C','I','F','I','E','D']

/-- the fragment covered by the theorems (see the header) -/
def Simple (d : ColDef) : Bool :=
  isIdent d.name && !beginsWithKeyword tableKeywords (renderCol d) &&
    (match d.type with
     | none => true
     | some t => isIdent t && !beginsWithKeyword columnKeywords t)

/-! ### quoted names

SQLite writes (and reads) a name inside `"…"`, `'…'` or back-ticks with every occurrence of the quote
character doubled (`sqlite3Dequote`: a doubled quote character stands for itself, a single one
ends the name). -/

def isQuote (q : Char) : Bool := q == '"' || q == '\'' || q == '`'

/-- the spelling of the inside of a quoted name: every `q` doubled -/
def escapeQuote (q : Char) : List Char → List Char
  | [] => []
  | c :: cs => if c == q then q :: q :: escapeQuote q cs else c :: escapeQuote q cs

/-- `name` quoted with `q` -/
def quoteName (q : Char) (name : List Char) : List Char := q :: escapeQuote q name ++ [q]

/-- a column definition with its name quoted -/
def renderColQ (q : Char) (d : ColDef) : List Char :=
  match d.type with
  | none => quoteName q d.name
  | some t => quoteName q d.name ++ ' ' :: t

/-! ### block comments

`withComments p [(b₁, q₁), …, (bₙ, qₙ)]` is the text `p /*b₁*/ q₁ … /*bₙ*/ qₙ`; `plainText` is the same
text with the comments taken out.  SQLite's tokenizer ends a `/*` comment at the first `*/` after
the two opening characters, so `/*` ++ b ++ `*/` is one whole comment exactly when `b` does not
contain `*/` (a `b` that begins with "/" — the comment `/*/ … */` — included). -/

def withComments : List Char → List (List Char × List Char) → List Char
  | p, [] => p
  | p, (b, q) :: rest => p ++ '/' :: '*' :: b ++ '*' :: '/' :: withComments q rest

def plainText : List Char → List (List Char × List Char) → List Char
  | p, [] => p
  | p, (_, q) :: rest => p ++ plainText q rest

/-- nesting depth after reading `s` from depth `d`, for text made of parentheses and characters
that cannot start a comment or a quoted string; `none` when a ")" would close more than was
opened or such a character occurs -/
def balance : Nat → List Char → Option Nat
  | d, [] => some d
  | d, c :: cs =>
      if c == '(' then balance (d + 1) cs
      else if c == ')' then (if d == 0 then none else balance (d - 1) cs)
      else if c == '-' || c == '/' || c == '\'' || c == '"' || c == '`' || c == '[' then none
      else balance d cs

end SqliteDissect.Spec.Ddl
