/-
WAL-index (`-shm`) header layout, wal.c `struct WalIndexHdr` / `struct WalCkptInfo`:

  offset  0  WalIndexHdr copy 1 (48 bytes)          offset 48  WalIndexHdr copy 2 (48 bytes)
     +0  u32 iVersion (3007000)     +4  u32 unused        +8  u32 iChange
     +12 u8  isInit                 +13 u8  bigEndCksum   +14 u16 szPage
     +16 u32 mxFrame                +20 u32 nPage         +24 u32 aFrameCksum[2]
     +32 u32 aSalt[2]               +40 u32 aCksum[2]
  offset 96  WalCkptInfo: u32 nBackfill, u32 aReadMark[5]     (24 bytes)
  offset 120 lock bytes / nBackfillAttempted, reserved         (16 bytes)

All integers are in the *native* byte order of the machine that wrote the file (the file is
shared memory, never meant to move between hosts); little-endian is what sqlite-dissect supports.
After the 136 header bytes: `aPgno` u32 page numbers, then the u16 hash slots.
-/
import SqliteDissect.Spec.HeaderFmt

namespace SqliteDissect.Spec

/-- little-endian unsigned integer of `n` bytes at `off` in a byte list (missing bytes read as 0) -/
def le (bs : List Nat) (off : Nat) : Nat → Nat
  | 0 => 0
  | n + 1 => bs.getD off 0 + 256 * le bs (off + 1) n

/-- the fourteen integer fields of the `WalIndexHdr` copy that starts at `base`, in file order -/
def walIndexSubFields (bs : List Nat) (base : Nat) : List Nat :=
  [le bs base 4, le bs (base + 4) 4, le bs (base + 8) 4, bs.getD (base + 12) 0, bs.getD (base + 13) 0,
   le bs (base + 14) 2, le bs (base + 16) 4, le bs (base + 20) 4, le bs (base + 24) 4, le bs (base + 28) 4,
   le bs (base + 32) 4, le bs (base + 36) 4, le bs (base + 40) 4, le bs (base + 44) 4]

def walIndexHeaderLength : Nat := 136
def walIndexVersion : Nat := 3007000

/-- the format rules `WriteAheadLogIndexHeader` checks: 136 bytes, both header copies carry
`iVersion = 3007000` in little-endian byte order -/
def validWalIndexHeader (bs : List Nat) : Bool :=
  bs.length = walIndexHeaderLength ∧ le bs 0 4 = walIndexVersion ∧ le bs 48 4 = walIndexVersion

/-- the first copy (in header order) whose little-endian `iVersion` is wrong -/
def firstBadCopy (bs : List Nat) : Option Nat :=
  if le bs 0 4 ≠ walIndexVersion then some 0
  else if le bs 48 4 ≠ walIndexVersion then some 48
  else none

/-- the non-zero 16-bit slots among the `n` slots that start at `off` (2 bytes apart), with their
offsets, in file order; `u16At o` is the 16-bit value at offset `o` -/
def nonZeroSlots (u16At : Nat → Nat) (off n : Nat) : List (Nat × Nat) :=
  ((List.range n).map fun k => (off + 2 * k, u16At (off + 2 * k))).filter fun p => p.2 ≠ 0

end SqliteDissect.Spec
