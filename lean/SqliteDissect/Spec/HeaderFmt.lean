/-
S9/S10/S12 — header layouts (fileformat2 §1.3 database header, §4.1 WAL header and frame header,
§3 rollback journal header).  Big-endian fields at fixed offsets.
-/
namespace SqliteDissect.Spec

/-- big-endian unsigned integer of `n` bytes at `off` in a byte list (missing bytes read as 0) -/
def be (bs : List Nat) (off : Nat) : Nat → Nat
  | 0 => 0
  | n + 1 => be bs off n * 256 + bs.getD (off + n) 0

def magicString : List Nat := [83, 81, 76, 105, 116, 101, 32, 102, 111, 114, 109, 97, 116, 32, 51, 0]

/-- "The database page size in bytes. Must be a power of two between 512 and 32768 inclusive,
or the value 1 representing a page size of 65536." -/
def validPageSizeField (v : Nat) : Bool :=
  v = 1 ∨ v = 512 ∨ v = 1024 ∨ v = 2048 ∨ v = 4096 ∨ v = 8192 ∨ v = 16384 ∨ v = 32768

def pageSizeOfField (v : Nat) : Nat := if v = 1 then 65536 else v

/-- the format rules the property names: magic string, page size, payload fractions, schema
format, text encoding, reserved-for-expansion bytes -/
def validDbHeader (bs : List Nat) : Bool :=
  bs.length = 100 ∧ bs.take 16 = magicString ∧ validPageSizeField (be bs 16 2) ∧
  bs.getD 21 0 = 64 ∧ bs.getD 22 0 = 32 ∧ bs.getD 23 0 = 32 ∧
  ((be bs 44 4 = 0 ∧ be bs 56 4 = 0) ∨
    ((1 ≤ be bs 44 4 ∧ be bs 44 4 ≤ 4) ∧ (1 ≤ be bs 56 4 ∧ be bs 56 4 ≤ 3))) ∧
  ((bs.drop 72).take 20).all (· = 0)

/-- headers SQLite writes for files sqlite-dissect supports: valid, read/write version 1 or 2,
no reserved bytes per page (unsupported by the tool, see DESIGN), incremental-vacuum flag only
with auto-vacuum -/
def sqliteWritesDbHeader (bs : List Nat) : Bool :=
  validDbHeader bs ∧ (∀ x ∈ bs, x < 256) ∧ (bs.getD 18 0 = 1 ∨ bs.getD 18 0 = 2) ∧ (bs.getD 19 0 = 1 ∨ bs.getD 19 0 = 2) ∧
  bs.getD 20 0 = 0 ∧ (be bs 64 4 ≠ 0 → be bs 52 4 ≠ 0)

def validWalHeader (bs : List Nat) : Bool :=
  bs.length = 32 ∧ (be bs 0 4 = 0x377f0682 ∨ be bs 0 4 = 0x377f0683) ∧ be bs 4 4 = 3007000

end SqliteDissect.Spec
