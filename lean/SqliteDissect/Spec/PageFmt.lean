/-
S5 — layout of the cell content area of a b-tree page (btree.c `btreeInitPage`,
`btreeComputeFreeSpace`, the `checkTreePage` coverage rule used by `PRAGMA integrity_check`):
cells and freeblocks are pairwise disjoint regions inside `[cs, size)`; the bytes of that area
covered by neither are the fragmented free bytes counted in the page header (at most 60).
Regions are `(start, end)` pairs over `Int` (the code's arithmetic is Python's).
-/
import SqliteDissect.Model.Page

namespace SqliteDissect.Spec
open SqliteDissect.Model (Region)

def regionSize (r : Region) : Int := r.2 - r.1

def sumSizes (rs : List Region) : Int := (rs.map regionSize).foldl (· + ·) 0

/-- the cell-content area `[cs, size)` is laid out as SQLite lays it out -/
structure WellFormedLayout (size cs fragHdr : Nat) (regions : List Region) : Prop where
  cs_le : cs ≤ size
  nonempty : ∀ r ∈ regions, r.1 < r.2
  inside : ∀ r ∈ regions, (cs : Int) ≤ r.1 ∧ r.2 ≤ (size : Int)
  disjoint : regions.Pairwise fun a b => a.2 ≤ b.1 ∨ b.2 ≤ a.1
  fragcount : (size : Int) - cs - sumSizes regions = fragHdr
  fraglimit : fragHdr ≤ 60
  empty_page : regions = [] → cs = size

/-- `l` is a gap-free, overlap-free chain of regions from `a` to `b` -/
def Chain : Int → List Region → Int → Prop
  | a, [], b => a = b
  | a, r :: rest, b => r.1 = a ∧ Chain r.2 rest b

/-- regions and the gaps between them in address order, starting at `last`, ending at `size` -/
def tiling (size : Int) : List Region → Int → List Region
  | [], last => if last < size then [(last, size)] else []
  | r :: rest, last => (if r.1 ≠ last then [(last, r.1)] else []) ++ r :: tiling size rest r.2

end SqliteDissect.Spec
