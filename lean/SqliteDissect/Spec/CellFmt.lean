/-
S4 — how much of a cell's payload stays on the b-tree page and how the rest is chained
(btree.c: MX_CELL/`btreeParseCellAdjustSizeForOverflow`, `fillInCell`; fileformat2 §1.6),
and S8 — pointer-map page positions (btree.c `PTRMAP_PAGENO`, `ptrmapPageno`).
`u` is the usable page size.
-/
namespace SqliteDissect.Spec

/-- `pBt->maxLocal` for index cells -/
def maxLocalIndex (u : Nat) : Nat := (u - 12) * 64 / 255 - 23
/-- `pBt->minLocal` (also `minLeaf`) -/
def minLocal (u : Nat) : Nat := (u - 12) * 32 / 255 - 23
/-- `pBt->maxLeaf` for table leaf cells -/
def maxLeaf (u : Nat) : Nat := u - 35

/-- number of payload bytes stored on the b-tree page (`nLocal`) -/
def localSize (u maxLoc p : Nat) : Nat :=
  if p ≤ maxLoc then p
  else
    let surplus := minLocal u + (p - minLocal u) % (u - 4)
    if surplus ≤ maxLoc then surplus else minLocal u

/-- number of overflow pages and bytes on the last one for `n > 0` overflow bytes -/
def overflowPages (u n : Nat) : Nat := (n + (u - 4) - 1) / (u - 4)
def lastOverflowFill (u n : Nat) : Nat := n - (overflowPages u n - 1) * (u - 4)

/-- `ptrmapPageno`: the pointer-map page that holds the entry for page `pgno ≥ 2`
(ignoring the pending-byte page, which lies beyond 1 GiB) -/
def ptrmapPageno (u pgno : Nat) : Nat :=
  let perMap := u / 5 + 1
  (pgno - 2) / perMap * perMap + 2

/-- pointer-map pages of a database of `D` pages, with the number of entries each covers;
the last page of a database is never a pointer-map page -/
def ptrmapPages (D E : Nat) : List (Nat × Nat) :=
  (List.range D).filterMap fun i =>
    let p := i + 1
    if 2 ≤ p ∧ p < D ∧ (p - 2) % (E + 1) = 0 then some (p, min E (D - p)) else none

end SqliteDissect.Spec
