/-
S11 (continued) — SQLite's database snapshot after the `k`-th commit of a WAL, as a version
interface: what a reader that opened the database right after that commit sees, page by page
(`Spec.snapshotPage` / `Spec.snapshotBytes` of Spec/WalSnapshot.lean, with the read conventions of
the model's interfaces: `none` / `some 0` bytes = up to the end of the page).
-/
import SqliteDissect.Spec.WalSnapshot

namespace SqliteDissect.Spec
open SqliteDissect.Model

/-- number of pages of the database after the `k`-th transaction: the size field of its commit
frame (the last frame of the transaction); before the first transaction: the `dbPages` pages of the
database file -/
def snapshotSize (dbPages : Nat) (gs : List (List Frame)) (k : Nat) : Nat :=
  match (gs.take k).getLast? with
  | none => dbPages
  | some g =>
    match g.getLast? with
    | none => dbPages
    | some f => f.hdr.sizeAfterCommit

/-- the snapshot after the `k`-th transaction of `gs` (frame lists in log order) over the database
file (`dbv`: its interface, `dbPages`: its number of pages) and the log file (`walFile`, page size
`ps`).  Pages are numbered `1 … snapshotSize`; page `p` is the image carried by the latest frame for
`p` among the first `k` transactions, else page `p` of the database file; a page that is in neither
does not exist.  `pageVersion`: the transaction that last wrote the page (0: database file);
`pageOffset`: where its image starts in the file it comes from.  `strict` is the parser's option,
handed through. -/
def snapshotIf (strict : Bool) (dbv : VersionIf) (dbPages : Nat) (walFile : FileH) (ps : Nat)
    (gs : List (List Frame)) (k : Nat) : VersionIf :=
  { pageSize := ps, versionNumber := k, strict := strict,
    getData := fun p off n =>
      if p < 1 ∨ p > snapshotSize dbPages gs k then .error .valueError
      else match latestFrame ((gs.take k).flatten) p with
        | none => if p ≤ dbPages then dbv.getData p off n else .error .keyError
        | some f =>
          let len := match n with
            | none => ps - off
            | some 0 => ps - off
            | some l => l
          if off ≥ ps ∨ off + len > ps then .error .valueError
          else walFile.read (frameImageOffset ps f + off) len,
    pageVersion := fun p =>
      match latestTxn (gs.take k) p with
      | some j => .ok j
      | none => if 1 ≤ p ∧ p ≤ dbPages then .ok 0 else .error .keyError,
    pageOffset := fun p =>
      if p < 1 ∨ p > snapshotSize dbPages gs k then .error .valueError
      else match latestFrame ((gs.take k).flatten) p with
        | none => if p ≤ dbPages then .ok ((p - 1) * ps) else .error .keyError
        | some f => .ok (frameImageOffset ps f) }

end SqliteDissect.Spec
