/-
S11 — SQLite's database snapshot after a WAL commit (wal.c: `walFindFrame` with `mxFrame` set to
the commit frame of the transaction): page `p` is the image carried by the latest frame for `p`
among the transactions committed so far; a page no such frame carries is the database file's page.
-/
import SqliteDissect.Spec.WalFmt

namespace SqliteDissect.Spec
open SqliteDissect.Model

/-- page `p` as SQLite sees it right after the `k`-th transaction of the log (`k = 0`: before the
first one).  `gs` are the transactions (frame lists, in log order), `ps` the log's page size,
`walFile` the log file, `dbPage` the database file's page reader. -/
def snapshotPage (dbPage : Nat → Py Buf) (walFile : FileH) (ps : Nat) (gs : List (List Frame))
    (k p : Nat) : Py Buf :=
  match latestFrame ((gs.take k).flatten) p with
  | some f => walFile.read (frameImageOffset ps f) ps
  | none => dbPage p

/-- `len` bytes at offset `off` inside page `p` of the same snapshot -/
def snapshotBytes (dbRead : Nat → Nat → Nat → Py Buf) (walFile : FileH) (ps : Nat)
    (gs : List (List Frame)) (k p off len : Nat) : Py Buf :=
  match latestFrame ((gs.take k).flatten) p with
  | some f => walFile.read (frameImageOffset ps f + off) len
  | none => dbRead p off len

end SqliteDissect.Spec
