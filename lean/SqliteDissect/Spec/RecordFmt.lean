/-
S3 — record format (fileformat2 §2.1): a header-size varint (the size includes itself), one
serial-type varint per column, then the column contents in order.
-/
import SqliteDissect.Spec.Varint
import SqliteDissect.Spec.SerialType

namespace SqliteDissect.Spec

structure Col where
  st : Int
  content : List Nat
  deriving Repr, DecidableEq

/-- a column as SQLite can store it: a non-reserved serial type with exactly its content bytes -/
def ValidCol (c : Col) : Prop :=
  0 ≤ c.st ∧ c.st < (2 ^ 63 : Int) ∧ serialTypeLen c.st = some c.content.length ∧ ∀ x ∈ c.content, x < 256

/-- header size for `n` bytes of serial types: the smallest `h` with `h = n + varintLen h` -/
def hdrSize (n : Nat) : Nat :=
  if n + 1 < 128 then n + 1 else if n + 2 < 16384 then n + 2 else n + 3

def typeBytes (cols : List Col) : List Nat := cols.flatMap fun c => putVarint (toU64 c.st)

def encodeRecord (cols : List Col) : List Nat :=
  putVarint (hdrSize (typeBytes cols).length) ++ typeBytes cols ++ cols.flatMap (·.content)

end SqliteDissect.Spec
