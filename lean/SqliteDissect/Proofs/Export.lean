/-
Helper lemmas and proofs for C11 (exporters).  Property statements live in Properties/C11.lean.
-/
import SqliteDissect.Model.Export
import SqliteDissect.Spec.Export
import SqliteDissect.Proofs.Codec

namespace SqliteDissect.Proofs.Export
open SqliteDissect SqliteDissect.Model SqliteDissect.Model.Export SqliteDissect.Spec.Export

def NoSurr (s : List Nat) : Prop := ∀ c ∈ s, isSurrogate c = false

/-! ### mapPy -/

theorem mapPy_length {α β : Type} (f : α → Py β) : ∀ (l : List α) (r : List β), mapPy f l = .ok r → r.length = l.length
  | [], r, h => by simp [mapPy] at h; subst h; rfl
  | a :: rest, r, h => by
      unfold mapPy at h
      split at h
      · cases h
      · rename_i b hb
        split at h
        · cases h
        · rename_i bs hbs
          cases h
          simp [mapPy_length f rest bs hbs]

theorem mapPy_ok_of_all {α β : Type} (f : α → Py β) :
    ∀ (l : List α), (∀ a ∈ l, ∃ b, f a = .ok b) → ∃ r, mapPy f l = .ok r
  | [], _ => ⟨[], rfl⟩
  | a :: rest, h => by
      obtain ⟨b, hb⟩ := h a (by simp)
      obtain ⟨bs, hbs⟩ := mapPy_ok_of_all f rest (fun x hx => h x (by simp [hx]))
      exact ⟨b :: bs, by simp [mapPy, hb, hbs]⟩

theorem mapPy_forall {α β : Type} (f : α → Py β) (P : β → Prop) :
    ∀ (l : List α) (r : List β), mapPy f l = .ok r → (∀ a b, f a = .ok b → P b) → ∀ b ∈ r, P b
  | [], r, h, _ => by simp [mapPy] at h; subst h; intro b hb; simp at hb
  | a :: rest, r, h, hp => by
      unfold mapPy at h
      split at h
      · cases h
      · rename_i b hb
        split at h
        · cases h
        · rename_i bs hbs
          cases h
          intro x hx
          rcases List.mem_cons.mp hx with rfl | hx
          · exact hp a _ hb
          · exact mapPy_forall f P rest bs hbs hp x hx

/-! ### utf-8 decoder: never yields a surrogate, never yields nothing for something -/

def U8ok : U8 → Prop
  | .start => True
  | .need k acc lo hi =>
      128 ≤ lo ∧ hi ≤ 191 ∧
        ((k ≤ 1 ∧ (acc < 864 ∨ 896 ≤ acc)) ∨ (k = 2 ∧ (acc ≠ 13 ∨ hi ≤ 159)) ∨ (k = 3 ∧ (acc ≠ 0 ∨ 144 ≤ lo)))

theorem isSurrogate_false_iff (c : Nat) : isSurrogate c = false ↔ (c < 0xD800 ∨ 0xDFFF < c) := by
  simp only [isSurrogate, Bool.and_eq_false_iff, decide_eq_false_iff_not]
  omega

theorem noSurr_repl : isSurrogate repl = false := by decide

theorem u8Start_ok (b : Nat) : NoSurr (u8Start b).1 ∧ U8ok (u8Start b).2 := by
  unfold u8Start
  split
  · refine ⟨?_, trivial⟩
    intro c hc; simp at hc; subst hc; rw [isSurrogate_false_iff]; omega
  split
  · exact ⟨by intro c hc; simp at hc; subst hc; exact noSurr_repl, trivial⟩
  split
  · refine ⟨by intro c hc; simp at hc, ?_⟩
    dsimp only [U8ok]; omega
  split
  · refine ⟨by intro c hc; simp at hc, ?_⟩
    dsimp only [U8ok]; omega
  split
  · refine ⟨by intro c hc; simp at hc, ?_⟩
    dsimp only [U8ok]; omega
  split
  · refine ⟨by intro c hc; simp at hc, ?_⟩
    dsimp only [U8ok]; omega
  split
  · refine ⟨by intro c hc; simp at hc, ?_⟩
    dsimp only [U8ok]; omega
  split
  · refine ⟨by intro c hc; simp at hc, ?_⟩
    dsimp only [U8ok]; omega
  split
  · refine ⟨by intro c hc; simp at hc, ?_⟩
    dsimp only [U8ok]; omega
  · exact ⟨by intro c hc; simp at hc; subst hc; exact noSurr_repl, trivial⟩

theorem u8Step_ok (st : U8) (b : Nat) (h : U8ok st) : NoSurr (u8Step st b).1 ∧ U8ok (u8Step st b).2 := by
  cases st with
  | start => exact u8Start_ok b
  | need k acc lo hi =>
      simp only [U8ok] at h
      simp only [u8Step]
      by_cases hb : lo ≤ b ∧ b ≤ hi
      · rw [if_pos hb]
        by_cases hk : k ≤ 1
        · rw [if_pos hk]
          refine ⟨?_, trivial⟩
          intro c hc
          simp at hc; subst hc
          rw [isSurrogate_false_iff]
          omega
        · rw [if_neg hk]
          refine ⟨by intro c hc; simp at hc, ?_⟩
          dsimp only [U8ok]
          omega
      · rw [if_neg hb]
        have := u8Start_ok b
        refine ⟨?_, this.2⟩
        intro c hc
        simp at hc
        rcases hc with rfl | hc
        · exact noSurr_repl
        · exact this.1 c hc

theorem u8Run_noSurr : ∀ (l : List Nat) (st : U8), U8ok st → NoSurr (u8Run st l)
  | [], .start, _ => by intro c hc; simp [u8Run] at hc
  | [], .need _ _ _ _, _ => by intro c hc; simp [u8Run] at hc; subst hc; exact noSurr_repl
  | b :: rest, st, h => by
      have hs := u8Step_ok st b h
      have ih := u8Run_noSurr rest (u8Step st b).2 hs.2
      intro c hc
      have : c ∈ (u8Step st b).1 ++ u8Run (u8Step st b).2 rest := by
        cases st <;> simpa [u8Run] using hc
      rcases List.mem_append.mp this with h1 | h1
      · exact hs.1 c h1
      · exact ih c h1

theorem u8Start_emits (b : Nat) : (u8Start b).1 ≠ [] ∨ (u8Start b).2 ≠ .start := by
  unfold u8Start
  repeat' split
  all_goals simp

theorem u8Step_emits (st : U8) (b : Nat) : (u8Step st b).1 ≠ [] ∨ (u8Step st b).2 ≠ .start := by
  cases st with
  | start => exact u8Start_emits b
  | need k acc lo hi =>
      simp only [u8Step]
      by_cases hb : lo ≤ b ∧ b ≤ hi
      · rw [if_pos hb]
        by_cases hk : k ≤ 1
        · rw [if_pos hk]; simp
        · rw [if_neg hk]; simp
      · rw [if_neg hb]; simp

theorem u8Run_nil : ∀ (l : List Nat) (st : U8), u8Run st l = [] → st = .start ∧ l = []
  | [], .start, _ => ⟨rfl, rfl⟩
  | [], .need _ _ _ _, h => by simp [u8Run] at h
  | b :: rest, st, h => by
      have h' : (u8Step st b).1 ++ u8Run (u8Step st b).2 rest = [] := by
        cases st <;> simpa [u8Run] using h
      have h1 := List.append_eq_nil_iff.mp h'
      have ih := u8Run_nil rest (u8Step st b).2 h1.2
      rcases u8Step_emits st b with e | e
      · exact absurd h1.1 e
      · exact absurd ih.1 e

/-! ### utf-16 decoder -/

theorem u16Unit_ok (u : Nat) : NoSurr (u16Unit u).1 := by
  unfold u16Unit
  split
  · intro c hc; simp at hc
  split
  · intro c hc; simp at hc; subst hc; exact noSurr_repl
  · intro c hc; simp at hc; subst hc; rw [isSurrogate_false_iff]; omega

theorem u16Step_ok (le : Bool) (st : U16) (b : Nat) : NoSurr (u16Step le st b).1 := by
  cases st with
  | start => intro c hc; simp [u16Step] at hc
  | half b0 => exact u16Unit_ok _
  | high u => intro c hc; simp [u16Step] at hc
  | highHalf u b0 =>
      simp only [u16Step]
      by_cases hl : 0xDC00 ≤ unit16 le b0 b ∧ unit16 le b0 b < 0xE000
      · rw [if_pos hl]
        intro c hc
        have hc' := List.mem_singleton.mp hc
        rw [isSurrogate_false_iff]; omega
      · rw [if_neg hl]
        intro c hc
        rcases List.mem_cons.mp hc with rfl | hc
        · exact noSurr_repl
        · exact u16Unit_ok _ c hc

theorem u16Run_noSurr (le : Bool) : ∀ (l : List Nat) (st : U16), NoSurr (u16Run le st l)
  | [], st => by
      cases st <;> intro c hc <;> simp [u16Run] at hc <;> (subst hc; exact noSurr_repl)
  | b :: rest, st => by
      have ih := u16Run_noSurr le rest (u16Step le st b).2
      intro c hc
      have : c ∈ (u16Step le st b).1 ++ u16Run le (u16Step le st b).2 rest := by
        cases st <;> simpa [u16Run] using hc
      rcases List.mem_append.mp this with h1 | h1
      · exact u16Step_ok le st b c h1
      · exact ih c h1

theorem u16Unit_emits (u : Nat) : (u16Unit u).1 ≠ [] ∨ (u16Unit u).2 ≠ .start := by
  unfold u16Unit
  repeat' split
  all_goals simp

theorem u16Step_emits (le : Bool) (st : U16) (b : Nat) : (u16Step le st b).1 ≠ [] ∨ (u16Step le st b).2 ≠ .start := by
  cases st with
  | start => simp [u16Step]
  | half b0 => exact u16Unit_emits _
  | high u => simp [u16Step]
  | highHalf u b0 =>
      simp only [u16Step]
      by_cases hl : 0xDC00 ≤ unit16 le b0 b ∧ unit16 le b0 b < 0xE000
      · rw [if_pos hl]; simp
      · rw [if_neg hl]; simp

theorem u16Run_nil (le : Bool) : ∀ (l : List Nat) (st : U16), u16Run le st l = [] → st = .start ∧ l = []
  | [], st, h => by cases st <;> simp [u16Run] at h ⊢
  | b :: rest, st, h => by
      have h' : (u16Step le st b).1 ++ u16Run le (u16Step le st b).2 rest = [] := by
        cases st <;> simpa [u16Run] using h
      have h1 := List.append_eq_nil_iff.mp h'
      have ih := u16Run_nil le rest (u16Step le st b).2 h1.2
      rcases u16Step_emits le st b with e | e
      · exact absurd h1.1 e
      · exact absurd ih.1 e

/-! ### decodeReplace -/

theorem decode_noSurr (enc : Enc) (b : List Nat) : NoSurr (decodeReplace enc b) := by
  cases enc
  · exact u8Run_noSurr b .start trivial
  · exact u16Run_noSurr true b .start
  · exact u16Run_noSurr false b .start

theorem decode_nil_iff (enc : Enc) (b : List Nat) : decodeReplace enc b = [] ↔ b = [] := by
  constructor
  · intro h
    cases enc
    · exact (u8Run_nil b .start h).2
    · exact (u16Run_nil true b .start h).2
    · exact (u16Run_nil false b .start h).2
  · intro h; subst h; cases enc <;> rfl

theorem any_isSurrogate_false (s : List Nat) (h : NoSurr s) : s.any isSurrogate = false := by
  rw [List.any_eq_false]
  intro c hc
  simp [h c hc]

/-- valid ASCII decodes to itself in utf-8 -/
theorem decode_utf8_ascii : ∀ (b : List Nat), (∀ x ∈ b, x < 128) → decodeReplace .utf8 b = b
  | [], _ => rfl
  | x :: rest, h => by
      have hx : x < 128 := h x (by simp)
      have ih := decode_utf8_ascii rest (fun y hy => h y (by simp [hy]))
      simp only [decodeReplace] at ih ⊢
      simp [u8Run, u8Step, u8Start, hx, ih]

/-! ### text affinity of what the library reports -/

theorem textAffinity_text (n : Nat) : textAffinity (13 + 2 * (n : Int)) = true := by
  simp only [textAffinity, Bool.and_eq_true, decide_eq_true_eq]
  omega

theorem textAffinity_blob (n : Nat) : textAffinity (12 + 2 * (n : Int)) = false := by
  simp only [textAffinity, Bool.and_eq_false_iff, decide_eq_false_iff_not]
  omega

/-! ### repr(bytes) -/

theorem hexd_range (n : Nat) (h : n < 16) : 48 ≤ hexd n ∧ hexd n ≤ 102 := by
  unfold hexd; split <;> omega

theorem reprQuote_cases (b : List Nat) : reprQuote b = 39 ∨ reprQuote b = 34 := by
  unfold reprQuote; split <;> simp

theorem reprByte_printable (q b : Nat) (hq : q = 39 ∨ q = 34) (hb : b < 256) :
    ∀ c ∈ reprByte q b, 32 ≤ c ∧ c ≤ 126 := by
  have h1 := hexd_range (b / 16) (by omega)
  have h2 := hexd_range (b % 16) (by omega)
  unfold reprByte
  intro c hc
  split at hc
  · rename_i h
    simp at hc
    rcases hc with rfl | rfl <;> omega
  split at hc
  · simp at hc; rcases hc with rfl | rfl <;> omega
  split at hc
  · simp at hc; rcases hc with rfl | rfl <;> omega
  split at hc
  · simp at hc; rcases hc with rfl | rfl <;> omega
  split at hc
  · simp at hc; rcases hc with rfl | rfl | rfl | rfl <;> omega
  · simp at hc; subst hc; omega

theorem bytesRepr_printable (b : List Nat) (hb : BytesOK b) : ∀ c ∈ bytesRepr b, 32 ≤ c ∧ c ≤ 126 := by
  intro c hc
  unfold bytesRepr at hc
  have hq := reprQuote_cases b
  simp only [List.mem_append, List.mem_cons, List.mem_flatMap, List.not_mem_nil, or_false] at hc
  rcases hc with ((rfl | rfl) | ⟨x, hx, hcx⟩) | rfl
  · omega
  · omega
  · exact reprByte_printable _ x hq (hb x hx) c hcx
  · omega

theorem bytesRepr_cons (b : List Nat) : ∃ t, bytesRepr b = 98 :: t := ⟨_, rfl⟩

theorem printable_not_illegal : ∀ c : Fin 127, 32 ≤ c.val → illegalXml c.val = false := by decide

theorem illegalXml_printable (c : Nat) (h : 32 ≤ c ∧ c ≤ 126) : illegalXml c = false :=
  printable_not_illegal ⟨c, by omega⟩ h.1

theorem scrub_id (s : List Nat) (h : ∀ c ∈ s, illegalXml c = false) : scrub s = s := by
  unfold scrub
  conv => rhs; rw [← List.map_id s]
  apply List.map_congr_left
  intro c hc
  simp [h c hc]

theorem printable_noSurr (s : List Nat) (h : ∀ c ∈ s, 32 ≤ c ∧ c ≤ 126) : NoSurr s := by
  intro c hc
  rw [isSurrogate_false_iff]
  have := h c hc
  omega

/-! ### the common tail of the CSV / XLSX branches -/

theorem eqGuard_cons (c : Nat) (t : List Nat) : eqGuard (c :: t) = if c = 61 then 32 :: c :: t else c :: t := by
  unfold eqGuard
  split
  · rename_i h; cases h; simp
  · rename_i h
    by_cases hc : c = 61
    · subst hc; exact absurd rfl (h _)
    · simp [hc]

/-- `value.startswith("=")` ⇒ leading space, then the scrub: never an error on a surrogate-free str -/
theorem sheetTail_ok (s : List Nat) (h : NoSurr s) : sheetTail s = .ok (.str (scrub (eqGuard s))) := by
  unfold sheetTail
  rw [any_isSurrogate_false _ h]
  rfl

/-! ### CSV -/

theorem csv_text_raw (enc : Enc) (b : List Nat) :
    renderCsv enc (Column.ofVal (.text b)) = sheetTail (decodeReplace enc b) := by
  simp [renderCsv, Column.ofVal, textAffinity_text]

theorem csv_blob_raw (enc : Enc) (b : List Nat) :
    renderCsv enc (Column.ofVal (.blob b)) = sheetTail (bytesRepr b) := by
  simp [renderCsv, Column.ofVal, textAffinity_blob]

theorem csv_null (enc : Enc) : renderCsv enc (Column.ofVal .null) = .ok .none := rfl
theorem csv_int (enc : Enc) (i : Int) : renderCsv enc (Column.ofVal (.int i)) = .ok (.int i) := rfl
theorem csv_real (enc : Enc) (r : Nat) : renderCsv enc (Column.ofVal (.real r)) = .ok (.float r) := rfl

theorem csv_blob (enc : Enc) (b : List Nat) (hb : BytesOK b) :
    renderCsv enc (Column.ofVal (.blob b)) = .ok (.str (bytesRepr b)) := by
  rw [csv_blob_raw]
  obtain ⟨t, ht⟩ := bytesRepr_cons b
  have hp := bytesRepr_printable b hb
  rw [sheetTail_ok _ (printable_noSurr _ hp)]
  rw [ht] at hp ⊢
  rw [eqGuard_cons, if_neg (by decide), scrub_id _ (fun c hc => illegalXml_printable c (hp c hc))]

/-- what the code does with text: decode, guard, scrub — for every byte string, the empty one included -/
theorem csv_text (enc : Enc) (b : List Nat) :
    renderCsv enc (Column.ofVal (.text b)) = .ok (.str (scrub (eqGuard (decodeReplace enc b)))) := by
  rw [csv_text_raw]
  exact sheetTail_ok _ (decode_noSurr enc b)

theorem csv_text_nil (enc : Enc) : renderCsv enc (Column.ofVal (.text [])) = .ok (.str []) := by
  rw [csv_text, (decode_nil_iff enc []).mpr rfl]; rfl

/-- no stored value makes the CSV rendering fail -/
theorem csv_never_fails (enc : Enc) (v : Val) (hv : ValOK v) : ∃ o, renderCsv enc (Column.ofVal v) = .ok o := by
  cases v with
  | null => exact ⟨_, rfl⟩
  | int i => exact ⟨_, rfl⟩
  | real r => exact ⟨_, rfl⟩
  | blob b => exact ⟨_, csv_blob enc b hv⟩
  | text b => exact ⟨_, csv_text enc b⟩

/-- full statement: a text value is written as its decoded characters, the only alteration
being the leading space in front of a leading `=` -/
def CsvTextOnlyEqGuard : Prop :=
  ∀ (enc : Enc) (b : List Nat), BytesOK b →
    renderCsv enc (Column.ofVal (.text b)) = .ok (.str (eqGuard (decodeReplace enc b)))

theorem csv_text_only_eq_guard_counterexample : ¬ CsvTextOnlyEqGuard := by
  intro h
  have := h .utf8 [1] (by intro x hx; simp at hx; omega)
  revert this
  decide

theorem csv_text_only_eq_guard_partial (enc : Enc) (b : List Nat)
    (hlegal : ∀ c ∈ decodeReplace enc b, illegalXml c = false) :
    renderCsv enc (Column.ofVal (.text b)) = .ok (.str (eqGuard (decodeReplace enc b))) := by
  rw [csv_text enc b]
  have : ∀ c ∈ eqGuard (decodeReplace enc b), illegalXml c = false := by
    intro c hc
    cases hd : decodeReplace enc b with
    | nil => rw [hd] at hc; simp [eqGuard] at hc
    | cons x t =>
        rw [hd, eqGuard_cons] at hc
        rw [hd] at hlegal
        split at hc
        · rcases List.mem_cons.mp hc with rfl | hc
          · decide
          · exact hlegal c hc
        · exact hlegal c hc
  rw [scrub_id _ this]

/-! ### the five empty / zero values in CSV -/

/-- full statement: NULL, 0, 0.0, '' and x'' are all written, and written differently -/
def CsvDistinguishesFive : Prop :=
  ∀ (fs : Nat → List Nat) (enc : Enc), FsZero fs → ∀ v1 ∈ five, ∀ v2 ∈ five, v1 ≠ v2 →
    ∃ o1 o2, renderCsv enc (Column.ofVal v1) = .ok o1 ∧ renderCsv enc (Column.ofVal v2) = .ok o2 ∧
      csvWritten fs o1 ≠ csvWritten fs o2

/-- what the CSV exporter hands to the writer for the five values -/
def fiveObj : Val → PyObj
  | .null => .none
  | .int i => .int i
  | .real r => .float r
  | .blob _ => .str [98, 39, 39]
  | .text _ => .str []

theorem csv_five_render (enc : Enc) (v : Val) (hv : v ∈ five) :
    renderCsv enc (Column.ofVal v) = .ok (fiveObj v) := by
  simp only [five, List.mem_cons, List.not_mem_nil, or_false] at hv
  rcases hv with rfl | rfl | rfl | rfl | rfl
  · rfl
  · rfl
  · rfl
  · exact csv_text_nil enc
  · exact csv_blob enc [] (by intro x hx; simp at hx)

/-- NULL and the empty string are written identically (`""` under QUOTE_ALL) -/
theorem csv_null_vs_empty_text (fs : Nat → List Nat) (enc : Enc) :
    ∃ o1 o2, renderCsv enc (Column.ofVal .null) = .ok o1 ∧
      renderCsv enc (Column.ofVal (.text [])) = .ok o2 ∧ csvWritten fs o1 = csvWritten fs o2 :=
  ⟨.none, .str [], rfl, csv_text_nil enc, rfl⟩

theorem csv_distinguishes_five_counterexample : ¬ CsvDistinguishesFive := by
  intro h
  obtain ⟨o1, o2, h1, h2, h3⟩ :=
    h (fun _ => [48, 46, 48]) .utf8 rfl .null (by simp [five]) (.text []) (by simp [five]) (by simp)
  rw [csv_null] at h1
  rw [csv_text_nil] at h2
  cases h1; cases h2
  exact h3 rfl

theorem csv_distinguishes_five_partial (fs : Nat → List Nat) (enc : Enc) (hfs : FsZero fs)
    (v1 : Val) (h1 : v1 ∈ five) (v2 : Val) (h2 : v2 ∈ five) (hne : v1 ≠ v2)
    (hpair : ¬ (v1 = .null ∧ v2 = .text []) ∧ ¬ (v1 = .text [] ∧ v2 = .null)) :
    ∃ o1 o2, renderCsv enc (Column.ofVal v1) = .ok o1 ∧ renderCsv enc (Column.ofVal v2) = .ok o2 ∧
      csvWritten fs o1 ≠ csvWritten fs o2 := by
  have hfs' : fs 0 = [48, 46, 48] := hfs
  refine ⟨fiveObj v1, fiveObj v2, csv_five_render enc v1 h1, csv_five_render enc v2 h2, ?_⟩
  simp only [five, List.mem_cons, List.not_mem_nil, or_false] at h1 h2
  rcases h1 with rfl | rfl | rfl | rfl | rfl <;> rcases h2 with rfl | rfl | rfl | rfl | rfl <;>
    first
    | exact absurd rfl hne
    | exact absurd ⟨rfl, rfl⟩ hpair.1
    | exact absurd ⟨rfl, rfl⟩ hpair.2
    | (simp only [fiveObj, csvWritten, pyStr, hfs']; decide)

/-! ### XLSX -/

theorem xlsx_eq_csv (enc : Enc) (v : Val) : renderXlsx enc (Column.ofVal v) = renderCsv enc (Column.ofVal v) := by
  cases v <;> rfl

theorem xlsx_never_fails (enc : Enc) (v : Val) (hv : ValOK v) : ∃ o, renderXlsx enc (Column.ofVal v) = .ok o := by
  rw [xlsx_eq_csv]; exact csv_never_fails enc v hv

/-- NULL and the empty string end up as the same (empty) cell -/
theorem xlsx_null_vs_empty_text (enc : Enc) :
    ∃ o1 o2, renderXlsx enc (Column.ofVal .null) = .ok o1 ∧
      renderXlsx enc (Column.ofVal (.text [])) = .ok o2 ∧ xlsxStored o1 = xlsxStored o2 := by
  refine ⟨.none, .str [], rfl, ?_, rfl⟩
  rw [xlsx_eq_csv]; exact csv_text_nil enc

/-! ### SQLite -/

theorem sqlite_never_fails (enc : Enc) (v : Val) : ∃ o, bindSqlite enc (Column.ofVal v) = .ok o := by
  cases v with
  | null => exact ⟨_, rfl⟩
  | int i => exact ⟨_, rfl⟩
  | real r => exact ⟨_, rfl⟩
  | blob b => exact ⟨.memoryview b, by simp [bindSqlite, Column.ofVal, textAffinity_blob]⟩
  | text b => exact ⟨.str (decodeReplace enc b), by simp [bindSqlite, Column.ofVal, textAffinity_text]⟩

/-- what is bound makes SQLite store the value back, text as text -/
theorem sqlite_reads_back (enc : Enc) (v : Val) :
    ∃ o, bindSqlite enc (Column.ofVal v) = .ok o ∧ sqliteStored o = expectedStored enc v := by
  cases v with
  | null => exact ⟨_, rfl, rfl⟩
  | int i => exact ⟨_, rfl, rfl⟩
  | real r => exact ⟨_, rfl, rfl⟩
  | blob b => exact ⟨.memoryview b, by simp [bindSqlite, Column.ofVal, textAffinity_blob], rfl⟩
  | text b => exact ⟨.str (decodeReplace enc b), by simp [bindSqlite, Column.ofVal, textAffinity_text], rfl⟩

theorem sqlite_text_is_text (enc : Enc) (b : List Nat) :
    ∃ o, bindSqlite enc (Column.ofVal (.text b)) = .ok o ∧ sqliteStored o = .text (utf8Encode (decodeReplace enc b)) :=
  sqlite_reads_back enc (.text b)

theorem sqlite_five_stored (enc : Enc) (v : Val) (hv : v ∈ five) :
    ∃ o, bindSqlite enc (Column.ofVal v) = .ok o ∧ sqliteStored o = v := by
  simp only [five, List.mem_cons, List.not_mem_nil, or_false] at hv
  rcases hv with rfl | rfl | rfl | rfl | rfl
  · exact ⟨_, rfl, rfl⟩
  · exact ⟨_, rfl, rfl⟩
  · exact ⟨_, rfl, rfl⟩
  · refine ⟨.str [], ?_, rfl⟩
    cases enc <;> rfl
  · exact ⟨.memoryview [], rfl, rfl⟩

/-- NULL, 0, 0.0, '' and x'' are stored as five different values -/
theorem sqlite_distinguishes_five (enc : Enc) (v1 : Val) (h1 : v1 ∈ five) (v2 : Val) (h2 : v2 ∈ five) (hne : v1 ≠ v2) :
    ∃ o1 o2, bindSqlite enc (Column.ofVal v1) = .ok o1 ∧ bindSqlite enc (Column.ofVal v2) = .ok o2 ∧
      sqliteStored o1 ≠ sqliteStored o2 := by
  obtain ⟨o1, b1, s1⟩ := sqlite_five_stored enc v1 h1
  obtain ⟨o2, b2, s2⟩ := sqlite_five_stored enc v2 h2
  exact ⟨o1, o2, b1, b2, by rw [s1, s2]; exact hne⟩

/-! ### padding of short rows -/

theorem padRow_ok (n : Nat) (row : List PyObj) (h : row.length ≤ n) :
    padRow n row = .ok (row ++ List.replicate (n - row.length) .none) := by
  unfold padRow
  rw [if_neg (by omega)]

theorem padRow_err (n : Nat) (row : List PyObj) (h : n < row.length) : padRow n row = .error .parseError := by
  unfold padRow
  rw [if_pos h]

theorem padRow_shape (n : Nat) (row r : List PyObj) (h : padRow n row = .ok r) :
    r.length = n ∧ r.take row.length = row ∧ ∀ x ∈ r.drop row.length, x = .none := by
  unfold padRow at h
  split at h
  · cases h
  · rename_i hl
    cases h
    refine ⟨by simp; omega, by simp, ?_⟩
    intro x hx
    simp at hx
    exact hx.2

/-! ### text -/

theorem intSerialType_lt (i : Int) : intSerialType i < 13 := by
  unfold intSerialType
  repeat' split
  all_goals omega

theorem textAffinity_lt (st : Int) (h : st < 13) : textAffinity st = false := by
  simp only [textAffinity, Bool.and_eq_false_iff, decide_eq_false_iff_not]
  omega

/-- exactly what the text export prints for each class of stored value: NULL only for NULL -/
theorem text_null (fs : Nat → List Nat) (enc : Enc) : textPiece fs enc (Column.ofVal .null) = .ok (cps "NULL") := rfl

theorem text_int (fs : Nat → List Nat) (enc : Enc) (i : Int) :
    textPiece fs enc (Column.ofVal (.int i)) = .ok (intStr i) := by
  simp [textPiece, Column.ofVal, textAffinity_lt _ (intSerialType_lt i), pyStr]

theorem text_real (fs : Nat → List Nat) (enc : Enc) (r : Nat) :
    textPiece fs enc (Column.ofVal (.real r)) = .ok (fs r) := by
  simp [textPiece, Column.ofVal, textAffinity, pyStr]

theorem text_blob (fs : Nat → List Nat) (enc : Enc) (b : List Nat) :
    textPiece fs enc (Column.ofVal (.blob b)) = .ok (bytesRepr b) := by
  simp [textPiece, Column.ofVal, textAffinity_blob, pyStr]

theorem text_text (fs : Nat → List Nat) (enc : Enc) (b : List Nat) :
    textPiece fs enc (Column.ofVal (.text b)) = .ok (decodeReplace enc b) := by
  simp [textPiece, Column.ofVal, textAffinity_text, any_isSurrogate_false _ (decode_noSurr enc b)]

theorem text_never_fails (fs : Nat → List Nat) (enc : Enc) (v : Val) : ∃ s, textPiece fs enc (Column.ofVal v) = .ok s := by
  cases v with
  | null => exact ⟨_, text_null fs enc⟩
  | int i => exact ⟨_, text_int fs enc i⟩
  | real r => exact ⟨_, text_real fs enc r⟩
  | blob b => exact ⟨_, text_blob fs enc b⟩
  | text b => exact ⟨_, text_text fs enc b⟩

/-- NULL, 0, 0.0, '' and x'' are printed differently (`NULL`, `0`, `0.0`, nothing, `b''`) -/
theorem text_distinguishes_five (fs : Nat → List Nat) (enc : Enc) (hfs : FsZero fs)
    (v1 : Val) (h1 : v1 ∈ five) (v2 : Val) (h2 : v2 ∈ five) (hne : v1 ≠ v2) :
    ∃ s1 s2, textPiece fs enc (Column.ofVal v1) = .ok s1 ∧
      textPiece fs enc (Column.ofVal v2) = .ok s2 ∧ s1 ≠ s2 := by
  have hfs' : fs 0 = [48, 46, 48] := hfs
  have e0 : textPiece fs enc (Column.ofVal .null) = .ok (cps "NULL") := rfl
  have e1 : textPiece fs enc (Column.ofVal (.int 0)) = .ok [48] := rfl
  have e2 : textPiece fs enc (Column.ofVal (.real 0)) = .ok [48, 46, 48] := by rw [text_real, hfs']
  have e3 : textPiece fs enc (Column.ofVal (.text [])) = .ok [] := by cases enc <;> rfl
  have e4 : textPiece fs enc (Column.ofVal (.blob [])) = .ok [98, 39, 39] := rfl
  simp only [five, List.mem_cons, List.not_mem_nil, or_false] at h1 h2
  rcases h1 with rfl | rfl | rfl | rfl | rfl <;> rcases h2 with rfl | rfl | rfl | rfl | rfl <;>
    first
    | exact absurd rfl hne
    | exact ⟨_, _, by assumption, by assumption, by decide⟩

/-- full statement: a record of the text export determines the values of the row -/
def TextRecordInjective : Prop :=
  ∀ (fs : Nat → List Nat) (enc : Enc) (rowId : PyObj) (r1 r2 : List Val) (s : List Nat),
    (∀ v ∈ r1, ValOK v) → (∀ v ∈ r2, ValOK v) →
    stringifyCellRecord fs enc .tableLeaf rowId (r1.map Column.ofVal) = .ok s →
    stringifyCellRecord fs enc .tableLeaf rowId (r2.map Column.ofVal) = .ok s → r1 = r2

/-- `(a, b)` is the record of the one-column row `'a, b'` and of the two-column row `'a', 'b'` -/
theorem text_record_injective_counterexample : ¬ TextRecordInjective := by
  intro h
  have := h (fun _ => []) .utf8 (.int 1) [.text [97, 44, 32, 98]] [.text [97], .text [98]]
    (cps "#1: (a, b)")
    (by intro v hv; simp at hv; subst hv; intro x hx; simp at hx; omega)
    (by intro v hv; simp at hv; rcases hv with rfl | rfl <;> (intro x hx; simp at hx; omega))
    (by decide) (by decide)
  revert this
  decide

/-- … and NULL cannot be told from the text `NULL` -/
theorem text_null_vs_text_NULL (fs : Nat → List Nat) :
    textPiece fs .utf8 (Column.ofVal .null) = textPiece fs .utf8 (Column.ofVal (.text [78, 85, 76, 76])) := by
  rw [text_null, text_text]
  decide

/-! ### rows -/

theorem rowOf_table (ft op : PyObj) (c : Cell) (vals : List PyObj) :
    rowOf .tableLeaf ft op c vals =
      [ft, c.versionNumber, c.pageVersionNumber, c.source, c.pageNumber, c.location, op, c.fileOffset, c.rowId] ++ vals := by
  simp [rowOf]

theorem rowOf_not_table (pt : PageType) (hpt : pt ≠ .tableLeaf) (ft op : PyObj) (c : Cell) (vals : List PyObj) :
    rowOf pt ft op c vals =
      [ft, c.versionNumber, c.pageVersionNumber, c.source, c.pageNumber, c.location, op, c.fileOffset] ++ vals := by
  simp [rowOf, hpt]

theorem csvRow_shape (enc : Enc) (pt : PageType) (ft op : PyObj) (c : Cell) (r : List PyObj)
    (h : csvRow enc pt ft op c = .ok r) :
    ∃ vals, mapPy (renderCsv enc) c.columns = .ok vals ∧ r = rowOf pt ft op c vals ∧ vals.length = c.columns.length := by
  unfold csvRow at h
  split at h
  · cases h
  · rename_i vals hv
    cases h
    exact ⟨vals, hv, rfl, mapPy_length _ _ _ hv⟩

theorem xlsxRow_shape (enc : Enc) (pt : PageType) (ft op : PyObj) (c : Cell) (r : List PyObj)
    (h : xlsxRow enc pt ft op c = .ok r) :
    ∃ vals, mapPy (renderXlsx enc) c.columns = .ok vals ∧ r = rowOf pt ft op c vals ∧ vals.length = c.columns.length := by
  unfold xlsxRow at h
  split at h
  · cases h
  · rename_i vals hv
    cases h
    exact ⟨vals, hv, rfl, mapPy_length _ _ _ hv⟩

theorem sqliteRow_shape (enc : Enc) (pt : PageType) (n : Nat) (ft op : PyObj) (c : Cell) (r : List PyObj)
    (h : sqliteRow enc pt n ft op c = .ok r) :
    ∃ vals, mapPy (bindSqlite enc) c.columns = .ok vals ∧ vals.length = c.columns.length ∧
      r = rowOf pt ft op c vals ++ List.replicate (n - (rowOf pt ft op c vals).length) .none ∧ r.length = n := by
  unfold sqliteRow at h
  split at h
  · cases h
  · rename_i vals hv
    have hs := padRow_shape n _ r h
    unfold padRow at h
    split at h
    · cases h
    · cases h
      exact ⟨vals, hv, mapPy_length _ _ _ hv, rfl, hs.1⟩

/-! ### the cells of a commit -/

theorem insertCell_perm (k : Int) (c : Cell) : ∀ s : List (Int × Cell), (insertCell k c s).Perm ((k, c) :: s)
  | [] => by simp [insertCell]
  | (k', c') :: rest => by
      unfold insertCell
      split
      · exact List.Perm.refl _
      · exact (List.Perm.cons _ (insertCell_perm k c rest)).trans (List.Perm.swap _ _ _)

theorem sortKeyed_perm : ∀ (l : List Cell) (s : List (Int × Cell)), sortKeyed l = .ok s → (s.map (·.2)).Perm l
  | [], s, h => by simp [sortKeyed] at h; subst h; simp
  | c :: rest, s, h => by
      unfold sortKeyed at h
      split at h
      · rename_i k s' hk hs
        cases h
        have ih := sortKeyed_perm rest s' hs
        have := (insertCell_perm k c s').map (·.2)
        simp only [List.map_cons] at this
        exact this.trans (List.Perm.cons _ ih)
      · cases h
      · cases h

theorem sortByRowId_perm (l s : List Cell) (h : sortByRowId l = .ok s) : s.Perm l := by
  unfold sortByRowId at h
  split at h
  · rename_i s' hs
    cases h
    exact sortKeyed_perm l s' hs
  · cases h

/-- the labelled cells of a commit, unordered -/
def labelled (c : Commit) : List (PyObj × Cell) :=
  c.added.map (fun x => (opAdded, x)) ++ c.updatedCells.map (fun x => (opUpdated, x)) ++
    c.deleted.map (fun x => (opDeleted, x)) ++ c.carved.map (fun x => (opCarved, x))

theorem commitCells_perm (table : Bool) (c : Commit) (l : List (PyObj × Cell)) (h : commitCells table c = .ok l) :
    l.Perm (labelled c) := by
  unfold commitCells at h
  split at h
  · split at h
    · rename_i a u d ha hu hd
      cases h
      have pa := (sortByRowId_perm _ _ ha).map (fun x => (opAdded, x))
      have pu := (sortByRowId_perm _ _ hu).map (fun x => (opUpdated, x))
      have pd := (sortByRowId_perm _ _ hd).map (fun x => (opDeleted, x))
      exact ((pa.append pu).append pd).append (List.Perm.refl _)
    · cases h
    · cases h
    · cases h
  · cases h
    exact List.Perm.refl _

theorem commitCells_length (table : Bool) (c : Commit) (l : List (PyObj × Cell)) (h : commitCells table c = .ok l) :
    l.length = c.added.length + c.updatedCells.length + c.deleted.length + c.carved.length := by
  rw [(commitCells_perm table c l h).length_eq]
  simp [labelled]
  omega

theorem sqliteCommit_one_record_per_cell (n : Nat) (c : Commit) (rows : List (List PyObj))
    (hu : c.updated = true) (h : sqliteCommit n c = .ok rows) :
    rows.length = c.added.length + c.updatedCells.length + c.deleted.length + c.carved.length := by
  unfold sqliteCommit at h
  simp only [hu, Bool.not_true, Bool.false_eq_true, if_false] at h
  split at h
  · split at h
    · cases h
    · rename_i cs hcs
      rw [mapPy_length _ _ _ h, commitCells_length _ _ _ hcs]
  · split at h
    · cases h
    · rename_i cs hcs
      rw [mapPy_length _ _ _ h, commitCells_length _ _ _ hcs]
  · cases h

theorem textCommit_one_record_per_cell (fs : Nat → List Nat) (c : Commit) (lines : List (List Nat))
    (hu : c.updated = true) (h : textCommit fs c = .ok lines) :
    lines.length = c.added.length + c.updatedCells.length + c.deleted.length + c.carved.length := by
  unfold textCommit at h
  simp only [hu, Bool.not_true, Bool.false_eq_true, if_false] at h
  split at h
  · split at h
    · cases h
    · rename_i cs hcs
      rw [mapPy_length _ _ _ h, commitCells_length _ _ _ hcs]
  · split at h
    · cases h
    · rename_i cs hcs
      rw [mapPy_length _ _ _ h, commitCells_length _ _ _ hcs]
  · cases h

/-- CSV: the rows handed to the writer are the header row(s) followed by one row per cell -/
theorem csvCommit_one_record_per_cell (wh : Bool) (names : List (List Nat)) (c : Commit) (rows : List (List PyObj))
    (hu : c.updated = true) (h : csvCommit wh names c = .ok rows) :
    rows.length = (if c.pageType = .indexLeaf then 1 else if wh then 1 else 0) +
      (c.added.length + c.updatedCells.length + c.deleted.length + c.carved.length) := by
  unfold csvCommit at h
  simp only [hu, Bool.not_true, Bool.false_eq_true, if_false] at h
  split at h
  · rename_i hp
    split at h
    · cases h
    · rename_i cs hcs
      split at h
      · cases h
      · rename_i rs hrs
        cases h
        simp [hp, mapPy_length _ _ _ hrs, commitCells_length _ _ _ hcs]
        omega
  · rename_i hp
    split at h
    · cases h
    · rename_i cs hcs
      split at h
      · cases h
      · rename_i rs hrs
        cases h
        cases wh <;> simp [hp, mapPy_length _ _ _ hrs, commitCells_length _ _ _ hcs] <;> omega
  · rename_i hp
    split at h
    · cases h
    · rename_i cs hcs
      split at h
      · cases h
      · rename_i rs hrs
        cases h
        cases wh <;> simp [hp, mapPy_length _ _ _ hrs, commitCells_length _ _ _ hcs] <;> omega
  · cases h

/-! ### `repr(bytes)` determines the bytes -/

theorem hexd_inj (a b : Nat) (ha : a < 16) (hb : b < 16) (h : hexd a = hexd b) : a = b := by
  unfold hexd at h
  split at h <;> split at h <;> omega

theorem reprByte_prefix_free (q x y : Nat) (hq : q = 39 ∨ q = 34) (hx : x < 256) (hy : y < 256) (r1 r2 : List Nat)
    (h : reprByte q x ++ r1 = reprByte q y ++ r2) : x = y ∧ r1 = r2 := by
  have i1 := hexd_inj (x / 16) (y / 16) (by omega) (by omega)
  have i2 := hexd_inj (x % 16) (y % 16) (by omega) (by omega)
  have r1' := hexd_range (x / 16) (by omega)
  have r2' := hexd_range (y / 16) (by omega)
  unfold reprByte at h
  repeat' (split at h)
  all_goals (simp only [List.cons_append, List.nil_append, List.cons.injEq] at h)
  all_goals (first | omega | (obtain ⟨h1, h2, h3, h4, h5⟩ := h; have := i1 h3; have := i2 h4; exact ⟨by omega, h5⟩) | (exact ⟨by omega, by simp [h]⟩) | skip)

theorem reprByte_head_ne_q (q y : Nat) (hq : q = 39 ∨ q = 34) (c : Nat) (t : List Nat) (h : reprByte q y = c :: t) : c ≠ q := by
  unfold reprByte at h
  repeat' (split at h)
  all_goals (simp only [List.cons.injEq] at h)
  all_goals omega

theorem reprByte_ne_nil (q y : Nat) : reprByte q y ≠ [] := by
  unfold reprByte
  repeat' split
  all_goals simp

theorem flatMap_reprByte_inj (q : Nat) (hq : q = 39 ∨ q = 34) :
    ∀ (b1 b2 : List Nat), BytesOK b1 → BytesOK b2 →
      b1.flatMap (reprByte q) ++ [q] = b2.flatMap (reprByte q) ++ [q] → b1 = b2
  | [], [], _, _, _ => rfl
  | [], y :: t, _, _, h => by
      simp only [List.flatMap_nil, List.nil_append, List.flatMap_cons, List.append_assoc] at h
      cases hr : reprByte q y with
      | nil => exact absurd hr (reprByte_ne_nil q _)
      | cons c t' =>
          rw [hr] at h
          simp only [List.cons_append, List.cons.injEq] at h
          exact absurd h.1.symm (reprByte_head_ne_q q y hq c t' hr)
  | x :: t, [], _, _, h => by
      simp only [List.flatMap_nil, List.nil_append, List.flatMap_cons, List.append_assoc] at h
      cases hr : reprByte q x with
      | nil => exact absurd hr (reprByte_ne_nil q _)
      | cons c t' =>
          rw [hr] at h
          simp only [List.cons_append, List.cons.injEq] at h
          exact absurd h.1 (reprByte_head_ne_q q x hq c t' hr)
  | x :: t1, y :: t2, h1, h2, h => by
      simp only [List.flatMap_cons, List.append_assoc] at h
      have := reprByte_prefix_free q x y hq (h1 x (by simp)) (h2 y (by simp)) _ _ h
      have ih := flatMap_reprByte_inj q hq t1 t2 (fun z hz => h1 z (by simp [hz])) (fun z hz => h2 z (by simp [hz])) this.2
      rw [this.1, ih]

/-- "blobs keep their bytes": `repr(bytes)` determines the bytes -/
theorem bytesRepr_injective (b1 b2 : List Nat) (h1 : BytesOK b1) (h2 : BytesOK b2) (h : bytesRepr b1 = bytesRepr b2) : b1 = b2 := by
  unfold bytesRepr at h
  simp only [List.cons_append, List.nil_append, List.cons.injEq, true_and] at h
  have hq := reprQuote_cases b1
  rw [← h.1] at h
  exact flatMap_reprByte_inj _ hq b1 b2 h1 h2 h.2

/-! ### ordering of the cells; the `sd_` prefix loop -/

def KeyLe (a b : Int × Cell) : Prop := a.1 ≤ b.1

theorem insertCell_sorted (k : Int) (c : Cell) : ∀ s : List (Int × Cell), s.Pairwise KeyLe → (insertCell k c s).Pairwise KeyLe
  | [], _ => by simp [insertCell]
  | (k', c') :: rest, h => by
      unfold insertCell
      split
      · rename_i hk
        refine List.Pairwise.cons ?_ h
        intro p hp
        rcases List.mem_cons.mp hp with rfl | hp
        · exact hk
        · have := (List.pairwise_cons.mp h).1 p hp
          exact Int.le_trans hk this
      · rename_i hk
        have h' := List.pairwise_cons.mp h
        refine List.Pairwise.cons ?_ (insertCell_sorted k c rest h'.2)
        intro p hp
        have hp' := (insertCell_perm k c rest).mem_iff.mp hp
        rcases List.mem_cons.mp hp' with rfl | hp'
        · show k' ≤ k; omega
        · exact h'.1 p hp'

theorem sortKeyed_sorted : ∀ (l : List Cell) (s : List (Int × Cell)), sortKeyed l = .ok s →
    s.Pairwise KeyLe ∧ ∀ p ∈ s, p.2.rowId = .int p.1
  | [], s, h => by simp [sortKeyed] at h; subst h; simp
  | c :: rest, s, h => by
      unfold sortKeyed at h
      split at h
      · rename_i k s' hk hs
        cases h
        have ih := sortKeyed_sorted rest s' hs
        refine ⟨insertCell_sorted k c s' ih.1, ?_⟩
        intro p hp
        have hp' := (insertCell_perm k c s').mem_iff.mp hp
        rcases List.mem_cons.mp hp' with rfl | hp'
        · unfold rowIdKey at hk
          split at hk
          · rename_i k0 hk0; cases hk; exact hk0
          · cases hk
        · exact ih.2 p hp'
      · cases h
      · cases h

/-- `sorted(..., key=row_id)`: the result is ordered by (integer) row id -/
theorem sortByRowId_sorted (l s : List Cell) (h : sortByRowId l = .ok s) :
    s.Pairwise (fun a b => ∃ ka kb, a.rowId = .int ka ∧ b.rowId = .int kb ∧ ka ≤ kb) := by
  unfold sortByRowId at h
  split at h
  · rename_i s' hs
    cases h
    have := sortKeyed_sorted l s' hs
    rw [List.pairwise_map]
    exact this.1.imp_of_mem (fun {a b} ha hb hab => ⟨a.1, b.1, this.2 a ha, this.2 b hb, hab⟩)
  · cases h

def longer (defs : List (List Nat)) (n : Nat) : Nat := (defs.filter (fun d => decide (n ≤ d.length))).length

theorem longer_mono (defs : List (List Nat)) (a b : Nat) (h : a ≤ b) : longer defs b ≤ longer defs a := by
  induction defs with
  | nil => simp [longer]
  | cons d rest ih =>
      unfold longer at *
      simp only [List.filter_cons]
      split <;> split <;> simp at * <;> omega

theorem longer_drop (defs : List (List Nat)) (name : List Nat) (h : name ∈ defs) :
    longer defs (name.length + 3) + 1 ≤ longer defs name.length := by
  induction defs with
  | nil => simp at h
  | cons d rest ih =>
      have mono : longer rest (name.length + 3) ≤ longer rest name.length := longer_mono rest _ _ (by omega)
      rcases List.mem_cons.mp h with rfl | h
      · unfold longer at mono ⊢
        simp only [List.filter_cons]
        simp
        split <;> omega
      · have := ih h
        unfold longer at this mono ⊢
        simp only [List.filter_cons]
        split <;> split <;> simp at * <;> omega

theorem sdPrefixLoop_ok (defs : List (List Nat)) : ∀ (fuel : Nat) (name : List Nat),
    longer defs name.length < fuel → ∃ r, sdPrefixLoop defs fuel name = .ok r
  | 0, _, h => by omega
  | fuel + 1, name, h => by
      unfold sdPrefixLoop
      split
      · rename_i hc
        have hm : name ∈ defs := by simpa using hc
        have := longer_drop defs name hm
        apply sdPrefixLoop_ok defs fuel
        have hl : (cps "sd_" ++ name).length = name.length + 3 := by
          simp [cps]
        rw [hl]; omega
      · exact ⟨_, rfl⟩

/-- the fuel of the `while name in column_definitions` loop is never exhausted -/
theorem sdPrefix_fuel (defs : List (List Nat)) (name : List Nat) :
    ∃ r, sdPrefixLoop defs (defs.length + 1) name = .ok r := by
  apply sdPrefixLoop_ok
  unfold longer
  have := List.length_filter_le (fun d => decide (name.length ≤ d.length)) defs
  omega

theorem sdPrefixLoop_not_mem (defs : List (List Nat)) : ∀ (fuel : Nat) (name r : List Nat),
    sdPrefixLoop defs fuel name = .ok r → r ∉ defs
  | 0, _, _, h => by simp [sdPrefixLoop] at h
  | fuel + 1, name, r, h => by
      unfold sdPrefixLoop at h
      split at h
      · exact sdPrefixLoop_not_mem defs fuel _ r h
      · rename_i hc
        cases h
        simpa using hc

/-- SQLite export, table pages: the nine bookkeeping columns get names that are not column
names of the exported table, followed by the table's own column names -/
theorem sqliteHeaders_table (defs : List (List Nat)) :
    ∃ hs, sqliteHeaders .tableLeaf defs 0 = .ok (hs ++ defs) ∧ hs.length = 9 ∧ ∀ h ∈ hs, h ∉ defs := by
  unfold sqliteHeaders
  simp only
  have hall : ∀ h ∈ (metaHeaders ++ ["Row ID"]).map cps,
      ∃ r, (fun h => sdPrefixLoop defs (defs.length + 1) (cps "sd_" ++ lowerUnderscore h)) h = .ok r :=
    fun h _ => sdPrefix_fuel defs _
  obtain ⟨hs, hhs⟩ := mapPy_ok_of_all _ _ hall
  rw [hhs]
  refine ⟨hs, rfl, ?_, ?_⟩
  · rw [mapPy_length _ _ _ hhs]; rfl
  · exact mapPy_forall _ (fun h => h ∉ defs) _ _ hhs (fun a b hab => sdPrefixLoop_not_mem defs _ _ b hab)

/-! ### the documented alteration is itself not invertible -/

theorem eq_guard_collision : eqGuard [61, 120] = eqGuard [32, 61, 120] := by decide

theorem eqGuard_cases (s : List Nat) : eqGuard s = s ∨ (eqGuard s = 32 :: s ∧ s.head? = some 61) := by
  cases s with
  | nil => left; rfl
  | cons c t =>
      rw [eqGuard_cons]
      by_cases hc : c = 61
      · right; simp [hc]
      · left; simp [hc]

/-! ### identifier quoting of the SQLite export -/

/-- undoubling the quotes of a quoted identifier body -/
def unquoteBody : List Nat → List Nat
  | 34 :: 34 :: rest => 34 :: unquoteBody rest
  | c :: rest => c :: unquoteBody rest
  | [] => []

theorem unquoteBody_cons_ne (c : Nat) (x : List Nat) (hc : c ≠ 34) : unquoteBody (c :: x) = c :: unquoteBody x := by
  rw [unquoteBody.eq_def]
  split
  · rename_i h; cases h; exact absurd rfl hc
  · rename_i h; cases h; rfl
  · rename_i h; cases h

theorem unquote_quote_body : ∀ (name : List Nat),
    unquoteBody (name.flatMap (fun c => if c = 34 then [34, 34] else [c])) = name
  | [] => rfl
  | c :: rest => by
      by_cases hc : c = 34
      · subst hc
        simp only [List.flatMap_cons, if_true, List.cons_append, List.nil_append, unquoteBody]
        rw [unquote_quote_body rest]
      · simp only [List.flatMap_cons, if_neg hc, List.cons_append, List.nil_append]
        rw [unquoteBody_cons_ne _ _ hc, unquote_quote_body rest]

/-- `_quote_identifier` is injective: two different names never yield the same quoted identifier -/
theorem quoteIdentifier_injective (a b : List Nat) (h : quoteIdentifier a = quoteIdentifier b) : a = b := by
  unfold quoteIdentifier at h
  simp only [List.cons_append, List.nil_append, List.cons.injEq, true_and] at h
  have h' := List.append_cancel_right h
  rw [← unquote_quote_body a, ← unquote_quote_body b, h']

end SqliteDissect.Proofs.Export
