/-
Non-vacuity of the page / tree level round trips: a concrete version interface serving a
two-level table b-tree (pages 2, 3, 4 of 512 bytes) that satisfies `Spec.TreeLaidOut`, built with a
small page writer (cells packed downward from the end of the page, no freeblocks, no fragments).
-/
import SqliteDissect.Proofs.TreeParse
import SqliteDissect.Proofs.PageCheck
namespace SqliteDissect.Proofs.TreeDemo
open SqliteDissect SqliteDissect.Model SqliteDissect.Spec
open SqliteDissect.Proofs.Codec SqliteDissect.Proofs.PageCheck

/-- offsets of cells of the given lengths packed downward from `top` -/
def packPtrs (top : Nat) : List Nat → List Nat
  | [] => []
  | l :: ls => (top - l) :: packPtrs (top - l) ls

/-- layout of a freshly written page: cells packed at the end of the page -/
def packLayout (u hoff : Nat) (kind : PageType) (cells : List CellSpec) (rightMost : Nat) : PageLayout :=
  let lens := cells.map fun c => (c.bytes u).length
  { hoff, kind, cells, ptrs := packPtrs u lens, contentStart := u - lens.foldl (· + ·) 0,
    freeblocks := [], fragBytes := 0, rightMost }

/-- the bytes of such a page -/
def packBytes (u : Nat) (L : PageLayout) : List Nat :=
  let pre := (if L.hoff = 100 then 0x53 :: List.replicate 99 0 else []) ++ pageHeaderBytes L ++
    L.ptrs.flatMap be16
  pre ++ List.replicate (L.contentStart - pre.length) 0 ++ (L.cells.reverse.map (·.bytes u)).flatten

/-- a version interface over a table of pages -/
def mkV (u : Nat) (tbl : Nat → Option (List Nat)) : VersionIf :=
  ⟨u, 0, true,
   fun n off len => match tbl n with
     | some b => .ok (Buf.ofList (match len with | none => b.drop off | some l => (b.drop off).take l))
     | none => .error .keyError,
   fun _ => .ok 0, fun n => .ok ((n - 1) * u)⟩

theorem mkV_serves (u : Nat) (tbl : Nat → Option (List Nat)) (n : Nat) (b : List Nat)
    (h : tbl n = some b) (hl : b.length = u) : Serves (mkV u tbl) n b where
  size := hl
  version := ⟨0, rfl⟩
  offset := ⟨_, rfl⟩
  whole := ⟨Buf.ofList b, by simp only [mkV, h, List.drop_zero], ofList_toList b, rfl⟩
  part := by
    intro off len _ hle
    refine ⟨Buf.ofList ((b.drop off).take len), by simp only [mkV, h], ofList_toList _, ?_⟩
    have hle' : off + len ≤ u := hle
    rw [ofList_size, List.length_take, List.length_drop]
    omega

/-- (7, 'hi'), (NULL, ''), (1) -/
def row1 : CellSpec := .tableLeaf 1 [⟨1, [7]⟩, ⟨17, [104, 105]⟩] []
def row2 : CellSpec := .tableLeaf 2 [⟨0, []⟩, ⟨13, []⟩] []
def row3 : CellSpec := .tableLeaf 3 [⟨9, []⟩] []

def L2 : PageLayout := packLayout 512 0 .tableInterior [.tableInterior 3 1] 4
def L3 : PageLayout := packLayout 512 0 .tableLeaf [row1] 0
def L4 : PageLayout := packLayout 512 0 .tableLeaf [row2, row3] 0

def demoTbl : Nat → Option (List Nat)
  | 2 => some (packBytes 512 L2)
  | 3 => some (packBytes 512 L3)
  | 4 => some (packBytes 512 L4)
  | _ => none

def demoV : VersionIf := mkV 512 demoTbl

/-- root page 2 with one cell (left child 3, key 1) and right-most child 4 -/
def demoTree : TTree := .interior 2 [(.leaf 3 [row1], .rowid 1)] (.leaf 4 [row2, row3])

theorem demo_page3 : PageLaidOut 512 (packBytes 512 L3) L3 := pageLaidOutB_sound _ _ _ (by decide +kernel)
theorem demo_page4 : PageLaidOut 512 (packBytes 512 L4) L4 := pageLaidOutB_sound _ _ _ (by decide +kernel)
theorem demo_page2 : PageLaidOut 512 (packBytes 512 L2) L2 := pageLaidOutB_sound _ _ _ (by decide +kernel)

theorem demo_served3 : PageServed demoV 3 L3 :=
  ⟨_, mkV_serves 512 demoTbl 3 _ rfl (by decide +kernel), demo_page3, rfl, by
    intro c hc
    apply validLocalB_sound
    revert c
    decide +kernel⟩

theorem demo_served4 : PageServed demoV 4 L4 :=
  ⟨_, mkV_serves 512 demoTbl 4 _ rfl (by decide +kernel), demo_page4, rfl, by
    intro c hc
    apply validLocalB_sound
    revert c
    decide +kernel⟩

theorem demo_served2 : PageServed demoV 2 L2 :=
  ⟨_, mkV_serves 512 demoTbl 2 _ rfl (by decide +kernel), demo_page2, rfl, by
    intro c hc
    apply validLocalB_sound
    revert c
    decide +kernel⟩

theorem demo_laid_out : TreeLaidOut demoV true demoTree := by
  refine TreeLaidOut.interior 2 _ _ L2 rfl rfl rfl demo_served2 ?_ ?_ (by decide)
    (TreeLaidOut.leaf 4 _ L4 rfl rfl demo_served4)
  · intro c hc
    simp only [List.mem_singleton] at hc
    subst hc
    decide
  · intro c hc
    simp only [List.mem_singleton] at hc
    subst hc
    exact TreeLaidOut.leaf 3 _ L3 rfl rfl demo_served3

theorem demo_frames : demoTree.frames = 5 := by
  simp [demoTree, TTree.frames, cellDescentFrames, rightMostDescentFrames]

theorem demo_leafCells : demoTree.leafCells = [row2, row3, row1] := by
  simp [demoTree, TTree.leafCells]

theorem demo_distinct : demoTree.PagesDistinct := by
  simp [TTree.PagesDistinct, demoTree, TTree.nodes]

/-- what the theorem yields for the demo tree: the three rows, right-most subtree first -/
theorem demo_rows : ∃ t, getBTreeRoot demoV 5 2 = .ok t ∧
    (leafCells t).map cellRow =
      [(some 2, some [⟨0, 1, 0, .null⟩, ⟨13, 1, 0, .text []⟩]),
       (some 3, some [⟨9, 1, 0, .int 1⟩]),
       (some 1, some [⟨1, 1, 1, .int 7⟩, ⟨17, 1, 2, .text [104, 105]⟩])] ∧
    (aggregateLeafCells t []).1 = 3 := by
  obtain ⟨t, h1, _, h3, h4, _⟩ := TreeParse.table_tree_rows demoV (by decide) (by decide) demoTree
    demo_laid_out 5 (by rw [demo_frames]; exact Nat.le_refl 5) demo_distinct (by rw [demo_leafCells]; decide)
  refine ⟨t, h1, ?_, ?_⟩
  · rw [h3, demo_leafCells]; decide +kernel
  · rw [h4, demo_leafCells]; rfl


/-! ### a leaf page with an overflowing row

Row 4 holds a 600-byte blob: 603 payload bytes, of which 95 stay on the 512-byte page and 508
fill overflow page 5 exactly. -/

def row4 : CellSpec := .tableLeaf 4 [⟨1212, List.replicate 600 0xAB⟩] [5]
def L6 : PageLayout := packLayout 512 0 .tableLeaf [row4] 0
def page5 : List Nat := be32 0 ++ row4.overflowBytes 512 ++ []

def demoTbl2 : Nat → Option (List Nat)
  | 5 => some page5
  | 6 => some (packBytes 512 L6)
  | _ => none

def demoV2 : VersionIf := mkV 512 demoTbl2

theorem demo_page6 : PageLaidOut 512 (packBytes 512 L6) L6 := pageLaidOutB_sound _ _ _ (by decide +kernel)

theorem demo_row4_valid : row4.Valid demoV2 := by
  refine ⟨?_, ?_, ?_, ?_, ?_⟩
  · intro cols hc
    cases hc
    decide +kernel
  · intro r hr
    cases hr
    decide
  · intro lc hl
    cases hl
  · decide
  · exact ⟨by decide +kernel, by decide +kernel, by decide,
      [], mkV_serves 512 demoTbl2 5 _ rfl (by decide +kernel)⟩

theorem demo_overflow_row : ∃ pg, parseBTree demoV2 1 6 .tableLeaf = .ok [pg] ∧
    pg.cells.map cellRow = [(some 4, some [⟨1212, 2, 600, .blob (List.replicate 600 0xAB)⟩])] ∧
    pg.cells.map (fun c => c.overflowPages.map (·.number)) = [[5]] := by
  obtain ⟨pg, h1, h2, h3⟩ := TreeParse.table_leaf_page_rows demoV2 (by decide) (by decide) 6 _ L6 0
    (mkV_serves 512 demoTbl2 6 _ rfl (by decide +kernel)) demo_page6 (by decide)
    (by
      intro c hc
      have : c = row4 := by simpa [L6, packLayout] using hc
      rw [this]
      exact demo_row4_valid) rfl
  refine ⟨pg, h1, ?_, ?_⟩
  · rw [h3]; decide +kernel
  · have := TreeParse.elementwise_map_eq _ (fun (s : CellSpec) => s.ovfl)
      (fun (c : Cell) => c.overflowPages.map (·.number)) (fun s c h => h.overflow.symm) _ _ h2.cells
    rw [← this]
    rfl


/-! ### an index leaf page with 3-byte cells

The keys 0, 1 and '' of a one-column `WITHOUT ROWID` table are the 3-byte cells `[2,2,8]`,
`[2,2,9]`, `[2,2,13]`; SQLite allocates 4 bytes to each, so each is followed by a pad byte (0x17
here) that is neither part of the cell nor a fragment. -/

def key0 : CellSpec := .indexLeaf [⟨8, []⟩] []
def key1 : CellSpec := .indexLeaf [⟨9, []⟩] []
def keyE : CellSpec := .indexLeaf [⟨13, []⟩] []

def L7 : PageLayout :=
  { hoff := 0, kind := .indexLeaf, cells := [key0, key1, keyE], ptrs := [508, 504, 500],
    contentStart := 500, freeblocks := [], fragBytes := 0, rightMost := 0 }

def page7 : List Nat :=
  pageHeaderBytes L7 ++ L7.ptrs.flatMap be16 ++ List.replicate 486 0 ++
    [2, 2, 13, 0x17, 2, 2, 9, 0x17, 2, 2, 8, 0x17]

def demoTbl3 : Nat → Option (List Nat)
  | 7 => some page7
  | _ => none

def demoV3 : VersionIf := mkV 512 demoTbl3

theorem demo_cells7 : L7.cells.map (·.bytes 512) = [[2, 2, 8], [2, 2, 9], [2, 2, 13]] := by decide +kernel

theorem demo_page7 : PageLaidOut 512 page7 L7 := pageLaidOutB_sound _ _ _ (by decide +kernel)

theorem demo_short_cells : ∃ pg, parseBTree demoV3 1 7 .indexLeaf = .ok [pg] ∧
    pg.cells.map cellRow =
      [(none, some [⟨8, 1, 0, .int 0⟩]), (none, some [⟨9, 1, 0, .int 1⟩]), (none, some [⟨13, 1, 0, .text []⟩])] ∧
    pg.cells.map (fun c => ((c.start : Int), c.end_)) = [(508, 511), (504, 507), (500, 503)] := by
  obtain ⟨pg, h1, h2, h3⟩ := TreeParse.index_leaf_page_entries demoV3 (by decide) (by decide) 7 _ L7 0
    (mkV_serves 512 demoTbl3 7 _ rfl (by decide +kernel)) demo_page7 (by decide)
    (by
      intro c hc
      apply validLocalB_sound
      revert c
      decide +kernel) rfl
  refine ⟨pg, h1, ?_, ?_⟩
  · rw [h3]; decide +kernel
  · have hst := h2.starts
    have hen := TreeParse.elementwise_map_eq _
      (fun (s : CellSpec) => (s.bytes 512).length)
      (fun (c : Cell) => (c.end_ - (c.start : Int)).toNat)
      (fun s c (h : s.ReportedAs 512 c) => by rw [h.end_]; show _ = Int.toNat _; omega) _ _ h2.cells
    have hcells : ∀ c ∈ pg.cells, c.end_ = (c.start : Int) + ((c.end_ - (c.start : Int)).toNat : Int) := by
      intro c hc
      obtain ⟨i, hi, rfl⟩ := List.getElem_of_mem hc
      have hl := TreeParse.elementwise_length _ _ _ h2.cells
      have := (TreeParse.elementwise_getElem _ _ _ h2.cells i (by omega) hi).end_
      omega
    have e : pg.cells.map (fun c => ((c.start : Int), c.end_))
        = List.zipWith (fun (a : Nat) (b : Nat) => ((a : Int), (a : Int) + (b : Int)))
            (pg.cells.map (·.start)) (pg.cells.map fun c => (c.end_ - (c.start : Int)).toNat) := by
      rw [List.zipWith_map_left, List.zipWith_map_right, List.zipWith_self]
      apply List.map_congr_left
      intro c hc
      rw [← hcells c hc]
    rw [e, hst, ← hen]
    decide +kernel

end SqliteDissect.Proofs.TreeDemo
